package main

// Canonical text templates: a string-valued expression built with fmt.Sprintf, string
// concatenation and strconv formatting is normalised into a printf-style format (verbs %s, %f
// with the default six decimals, %d) and its operand list, so that rules about an output format
// do not depend on which of the equivalent ways of writing it the code uses.

import (
	"go/token"
	"go/types"
	"strings"

	"golang.org/x/tools/go/ssa"
)

// textTemplate returns the canonical format and operands of v; ok is false when a part of v is
// built in a way the normaliser does not know (then nothing may be concluded).
func textTemplate(v ssa.Value, depth int) (string, []ssa.Value, bool) {
	return textTemplateB(v, depth, nil, nil)
}

// textTemplateB: bind maps the parameters of module helpers that were entered on the way
// (`appendPoint(buf, val, ts)`) to the caller's arguments, so that the operands are values of the
// function the template was asked for.
//
// bases (optional) collects the buffers the text is written into: the allocation at the bottom of
// an append chain (make, []byte(s), or an operand that is appended to). A rule that hands the text
// to somebody else can then ask whether that buffer is this evaluation's own.
func textTemplateB(v ssa.Value, depth int, bind map[ssa.Value]ssa.Value, bases *[]ssa.Value) (string, []ssa.Value, bool) {
	if depth > 24 {
		return "", nil, false
	}
	for i := 0; i < 8; i++ {
		w, ok := bind[v]
		if !ok {
			break
		}
		v = w
	}
	esc := func(s string) string { return strings.ReplaceAll(s, "%", "%%") }
	num := func(a ssa.Value) ssa.Value {
		for i := 0; i < 16; i++ {
			if w, ok := bind[a]; ok {
				a = w
				continue
			}
			cv, ok := a.(*ssa.Convert)
			if !ok {
				return a
			}
			a = cv.X
		}
		return a
	}
	cat := func(f1 string, o1 []ssa.Value, f2 string, o2 []ssa.Value) (string, []ssa.Value, bool) {
		return f1 + f2, append(append([]ssa.Value(nil), o1...), o2...), true
	}
	switch x := v.(type) {
	case *ssa.Const:
		if s, ok := constString(x); ok {
			return esc(s), nil, true
		}
	case *ssa.Convert:
		// []byte(string) / string([]byte)
		if bases != nil && x.Type().Underlying().String() == "[]byte" {
			*bases = append(*bases, x)
		}
		return textTemplateB(x.X, depth+1, bind, nil)
	case *ssa.ChangeType:
		return textTemplateB(x.X, depth+1, bind, nil)
	case *ssa.MakeSlice:
		// make([]byte, 0, n): the empty text
		if k, ok := constInt(x.Len); ok && k == 0 {
			if bases != nil {
				*bases = append(*bases, x)
			}
			return "", nil, true
		}
		return "", nil, false
	case *ssa.BinOp:
		if x.Op == token.ADD {
			f1, o1, ok1 := textTemplateB(x.X, depth+1, bind, nil)
			f2, o2, ok2 := textTemplateB(x.Y, depth+1, bind, nil)
			if ok1 && ok2 {
				return cat(f1, o1, f2, o2)
			}
			return "", nil, false
		}
	case *ssa.Call:
		if b, ok := x.Call.Value.(*ssa.Builtin); ok {
			if b.Name() != "append" || len(x.Call.Args) != 2 {
				return "", nil, false
			}
			// append(buf, tail...): the text of buf followed by the text of tail; append(buf, 'c', …): constant bytes
			f1, o1, ok1 := textTemplateB(x.Call.Args[0], depth+1, bind, bases)
			if !ok1 {
				return "", nil, false
			}
			if elems, ok := variadicElems(x.Call.Args[1]); ok {
				lit := ""
				for _, e := range elems {
					k, ok := constInt(e)
					if !ok || k < 0 || k > 127 {
						return "", nil, false
					}
					lit += string(rune(k))
				}
				return cat(f1, o1, esc(lit), nil)
			}
			if k, ok := x.Call.Args[1].(*ssa.Const); ok && k.IsNil() {
				return f1, o1, true
			}
			f2, o2, ok2 := textTemplateB(x.Call.Args[1], depth+1, bind, nil)
			if !ok2 {
				return "", nil, false
			}
			return cat(f1, o1, f2, o2)
		}
		floatVerb := func(args []ssa.Value) (string, bool) {
			fc, ok1 := constInt(args[1])
			prec, ok2 := constInt(args[2])
			bits, ok3 := constInt(args[3])
			if ok1 && ok2 && ok3 && fc == 'f' && bits == 64 {
				if prec == 6 {
					return "%f", true
				}
				return "%." + itoa(int(prec)) + "f", true
			}
			return "", false
		}
		args := x.Call.Args
		switch calleeName(x.Common()) {
		case "fmt.Sprintf":
			f, ok := constString(args[0])
			if !ok {
				return "", nil, false
			}
			var ops []ssa.Value
			if len(args) > 1 {
				elems, ok := variadicElems(args[1])
				if !ok {
					return "", nil, false
				}
				for _, e := range elems {
					if mi, ok := e.(*ssa.MakeInterface); ok {
						e = mi.X
					}
					if w, ok := bind[e]; ok {
						e = w
					}
					ops = append(ops, e)
				}
			}
			return f, ops, true
		case "strconv.FormatFloat":
			if verb, ok := floatVerb(args); ok {
				return verb, []ssa.Value{num(args[0])}, true
			}
			return "", nil, false
		case "strconv.FormatUint", "strconv.FormatInt":
			if base, ok := constInt(args[1]); ok && base == 10 {
				return "%d", []ssa.Value{num(args[0])}, true
			}
			return "", nil, false
		case "strconv.Itoa":
			return "%d", []ssa.Value{num(args[0])}, true
		case "strconv.AppendFloat":
			// AppendFloat(buf, v, 'f', 6, 64) = buf followed by FormatFloat(v, 'f', 6, 64)
			f1, o1, ok1 := textTemplateB(args[0], depth+1, bind, bases)
			verb, ok2 := floatVerb(args[1:])
			if ok1 && ok2 {
				return cat(f1, o1, verb, []ssa.Value{num(args[1])})
			}
			return "", nil, false
		case "strconv.AppendUint", "strconv.AppendInt":
			f1, o1, ok1 := textTemplateB(args[0], depth+1, bind, bases)
			if base, ok := constInt(args[2]); ok1 && ok && base == 10 {
				return cat(f1, o1, "%d", []ssa.Value{num(args[1])})
			}
			return "", nil, false
		}
		// a module helper that builds (part of) the text: its single returned value, with its
		// parameters standing for the arguments of this call
		if callee := x.Call.StaticCallee(); callee != nil && ModuleFunc(callee) && callee.Blocks != nil && !x.Call.IsInvoke() && len(callee.Params) == len(args) && callee.Signature.Results().Len() == 1 {
			var ret *ssa.Return
			n := 0
			for _, b := range callee.Blocks {
				if r, ok := b.Instrs[len(b.Instrs)-1].(*ssa.Return); ok {
					ret = r
					n++
				}
			}
			if n == 1 && isTextTypeT(callee.Signature.Results().At(0).Type()) {
				nb := map[ssa.Value]ssa.Value{}
				for k, w := range bind {
					nb[k] = w
				}
				for i, p := range callee.Params {
					a := args[i]
					if w, ok := bind[a]; ok {
						a = w
					}
					nb[p] = a
				}
				if f, ops, ok := textTemplateB(ret.Results[0], depth+1, nb, bases); ok {
					return f, ops, true
				}
			}
		}
	}
	// any other string / []byte value is an operand
	if isTextTypeT(v.Type()) {
		if bases != nil {
			*bases = append(*bases, v)
		}
		return "%s", []ssa.Value{v}, true
	}
	return "", nil, false
}

func isTextTypeT(t types.Type) bool {
	switch t.Underlying().String() {
	case "string", "[]byte":
		return true
	}
	return false
}
