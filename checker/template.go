package main

// Canonical text templates: a string-valued expression built with fmt.Sprintf, string
// concatenation and strconv formatting is normalised into a printf-style format (verbs %s, %f
// with the default six decimals, %d) and its operand list, so that rules about an output format
// do not depend on which of the equivalent ways of writing it the code uses.

import (
	"go/token"
	"strings"

	"golang.org/x/tools/go/ssa"
)

// textTemplate returns the canonical format and operands of v; ok is false when a part of v is
// built in a way the normaliser does not know (then nothing may be concluded).
func textTemplate(v ssa.Value, depth int) (string, []ssa.Value, bool) {
	if depth > 12 {
		return "", nil, false
	}
	esc := func(s string) string { return strings.ReplaceAll(s, "%", "%%") }
	switch x := v.(type) {
	case *ssa.Const:
		if s, ok := constString(x); ok {
			return esc(s), nil, true
		}
	case *ssa.Convert:
		// []byte(string) / string([]byte)
		return textTemplate(x.X, depth+1)
	case *ssa.ChangeType:
		return textTemplate(x.X, depth+1)
	case *ssa.BinOp:
		if x.Op == token.ADD {
			f1, o1, ok1 := textTemplate(x.X, depth+1)
			f2, o2, ok2 := textTemplate(x.Y, depth+1)
			if ok1 && ok2 {
				return f1 + f2, append(append([]ssa.Value(nil), o1...), o2...), true
			}
			return "", nil, false
		}
	case *ssa.Call:
		num := func(a ssa.Value) ssa.Value {
			for {
				cv, ok := a.(*ssa.Convert)
				if !ok {
					return a
				}
				a = cv.X
			}
		}
		switch calleeName(x.Common()) {
		case "fmt.Sprintf":
			f, ok := constString(x.Call.Args[0])
			if !ok {
				return "", nil, false
			}
			var ops []ssa.Value
			if len(x.Call.Args) > 1 {
				elems, ok := variadicElems(x.Call.Args[1])
				if !ok {
					return "", nil, false
				}
				for _, e := range elems {
					if mi, ok := e.(*ssa.MakeInterface); ok {
						e = mi.X
					}
					ops = append(ops, e)
				}
			}
			return f, ops, true
		case "strconv.FormatFloat":
			fc, ok1 := constInt(x.Call.Args[1])
			prec, ok2 := constInt(x.Call.Args[2])
			bits, ok3 := constInt(x.Call.Args[3])
			if ok1 && ok2 && ok3 && fc == 'f' && bits == 64 {
				if prec == 6 {
					return "%f", []ssa.Value{num(x.Call.Args[0])}, true
				}
				return "%." + itoa(int(prec)) + "f", []ssa.Value{num(x.Call.Args[0])}, true
			}
			return "", nil, false
		case "strconv.FormatUint", "strconv.FormatInt":
			if base, ok := constInt(x.Call.Args[1]); ok && base == 10 {
				return "%d", []ssa.Value{num(x.Call.Args[0])}, true
			}
			return "", nil, false
		case "strconv.Itoa":
			return "%d", []ssa.Value{num(x.Call.Args[0])}, true
		}
	}
	// any other string / []byte value is an operand
	switch v.Type().Underlying().String() {
	case "string", "[]byte":
		return "%s", []ssa.Value{v}, true
	}
	return "", nil, false
}
