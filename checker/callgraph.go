package main

// Call graph over the module's SSA: static calls, closures, interface calls
// resolved by class-hierarchy analysis over every type of the program, calls
// through function-typed fields/variables resolved by the set of functions
// stored there, `go` statements kept as separate spawn edges.

import (
	"go/types"
	"sort"

	"golang.org/x/tools/go/ssa"
	"golang.org/x/tools/go/types/typeutil"
)

type EdgeKind int

const (
	EdgeCall EdgeKind = iota
	EdgeDefer
	EdgeGo
	EdgeRef // function value escapes here (passed to an external callee, stored, returned): may be called later by anyone
)

func (k EdgeKind) String() string {
	return [...]string{"call", "defer", "go", "ref"}[k]
}

type CGEdge struct {
	Caller *ssa.Function
	Callee *ssa.Function // nil for external (body-less) callees
	Name   string        // canonical callee name (for external callees and diagnostics)
	Site   ssa.Instruction
	Kind   EdgeKind
	Dyn    bool // resolved dynamically (interface / function value)
}

type CallGraph struct {
	P   *Prog
	Out map[*ssa.Function][]*CGEdge
	In  map[*ssa.Function][]*CGEdge
	// stored function values per struct field / global
	fieldFuncs  map[*types.Var][]*ssa.Function
	globalFuncs map[*ssa.Global][]*ssa.Function
	addrTaken   []*ssa.Function
	paramFuncs  map[*ssa.Parameter][]*ssa.Function // function values passed for a function-typed parameter at static call sites
	implCache   map[*types.Func][]*ssa.Function
	allTypes    []types.Type
}

func (p *Prog) CG() *CallGraph {
	if p.cg == nil {
		p.cg = buildCG(p)
		cgByProg.Store(p.SSA, p.cg)
	}
	return p.cg
}

func buildCG(p *Prog) *CallGraph {
	g := &CallGraph{P: p, Out: map[*ssa.Function][]*CGEdge{}, In: map[*ssa.Function][]*CGEdge{},
		fieldFuncs: map[*types.Var][]*ssa.Function{}, globalFuncs: map[*ssa.Global][]*ssa.Function{}, implCache: map[*types.Func][]*ssa.Function{}, paramFuncs: map[*ssa.Parameter][]*ssa.Function{}}
	// all named types of module packages (and their pointers) for CHA
	for _, pkg := range p.Pkgs {
		sc := pkg.Types.Scope()
		for _, n := range sc.Names() {
			if tn, ok := sc.Lookup(n).(*types.TypeName); ok && !tn.IsAlias() {
				if _, isIface := tn.Type().Underlying().(*types.Interface); isIface {
					continue
				}
				g.allTypes = append(g.allTypes, tn.Type(), types.NewPointer(tn.Type()))
			}
		}
	}
	// pass 1: function values stored into fields / globals, address-taken functions
	seenAT := map[*ssa.Function]bool{}
	for _, fn := range p.CGFuncs {
		allInstrs(fn, func(in ssa.Instruction) {
			if st, ok := in.(*ssa.Store); ok {
				if f := resolveFuncValue(st.Val); f != nil {
					switch a := st.Addr.(type) {
					case *ssa.FieldAddr:
						fv := fieldOfAddr(a)
						g.fieldFuncs[fv] = append(g.fieldFuncs[fv], f)
					case *ssa.Global:
						g.globalFuncs[a] = append(g.globalFuncs[a], f)
					}
				}
			}
			// function values used as operands other than in call position
			var ops []*ssa.Value
			ops = in.Operands(ops)
			cc := callCommon(in)
			for _, op := range ops {
				if *op == nil {
					continue
				}
				if cc != nil && !cc.IsInvoke() && op == &cc.Value {
					continue
				}
				var f *ssa.Function
				switch x := (*op).(type) {
				case *ssa.Function:
					f = x
				case *ssa.MakeClosure:
					f = x.Fn.(*ssa.Function)
				}
				if f != nil && !seenAT[f] {
					seenAT[f] = true
					g.addrTaken = append(g.addrTaken, f)
				}
			}
		})
	}
	// function values passed as arguments at static call sites
	for _, fn := range p.CGFuncs {
		allInstrs(fn, func(in ssa.Instruction) {
			cc := callCommon(in)
			if cc == nil || cc.IsInvoke() {
				return
			}
			callee := cc.StaticCallee()
			if callee == nil || callee.Blocks == nil {
				return
			}
			for i, a := range cc.Args {
				if f := resolveFuncValue(a); f != nil && i < len(callee.Params) {
					g.paramFuncs[callee.Params[i]] = append(g.paramFuncs[callee.Params[i]], f)
				}
			}
		})
	}
	// ... and parameters handed on to another function's parameter (modify(edit) → modifyLocked(edit)): transitive
	for iter := 0; iter < 4; iter++ {
		changed := false
		for _, fn := range p.CGFuncs {
			allInstrs(fn, func(in ssa.Instruction) {
				cc := callCommon(in)
				if cc == nil || cc.IsInvoke() {
					return
				}
				callee := cc.StaticCallee()
				if callee == nil || callee.Blocks == nil {
					return
				}
				for i, a := range cc.Args {
					par, ok := strip(a).(*ssa.Parameter)
					if !ok || i >= len(callee.Params) {
						continue
					}
					if _, isSig := par.Type().Underlying().(*types.Signature); !isSig {
						continue
					}
					have := map[*ssa.Function]bool{}
					for _, f := range g.paramFuncs[callee.Params[i]] {
						have[f] = true
					}
					for _, f := range g.paramFuncs[par] {
						if !have[f] {
							g.paramFuncs[callee.Params[i]] = append(g.paramFuncs[callee.Params[i]], f)
							changed = true
						}
					}
				}
			})
		}
		if !changed {
			break
		}
	}
	// composite literals with function fields are lowered to FieldAddr stores, covered above.
	for _, fn := range p.CGFuncs {
		fn := fn
		allInstrs(fn, func(in ssa.Instruction) {
			cc := callCommon(in)
			if cc == nil {
				// escaping function values
				return
			}
			kind := EdgeCall
			switch in.(type) {
			case *ssa.Go:
				kind = EdgeGo
			case *ssa.Defer:
				kind = EdgeDefer
			}
			name := calleeName(cc)
			if cc.IsInvoke() {
				impls := g.implementations(cc.Method, cc.Value.Type())
				if len(impls) == 0 {
					g.addEdge(&CGEdge{Caller: fn, Name: name, Site: in, Kind: kind, Dyn: true})
				}
				for _, f := range impls {
					g.addEdge(&CGEdge{Caller: fn, Callee: f, Name: name, Site: in, Kind: kind, Dyn: true})
				}
			} else if sc := cc.StaticCallee(); sc != nil {
				if sc.Blocks != nil && ModuleFunc(sc) {
					g.addEdge(&CGEdge{Caller: fn, Callee: sc, Name: name, Site: in, Kind: kind})
				} else if sc.Synthetic != "" && sc.Blocks != nil {
					// wrapper / bound method: follow to its target
					g.addEdge(&CGEdge{Caller: fn, Callee: sc, Name: name, Site: in, Kind: kind})
				} else {
					g.addEdge(&CGEdge{Caller: fn, Name: name, Site: in, Kind: kind})
				}
			} else if _, isBuiltin := cc.Value.(*ssa.Builtin); isBuiltin {
				g.addEdge(&CGEdge{Caller: fn, Name: name, Site: in, Kind: kind})
			} else {
				// call through a function value
				targets := g.funcValueTargets(cc.Value)
				if len(targets) == 0 {
					g.addEdge(&CGEdge{Caller: fn, Name: "funcvalue:" + cc.Value.Type().String(), Site: in, Kind: kind, Dyn: true})
				}
				for _, f := range targets {
					g.addEdge(&CGEdge{Caller: fn, Callee: f, Name: FuncName(f), Site: in, Kind: kind, Dyn: true})
				}
			}
			// function values passed as arguments: reference edges
			for _, a := range cc.Args {
				if f := resolveFuncValue(a); f != nil && f.Blocks != nil {
					g.addEdge(&CGEdge{Caller: fn, Callee: f, Name: FuncName(f), Site: in, Kind: EdgeRef})
				}
			}
		})
	}
	return g
}

func (g *CallGraph) addEdge(e *CGEdge) {
	g.Out[e.Caller] = append(g.Out[e.Caller], e)
	if e.Callee != nil {
		g.In[e.Callee] = append(g.In[e.Callee], e)
	}
}

// implementations: module methods that an interface method call may dispatch to.
func (g *CallGraph) implementations(m *types.Func, recvType types.Type) []*ssa.Function {
	if r, ok := g.implCache[m]; ok {
		return r
	}
	iface, _ := recvType.Underlying().(*types.Interface)
	var out []*ssa.Function
	seen := map[*ssa.Function]bool{}
	if iface != nil {
		for _, t := range g.allTypes {
			if !types.Implements(t, iface) {
				continue
			}
			ms := g.P.SSA.MethodSets.MethodSet(t)
			sel := ms.Lookup(m.Pkg(), m.Name())
			if sel == nil {
				continue
			}
			f := g.P.SSA.MethodValue(sel)
			if f == nil {
				continue
			}
			// unwrap promoted-method wrappers to the declared method when possible
			if f.Synthetic != "" {
				if obj, ok := sel.Obj().(*types.Func); ok {
					if d := g.P.SSA.FuncValue(obj); d != nil && d.Blocks != nil {
						f = d
					}
				}
			}
			if f.Blocks == nil || seen[f] {
				continue
			}
			seen[f] = true
			out = append(out, f)
		}
	}
	sort.Slice(out, func(i, j int) bool { return out[i].String() < out[j].String() })
	g.implCache[m] = out
	return out
}

func (g *CallGraph) funcValueTargets(v ssa.Value) []*ssa.Function {
	if f := resolveFuncValue(v); f != nil {
		return []*ssa.Function{f}
	}
	if par, ok := strip(v).(*ssa.Parameter); ok {
		if fs := g.paramFuncs[par]; len(fs) > 0 {
			return dedupFuncs(fs)
		}
	}
	if _, fld, ok := fieldLoad(v); ok {
		if fs := g.fieldFuncs[fld]; len(fs) > 0 {
			return dedupFuncs(fs)
		}
	}
	if u, ok := strip(v).(*ssa.UnOp); ok {
		if gl, ok := u.X.(*ssa.Global); ok {
			if fs := g.globalFuncs[gl]; len(fs) > 0 {
				return dedupFuncs(fs)
			}
		}
	}
	// fallback: every address-taken module function with an identical signature
	var out []*ssa.Function
	sig, _ := v.Type().Underlying().(*types.Signature)
	if sig == nil {
		return nil
	}
	for _, f := range g.addrTaken {
		if f.Blocks != nil && types.Identical(stripRecv(f.Signature), sig) {
			out = append(out, f)
		}
	}
	return out
}

func stripRecv(s *types.Signature) *types.Signature {
	if s.Recv() == nil {
		return s
	}
	return types.NewSignatureType(nil, nil, nil, s.Params(), s.Results(), s.Variadic())
}

func dedupFuncs(fs []*ssa.Function) []*ssa.Function {
	seen := map[*ssa.Function]bool{}
	var out []*ssa.Function
	for _, f := range fs {
		if !seen[f] {
			seen[f] = true
			out = append(out, f)
		}
	}
	return out
}

// Reach computes the functions reachable from roots following the given edge kinds.
// The returned map gives, for every reached function, the edge it was first reached by (nil for roots).
func (g *CallGraph) Reach(roots []*ssa.Function, kinds map[EdgeKind]bool, stop func(e *CGEdge) bool) map[*ssa.Function]*CGEdge {
	via := map[*ssa.Function]*CGEdge{}
	var work []*ssa.Function
	for _, r := range roots {
		if r == nil {
			continue
		}
		if _, ok := via[r]; !ok {
			via[r] = nil
			work = append(work, r)
		}
	}
	for len(work) > 0 {
		f := work[0]
		work = work[1:]
		for _, e := range g.Out[f] {
			if e.Callee == nil || !kinds[e.Kind] {
				continue
			}
			if stop != nil && stop(e) {
				continue
			}
			if _, ok := via[e.Callee]; ok {
				continue
			}
			via[e.Callee] = e
			work = append(work, e.Callee)
		}
	}
	return via
}

// Chain renders the call chain from a root to fn.
func (g *CallGraph) Chain(via map[*ssa.Function]*CGEdge, fn *ssa.Function) []string {
	var rev []string
	for i := 0; i < 64; i++ {
		e := via[fn]
		if e == nil {
			rev = append(rev, FuncName(fn))
			break
		}
		rev = append(rev, FuncName(fn)+" ["+e.Kind.String()+" at "+g.P.InstrPos(e.Site)+"]")
		fn = e.Caller
	}
	for i, j := 0, len(rev)-1; i < j; i, j = i+1, j-1 {
		rev[i], rev[j] = rev[j], rev[i]
	}
	return rev
}

var allKinds = map[EdgeKind]bool{EdgeCall: true, EdgeDefer: true, EdgeGo: true, EdgeRef: true}
var syncKinds = map[EdgeKind]bool{EdgeCall: true, EdgeDefer: true}

var _ = typeutil.Callee
