package main

// Engine D: snapshot immutability (copy-on-write) and lock discipline for
// values published through sync/atomic.Value fields.

import (
	"go/token"
	"go/types"
	"strings"

	"golang.org/x/tools/go/ssa"
)

const atomicLoad = "(*sync/atomic.Value).Load"
const atomicStore = "(*sync/atomic.Value).Store"

// publishedField: call is x.<field>.Load()/Store() on an atomic.Value struct field; returns base and field.
func publishedAccess(in ssa.Instruction, method string) (base ssa.Value, field *types.Var, ok bool) {
	cc := callCommon(in)
	if cc == nil || !isCallNamed(in, method) || len(cc.Args) == 0 {
		return nil, nil, false
	}
	fa, fld, ok := addrField(cc.Args[0])
	if !ok {
		return nil, nil, false
	}
	return fa.X, fld, true
}

// Taint computes, for the whole module, the set of SSA values that may alias
// (parts of) a published snapshot.
type Taint struct {
	p       *Prog
	vals    map[ssa.Value]bool
	cells   map[string]bool // "alloc-ptr/field" cells of local struct variables holding snapshot parts
	changed bool
	params  map[*ssa.Parameter]bool
	// short: tainted values that may alias the snapshot's backing array with a smaller length
	// (s[:i] without capacity clip, and everything appended to / merged from such a value)
	short map[ssa.Value]bool
}

func cellKey(a ssa.Value, field int) string {
	return a.Name() + "@" + a.Parent().String() + "/" + itoa(field)
}

func itoa(i int) string {
	if i < 0 {
		return "-" + itoa(-i)
	}
	if i < 10 {
		return string(rune('0' + i))
	}
	return itoa(i/10) + string(rune('0'+i%10))
}

func isSliceOrStructWithSlices(t types.Type) bool {
	switch u := t.Underlying().(type) {
	case *types.Slice:
		return true
	case *types.Struct:
		for i := 0; i < u.NumFields(); i++ {
			if isSliceOrStructWithSlices(u.Field(i).Type()) {
				return true
			}
		}
	case *types.Interface:
		return true // a boxed config
	case *types.Pointer:
		return isSliceOrStructWithSlices(u.Elem())
	}
	return false
}

func computeTaint(p *Prog) *Taint {
	t := &Taint{p: p, vals: map[ssa.Value]bool{}, cells: map[string]bool{}, params: map[*ssa.Parameter]bool{}, short: map[ssa.Value]bool{}}
	cg := p.CG()
	for iter := 0; iter < 20; iter++ {
		t.changed = false
		for _, fn := range p.Funcs {
			t.scan(fn, cg)
		}
		if !t.changed {
			break
		}
	}
	return t
}

func (t *Taint) mark(v ssa.Value) {
	if v == nil || t.vals[v] {
		return
	}
	t.vals[v] = true
	t.changed = true
}

func (t *Taint) markShort(v ssa.Value) {
	if !t.short[v] {
		t.short[v] = true
		t.changed = true
	}
}

func (t *Taint) is(v ssa.Value) bool { return v != nil && t.vals[v] }

func (t *Taint) scan(fn *ssa.Function, cg *CallGraph) {
	for _, par := range fn.Params {
		if t.params[par] {
			t.mark(par)
		}
	}
	allInstrs(fn, func(in ssa.Instruction) {
		switch x := in.(type) {
		case *ssa.Call:
			if _, _, ok := publishedAccess(x, atomicLoad); ok {
				t.mark(x)
				return
			}
			if cc, ok := isBuiltinCall(x, "append"); ok && t.short[cc.Args[0]] {
				// the result may still alias the shared backing array
				t.mark(x)
				t.markShort(x)
			}
			// method on a tainted receiver returning something that can hold a slice
			if rv := recvOf(&x.Call); rv != nil && t.is(rv) && isSliceOrStructWithSlices(x.Type()) {
				if cc := x.Common(); cc.IsInvoke() || (cc.StaticCallee() != nil && ModuleFunc(cc.StaticCallee())) {
					t.mark(x)
				}
			}
			// arguments flowing into module callees (static, or the closures a function value can denote)
			cc := x.Common()
			if !cc.IsInvoke() {
				var callees []*ssa.Function
				if callee := cc.StaticCallee(); callee != nil {
					callees = []*ssa.Function{callee}
				} else if _, isBuiltin := cc.Value.(*ssa.Builtin); !isBuiltin {
					callees = cg.funcValueTargets(cc.Value)
				}
				for _, callee := range callees {
					if callee.Blocks == nil || !ModuleFunc(callee) {
						continue
					}
					for i, a := range cc.Args {
						tainted := t.is(a)
						// &local where the local struct holds (parts of) a snapshot
						if al, ok := a.(*ssa.Alloc); ok && t.cells[cellKey(al, -1)] {
							tainted = true
						}
						if tainted && i < len(callee.Params) && !t.params[callee.Params[i]] {
							t.params[callee.Params[i]] = true
							t.changed = true
						}
					}
				}
			}
		case *ssa.TypeAssert:
			if t.is(x.X) {
				t.mark(x)
			}
		case *ssa.Extract:
			if t.is(x.Tuple) {
				t.mark(x)
			}
		case *ssa.ChangeType:
			if t.is(x.X) {
				t.mark(x)
			}
		case *ssa.ChangeInterface:
			if t.is(x.X) {
				t.mark(x)
			}
		case *ssa.MakeInterface:
			if t.is(x.X) {
				t.mark(x)
			}
		case *ssa.Convert:
			if t.is(x.X) {
				t.mark(x)
			}
		case *ssa.Field:
			if t.is(x.X) && isSliceOrStructWithSlices(x.Type()) {
				t.mark(x)
			}
		case *ssa.Slice:
			if t.is(x.X) {
				t.mark(x)
				if (x.High != nil && !(x.Max != nil && sameValue(x.Max, x.High))) || t.short[x.X] {
					t.markShort(x)
				}
			}
		case *ssa.Phi:
			for _, e := range x.Edges {
				if t.is(e) {
					t.mark(x)
				}
				if t.short[e] {
					t.markShort(x)
				}
			}
		case *ssa.Store:
			// stores into local struct variables: *alloc = tainted ; alloc.f = tainted
			if !t.is(x.Val) {
				return
			}
			switch a := x.Addr.(type) {
			case *ssa.Alloc:
				k := cellKey(a, -1)
				if !t.cells[k] {
					t.cells[k] = true
					t.changed = true
				}
			case *ssa.FieldAddr:
				if al, ok := a.X.(*ssa.Alloc); ok {
					k := cellKey(al, a.Field)
					if !t.cells[k] {
						t.cells[k] = true
						t.changed = true
					}
				}
			}
		case *ssa.UnOp:
			if x.Op != token.MUL {
				return
			}
			switch a := x.X.(type) {
			case *ssa.Alloc:
				if t.cells[cellKey(a, -1)] {
					t.mark(x)
				}
			case *ssa.FieldAddr:
				if al, ok := a.X.(*ssa.Alloc); ok {
					if (t.cells[cellKey(al, -1)] || t.cells[cellKey(al, a.Field)]) && isSliceOrStructWithSlices(x.Type()) {
						t.mark(x)
					}
				} else if t.is(a.X) && isSliceOrStructWithSlices(x.Type()) {
					t.mark(x)
				}
			default:
				// a struct copied out of the snapshot through a pointer (hasher := *conf.Hasher): the copy's
				// slices still share their backing arrays with the published value
				if t.is(x.X) && isSliceOrStructWithSlices(x.Type()) {
					t.mark(x)
				}
			}
		}
	})
}

// sliceShape describes how an append/copy/sort operand relates to a tainted slice.
type sliceShape struct {
	tainted  bool
	resliced bool // obtained through a slice expression with an upper bound (length may shrink)
	clipped  bool // the slice expression caps capacity at its length (s[:i:i])
}

func (t *Taint) shape(v ssa.Value) sliceShape {
	v = strip(v)
	if s, ok := v.(*ssa.Slice); ok && t.is(s.X) {
		sh := sliceShape{tainted: true}
		if s.High != nil {
			sh.resliced = true
			if s.Max != nil && sameValue(s.Max, s.High) {
				sh.clipped = true
			}
		}
		return sh
	}
	if t.short[v] {
		return sliceShape{tainted: true, resliced: true}
	}
	return sliceShape{tainted: t.is(v)}
}

func sameValue(a, b ssa.Value) bool {
	if a == b {
		return true
	}
	ca, ok1 := constInt(a)
	cb, ok2 := constInt(b)
	if ok1 && ok2 && ca == cb {
		return true
	}
	// two loads of the same captured variable / local cell in one block, with no store in between
	ua, oka := a.(*ssa.UnOp)
	ub, okb := b.(*ssa.UnOp)
	if oka && okb && ua.Op == token.MUL && ub.Op == token.MUL && ua.X == ub.X && ua.Block() == ub.Block() {
		between := false
		on := false
		for _, in := range ua.Block().Instrs {
			if in == ssa.Instruction(ua) || in == ssa.Instruction(ub) {
				if on {
					break
				}
				on = true
				continue
			}
			if !on {
				continue
			}
			switch y := in.(type) {
			case *ssa.Store:
				if y.Addr == ua.X {
					between = true
				}
			case *ssa.Call:
				between = true // may write through the captured variable
			}
		}
		return !between
	}
	return false
}

// isFreshObject: base denotes an object allocated in this function (constructor context).
func isFreshObject(base ssa.Value) bool {
	base = strip(base)
	for i := 0; i < 10; i++ {
		switch x := base.(type) {
		case *ssa.Alloc:
			return true
		case *ssa.FieldAddr:
			base = x.X
		case *ssa.UnOp:
			if x.Op == token.MUL {
				base = x.X
				continue
			}
			return false
		default:
			return false
		}
	}
	return false
}

// mutexOps lists Lock/Unlock style calls in fn: receiver field and instruction.
type mutexOp struct {
	in     ssa.Instruction
	base   ssa.Value
	field  *types.Var // mutex field (embedded sync.Mutex or named)
	global *ssa.Global
	op     string // Lock, Unlock, RLock, RUnlock
	deferd bool
}

func mutexOps(fn *ssa.Function) []mutexOp {
	var out []mutexOp
	allInstrs(fn, func(in ssa.Instruction) {
		cc := callCommon(in)
		if cc == nil {
			return
		}
		n := calleeName(cc)
		if !strings.HasPrefix(n, "(*sync.Mutex).") && !strings.HasPrefix(n, "(*sync.RWMutex).") {
			return
		}
		op := n[strings.LastIndex(n, ".")+1:]
		if op != "Lock" && op != "Unlock" && op != "RLock" && op != "RUnlock" {
			return
		}
		if len(cc.Args) == 0 {
			return
		}
		m := mutexOp{in: in, op: op}
		_, m.deferd = in.(*ssa.Defer)
		switch a := cc.Args[0].(type) {
		case *ssa.FieldAddr:
			m.base, m.field = a.X, fieldOfAddr(a)
			// embedded mutex reached through a promoted path: &x.embedded.Mutex
		case *ssa.Global:
			m.global = a
		default:
			return
		}
		out = append(out, m)
	})
	return out
}

// heldAt reports whether the mutex identified by (field|global) with the given
// base is held at instruction `at`: a Lock dominates it and no explicit Unlock
// of the same mutex lies between (an Unlock that is dominated by the Lock and
// dominates `at`), deferred unlocks run at exit.
func heldAt(ops []mutexOp, same func(m mutexOp) bool, at ssa.Instruction) (ssa.Instruction, bool) {
	return heldAtMode(ops, same, at, false)
}

// heldExclusiveAt: like heldAt, but a read lock (RLock) does not count — what a write to shared state needs.
func heldExclusiveAt(ops []mutexOp, same func(m mutexOp) bool, at ssa.Instruction) (ssa.Instruction, bool) {
	return heldAtMode(ops, same, at, true)
}

func heldAtMode(ops []mutexOp, same func(m mutexOp) bool, at ssa.Instruction, exclusive bool) (ssa.Instruction, bool) {
	for _, l := range ops {
		if (l.op != "Lock" && l.op != "RLock") || l.deferd || !same(l) {
			continue
		}
		if exclusive && l.op != "Lock" {
			continue
		}
		if !instrDominates(l.in, at) {
			continue
		}
		released := false
		for _, u := range ops {
			if (u.op != "Unlock" && u.op != "RUnlock") || u.deferd || !same(u) {
				continue
			}
			// an unlock that may execute between l and at
			if instrDominates(l.in, u.in) && instrReachAvoiding(u.in, at, l.in) {
				released = true
			}
		}
		if !released {
			return l.in, true
		}
	}
	return nil, false
}

// mayPrecede: some path executes a and later b.
func mayPrecede(a, b ssa.Instruction) bool {
	if a.Block() == b.Block() {
		for _, in := range a.Block().Instrs {
			if in == a {
				return true
			}
			if in == b {
				break
			}
		}
		// b before a in the same block: only through a loop
	}
	r := reachable(a.Block(), nil, nil)
	if a.Block() != b.Block() {
		return r[b.Block()]
	}
	// same block, b first: reachable again only if the block is in a cycle
	for _, s := range a.Block().Succs {
		if reachable(s, nil, nil)[b.Block()] {
			return true
		}
	}
	return false
}

func sameBase(a, b ssa.Value) bool {
	return strip(a) == strip(b)
}
