package main

import (
	"fmt"
	"go/token"
	"go/types"
	"sort"
	"strings"

	"golang.org/x/tools/go/ssa"
)

func init() {
	register(&PropDef{
		ID:    "C03",
		Title: "Filters mean exactly the documented conjunction, evaluated on the metric name",
		Decided: "R1 every argument reaching a filter entry point (Matcher.Match/PreMatch/MatchRegexAndExpand, Route.Match, Destination.Match, matchWithCache) is the metric NAME (first field of the line, current at the time of the call), never the line; " +
			"R2 an aggregation forwards a metric to its worker only after PreMatch accepted the name, contributes to a bucket only after the regex stage accepted it, and PreMatch plus MatchRegexAndExpand together consult all six options; " +
			"R3 on every path of Match, PreMatch and MatchRegexAndExpand the boolean result equals the documented conjunction of the options the path evaluated (right polarity per option, empty option = no constraint, predicate applied to the whole name parameter); the only tolerated early exits are the two derived-prefix shortcuts with their sound polarity; " +
			"R4 the aggregator match cache is accessed under its mutex, keyed by the name being looked up, and stores only the fresh result for that key or the entry just read.",
		NotDecided: "RE2 semantics of the expression itself; the derived prefix beyond the first three scan steps of regexToPrefix (R7 relies on the loop body being the same for every later position) and for implementations that are not a byte scan; cache expiry timing.",
		Rules: []RuleDef{
			{ID: "C03.R8", Min: 4, Doc: "the internal byte fields mirror the options: every store into Matcher.prefix / notPrefix / sub / notSub stores []byte(<the equally named option string of the same Matcher>) — the truth tables of R3 speak about these fields, this rule ties them to what was configured", Run: c03r8},
			{ID: "C03.R7", Min: 1, Doc: "derived prefix: every path of matcher.regexToPrefix over the first scan steps (concrete scan position, comparisons evaluated over the 256 byte values) that yields a prefix has seen '^' at position 0 and no '|' in the expression, takes only characters that stand for themselves (or the character of an escaped punctuation) contiguously from position 1, and leaves out the character in front of ?, * or {", Run: c03r7},
			{ID: "C03.R1", Min: 12, Doc: "name only: at every call site of a filter entry point the argument has kind NAME (fields[0] of bytes.Fields, ValidatePacket's key, line[:IndexByte(line,' ')], RW.Do of a NAME, or a NAME parameter), and no store to the name slot can occur between reading it and the call; the LINE kind that route.metricName relies on (name = text before the first space) is established at every Route.Dispatch call site (rule C04.R2 evaluated for this property as well)", Run: func(c *Check) { c03r1(c); c04r2(c) }},
			{ID: "C03.R2", Min: 4, Doc: "aggregation filter completeness: in AddMaybe every path to the send on Aggregator.in passed the true edge of PreMatch(name); in run every path to AddOrCreate passed the ok edge of matchWithCache; the matcher fields read by PreMatch and MatchRegexAndExpand cover prefix, notPrefix, sub, notSub, regex, notRegex", Run: c03r2},
			{ID: "C03.R3", Min: 3, Doc: "truth table: enumerate all paths of Match / PreMatch / MatchRegexAndExpand as partial assignments of atoms (option set? predicate true?) and compare the returned constant with the documented formula in three-valued logic", Run: c03r3},
			{ID: "C03.R5", Min: 10, Doc: "only complete filters are installed: at every call site of matcher.New each use of the returned Matcher is dominated by the no-error edge of the test of the returned error (or returns it together with that error) — on a compile error New returns a Matcher whose regex/notRegex are nil, i.e. one that ignores those options", Run: c03r5},
			{ID: "C03.R6", Min: 24, Doc: "a runtime filter update changes only the options it names: in route.update and Destination.Update each matcher.New argument comes from the case of the equally named option, or else from the equally named field of the filter in force (part of rule C20.R1 evaluated for this property as well)", Run: c03r6},
			{ID: "C03.R4", Min: 4, Doc: "cache transparency: every access to Aggregator.reCache is under reCacheMutex; lookups and updates in matchWithCache use string(key) of the key parameter; stored entries derive from MatchRegexAndExpand(key, ...) or from the entry just looked up", Run: c03r4},
		},
	})
}

// instrReachAvoiding: some path executes `from`, later `to`, without executing `avoid` in between.
func instrReachAvoiding(from, to, avoid ssa.Instruction) bool {
	type pos struct {
		b *ssa.BasicBlock
		i int
	}
	idx := func(in ssa.Instruction) int {
		for i, x := range in.Block().Instrs {
			if x == in {
				return i
			}
		}
		return -1
	}
	start := pos{from.Block(), idx(from) + 1}
	seen := map[*ssa.BasicBlock]bool{}
	work := []pos{start}
	for len(work) > 0 {
		p := work[len(work)-1]
		work = work[:len(work)-1]
		blocked := false
		for i := p.i; i < len(p.b.Instrs); i++ {
			in := p.b.Instrs[i]
			if in == to {
				return true
			}
			if in == avoid {
				blocked = true
				break
			}
		}
		if blocked {
			continue
		}
		for _, s := range p.b.Succs {
			if !seen[s] {
				seen[s] = true
				work = append(work, pos{s, 0})
			}
		}
	}
	return false
}

func c03r1(c *Check) {
	k := newKinds(c.P)
	sinks := map[string]bool{}
	for name, m := range paramKinds {
		for _, kd := range m {
			if kd == KName {
				sinks[name] = true
			}
		}
	}
	for _, fn := range c.P.Funcs {
		allInstrs(fn, func(in ssa.Instruction) {
			cc := callCommon(in)
			if cc == nil {
				return
			}
			name := calleeName(cc)
			if !sinks[name] {
				return
			}
			args := argsOf(cc)
			if len(args) == 0 {
				return
			}
			arg := args[0]
			kd := k.Of(arg)
			key := fmt.Sprintf("%s → %s", FuncName(fn), short(name))
			if kd != KName {
				c.Violate(key, c.At(in), fmt.Sprintf("the filter is applied to a value of kind %s, not to the metric name: the decision then depends on the value and timestamp tokens (e.g. sub=5 accepts any line containing a 5; an end-anchored regex never matches)", kd))
				return
			}
			// staleness: name read from the fields slot must not be overwritten before the call
			// (for a helper's parameter: before the call of the helper, at every call site)
			var staleAt func(f *ssa.Function, arg ssa.Value, use ssa.Instruction, depth int) bool
			staleAt = func(f *ssa.Function, arg ssa.Value, use ssa.Instruction, depth int) bool {
				if ld, ok := strip(arg).(*ssa.UnOp); ok && ld.Op == token.MUL {
					if ia, ok := ld.X.(*ssa.IndexAddr); ok {
						stale := false
						allInstrs(f, func(st ssa.Instruction) {
							s, ok := st.(*ssa.Store)
							if !ok {
								return
							}
							sa, ok := s.Addr.(*ssa.IndexAddr)
							if !ok || sa.X != ia.X {
								return
							}
							if instrReachAvoiding(ld, s, nil) && instrReachAvoiding(s, use, ld) {
								stale = true
							}
						})
						return stale
					}
				}
				if par, ok := strip(arg).(*ssa.Parameter); ok && depth < 3 {
					if _, declared := paramKinds[funcCanonical(par.Parent())]; declared {
						return false
					}
					idx := -1
					for i, q := range par.Parent().Params {
						if q == par {
							idx = i
						}
					}
					for _, e := range c.P.CG().In[par.Parent()] {
						cc := callCommon(e.Site)
						if cc == nil || e.Kind == EdgeRef || cc.IsInvoke() || idx >= len(cc.Args) {
							continue
						}
						if staleAt(e.Caller, cc.Args[idx], e.Site, depth+1) {
							return true
						}
					}
				}
				return false
			}
			if staleAt(fn, arg, in, 0) {
				c.Violate(key, c.At(in), "the name was read before a rewriter stored a new name into the fields slot: the filter is evaluated on the pre-rewrite name")
				return
			}
			c.Hold(key, c.At(in), "argument is the current metric name")
		})
	}
}

func c03r5(c *Check) {
	n := errGated(c, "matcher.New", modPath+"/matcher.New", "the Matcher returned by matcher.New")
	if n == 0 {
		anchorFail("no call site of matcher.New")
	}
	c.Stat("loop-alias sites", loopAliasCheck(c, "kept pointer is per-iteration"))
	// a filter built inside a loop is built from this iteration's options only
	for _, fn := range c.P.Funcs {
		var loops []*Loop
		allInstrs(fn, func(in ssa.Instruction) {
			call, ok := in.(*ssa.Call)
			if !ok || calleeName(call.Common()) != modPath+"/matcher.New" {
				return
			}
			if loops == nil {
				loops = loopsOf(fn)
			}
			l := innermostLoop(loops, in.Block())
			if l == nil {
				return
			}
			bad := ""
			for i, a := range call.Call.Args {
				if s := loopCarried(c.P, a, l, in); s != "" {
					bad = fmt.Sprintf("argument %d of matcher.New: %s", i, s)
					break
				}
			}
			c.Judge(bad == "", "filter options are per-iteration "+FuncName(fn)+" → matcher.New", c.At(in), "no option value survives from an earlier iteration of the enclosing loop",
				bad+": an entry inherits the options of the entries before it, so its filter is the conjunction of several configured entries instead of the one that was written")
		})
	}
}

func c03r6(c *Check) {
	checkStringSwitchMatcher(c, funcCalling(c.P, c.P.Func("route", "*baseRoute", "update"), modPath+"/matcher.New"), "route.baseRoute.update (modRoute)", true)
	checkStringSwitchMatcher(c, funcCalling(c.P, c.P.Func("destination", "*Destination", "Update"), modPath+"/matcher.New"), "destination.Destination.Update (modDest)", true)
	checkUpdateFlag(c, funcCalling(c.P, c.P.Func("route", "*baseRoute", "update"), modPath+"/matcher.New"), "route.baseRoute.update (modRoute)")
	checkUpdateFlag(c, funcCalling(c.P, c.P.Func("destination", "*Destination", "Update"), modPath+"/matcher.New"), "destination.Destination.Update (modDest)")
}

func c03r2(c *Check) {
	agg := "(*" + modPath + "/aggregator.Aggregator)."
	addMaybe := c.P.Func("aggregator", "*Aggregator", "AddMaybe")
	inField := c.P.Field("aggregator", "Aggregator", "in")
	// (a) AddMaybe: send on a.in only after PreMatch true
	cfg := &PathCfg{
		Classify: func(in ssa.Instruction) []string {
			if s, ok := in.(*ssa.Send); ok && isFieldLoad(s.Chan, inField) {
				return []string{"send"}
			}
			return nil
		},
		Branch: func(ifi *ssa.If, cond ssa.Value, taken bool) []string {
			neg := false
			for {
				u, ok := cond.(*ssa.UnOp)
				if !ok || u.Op != token.NOT {
					break
				}
				neg = !neg
				cond = u.X
			}
			if call, ok := cond.(*ssa.Call); ok && calleeName(call.Common()) == pMatcher+"PreMatch" {
				if taken != neg {
					return []string{"prematch:true"}
				}
				return []string{"prematch:false"}
			}
			return nil
		},
	}
	paths, trunc := EnumPaths(addMaybe, nil, cfg)
	nSend := 0
	ok := !trunc
	for _, pa := range paths {
		if pa.Has("send") {
			nSend++
			i, j := pa.Index("prematch:true"), pa.Index("send")
			if i < 0 || i > j {
				ok = false
				c.ViolateW("aggregator.AddMaybe send without PreMatch", c.AtFn(addMaybe), "a metric is handed to the aggregation worker although the cheap filter conditions (prefix, notPrefix, sub, notSub) were not evaluated or rejected it", []string{pa.String()})
			}
		}
	}
	if nSend == 0 {
		anchorFail("no path of AddMaybe sends on Aggregator.in")
	}
	if ok {
		c.Hold("aggregator.AddMaybe send after PreMatch", c.AtFn(addMaybe), fmt.Sprintf("%d paths, %d sending: all passed the true edge of PreMatch", len(paths), nSend))
	}
	// (b) run: AddOrCreate only after matchWithCache ok
	run := c.P.Func("aggregator", "*Aggregator", "run")
	cfg2 := &PathCfg{
		// the body of the `in` case may be a helper method (handleMsg(m)); AddOrCreate and matchWithCache stay events
		Inline: func(g *ssa.Function) bool {
			return inlineSameRecv(c.P.Func("aggregator", "*Aggregator", "run"))(g) && g.Name() != "AddOrCreate" && g.Name() != "matchWithCache" && g.Name() != "Flush"
		},
		Classify: func(in ssa.Instruction) []string {
			if isCallNamed(in, agg+"AddOrCreate") {
				return []string{"add"}
			}
			return nil
		},
		Branch: func(ifi *ssa.If, cond ssa.Value, taken bool) []string {
			neg := false
			for {
				u, ok := cond.(*ssa.UnOp)
				if !ok || u.Op != token.NOT {
					break
				}
				neg = !neg
				cond = u.X
			}
			if ex, ok := cond.(*ssa.Extract); ok && ex.Index == 1 {
				if call, ok := ex.Tuple.(*ssa.Call); ok && calleeName(call.Common()) == agg+"matchWithCache" {
					if taken != neg {
						return []string{"match:true"}
					}
					return []string{"match:false"}
				}
			}
			return nil
		},
		SelectEvent: func(sel *ssa.Select, k int) []string { return []string{"select"} },
	}
	paths, trunc = EnumPaths(run, nil, cfg2)
	nAdd := 0
	ok = !trunc
	for _, pa := range paths {
		evs := pa.Events
		// per iteration: look at each "add" and the events since the previous "select"
		last := -1
		for i, e := range evs {
			if e.Class == "select" {
				last = i
			}
			if e.Class == "add" {
				nAdd++
				found := false
				for j := last + 1; j < i; j++ {
					if evs[j].Class == "match:true" {
						found = true
					}
				}
				if !found {
					ok = false
					c.ViolateW("aggregator.run AddOrCreate without regex match", c.AtFn(run), "a point contributes to an aggregation bucket although the regex stage (regex / notRegex) did not accept its name", []string{pa.String()})
				}
			}
		}
	}
	if nAdd == 0 {
		anchorFail("no path of run reaches AddOrCreate")
	}
	if ok {
		c.Hold("aggregator.run AddOrCreate after matchWithCache ok", c.AtFn(run), fmt.Sprintf("%d paths: every AddOrCreate is preceded in its iteration by the ok edge of matchWithCache", len(paths)))
	}
	// (c) matchWithCache returns MatchRegexAndExpand's verdict or the cached one
	mwc := c.P.Func("aggregator", "*Aggregator", "matchWithCache")
	calls := 0
	allInstrs(mwc, func(in ssa.Instruction) {
		if isCallNamed(in, pMatcher+"MatchRegexAndExpand") {
			calls++
		}
	})
	c.Judge(calls >= 1, "aggregator.matchWithCache uses MatchRegexAndExpand", c.AtFn(mwc), fmt.Sprintf("%d call sites", calls), "matchWithCache no longer consults MatchRegexAndExpand")
	// (d) fields consulted
	want := []string{"prefix", "notPrefix", "sub", "notSub", "regex", "notRegex"}
	read := map[string]bool{}
	for _, fname := range []string{"PreMatch", "MatchRegexAndExpand"} {
		fn := c.P.Func("matcher", "*Matcher", fname)
		for _, f := range samePkgCallees(c.P, fn) {
			allInstrs(f, func(in ssa.Instruction) {
				if fa, ok := in.(*ssa.FieldAddr); ok {
					read[fieldOfAddr(fa).Name()] = true
				}
			})
		}
	}
	var missing []string
	for _, w := range want {
		if !read[w] {
			missing = append(missing, w)
		}
	}
	// what AddMaybe decides depends on the filter stages only (rule C11.R3, evaluated here as well)
	c11r3(c)
	c.Judge(len(missing) == 0, "matcher PreMatch∪MatchRegexAndExpand consult six options", c.AtFn(c.P.Func("matcher", "*Matcher", "PreMatch")), "prefix, notPrefix, sub, notSub, regex, notRegex are all read", "options never consulted on the aggregation path: "+strings.Join(missing, ", ")+" (documented for addAgg and [[aggregation]], accepted, silently ignored)")
}

// ---------------------------------------------------------------------------
// R3: truth tables

type atom struct {
	name string // "E:prefix" (option set), "P:prefix" (predicate true on the name)
}

// matcher option table: predicate function, polarity (result must equal polarity when the option is set)
var optPolarity = map[string]bool{"prefix": true, "notPrefix": false, "sub": true, "notSub": false, "regex": true, "notRegex": false}
var optPredicate = map[string]string{"prefix": "bytes.HasPrefix", "notPrefix": "bytes.HasPrefix", "sub": "bytes.Contains", "notSub": "bytes.Contains",
	"prefixFromRegex": "bytes.HasPrefix", "prefixFromNotRegex": "bytes.HasPrefix", "regex": "(*regexp.Regexp).Match", "notRegex": "(*regexp.Regexp).Match"}

// atomOf maps a branch condition to (atom, negated). recvParam is the matcher receiver, subj the name parameter.
func atomOf(cond ssa.Value, recv, subj ssa.Value) (string, bool, string) {
	neg := false
	for {
		u, ok := cond.(*ssa.UnOp)
		if !ok || u.Op != token.NOT {
			break
		}
		neg = !neg
		cond = u.X
	}
	matcherField := func(v ssa.Value) (string, bool) {
		b, f, ok := fieldLoad(v)
		if !ok || strip(b) != recv {
			return "", false
		}
		return f.Name(), true
	}
	switch x := cond.(type) {
	case *ssa.BinOp:
		// len(m.f) > 0 ; len(m.f) == 0 ; m.f != nil ; m.f == nil
		isLenOf := func(v ssa.Value) (string, bool) {
			call, ok := v.(*ssa.Call)
			if !ok {
				return "", false
			}
			b, ok := call.Call.Value.(*ssa.Builtin)
			if !ok || b.Name() != "len" {
				return "", false
			}
			return matcherField(call.Call.Args[0])
		}
		isZero := func(v ssa.Value) bool { c, ok := constInt(v); return ok && c == 0 }
		isNil := func(v ssa.Value) bool { c, ok := v.(*ssa.Const); return ok && c.IsNil() }
		if f, ok := isLenOf(x.X); ok && isZero(x.Y) {
			switch x.Op {
			case token.GTR, token.NEQ:
				return "E:" + f, neg, ""
			case token.EQL, token.LEQ:
				return "E:" + f, !neg, ""
			}
		}
		if f, ok := isLenOf(x.Y); ok && isZero(x.X) {
			switch x.Op {
			case token.LSS, token.NEQ:
				return "E:" + f, neg, ""
			case token.EQL, token.GEQ:
				return "E:" + f, !neg, ""
			}
		}
		if f, ok := matcherField(x.X); ok && isNil(x.Y) {
			if x.Op == token.NEQ {
				return "E:" + f, neg, ""
			}
			if x.Op == token.EQL {
				return "E:" + f, !neg, ""
			}
		}
		// matches == nil (MatchRegexAndExpand): FindSubmatchIndex result compared with nil
		if call, ok := x.X.(*ssa.Call); ok && isNil(x.Y) && calleeName(call.Common()) == "(*regexp.Regexp).FindSubmatchIndex" {
			f, okf := matcherField(call.Call.Args[0])
			if okf {
				if call.Call.Args[1] != subj {
					return "", false, "the regex is applied to a value that is not the whole name parameter"
				}
				if x.Op == token.EQL {
					return "P:" + f, !neg, ""
				}
				if x.Op == token.NEQ {
					return "P:" + f, neg, ""
				}
			}
		}
	case *ssa.Call:
		n := calleeName(x.Common())
		switch n {
		case "bytes.HasPrefix", "bytes.Contains":
			f, ok := matcherField(x.Call.Args[1])
			if !ok {
				return "", false, "predicate pattern operand is not a matcher field"
			}
			if optPredicate[f] != n {
				return "", false, fmt.Sprintf("option %s evaluated with %s instead of %s", f, n, optPredicate[f])
			}
			if x.Call.Args[0] != subj {
				return "", false, "predicate is applied to a value that is not the whole name parameter"
			}
			return "P:" + f, neg, ""
		case "(*regexp.Regexp).Match":
			f, ok := matcherField(x.Call.Args[0])
			if !ok {
				return "", false, "regexp receiver is not a matcher field"
			}
			if x.Call.Args[1] != subj {
				return "", false, "regex is applied to a value that is not the whole name parameter"
			}
			return "P:" + f, neg, ""
		}
	}
	return "", false, "unrecognised branch condition"
}

// tri-valued evaluation of the documented formula over options opts under a partial assignment.
// returns 1 true, 0 false, -1 unknown
func evalFormula(opts []string, asg map[string]bool) int {
	res := 1
	for _, o := range opts {
		e, eok := asg["E:"+o]
		p, pok := asg["P:"+o]
		var term int
		switch {
		case eok && !e:
			term = 1
		case pok && eok && e:
			if p == optPolarity[o] {
				term = 1
			} else {
				term = 0
			}
		case pok && !eok:
			// predicate evaluated without emptiness test: constraint applies as if set
			if p == optPolarity[o] {
				term = 1
			} else {
				term = 0
			}
		default:
			term = -1
		}
		if term == 0 {
			return 0
		}
		if term == -1 {
			res = -1
		}
	}
	return res
}

func c03r3(c *Check) {
	type spec struct {
		fn       string
		opts     []string
		retIndex int // index of the bool result
	}
	specs := []spec{
		{"Match", []string{"prefix", "notPrefix", "sub", "notSub", "regex", "notRegex"}, 0},
		{"PreMatch", []string{"prefix", "notPrefix", "sub", "notSub"}, 0},
		{"MatchRegexAndExpand", []string{"regex", "notRegex"}, 1},
	}
	for _, sp := range specs {
		fn := c.P.Func("matcher", "*Matcher", sp.fn)
		recv, subj := ssa.Value(fn.Params[0]), ssa.Value(fn.Params[1])
		var problems []string
		// helpers of package matcher are expanded in place; a helper stands for the same (matcher, name)
		// pair only if it is called with exactly these two values
		isHelper := func(f *ssa.Function) bool {
			return f != nil && f.Blocks != nil && fnPkg(f) == fnPkg(fn) && f.Signature.Recv() != nil && len(f.Params) >= 2
		}
		roles := map[*ssa.Function][2]ssa.Value{fn: {recv, subj}}
		badHelper := map[*ssa.Function]bool{}
		work := []*ssa.Function{fn}
		for len(work) > 0 {
			f := work[len(work)-1]
			work = work[:len(work)-1]
			allInstrs(f, func(in ssa.Instruction) {
				call, ok := in.(*ssa.Call)
				if !ok {
					return
				}
				g := call.Call.StaticCallee()
				if !isHelper(g) || g == fn {
					return
				}
				r := roles[f]
				if len(call.Call.Args) >= 2 && call.Call.Args[0] == r[0] && call.Call.Args[1] == r[1] {
					if _, seen := roles[g]; !seen {
						roles[g] = [2]ssa.Value{g.Params[0], g.Params[1]}
						work = append(work, g)
					}
				} else {
					badHelper[g] = true
				}
			})
		}
		cfg := &PathCfg{Inline: func(g *ssa.Function) bool { return isHelper(g) && g != fn }, Branch: func(ifi *ssa.If, cond ssa.Value, taken bool) []string {
			// the result of an expanded helper: its own decisions are already on the path
			if cnd, _ := negStrip(cond); cnd != nil {
				if call, ok := cnd.(*ssa.Call); ok && isHelper(call.Call.StaticCallee()) {
					return nil
				}
			}
			g := ifi.Parent()
			r, ok := roles[g]
			if !ok || badHelper[g] {
				return []string{"?:helper " + g.Name() + " is applied to something other than this matcher and the name"}
			}
			a, neg, why := atomOf(cond, r[0], r[1])
			if a == "" {
				return []string{"?:" + why}
			}
			val := taken != neg
			if val {
				return []string{a + "=T"}
			}
			return []string{a + "=F"}
		}}
		paths, trunc := EnumPaths(fn, nil, cfg)
		c.Stat("paths", len(paths))
		if trunc {
			c.Undecided("matcher."+sp.fn+" truth table", c.AtFn(fn), "too many paths")
			continue
		}
		nShortcut := 0
		for _, pa := range paths {
			if pa.End != "return" {
				problems = append(problems, "path ends in "+pa.End+": "+pa.String())
				continue
			}
			asg := map[string]bool{}
			bad := ""
			for _, e := range pa.Events {
				if strings.HasPrefix(e.Class, "?:") {
					bad = e.Class[2:]
					break
				}
				i := strings.LastIndex(e.Class, "=")
				asg[e.Class[:i]] = e.Class[i+1:] == "T"
			}
			if bad != "" {
				problems = append(problems, bad+" at "+c.P.InstrPos(pa.Events[len(pa.Events)-1].In))
				continue
			}
			// derived-prefix shortcuts: an absent derived prefix stands for "the regex does not match"
			// (sound iff regexToPrefix is; that is the undecided clause). Polarity is still checked:
			if v, ok := asg["P:prefixFromRegex"]; ok && !v {
				if _, done := asg["P:regex"]; !done {
					asg["P:regex"] = false
				}
			}
			if v, ok := asg["P:prefixFromNotRegex"]; ok && !v {
				if _, done := asg["P:notRegex"]; !done {
					asg["P:notRegex"] = false
				}
			}
			opts := sp.opts
			if _, ok := asg["P:regex"]; ok && sp.fn == "PreMatch" {
				opts = append(append([]string(nil), opts...), "regex")
			}
			if _, ok := asg["P:prefixFromRegex"]; ok {
				nShortcut++
			}
			rv := pa.Ret[sp.retIndex]
			type outcome struct {
				asg map[string]bool
				got int
			}
			var outs []outcome
			if rv == nil {
				// `return <predicate>`: the same as branching on the predicate and returning the constant
				done := false
				if sp.retIndex < len(pa.RetV) && pa.RetV[sp.retIndex] != nil {
					if r, ok := roles[fn]; ok && !badHelper[fn] {
						if a, neg, _ := atomOf(pa.RetV[sp.retIndex], r[0], r[1]); a != "" {
							for _, val := range []bool{true, false} {
								asg2 := map[string]bool{}
								for k, v := range asg {
									asg2[k] = v
								}
								if old, had := asg2[a]; had && old != val {
									continue
								}
								asg2[a] = val
								g := 0
								if val != neg {
									g = 1
								}
								outs = append(outs, outcome{asg2, g})
							}
							done = true
						}
					}
				}
				if !done {
					problems = append(problems, "result is not a constant on path "+pa.String())
					continue
				}
			} else {
				got := 0
				if rv.String() == "true" {
					got = 1
				}
				outs = append(outs, outcome{asg, got})
			}
			for _, o := range outs {
				asg, got := o.asg, o.got
				if v, ok := asg["P:prefixFromRegex"]; ok && !v {
					if _, done := asg["P:regex"]; !done {
						asg["P:regex"] = false
					}
				}
				if v, ok := asg["P:prefixFromNotRegex"]; ok && !v {
					if _, done := asg["P:notRegex"]; !done {
						asg["P:notRegex"] = false
					}
				}
				opts := opts
				if _, ok := asg["P:regex"]; ok && sp.fn == "PreMatch" && len(opts) == len(sp.opts) {
					opts = append(append([]string(nil), opts...), "regex")
				}
				want := evalFormula(opts, asg)
				if want == got {
					continue
				}
				if want == -1 {
					problems = append(problems, fmt.Sprintf("returns %v without evaluating every set option: %s", got == 1, pa.String()))
					continue
				}
				problems = append(problems, fmt.Sprintf("returns %v where the documented conjunction gives %v: %s", got == 1, want == 1, pa.String()))
			}
		}
		sort.Strings(problems)
		key := "matcher." + sp.fn + " truth table"
		if len(problems) > 0 {
			if len(problems) > 6 {
				problems = problems[:6]
			}
			c.ViolateW(key, c.AtFn(fn), "the function does not compute the documented conjunction on the metric name: "+problems[0], problems)
		} else {
			c.Hold(key, c.AtFn(fn), fmt.Sprintf("%d paths agree with the documented formula (%d derived-prefix shortcut paths, polarity checked)", len(paths), nShortcut))
		}
	}
}

func c03r4(c *Check) {
	cacheF := c.P.Field("aggregator", "Aggregator", "reCache")
	matcherF := c.P.Field("aggregator", "Aggregator", "Matcher")
	reCacheLockset(c)
	c03r4b(c, cacheF, matcherF)
}

// reCacheLockset: (a) of C03.R4 — every operation on the aggregator's match cache holds reCacheMutex,
// writes hold it exclusively.
func reCacheLockset(c *Check) {
	cacheF := c.P.Field("aggregator", "Aggregator", "reCache")
	muF := c.P.Field("aggregator", "Aggregator", "reCacheMutex")
	nAll := 0
	for _, fn := range c.P.Funcs {
		ops := mutexOps(fn)
		n, bad := 0, 0
		var first ssa.Instruction
		allInstrs(fn, func(in ssa.Instruction) {
			var m ssa.Value
			switch x := in.(type) {
			case *ssa.MapUpdate:
				m = x.Map
			case *ssa.Lookup:
				m = x.X
			case *ssa.Range:
				m = x.X
			case *ssa.Call:
				if b, ok := x.Call.Value.(*ssa.Builtin); ok && b.Name() == "delete" {
					m = x.Call.Args[0]
				}
			}
			if m == nil {
				return
			}
			base, f, ok := fieldLoad(m)
			if !ok || f != cacheF {
				return
			}
			n++
			if first == nil {
				first = in
			}
			same := func(mo mutexOp) bool { return mo.field == muF && sameBase(mo.base, base) }
			isWrite := false
			switch x := in.(type) {
			case *ssa.MapUpdate:
				isWrite = true
			case *ssa.Call:
				if b, ok := x.Call.Value.(*ssa.Builtin); ok && b.Name() == "delete" {
					isWrite = true
				}
			}
			held := false
			if isWrite {
				// a map write needs the exclusive lock: under a read lock two dispatchers write concurrently
				// (the runtime aborts the process with "concurrent map writes")
				_, held = heldExclusiveAt(ops, same, in)
			} else {
				_, held = heldAt(ops, same, in)
			}
			if !held {
				bad++
			}
		})
		if n > 0 && bad > 0 && len(ops) == 0 && callersHoldFieldMutex(c.P, fn, muF, true, 0) {
			nAll += n
			c.Hold(FuncName(fn)+" reCache under reCacheMutex", c.At(first), fmt.Sprintf("%d map operations in a helper whose every call site holds the mutex exclusively", n))
			continue
		}
		if n > 0 {
			nAll += n
			c.Judge(bad == 0, FuncName(fn)+" reCache under reCacheMutex", c.At(first), fmt.Sprintf("%d map operations, all with the mutex held (writes exclusively)", n), fmt.Sprintf("%d of %d operations on the match cache without reCacheMutex held in the mode they need — a write under a read lock included (AddMaybe on input goroutines races with other inputs and the aggregator worker; a concurrent map write aborts the process)", bad, n))
		}
	}
	if nAll == 0 {
		anchorFail("no operation on Aggregator.reCache found")
	}
}

func c03r4b(c *Check, cacheF, matcherF *types.Var) {
	// (b) key and value provenance in matchWithCache
	mwc, keyPar := cacheLookupFunc(c)
	isKeyString := func(v ssa.Value) bool {
		cv, ok := v.(*ssa.Convert)
		return ok && cv.X == keyPar
	}
	okKeys, nOps := true, 0
	var lookups []*ssa.Lookup
	allInstrs(mwc, func(in ssa.Instruction) {
		switch x := in.(type) {
		case *ssa.Lookup:
			if _, f, ok := fieldLoad(x.X); ok && f == cacheF {
				nOps++
				lookups = append(lookups, x)
				if !isKeyString(x.Index) {
					okKeys = false
				}
			}
		case *ssa.MapUpdate:
			if _, f, ok := fieldLoad(x.Map); ok && f == cacheF {
				nOps++
				if !isKeyString(x.Key) {
					okKeys = false
				}
			}
		}
	})
	c.Judge(okKeys && nOps >= 3, "aggregator.matchWithCache cache key", c.AtFn(mwc), fmt.Sprintf("%d cache operations keyed by string(key)", nOps), "a cache lookup or update uses a key other than the name being matched: a verdict computed for one name is served for another")
	// every MatchRegexAndExpand call in matchWithCache is on (key, a.outFmt)
	okCall := true
	allInstrs(mwc, func(in ssa.Instruction) {
		if isCallNamed(in, pMatcher+"MatchRegexAndExpand") {
			cc := callCommon(in)
			if cc.Args[1] != keyPar {
				okCall = false
			}
		}
	})
	c.Judge(okCall, "aggregator.matchWithCache matches the looked-up key", c.AtFn(mwc), "MatchRegexAndExpand is applied to the key parameter", "MatchRegexAndExpand is applied to a value other than the key parameter")
	// (c) the stored entry: fields match/key derive from the call results or from the looked-up entry
	okVal := true
	detail := ""
	allInstrs(mwc, func(in ssa.Instruction) {
		mu, ok := in.(*ssa.MapUpdate)
		if !ok {
			return
		}
		if _, f, ok := fieldLoad(mu.Map); !ok || f != cacheF {
			return
		}
		// value is a load of a local struct alloc; inspect the stores into its fields
		val := mu.Value
		u, ok := val.(*ssa.UnOp)
		if !ok {
			okVal, detail = false, "stored value is not a local CacheEntry"
			return
		}
		al, ok := u.X.(*ssa.Alloc)
		if !ok {
			okVal, detail = false, "stored value is not a local CacheEntry"
			return
		}
		for _, r := range *al.Referrers() {
			switch x := r.(type) {
			case *ssa.FieldAddr:
				fname := fieldOfAddr(x).Name()
				for _, rr := range *x.Referrers() {
					st, ok := rr.(*ssa.Store)
					if !ok {
						continue
					}
					if fname == "seen" {
						continue
					}
					src := st.Val
					good := false
					if ex, ok := src.(*ssa.Extract); ok {
						if call, ok := ex.Tuple.(*ssa.Call); ok && calleeName(call.Common()) == pMatcher+"MatchRegexAndExpand" {
							good = (fname == "match" && ex.Index == 1) || (fname == "key" && ex.Index == 0)
						}
					}
					if !good {
						okVal, detail = false, "field "+fname+" of the stored entry is not the corresponding result of MatchRegexAndExpand"
					}
				}
			case *ssa.Store:
				// whole-entry store: must be the looked-up entry
				if x.Addr == al {
					good := false
					if ex, ok := x.Val.(*ssa.Extract); ok {
						for _, l := range lookups {
							if ex.Tuple == l {
								good = true
							}
						}
					}
					for _, l := range lookups {
						if x.Val == l {
							good = true
						}
					}
					if !good {
						okVal, detail = false, "entry written back is not the one just looked up"
					}
				}
			}
		}
	})
	c.Judge(okVal, "aggregator.matchWithCache stored entry", c.AtFn(mwc), "stored entries are the fresh MatchRegexAndExpand result or the looked-up entry with only `seen` changed", "the cache can change the filter decision: "+detail)
	// (d) Aggregator.Matcher never written after construction
	nw := 0
	for _, fn := range c.P.Funcs {
		allInstrs(fn, func(in ssa.Instruction) {
			if fa, ok := in.(*ssa.FieldAddr); ok && fieldOfAddr(fa) == matcherF && !isFreshObject(fa.X) {
				for _, r := range *fa.Referrers() {
					if st, ok := r.(*ssa.Store); ok && st.Addr == fa {
						nw++
						c.Violate(FuncName(fn)+" writes Aggregator.Matcher", c.At(st), "the aggregation filter is replaced after construction while cached verdicts computed with the old filter stay in use")
					}
				}
			}
		})
	}
	if nw == 0 {
		c.Hold("Aggregator.Matcher immutable after construction", "-", "no store to the field outside constructors")
	}
	_ = types.Typ
}

// callersHoldFieldMutex: every static call site of the method fn holds the mutex field muF of the
// object it passes as receiver (exclusively if asked), or lies in a helper for which the same is true.
func callersHoldFieldMutex(p *Prog, fn *ssa.Function, muF *types.Var, exclusive bool, depth int) bool {
	if depth > 2 || fn.Signature.Recv() == nil {
		return false
	}
	ins := p.CG().In[fn]
	if len(ins) == 0 {
		return false
	}
	for _, e := range ins {
		cc := callCommon(e.Site)
		if e.Kind != EdgeCall || e.Dyn || cc == nil || len(cc.Args) == 0 {
			return false
		}
		recv := cc.Args[0]
		ops := mutexOps(e.Caller)
		same := func(m mutexOp) bool { return m.field == muF && sameBase(m.base, recv) }
		held := false
		if exclusive {
			_, held = heldExclusiveAt(ops, same, e.Site)
		} else {
			_, held = heldAt(ops, same, e.Site)
		}
		if held {
			continue
		}
		if len(ops) == 0 && callersHoldFieldMutex(p, e.Caller, muF, exclusive, depth+1) {
			continue
		}
		return false
	}
	return true
}

// cacheLookupFunc: the function that looks the name up in the aggregator's match cache —
// matchWithCache, or the helper method it calls for that — and that function's key parameter.
func cacheLookupFunc(c *Check) (*ssa.Function, *ssa.Parameter) {
	mwc := c.P.Func("aggregator", "*Aggregator", "matchWithCache")
	cacheF := c.P.Field("aggregator", "Aggregator", "reCache")
	has := func(f *ssa.Function) bool {
		found := false
		allInstrs(f, func(in ssa.Instruction) {
			if l, ok := in.(*ssa.Lookup); ok {
				if _, fld, ok := fieldLoad(l.X); ok && fld == cacheF {
					found = true
				}
			}
		})
		return found
	}
	if has(mwc) {
		return mwc, mwc.Params[1]
	}
	for _, f := range workerFuncs(c.P, mwc) {
		if f == mwc || f.Parent() != nil || !has(f) {
			continue
		}
		for _, par := range f.Params {
			if args, ok := c.P.paramArgs(par); ok && len(args) == 1 && args[0] == ssa.Value(mwc.Params[1]) {
				return f, par
			}
		}
	}
	return mwc, mwc.Params[1]
}

// c03r8: the byte-slice fields that Match and PreMatch test (prefix, notPrefix, sub, notSub) are the
// configured options themselves: every store into one of them, anywhere in the module, stores
// []byte(<the equally named option string of the same Matcher>). The truth tables of R3 are stated
// over these fields; this rule ties the fields to the options a user configured.
func c03r8(c *Check) {
	n := 0
	for _, low := range []string{"prefix", "notPrefix", "sub", "notSub"} {
		up := strings.ToUpper(low[:1]) + low[1:]
		fLow := c.P.Field("matcher", "Matcher", low)
		fUp := c.P.Field("matcher", "Matcher", up)
		bad := ""
		stores := 0
		for _, fn := range c.P.Funcs {
			allInstrs(fn, func(in ssa.Instruction) {
				st, ok := in.(*ssa.Store)
				if !ok {
					return
				}
				fa, ok := st.Addr.(*ssa.FieldAddr)
				if !ok || fieldOfAddr(fa) != fLow {
					return
				}
				stores++
				cv, ok := st.Val.(*ssa.Convert)
				if !ok {
					bad = "Matcher." + low + " is assigned something other than []byte(" + up + ") at " + c.At(st)
					return
				}
				base, f, ok := fieldLoad(cv.X)
				if !ok || f != fUp || !sameBase(base, fa.X) {
					bad = "Matcher." + low + " is assigned something other than []byte(" + up + ") of the same matcher at " + c.At(st)
				}
			})
		}
		n++
		c.Judge(bad == "" && stores > 0, "matcher.Matcher."+low+" mirrors option "+up, "matcher/matcher.go", fmt.Sprintf("%d stores, all []byte(m.%s)", stores, up), bad+": the condition that Match/PreMatch evaluate is no longer the configured option (e.g. it is replaced by a longer prefix derived from the regex, so the user's prefix condition is lost)")
	}
	_ = n
}
