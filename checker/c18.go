package main

import (
	"fmt"
	"go/token"
	"go/types"
	"sort"
	"strings"

	"golang.org/x/tools/go/ssa"
)

func init() {
	register(&PropDef{
		ID:    "C18",
		Title: "Runtime table changes are atomic with respect to traffic",
		Decided: "R1 no in-place write (element store, copy, sort, append on a shortened un-clipped reslice) reaches a slice derived from a snapshot published through an atomic.Value; " +
			"R2 every Store of a published snapshot happens under the owner's mutex, which is also held at the Load it derives from; " +
			"R3 every function reads the published snapshot at most once and never inside a loop; " +
			"R4 indexing a snapshot slice with a caller-supplied integer is guarded by an upper-bound test that returns an error before any Store, and the not-found path of DelRoute stores nothing and returns nil; " +
			"R5 a removed entity is unpublished (Store) before it is shut down, and hand-off sends to a receiver loop that can exit are not bare; " +
			"R6 Destination.Matcher is only accessed under lockMatcher.",
		NotDecided: "linearizability of whole histories of admin operations and dispatches; the table view printed by Snapshot/Print; negative indices.",
		Assumptions: []string{"the Go memory model: a reader that obtained a snapshot through atomic.Value.Load sees the slices as they were at Store time provided nobody writes to their backing arrays (this is what R1 enforces)",
			"appending to a published slice (write at index len) is invisible to readers of the shorter snapshot; valid because deletes copy (R1) and writers are serialised (R2)"},
		Rules: []RuleDef{
			{ID: "C18.R1", Min: 9, Doc: "copy-on-write: for every append/copy/sort/element-store whose destination derives from (*atomic.Value).Load() of a published config: appending to the full snapshot slice is allowed; any other in-place write, in particular append(s[:i], ...) without a capacity clip s[:i:i], is a violation", Run: c18r1},
			{ID: "C18.R2", Min: 12, Doc: "writer lock discipline: every (*atomic.Value).Store on a struct field outside a constructor (object allocated in the same function) is dominated by Lock() of the owner's mutex, that Lock also dominates the Load() in the function, and no Unlock of it can run before the Store", Run: c18r2},
			{ID: "C18.R3", Min: 15, Doc: "one view per call: each function has at most one Load() of a given published config and it is not inside a loop", Run: c18r3},
			{ID: "C18.R4", Min: 7, Doc: "index guard: a snapshot slice indexed by an int parameter needs a dominating `param >= len(slice)` (or `len(slice) <= param`) test whose true edge returns a non-nil error and reaches no Store; DelRoute's not-found paths store nothing and return nil", Run: c18r4},
			{ID: "C18.R5", Min: 5, Doc: "unpublish before shutdown: in a function that both Stores a new snapshot and calls Shutdown on a route/aggregator/destination, the Store dominates the Shutdown call; a send on a channel field whose only receiver is a select loop that can return must be inside a select with another ready case", Run: c18r5},
			{ID: "C18.R6", Min: 3, Doc: "lockset: every access to Destination.Matcher on an object that is neither freshly allocated nor a Snapshot() copy happens while lockMatcher is held", Run: c18r6},
			{ID: "C18.R7", Min: 2, Doc: "a modification takes effect: in route.update and Destination.Update the flag under which the new filter is built and installed becomes true for each of the six filter options and is never cleared or recomputed inside the option loop (part of rule C20.R1 evaluated for this property as well)", Run: func(c *Check) {
				checkUpdateFlag(c, funcCalling(c.P, c.P.Func("route", "*baseRoute", "update"), modPath+"/matcher.New"), "route.baseRoute.update (modRoute)")
				checkUpdateFlag(c, funcCalling(c.P, c.P.Func("destination", "*Destination", "Update"), modPath+"/matcher.New"), "destination.Destination.Update (modDest)")
			}},
		},
	})
}

func describeAppend(p *Prog, in ssa.Instruction) string {
	return FuncName(in.Parent())
}

func c18r1(c *Check) {
	t := computeTaint(c.P)
	n := 0
	for _, fn := range c.P.Funcs {
		fname := FuncName(fn)
		allInstrs(fn, func(in ssa.Instruction) {
			switch x := in.(type) {
			case *ssa.Call:
				cc := x.Common()
				name := calleeName(cc)
				switch {
				case name == "builtin.append":
					sh := t.shape(cc.Args[0])
					if !sh.tainted {
						return
					}
					n++
					what := typeElem(cc.Args[0].Type())
					key := fmt.Sprintf("%s append(%s)", fname, what)
					switch {
					case !sh.resliced:
						c.Hold(key+" full", c.At(in), "append to the complete snapshot slice writes only at index len, which no reader of the published snapshot ranges over")
					case sh.clipped:
						c.Hold(key+" clipped", c.At(in), "append to s[:i:i]: capacity equals length, so append always copies")
					default:
						c.Violate(key+" reslice", c.At(in), "append(s[:i], ...) on a slice derived from the published snapshot shifts elements inside the backing array that concurrent dispatchers still range over (an entry is seen twice, another skipped)")
					}
				case name == "builtin.copy":
					if sh := t.shape(cc.Args[0]); sh.tainted {
						n++
						c.Violate(fmt.Sprintf("%s copy(dst=%s)", fname, typeElem(cc.Args[0].Type())), c.At(in), "copy into a slice derived from the published snapshot")
					}
				case strings.HasPrefix(name, "sort.") || strings.HasPrefix(name, "slices.Sort") || strings.HasPrefix(name, "slices.Reverse"):
					for _, a := range cc.Args {
						if t.is(strip(a)) || t.is(a) {
							n++
							c.Violate(fmt.Sprintf("%s %s(snapshot)", fname, name), c.At(in), "in-place sort of a slice derived from the published snapshot")
						}
					}
				}
			case *ssa.Store:
				if ia, ok := x.Addr.(*ssa.IndexAddr); ok {
					if t.is(ia.X) || t.shape(ia.X).tainted {
						n++
						c.Violate(fmt.Sprintf("%s store %s[i]", fname, typeElem(ia.X.Type())), c.At(in), "element store into a slice derived from the published snapshot")
					}
				}
				// the snapshot itself is a pointer (Store(&config)): a field assignment through what Load returned
				// changes the very object that dispatchers are reading
				if fa, ok := x.Addr.(*ssa.FieldAddr); ok && isPublishedPointer(c.P, fa.X, 0) {
					n++
					c.Violate(fmt.Sprintf("%s store snapshot.%s", fname, fieldOfAddr(fa).Name()), c.At(in), "a field of the published snapshot object is assigned in place (the atomic.Value holds a pointer, and the pointer that Load returned is written through): dispatchers that loaded the snapshot earlier see the table change under them, and the Store that follows publishes the same object again")
				}
			}
		})
	}
	// a re-slice that keeps spare capacity of the shared backing array must not be published:
	// the next append on the new snapshot would write into a slot older snapshots still read
	for _, fn := range c.P.Funcs {
		fname := FuncName(fn)
		allInstrs(fn, func(in ssa.Instruction) {
			_, fld, ok := publishedAccess(in, atomicStore)
			if !ok {
				return
			}
			arg := callCommon(in).Args[1]
			seen := map[ssa.Value]bool{}
			var short ssa.Value
			var walk func(v ssa.Value, depth int)
			walk = func(v ssa.Value, depth int) {
				if v == nil || seen[v] || depth > 30 || short != nil {
					return
				}
				seen[v] = true
				if t.short[v] {
					short = v
					return
				}
				switch x := v.(type) {
				case *ssa.MakeInterface:
					walk(x.X, depth+1)
				case *ssa.ChangeType:
					walk(x.X, depth+1)
				case *ssa.ChangeInterface:
					walk(x.X, depth+1)
				case *ssa.Phi:
					for _, e := range x.Edges {
						walk(e, depth+1)
					}
				case *ssa.Call:
					if b, ok := x.Call.Value.(*ssa.Builtin); ok {
						// append(dst, src...): only dst's backing array can be the result's
						if b.Name() == "append" && len(x.Call.Args) > 0 {
							walk(x.Call.Args[0], depth+1)
						}
						return
					}
					for _, a := range x.Call.Args {
						walk(a, depth+1)
					}
				case *ssa.UnOp:
					if al, ok := x.X.(*ssa.Alloc); ok && x.Op == token.MUL {
						for _, r := range *al.Referrers() {
							switch y := r.(type) {
							case *ssa.Store:
								if y.Addr == ssa.Value(al) {
									walk(y.Val, depth+1)
								}
							case *ssa.FieldAddr:
								for _, rr := range *y.Referrers() {
									if st, ok := rr.(*ssa.Store); ok && st.Addr == ssa.Value(y) {
										walk(st.Val, depth+1)
									}
								}
							}
						}
					}
				}
			}
			walk(arg, 0)
			if short != nil {
				n++
				pos := c.At(in)
				if si, ok := short.(ssa.Instruction); ok {
					pos = c.At(si)
				}
				c.Violate(fmt.Sprintf("%s publishes a re-slice of the old snapshot (%s)", fname, fld.Name()), pos, "the new snapshot's slice is s[:i] of the previous snapshot's backing array (capacity not clipped): the next append on it overwrites a slot that dispatchers holding an older snapshot still read — a metric goes to a destination/route that neither the table before nor after the change contains")
			}
		})
	}
	c.Stat("tainted_values", len(t.vals))
	c.Stat("write_sites_on_snapshots", n)
}

func typeElem(t types.Type) string {
	if s, ok := t.Underlying().(*types.Slice); ok {
		return "[]" + short(types.TypeString(s.Elem(), nil))
	}
	if p, ok := t.Underlying().(*types.Pointer); ok {
		return "*" + typeElem(p.Elem())
	}
	return short(types.TypeString(t, nil))
}

// publishedStores lists Store calls on atomic.Value fields of module structs.
func c18r2(c *Check) {
	for _, fn := range c.P.Funcs {
		ops := mutexOps(fn)
		var loads []ssa.Instruction
		allInstrs(fn, func(in ssa.Instruction) {
			if _, _, ok := publishedAccess(in, atomicLoad); ok {
				loads = append(loads, in)
			}
		})
		allInstrs(fn, func(in ssa.Instruction) {
			base, fld, ok := publishedAccess(in, atomicStore)
			if !ok {
				return
			}
			key := fmt.Sprintf("%s Store(%s)", FuncName(fn), fld.Name())
			if isFreshObject(base) {
				c.Hold(key+" constructor", c.At(in), "the object is allocated in this function and not yet shared")
				return
			}
			same := func(m mutexOp) bool {
				return m.field != nil && m.field.Type().String() == "sync.Mutex" && sameBase(m.base, base)
			}
			lock, held := heldAt(ops, same, in)
			if !held && len(ops) == 0 && storeCallersHoldLock(c.P, fn, base, 0) {
				// a publishing helper (modify(edit)) that takes no lock itself: every call site holds the owner's
				// mutex; the Load the Store derives from lies in the helper as well, i.e. in the same critical section
				okLoads := true
				for _, l := range loads {
					lb, lf, _ := publishedAccess(l, atomicLoad)
					if lf == fld && !sameBase(lb, base) {
						okLoads = false
					}
				}
				if okLoads {
					c.Hold(key, c.At(in), "helper without lock operations; every call site holds the owner's mutex around the call")
					return
				}
			}
			if !held {
				c.Violate(key, c.At(in), "Store of a published snapshot without the owner's mutex held: two writers can each derive a new snapshot from the same old one and one change is lost")
				return
			}
			for _, l := range loads {
				lb, lf, _ := publishedAccess(l, atomicLoad)
				if lf == fld && sameBase(lb, base) && !instrDominates(lock, l) {
					c.Violate(key, c.At(l), "the Load this Store derives from is not under the same critical section")
					return
				}
			}
			c.Hold(key, c.At(in), "Lock at "+c.At(lock)+" dominates Load and Store; unlock is deferred or later")
		})
	}
}

func c18r3(c *Check) {
	for _, fn := range c.P.Funcs {
		loops := loopsOf(fn)
		perField := map[*types.Var][]ssa.Instruction{}
		allInstrs(fn, func(in ssa.Instruction) {
			if _, fld, ok := publishedAccess(in, atomicLoad); ok {
				perField[fld] = append(perField[fld], in)
			}
		})
		for fld, ls := range perField {
			key := fmt.Sprintf("%s Load(%s)", FuncName(fn), fld.Name())
			if len(ls) > 1 {
				c.Violate(key, c.At(ls[1]), fmt.Sprintf("%d Loads of the same published config in one function: parts of one call may work against different snapshots", len(ls)))
				continue
			}
			if innermostLoop(loops, ls[0].Block()) != nil {
				c.Violate(key, c.At(ls[0]), "Load of the published config inside a loop: iterations may see different snapshots")
				continue
			}
			// no second view through a method called on the same object
			if why := secondViewThroughCallee(c, fn, fld, ls[0]); why != "" {
				c.Violate(key, c.At(ls[0]), why)
				continue
			}
			c.Hold(key, c.At(ls[0]), "single Load, outside any loop, and no callee on the same object loads it again")
		}
	}
}

// secondViewThroughCallee: fn (a method that loads the published config fld of its receiver) calls,
// on the same receiver and synchronously, a method that loads fld again.
func secondViewThroughCallee(c *Check, fn *ssa.Function, fld *types.Var, load ssa.Instruction) string {
	if fn.Signature.Recv() == nil || len(fn.Params) == 0 {
		return ""
	}
	loadsField := func(g *ssa.Function) ssa.Instruction {
		var at ssa.Instruction
		allInstrs(g, func(in ssa.Instruction) {
			if _, f2, ok := publishedAccess(in, atomicLoad); ok && f2 == fld {
				at = in
			}
		})
		return at
	}
	type item struct {
		f    *ssa.Function
		recv ssa.Value
	}
	seen := map[*ssa.Function]bool{fn: true}
	work := []item{{fn, fn.Params[0]}}
	for len(work) > 0 {
		it := work[len(work)-1]
		work = work[:len(work)-1]
		var res string
		allInstrs(it.f, func(in ssa.Instruction) {
			call, ok := in.(*ssa.Call)
			if !ok || res != "" {
				return
			}
			g := call.Call.StaticCallee()
			if g == nil || g.Blocks == nil || g.Signature.Recv() == nil || len(call.Call.Args) == 0 || seen[g] {
				return
			}
			if strip(call.Call.Args[0]) != strip(it.recv) {
				return
			}
			seen[g] = true
			if at := loadsField(g); at != nil {
				res = fmt.Sprintf("%s holds one snapshot of %s and calls %s on the same object, which loads it again (%s): one message is processed against two versions of the table — e.g. blacklisted/rewritten under the old one and routed under the new one", FuncName(fn), fld.Name(), FuncName(g), c.At(at))
				return
			}
			work = append(work, item{g, g.Params[0]})
		})
		if res != "" {
			return res
		}
	}
	return ""
}

func c18r4(c *Check) {
	t := computeTaint(c.P)
	for _, fn := range c.P.Funcs {
		// caller-supplied integers: int parameters, and int variables of the enclosing function that a
		// closure captures (the index of a Del* function used inside a `modify` closure)
		type idxVar struct {
			name string
			is   func(v ssa.Value) bool
			par  *ssa.Parameter
		}
		var cands []idxVar
		for _, par := range fn.Params {
			par := par
			if b, ok := par.Type().Underlying().(*types.Basic); ok && b.Kind() == types.Int {
				cands = append(cands, idxVar{par.Name(), func(v ssa.Value) bool { return v == ssa.Value(par) }, par})
			}
		}
		for _, fv := range fn.FreeVars {
			fv := fv
			pt, ok := fv.Type().(*types.Pointer)
			if !ok {
				continue
			}
			if b, ok := pt.Elem().Underlying().(*types.Basic); ok && b.Kind() == types.Int {
				cands = append(cands, idxVar{fv.Name(), func(v ssa.Value) bool {
					u, ok := v.(*ssa.UnOp)
					return ok && u.Op == token.MUL && u.X == ssa.Value(fv)
				}, nil})
			}
		}
		for _, cand := range cands {
			var derived func(v ssa.Value) bool
			derived = func(v ssa.Value) bool {
				if v == nil {
					return false
				}
				if cand.is(v) {
					return true
				}
				if bo, ok := v.(*ssa.BinOp); ok {
					return derived(bo.X) || derived(bo.Y)
				}
				return false
			}
			var uses []ssa.Instruction
			allInstrs(fn, func(in ssa.Instruction) {
				if ia, ok := in.(*ssa.IndexAddr); ok && derived(ia.Index) && (t.is(ia.X) || t.shape(ia.X).tainted) {
					uses = append(uses, ia)
				}
				if sl, ok := in.(*ssa.Slice); ok && t.is(sl.X) && (sl.High != nil && derived(sl.High) || sl.Low != nil && derived(sl.Low)) {
					uses = append(uses, sl)
				}
			})
			if len(uses) == 0 {
				continue
			}
			key := fmt.Sprintf("%s index %s", FuncName(EnclosingDecl(fn)), cand.name)
			// find guard: if par >= len(x) (x tainted) -> true edge returns non-nil error without Store
			findGuard := func(gf *ssa.Function, candIs func(ssa.Value) bool) (*ssa.If, int, int) {
				var guard *ssa.If
				inSucc, outSucc := 1, 0

				isLenOf := func(v ssa.Value, ok2 func(ssa.Value) bool) bool {
					call, ok := v.(*ssa.Call)
					if !ok {
						return false
					}
					b, ok := call.Call.Value.(*ssa.Builtin)
					return ok && b.Name() == "len" && ok2(call.Call.Args[0])
				}
				allInstrs(gf, func(in ssa.Instruction) {
					ifi, ok := in.(*ssa.If)
					if !ok {
						return
					}
					bo, ok := ifi.Cond.(*ssa.BinOp)
					if !ok {
						return
					}
					isLen := func(v ssa.Value) bool {
						return isLenOf(v, func(x ssa.Value) bool { return t.is(x) || t.shape(x).tainted })
					}
					if (bo.Op == token.GEQ && candIs(bo.X) && isLen(bo.Y)) || (bo.Op == token.LEQ && candIs(bo.Y) && isLen(bo.X)) {
						guard = ifi
					}
				})
				if guard == nil {
					// the bound test lives in a validator: err := checkIndex(snapshot, index); if err != nil { return err }
					allInstrs(gf, func(in ssa.Instruction) {
						call, ok := in.(*ssa.Call)
						if !ok || guard != nil {
							return
						}
						g := call.Call.StaticCallee()
						if g == nil || len(g.Blocks) == 0 || !ModuleFunc(g) {
							return
						}
						res := g.Signature.Results()
						if res.Len() != 1 || !types.Identical(res.At(0).Type(), errorType) {
							return
						}
						pi := -1
						hasSnap := false
						for ai, a := range call.Call.Args {
							if candIs(a) {
								pi = ai
							}
							if t.is(a) || t.shape(a).tainted || isSnapshotLoad(strip(a)) {
								hasSnap = true
							}
						}
						if pi < 0 || !hasSnap || pi >= len(g.Params) {
							return
						}
						par := g.Params[pi]
						// in g: the edge on which par >= len(<something of another parameter>) returns only non-nil errors,
						// and no nil error is returned without passing that test
						okHelper := false
						for _, b := range g.Blocks {
							ifi, ok := b.Instrs[len(b.Instrs)-1].(*ssa.If)
							if !ok {
								continue
							}
							bo, ok := ifi.Cond.(*ssa.BinOp)
							if !ok {
								continue
							}
							fromParam := func(x ssa.Value) bool {
								// an accessor of a parameter (conf.Dests()) counts as part of it
								if call, ok := x.(*ssa.Call); ok && len(call.Call.Args) <= 1 {
									if call.Call.IsInvoke() && len(call.Call.Args) == 0 {
										x = call.Call.Value
									} else if !call.Call.IsInvoke() && len(call.Call.Args) == 1 {
										x = call.Call.Args[0]
									}
								}
								for _, q := range g.Params {
									if q != par && derivedFrom(x, q, map[ssa.Value]bool{}) {
										return true
									}
								}
								return false
							}
							if !((bo.Op == token.GEQ && bo.X == ssa.Value(par) && isLenOf(bo.Y, fromParam)) || (bo.Op == token.LEQ && bo.Y == ssa.Value(par) && isLenOf(bo.X, fromParam))) {
								continue
							}
							good := true
							for _, rb := range g.Blocks {
								ret, ok := rb.Instrs[len(rb.Instrs)-1].(*ssa.Return)
								if !ok {
									continue
								}
								cst, isC := ret.Results[0].(*ssa.Const)
								nilErr := isC && cst.IsNil()
								onOut := edgeDominates(b, b.Succs[0], rb)
								onIn := edgeDominates(b, b.Succs[1], rb)
								if onOut && (nilErr || !isC && !isErrorCtor(ret.Results[0])) {
									good = false
								}
								if nilErr && !onIn {
									good = false
								}
							}
							if good {
								okHelper = true
							}
						}
						if !okHelper {
							return
						}
						for _, b := range gf.Blocks {
							ifi, ok := b.Instrs[len(b.Instrs)-1].(*ssa.If)
							if !ok {
								continue
							}
							e, errEdge, ok := errTest(ifi.Cond)
							if !ok || e != ssa.Value(call) {
								continue
							}
							guard = ifi
							if errEdge {
								outSucc, inSucc = 0, 1
							} else {
								outSucc, inSucc = 1, 0
							}
						}
					})
				}
				return guard, inSucc, outSucc
			}
			guard, inSucc, outSucc := findGuard(fn, cand.is)
			if guard == nil && cand.par != nil {
				// a helper that is handed the slice and the index (withoutDest(dests, index)): every call site
				// lies on the in-range edge of a bound test on the argument it passes
				idx := -1
				for i, p := range fn.Params {
					if p == cand.par {
						idx = i
					}
				}
				ins := c.P.CG().In[fn]
				all := len(ins) > 0 && idx >= 0
				for _, e := range ins {
					cc := callCommon(e.Site)
					if e.Kind != EdgeCall || e.Dyn || cc == nil || idx >= len(cc.Args) {
						all = false
						break
					}
					arg := cc.Args[idx]
					g2, in2, _ := findGuard(e.Caller, func(v ssa.Value) bool {
						if v == arg {
							return true
						}
						// two loads of the same captured / local variable
						u1, ok1 := v.(*ssa.UnOp)
						u2, ok2 := arg.(*ssa.UnOp)
						return ok1 && ok2 && u1.X == u2.X
					})
					if g2 == nil || !edgeDominates(g2.Block(), g2.Block().Succs[in2], e.Site.Block()) {
						all = false
					}
				}
				if all {
					c.Hold(key, c.At(uses[0]), "helper: every call site passes an index that was bound-tested by the caller")
					continue
				}
			}
			if guard == nil {
				c.Violate(key, c.At(uses[0]), "snapshot slice indexed by a caller-supplied integer without an upper-bound test")
				continue
			}
			okAll := true
			for _, u := range uses {
				// the use must lie on the in-range edge of the guard
				if !edgeDominates(guard.Block(), guard.Block().Succs[inSucc], u.Block()) {
					okAll = false
					c.Violate(key, c.At(u), "index use is not dominated by the in-range edge of the bound test")
				}
			}
			// the true edge returns an error and reaches no Store
			paths, _ := EnumPaths(fn, guard.Block().Succs[outSucc], &PathCfg{Classify: func(in ssa.Instruction) []string {
				if _, _, ok := publishedAccess(in, atomicStore); ok {
					return []string{"store"}
				}
				return nil
			}})
			for _, pa := range paths {
				if pa.Has("store") {
					okAll = false
					c.Violate(key, c.At(guard), "the out-of-range edge reaches a Store")
				}
				if pa.End == "return" && len(pa.Ret) > 0 && isNilConst(pa.Ret[len(pa.Ret)-1]) {
					okAll = false
					c.Violate(key, c.At(pa.Last), "the out-of-range edge returns a nil error")
				}
			}
			// a closure that edits the copy on behalf of a caller: the caller must not publish when the closure reports an error
			if okAll && fn.Parent() != nil {
				for _, e := range c.P.CG().In[fn] {
					if e.Kind == EdgeRef {
						continue
					}
					site, ok := e.Site.(*ssa.Call)
					if !ok {
						continue
					}
					allInstrs(e.Caller, func(in ssa.Instruction) {
						if _, _, ok := publishedAccess(in, atomicStore); !ok {
							return
						}
						gated := false
						for _, b := range e.Caller.Blocks {
							ifi, ok := b.Instrs[len(b.Instrs)-1].(*ssa.If)
							if !ok {
								continue
							}
							ev, errEdge, ok := errTest(ifi.Cond)
							if !ok || (ev != ssa.Value(site) && !derivedFrom(ev, site, map[ssa.Value]bool{})) {
								continue
							}
							si := 1
							if !errEdge {
								si = 0
							}
							if edgeDominates(b, b.Succs[si], in.Block()) {
								gated = true
							}
						}
						if !gated {
							okAll = false
							c.Violate(key, c.At(in), "the function that applies the edit publishes the table even when the edit reported an out-of-range index")
						}
					})
				}
			}
			if okAll {
				c.Hold(key, c.At(guard), fmt.Sprintf("%d indexed uses guarded; out-of-range edge returns an error before any Store", len(uses)))
			}
		}
	}
	// no-op delete of an unknown route
	fn := c.P.Func("table", "*Table", "DelRoute")
	keyEq := func(v ssa.Value) bool {
		bo, ok := v.(*ssa.BinOp)
		if !ok || bo.Op != token.EQL {
			return false
		}
		call, ok := bo.X.(*ssa.Call)
		return ok && calleeName(call.Common()) == "("+modPath+"/route.Route).Key"
	}
	var branches []bool
	_ = branches
	// helpers of the package are expanded, so the key comparison may live in a lookup helper
	// (findRoute(routes, key) (index, found)): its results are bound along the path
	cfg := &PathCfg{Inline: func(g *ssa.Function) bool { return fnPkg(g) == fnPkg(fn) && g != fn }, Classify: func(in ssa.Instruction) []string {
		if _, _, ok := publishedAccess(in, atomicStore); ok {
			return []string{"store"}
		}
		if isCallNamed(in, "("+modPath+"/route.Route).Shutdown") {
			return []string{"shutdown"}
		}
		return nil
	}, Branch: func(ifi *ssa.If, cond ssa.Value, taken bool) []string {
		if keyEq(cond) && taken {
			return []string{"found"}
		}
		return nil
	}}
	paths, trunc := EnumPaths(fn, nil, cfg)
	bad := 0
	nf := 0
	for _, pa := range paths {
		if pa.Has("found") {
			continue
		}
		nf++
		if pa.Has("store") || pa.Has("shutdown") {
			bad++
			c.ViolateW("table.(*Table).DelRoute not-found-path", c.AtFn(fn), "deleting an unknown route must be a no-op, but this path stores/shuts down", []string{pa.String()})
		}
		if pa.End == "return" && (len(pa.Ret) != 1 || !isNilConst(pa.Ret[0])) {
			bad++
			c.ViolateW("table.(*Table).DelRoute not-found-path", c.AtFn(fn), "deleting an unknown route must return nil", []string{pa.String()})
		}
	}
	if trunc || nf == 0 {
		c.Undecided("table.(*Table).DelRoute paths", c.AtFn(fn), "path enumeration incomplete")
	} else if bad == 0 {
		c.Hold("table.(*Table).DelRoute not-found-path", c.AtFn(fn), fmt.Sprintf("%d paths, %d without a key match: none stores or shuts down, all return nil", len(paths), nf))
	}
	c.Stat("paths", len(paths))
}

func derivedArith(v, root ssa.Value) bool {
	if v == root {
		return true
	}
	if bo, ok := v.(*ssa.BinOp); ok {
		return derivedArith(bo.X, root) || derivedArith(bo.Y, root)
	}
	return false
}

func isShutdownCall(in ssa.Instruction) (string, bool) {
	cc := callCommon(in)
	if cc == nil {
		return "", false
	}
	n := calleeName(cc)
	switch n {
	case "(" + modPath + "/route.Route).Shutdown", "(*" + modPath + "/aggregator.Aggregator).Shutdown", "(*" + modPath + "/destination.Destination).Shutdown":
		return short(n), true
	}
	return "", false
}

func c18r5(c *Check) {
	storeBeforeShutdown(c, "")
	// (b) bare sends to mortal receivers
	inField := c.P.Field("destination", "Destination", "In")
	relay := c.P.Func("destination", "*Destination", "relay")
	// the receiver: select state receiving from dest.In inside relay's loop; relay can return
	recvInLoop, canReturn := false, false
	loops := loopsOf(relay)
	allInstrs(relay, func(in ssa.Instruction) {
		if sel, ok := in.(*ssa.Select); ok {
			for _, st := range sel.States {
				if st.Dir == types.RecvOnly && isFieldLoad(st.Chan, inField) && innermostLoop(loops, in.Block()) != nil {
					recvInLoop = true
				}
			}
		}
		if _, ok := in.(*ssa.Return); ok && in.Block() != relay.Recover {
			canReturn = true
		}
	})
	if !recvInLoop {
		anchorFail("receive on Destination.In in the relay select loop not found")
	}
	nRecv := 0
	for _, fn := range c.P.Funcs {
		allInstrs(fn, func(in ssa.Instruction) {
			if sel, ok := in.(*ssa.Select); ok {
				for _, st := range sel.States {
					if st.Dir == types.RecvOnly && isFieldLoad(st.Chan, inField) {
						nRecv++
					}
				}
			}
			if u, ok := in.(*ssa.UnOp); ok && u.Op == token.ARROW && isFieldLoad(u.X, inField) {
				nRecv++
			}
		})
	}
	// a send site is identified by the route's Dispatch method(s) that execute it (the site itself
	// may sit in a helper shared by several route types)
	var dispatchImpls []*ssa.Function
	for _, fn := range c.P.Funcs {
		if fn.Name() == "Dispatch" && fn.Signature.Recv() != nil && fnPkg(fn) != nil && fnPkg(fn).Path() == modPath+"/route" {
			dispatchImpls = append(dispatchImpls, fn)
		}
	}
	for _, fn := range c.P.Funcs {
		fn := fn
		allInstrs(fn, func(in ssa.Instruction) {
			if s, ok := in.(*ssa.Send); ok && isFieldLoad(s.Chan, inField) {
				var owners []string
				for _, d := range dispatchImpls {
					for _, g := range samePkgCallees(c.P, d) {
						if g == fn {
							owners = append(owners, FuncName(d))
						}
					}
				}
				if len(owners) == 0 {
					owners = []string{FuncName(fn)}
				}
				sort.Strings(owners)
				for _, o := range owners {
					key := fmt.Sprintf("%s bare send Destination.In", o)
					if canReturn {
						c.Violate(key, c.At(in), "unconditional send to the destination's relay loop, which exits on Shutdown: a dispatcher still holding a snapshot that lists the destination blocks forever after DelRoute/DelDestination, skipping every later route of its snapshot")
					} else {
						c.Hold(key, c.At(in), "receiver loop never returns")
					}
				}
			}
		})
	}
	c.Stat("receive_sites_Destination.In", nRecv)
}

func c18r6(c *Check) {
	mf := c.P.Field("destination", "Destination", "Matcher")
	lf := c.P.Field("destination", "Destination", "lockMatcher")
	for _, fn := range c.P.Funcs {
		ops := mutexOps(fn)
		seen := map[string]bool{}
		allInstrs(fn, func(in ssa.Instruction) {
			fa, ok := in.(*ssa.FieldAddr)
			if !ok || fieldOfAddr(fa) != mf {
				return
			}
			if isFreshObject(fa.X) || fromSnapshot(fa.X) {
				return
			}
			key := fmt.Sprintf("%s access Destination.Matcher", FuncName(fn))
			if seen[key] {
				return
			}
			same := func(m mutexOp) bool { return m.field == lf && sameBase(m.base, fa.X) }
			// every use of the address must be under the lock
			okAll := true
			for _, r := range *fa.Referrers() {
				if _, held := heldAt(ops, same, r); !held {
					okAll = false
				}
			}
			seen[key] = true
			c.Judge(okAll, key, c.At(fa), "accessed with lockMatcher held", "Destination.Matcher accessed without lockMatcher: Match can observe a half-updated filter while UpdateMatcher replaces it")
		})
	}
}

// fromSnapshot: the object derives from the result of a Snapshot() call (a private copy).
func fromSnapshot(v ssa.Value) bool {
	found := false
	var rec func(v ssa.Value, d int)
	seen := map[ssa.Value]bool{}
	rec = func(v ssa.Value, d int) {
		if found || d > 30 || seen[v] {
			return
		}
		seen[v] = true
		switch x := v.(type) {
		case *ssa.Call:
			n := calleeName(x.Common())
			if strings.HasSuffix(n, ".Snapshot") {
				found = true
			}
		case *ssa.FieldAddr:
			rec(x.X, d+1)
		case *ssa.Field:
			rec(x.X, d+1)
		case *ssa.IndexAddr:
			rec(x.X, d+1)
		case *ssa.Index:
			rec(x.X, d+1)
		case *ssa.UnOp:
			rec(x.X, d+1)
		case *ssa.Phi:
			for _, e := range x.Edges {
				rec(e, d+1)
			}
		case *ssa.Alloc:
			if s := cellValue(x); s != nil {
				rec(s, d+1)
			}
		case *ssa.Extract:
			rec(x.Tuple, d+1)
		case *ssa.Next:
			rec(x.Iter, d+1)
		case *ssa.Range:
			rec(x.X, d+1)
		case *ssa.Slice:
			rec(x.X, d+1)
		}
	}
	rec(v, 0)
	return found
}

// isErrorCtor: v is certainly a non-nil error (fmt.Errorf / errors.New result).
func isErrorCtor(v ssa.Value) bool {
	if mi, ok := v.(*ssa.MakeInterface); ok {
		v = mi.X
	}
	call, ok := v.(*ssa.Call)
	if !ok {
		return false
	}
	switch calleeName(call.Common()) {
	case "fmt.Errorf", "errors.New":
		return true
	}
	return false
}

// storeBeforeShutdown: (a) of C18.R5 — the Store of the new snapshot dominates the Shutdown of the
// removed entity; `only` restricts the rule to Shutdown callees whose name contains it.
func storeBeforeShutdown(c *Check, only string) int {
	nJudged := 0
	isStore := func(in ssa.Instruction) bool {
		base, _, ok := publishedAccess(in, atomicStore)
		return ok && !isFreshObject(base)
	}
	// publishes: g (or a same-package function it calls statically, to a small depth) stores a snapshot
	pubMemo := map[*ssa.Function]bool{}
	var publishes func(g *ssa.Function, depth int) bool
	publishes = func(g *ssa.Function, depth int) bool {
		if g == nil || len(g.Blocks) == 0 || depth > 3 {
			return false
		}
		if v, ok := pubMemo[g]; ok {
			return v
		}
		pubMemo[g] = false
		res := false
		allInstrs(g, func(in ssa.Instruction) {
			if isStore(in) {
				res = true
			}
			if call, ok := in.(*ssa.Call); ok && !res {
				if h := call.Call.StaticCallee(); h != nil && fnPkg(h) == fnPkg(g) && publishes(h, depth+1) {
					res = true
				}
			}
		})
		pubMemo[g] = res
		return res
	}
	for _, fn := range c.P.Funcs {
		var stores, shuts []ssa.Instruction
		allInstrs(fn, func(in ssa.Instruction) {
			if isStore(in) {
				stores = append(stores, in)
			} else if call, ok := in.(*ssa.Call); ok {
				if h := call.Call.StaticCallee(); h != nil && h != fn && fnPkg(h) == fnPkg(fn) && publishes(h, 0) {
					stores = append(stores, in)
				}
			}
			if nm, ok := isShutdownCall(in); ok && strings.Contains(nm, only) {
				if _, isDefer := in.(*ssa.Defer); !isDefer {
					shuts = append(shuts, in)
				}
			}
		})
		if len(shuts) == 0 {
			continue
		}
		if len(stores) == 0 {
			// a closure that a publishing helper runs: it must run after that helper's Store
			if fn.Parent() == nil {
				continue
			}
			for _, e := range c.P.CG().In[fn] {
				site, ok := e.Site.(*ssa.Call)
				if !ok || e.Kind == EdgeRef || e.Caller == fn.Parent() || !publishes(e.Caller, 0) {
					continue
				}
				var st []ssa.Instruction
				allInstrs(e.Caller, func(in ssa.Instruction) {
					if isStore(in) {
						st = append(st, in)
					}
				})
				for _, sh := range shuts {
					name, _ := isShutdownCall(sh)
					key := fmt.Sprintf("%s %s after Store", FuncName(fn), name)
					dom := false
					for _, x := range st {
						if instrDominates(x, site) {
							dom = true
						}
					}
					nJudged++
					c.Judge(dom, key, c.At(sh), "the helper that runs this closure has stored the new snapshot before it calls the closure", "the closure that shuts the entity down is run by "+FuncName(e.Caller)+" before that function stores the new snapshot: traffic that still sees the entity is handed to a goroutine that has exited and blocks forever")
				}
			}
			continue
		}
		for _, sh := range shuts {
			name, _ := isShutdownCall(sh)
			key := fmt.Sprintf("%s %s after Store", FuncName(fn), name)
			dom := false
			for _, st := range stores {
				if instrDominates(st, sh) {
					dom = true
				}
			}
			nJudged++
			c.Judge(dom, key, c.At(sh), "the new snapshot is stored before the removed entity is shut down", "the entity is shut down while the published snapshot still lists it: traffic that sees it is handed to a goroutine that has exited and blocks forever")
		}
	}
	return nJudged
}

// storeCallersHoldLock: fn is a method whose receiver is `base`; every static call site of fn holds a
// sync.Mutex field of the object it passes as receiver (directly, or the caller is itself such a helper).
func storeCallersHoldLock(p *Prog, fn *ssa.Function, base ssa.Value, depth int) bool {
	if depth > 2 || len(fn.Params) == 0 || strip(base) != ssa.Value(fn.Params[0]) {
		return false
	}
	ins := p.CG().In[fn]
	if len(ins) == 0 {
		return false
	}
	for _, e := range ins {
		cc := callCommon(e.Site)
		if e.Kind != EdgeCall || e.Dyn || cc == nil || len(cc.Args) == 0 {
			return false
		}
		recv := cc.Args[0]
		ops := mutexOps(e.Caller)
		same := func(m mutexOp) bool {
			return m.field != nil && m.field.Type().String() == "sync.Mutex" && sameBase(m.base, recv)
		}
		if _, held := heldAt(ops, same, e.Site); held {
			continue
		}
		if len(ops) == 0 && storeCallersHoldLock(p, e.Caller, recv, depth+1) {
			continue
		}
		return false
	}
	return true
}

// isPublishedPointer: v is the pointer that an atomic Load of a published snapshot returned (through a
// type assertion to a pointer type), possibly passed on through phis and parameters.
func isPublishedPointer(p *Prog, v ssa.Value, depth int) bool {
	if depth > 3 {
		return false
	}
	switch x := v.(type) {
	case *ssa.TypeAssert:
		if _, isPtr := x.AssertedType.Underlying().(*types.Pointer); isPtr && isSnapshotLoad(x) {
			return true
		}
	case *ssa.Extract:
		if ta, ok := x.Tuple.(*ssa.TypeAssert); ok && x.Index == 0 {
			return isPublishedPointer(p, ta, depth)
		}
	case *ssa.Phi:
		for _, e := range x.Edges {
			if isPublishedPointer(p, e, depth+1) {
				return true
			}
		}
	case *ssa.Parameter:
		if args, ok := p.paramArgs(x); ok {
			for _, a := range args {
				if isPublishedPointer(p, a, depth+1) {
					return true
				}
			}
		}
	case *ssa.UnOp:
		if al, ok := x.X.(*ssa.Alloc); ok && x.Op == token.MUL {
			if cv := cellValue(al); cv != nil {
				return isPublishedPointer(p, cv, depth+1)
			}
		}
	}
	return false
}
