package main

import (
	"fmt"
	"go/token"
	"go/types"
	"strings"

	"golang.org/x/tools/go/ssa"
)

func init() {
	register(&PropDef{
		ID:    "C07",
		Title: "With spooling on, an endpoint outage loses nothing that is not counted",
		Decided: "R1 when the relay loop finds its connection dead it always disposes of the in-flight data: with spooling it accounts a task and starts collectRedo for that connection before forgetting it, without spooling it releases the buffer; collectRedo hands everything getRedo returns to the spool's bulk inlet and signs the task off on every path; " +
			"R2 the connection writer records every line in the keep-safe buffer before it attempts to write it, and getRedo moves everything still queued into that buffer before it takes the buffer's content; " +
			"R3 every hop of the spool pipeline forwards each value exactly once: Writer (InRT/InBulk → queueBuffer), Buffer (queueBuffer → queue.Put), Ingest (each element, in order, to InBulk); " +
			"R4 unspooling is enabled only while a connection exists, spooling is on and nothing was dropped in this or the previous period, and the unspool case sends to that connection; " +
			"R5 the disk queue's reader and writer agree on record format and segment-roll condition and the read position advances only after delivery; " +
			"R8 every line received by the loop or taken back from the spool ends in exactly one counted disposition (C06.R4).",
		NotDecided: "that the 10 s keep-safe window exceeds failure-detection latency (timing); duplicates versus losses under real schedules; disk write errors (queue.Put's error is discarded — a different fault model).",
		Rules: []RuleDef{
			{ID: "C07.R1", Min: 3, Doc: "redo on dead connection: path enumeration of the relay loop head (from the loop header to the select) and of collectRedo", Run: c07r1},
			{ID: "C07.R2", Min: 2, Doc: "keep before write: keepSafe.Add(buf) dominates Conn.Write(buf) for the same received value; in getRedo every received value goes to keepSafe.Add and GetAll is called only on the drained path", Run: c07r2},
			{ID: "C07.R3", Min: 4, Doc: "lossless hops: per-case path enumeration of Spool.Writer and Spool.Buffer; Ingest's range loop", Run: c07r3},
			{ID: "C07.R5", Min: 3, Doc: "the disk queue behind the spool hands back what it was given: reader and writer agree on the record format and segment-roll condition, and the read position only advances after delivery (rules C09.R5 and C09.R2 evaluated for this property as well)", Run: func(c *Check) { c09r5(c); c09r2(c) }},
			{ID: "C07.R6", Min: 5, Doc: "keep-safe generations: every store into keepSafe.safeRecent is append(safeRecent, …), a fresh make or nil, every store into safeOld is the current safeRecent, a fresh make or nil; after safeOld = safeRecent the recent generation gets a fresh backing array before anything else can append; Add appends its argument; GetAll returns append(safeOld, safeRecent...)", Run: c07r6},
			{ID: "C07.R7", Min: 1, Doc: "keep-safe retention: the period every NewKeepSafe call is given is a constant of at least 10 s (directly, or a package variable that is only ever assigned such constants) — lines written less than 10 s before an outage is detected are still available for replay, whatever flush period is configured", Run: c07r7},
			{ID: "C07.R8", Min: 7, Doc: "nothing leaves uncounted: every line the relay loop receives from In or takes back from the spool ends in exactly one disposition (queued to the connection, queued to the spool, or counted in the slow-connection / slow-spool / connection-down counter) — a line taken from the disk queue and not sent is gone, so the unspool case must count it (rule C06.R4 evaluated for this property as well)", Run: c06r4},
			{ID: "C07.R4", Min: 2, Doc: "unspool gating: the assignment toUnspool = spool.Out is dominated by the true edges of conn != nil, Spool, !SlowLastLoop, !SlowNow; the other assignment is nil", Run: c07r4},
		},
	})
}

func c07r1(c *Check) {
	m := buildRelayModel(c)
	paths, trunc := relayHeadPaths(c, m)
	var probs []string
	nDead := 0
	okArg := true
	for i := range paths {
		pa := &paths[i]
		deadEv, isDead := hasPrefixEvent(pa, "dead@")
		_, collects := hasPrefixEvent(pa, "go:collectRedo@")
		if !isDead {
			if collects || pa.Has("clearRedo") {
				probs = append(probs, "redo handling although the connection is alive: "+pa.String())
			}
			continue
		}
		nDead++
		after := eventsAfter(pa, deadEv)
		has := func(cl string) bool {
			for _, e := range after {
				if e.Class == cl || strings.HasPrefix(e.Class, cl+"@") {
					return true
				}
			}
			return false
		}
		switch {
		case has("spool:on"):
			if !has("go:collectRedo") || !has("tasks.Add") || has("clearRedo") {
				probs = append(probs, "dead connection with spooling: the in-flight lines are not handed to collectRedo (or the task is not accounted): "+pa.String())
			}
			// Add before go; and the collected connection is the dead one
			ia, ig := -1, -1
			for j, e := range after {
				if e.Class == "tasks.Add" && ia < 0 {
					ia = j
				}
				if strings.HasPrefix(e.Class, "go:collectRedo@") && ig < 0 {
					ig = j
					if strings.TrimPrefix(e.Class, "go:collectRedo@") != strings.TrimPrefix(deadEv, "dead@") {
						okArg = false
					}
				}
			}
			if ia > ig {
				probs = append(probs, "tasks.Add after starting collectRedo (Shutdown's Wait can miss it): "+pa.String())
			}
		case has("spool:off"):
			if !has("clearRedo") || has("go:collectRedo") {
				probs = append(probs, "dead connection without spooling: keep-safe buffer not released: "+pa.String())
			}
		default:
			probs = append(probs, "dead connection handled without consulting the spool setting: "+pa.String())
		}
	}
	if trunc || nDead == 0 {
		probs = append(probs, "no path through `!conn.isAlive()` found")
	}
	if len(probs) > 6 {
		probs = probs[:6]
	}
	if len(probs) > 0 {
		c.ViolateW("destination.relay redo on dead connection", c.P.InstrPos(m.loop.Header.Instrs[0]), probs[0], probs)
	} else {
		c.Hold("destination.relay redo on dead connection", c.P.InstrPos(m.loop.Header.Instrs[0]), fmt.Sprintf("%d head paths, %d through a dead connection", len(paths), nDead))
	}
	c.Judge(okArg && nDead > 0, "destination.relay collectRedo(conn) is given the dead connection", c.AtFn(m.fn), "same value as tested by isAlive", "collectRedo is started for a different connection than the one found dead")
	// collectRedo
	cr := c.P.Func("destination", "*Destination", "collectRedo")
	cfg2 := &PathCfg{Classify: func(in ssa.Instruction) []string {
		cc := callCommon(in)
		if cc == nil {
			return nil
		}
		var isDeferredRun bool
		if _, ok := in.(deferredCall); ok {
			isDeferredRun = true
		}
		if _, ok := in.(*ssa.Defer); ok && !isDeferredRun {
			return nil
		}
		switch calleeName(cc) {
		case "(*" + modPath + "/destination.Conn).getRedo":
			return []string{"getRedo"}
		case "(*" + modPath + "/destination.Spool).Ingest":
			arg := cc.Args[1]
			if call, ok := arg.(*ssa.Call); ok && strings.HasSuffix(calleeName(call.Common()), "Conn).getRedo") {
				return []string{"ingest:redo"}
			}
			return []string{"ingest:other"}
		case "(*sync.WaitGroup).Done":
			return []string{"done"}
		}
		return nil
	}}
	paths, _ = EnumPaths(cr, nil, cfg2)
	bad := ""
	for i := range paths {
		pa := &paths[i]
		if pa.Count("getRedo") != 1 || pa.Count("ingest:redo") != 1 || pa.Count("done") != 1 || pa.Index("ingest:redo") > pa.Index("done") {
			bad = "collectRedo must pass getRedo's result to spool.Ingest once and then sign the task off: " + pa.String()
		}
	}
	c.Judge(bad == "" && len(paths) > 0, "destination.collectRedo getRedo → Ingest → tasks.Done", c.AtFn(cr), fmt.Sprintf("%d paths", len(paths)), bad)
}

func isFieldAddrOf(v ssa.Value, f *types.Var) bool {
	fa, ok := v.(*ssa.FieldAddr)
	return ok && fieldOfAddr(fa) == f
}

// sameVar: both values are loads of the same local cell / captured variable.
func sameVar(a, b ssa.Value) bool {
	ua, ok1 := a.(*ssa.UnOp)
	ub, ok2 := b.(*ssa.UnOp)
	if !ok1 || !ok2 || ua.Op != token.MUL || ub.Op != token.MUL {
		return false
	}
	return ua.X == ub.X
}

func c07r2(c *Check) {
	hd := c.P.Func("destination", "*Conn", "HandleData")
	nAdd := "(*" + modPath + "/destination.keepSafe).Add"
	nWrite := "(*" + modPath + "/destination.Conn).Write"
	var adds, writes []*ssa.Call
	// HandleData and the helper methods of Conn it is split into
	for _, f := range workerFuncs(c.P, hd) {
		if FuncName(f) == short(nWrite) {
			continue
		}
		allInstrs(f, func(in ssa.Instruction) {
			if call, ok := in.(*ssa.Call); ok {
				switch calleeName(call.Common()) {
				case nAdd:
					adds = append(adds, call)
				case nWrite:
					writes = append(writes, call)
				}
			}
		})
	}
	if len(writes) == 0 {
		anchorFail("HandleData: no Conn.Write call")
	}
	for _, w := range writes {
		ok := false
		for _, a := range adds {
			if a.Parent() == w.Parent() && a.Call.Args[1] == w.Call.Args[1] && instrDominates(a, w) {
				ok = true
			}
		}
		c.Judge(ok, "destination.Conn.HandleData keepSafe.Add(buf) before Write(buf)", c.At(w), "the line is recorded for replay before the write is attempted", "a line is written (or the write fails) before it is recorded in the keep-safe buffer: when the write error is what reveals the outage, that line has left the queue and is in no redo buffer — lost without being counted")
	}
	// getRedo: every received value is added; GetAll only on the default (drained) edge
	gr := c.P.Func("destination", "*Conn", "getRedo")
	connIn := c.P.Field("destination", "Conn", "In")
	cfg := &PathCfg{
		Classify: func(in ssa.Instruction) []string {
			if isCallNamed(in, nAdd) {
				return []string{"add"}
			}
			if isCallNamed(in, "(*"+modPath+"/destination.keepSafe).GetAll") {
				return []string{"getall"}
			}
			return nil
		},
		SelectEvent: func(sel *ssa.Select, k int) []string {
			if k < 0 {
				return []string{"drained"}
			}
			if sel.States[k].Dir == types.RecvOnly && isFieldLoad(sel.States[k].Chan, connIn) {
				return []string{"recv"}
			}
			return []string{"other"}
		},
	}
	paths, _ := EnumPaths(gr, nil, cfg)
	bad := ""
	for i := range paths {
		pa := &paths[i]
		// each recv followed by an add before the next recv / end
		pending := 0
		for _, e := range pa.Events {
			switch e.Class {
			case "recv":
				if pending > 0 {
					bad = "a queued line is dropped while draining: " + pa.String()
				}
				pending = 1
			case "add":
				pending = 0
			case "getall":
				if pending > 0 || !pa.Has("drained") {
					bad = "GetAll is taken before the queue is drained into the keep-safe buffer: " + pa.String()
				}
			}
		}
		if pa.End == "return" && !pa.Has("getall") {
			bad = "getRedo returns without the keep-safe content: " + pa.String()
		}
	}
	c.Judge(bad == "" && len(paths) > 0, "destination.Conn.getRedo drains In into keepSafe, then GetAll", c.AtFn(gr), fmt.Sprintf("%d paths", len(paths)), bad)
}

func c07r3(c *Check) {
	// Spool.Writer
	w := c.P.Func("destination", "*Spool", "Writer")
	qb := c.P.Field("destination", "Spool", "queueBuffer")
	inRT := c.P.Field("destination", "Spool", "InRT")
	inBulk := c.P.Field("destination", "Spool", "InBulk")
	hops := func(fn *ssa.Function, inputs []*types.Var, classify func(in ssa.Instruction) []string, outName string) {
		var sel *ssa.Select
		allInstrs(fn, func(in ssa.Instruction) {
			if s, ok := in.(*ssa.Select); ok && s.Blocking {
				sel = s
			}
		})
		if sel == nil {
			anchorFail("%s: select not found", FuncName(fn))
		}
		loops := loopsOf(fn)
		cases := selectCases(sel)
		for i, st := range sel.States {
			var which *types.Var
			for _, f := range inputs {
				if st.Dir == types.RecvOnly && isFieldLoad(st.Chan, f) {
					which = f
				}
			}
			if which == nil {
				continue
			}
			b := cases[i]
			key := fmt.Sprintf("%s case <-%s → %s once", FuncName(fn), which.Name(), outName)
			if b == nil || len(loops) == 0 {
				c.Undecided(key, c.At(sel), "case body not located")
				continue
			}
			cfg := &PathCfg{
				Stop:     func(x *ssa.BasicBlock) bool { return x == loops[0].Header },
				Classify: classify,
				// closures, and helper methods of the same type (an extracted hand-off step)
				Inline: func(callee *ssa.Function) bool {
					return callee.Parent() != nil || (callee.Signature.Recv() != nil && fn.Signature.Recv() != nil && types.Identical(callee.Signature.Recv().Type(), fn.Signature.Recv().Type()))
				},
				HigherOrder: map[string]int{"(github.com/Dieterbe/go-metrics.Timer).Time": 0},
			}
			paths, _ := EnumPaths(fn, b, cfg)
			bad := ""
			for j := range paths {
				pa := &paths[j]
				if pa.Count("out") != 1 || pa.End != "stop" {
					bad = fmt.Sprintf("a value taken from %s is forwarded %d times (or the loop ends): %s", which.Name(), pa.Count("out"), pa.String())
				}
				if pa.Has("out:other") {
					bad = "something other than the received value is forwarded: " + pa.String()
				}
			}
			c.Judge(bad == "" && len(paths) > 0, key, c.P.InstrPos(b.Instrs[0]), fmt.Sprintf("%d paths", len(paths)), bad)
		}
	}
	hops(w, []*types.Var{inRT, inBulk}, func(in ssa.Instruction) []string {
		if s, ok := in.(*ssa.Send); ok && isFieldLoad(s.Chan, qb) {
			return []string{"out"}
		}
		return nil
	}, "queueBuffer")
	bf := c.P.Func("destination", "*Spool", "Buffer")
	hops(bf, []*types.Var{qb}, func(in ssa.Instruction) []string {
		if cc := callCommon(in); cc != nil && strings.HasSuffix(calleeName(cc), "nsqd.DiskQueue).Put") {
			return []string{"out"}
		}
		return nil
	}, "queue.Put")
	// Ingest
	ig := c.P.Func("destination", "*Spool", "Ingest")
	loops := loopsOf(ig)
	okI := false
	detail := "no range loop over the bulk data"
	if len(loops) == 1 {
		sl, idx, ok := rangeLoopOver(loops[0])
		if ok && sl == ssa.Value(ig.Params[1]) {
			sends := sendsOn(ig, inBulk)
			exitOK, _ := loopExitsOnlyFromHeader(loops[0])
			if len(sends) == 1 && exitOK {
				if s, ok := sends[0].(*ssa.Send); ok && rangeElem(s.X, sl, idx) && loops[0].Body[s.Block()] {
					okI = true
				}
			}
			detail = "each element must be sent once to InBulk, without early exit"
		}
	}
	c.Judge(okI, "destination.Spool.Ingest sends every element once, in order", c.AtFn(ig), "range loop over the argument; one send of the loop element per iteration; no early exit", detail)
}

func c07r4(c *Check) {
	m := buildRelayModel(c)
	paths, trunc := relayHeadPaths(c, m)
	nOn, nOff := 0, 0
	bad := ""
	for i := range paths {
		pa := &paths[i]
		switch {
		case pa.Has("unspool:?"):
			bad = "the channel the unspool case receives from is neither spool.Out nor nil on some path: " + pa.String()
		case pa.Has("unspool:on"):
			nOn++
			var missing []string
			// the connection is held at the time of the decision: the last conn event says held, and it was not found dead
			last := ""
			for _, e := range pa.Events {
				if strings.HasPrefix(e.Class, "conn:") {
					last = e.Class
				}
			}
			_, dead := hasPrefixEvent(pa, "dead@")
			if last != "conn:held" || dead {
				missing = append(missing, "conn != nil")
			}
			if !pa.Has("spool:on") {
				missing = append(missing, "Spool")
			}
			if !pa.Has("slowlast:F") {
				missing = append(missing, "!SlowLastLoop")
			}
			if !pa.Has("slownow:F") {
				missing = append(missing, "!SlowNow")
			}
			if len(missing) > 0 {
				bad = fmt.Sprintf("unspooling is enabled without the conditions %v: spooled lines are read (and acknowledged to the disk queue) while there is no healthy connection to take them: %s", missing, pa.String())
			}
		case pa.Has("unspool:off"):
			nOff++
		}
	}
	pos := c.P.InstrPos(m.loop.Header.Instrs[0])
	if trunc || len(paths) == 0 {
		c.Undecided("destination.relay unspool gating", pos, "path enumeration of the loop head incomplete")
	} else if nOn == 0 {
		c.Violate("destination.relay unspool gating", pos, "toUnspool is never the spool's Out channel: the backlog never drains")
	} else {
		c.Judge(bad == "" && nOff > 0, "destination.relay unspool gating", pos, fmt.Sprintf("%d head paths: toUnspool = spool.Out only under conn != nil && Spool && !SlowLastLoop && !SlowNow (%d), nil otherwise (%d)", len(paths), nOn, nOff), bad)
	}
	// the unspool case sends to the connection via nonBlockingSend (C06.R4 checks the dispositions)
	_, b := m.caseOf("toUnspool")
	c.Judge(b != nil, "destination.relay unspool case located", c.AtFn(m.fn), "case body found", "unspool case body not found")
}

func c07r6(c *Check) {
	recF := c.P.Field("destination", "keepSafe", "safeRecent")
	oldF := c.P.Field("destination", "keepSafe", "safeOld")
	pkg := c.P.Pkg("destination").Types
	isFresh := func(v ssa.Value) bool {
		switch x := v.(type) {
		case *ssa.MakeSlice:
			return true
		case *ssa.Const:
			return x.IsNil()
		case *ssa.Slice:
			// make([]T, 0, const) is lowered to new [n]T + slice
			_, ok := x.X.(*ssa.Alloc)
			return ok
		}
		return false
	}
	appendOf := func(v ssa.Value, f *types.Var) (*ssa.CallCommon, bool) {
		call, ok := v.(*ssa.Call)
		if !ok {
			return nil, false
		}
		b, ok := call.Call.Value.(*ssa.Builtin)
		if !ok || b.Name() != "append" || !isFieldLoad(call.Call.Args[0], f) {
			return nil, false
		}
		return &call.Call, true
	}
	n := 0
	for _, fn := range c.P.Funcs {
		if fnPkg(fn) != pkg {
			continue
		}
		fn := fn
		var aliasStores, freshRecent []*ssa.Store
		allInstrs(fn, func(in ssa.Instruction) {
			st, ok := in.(*ssa.Store)
			if !ok {
				return
			}
			fa, ok := st.Addr.(*ssa.FieldAddr)
			if !ok {
				return
			}
			switch fieldOfAddr(fa) {
			case recF:
				n++
				_, isApp := appendOf(st.Val, recF)
				if isFresh(st.Val) {
					freshRecent = append(freshRecent, st)
				}
				c.Judge(isApp || isFresh(st.Val), FuncName(fn)+" store into safeRecent", c.At(in), "append to itself or a fresh buffer", "safeRecent is assigned something that can share its backing array with the previous generation (e.g. safeRecent[:0]): later Adds overwrite the lines safeOld is supposed to retain, so the replay after an outage misses them")
			case oldF:
				n++
				isRec := isFieldLoad(st.Val, recF)
				if isRec {
					aliasStores = append(aliasStores, st)
				}
				c.Judge(isRec || isFresh(st.Val), FuncName(fn)+" store into safeOld", c.At(in), "the recent generation or a fresh buffer", "safeOld is assigned something other than the recent generation or an empty buffer")
			}
		})
		for _, al := range aliasStores {
			ok := false
			for _, fr := range freshRecent {
				if fr.Block() == al.Block() && instrDominates(al, fr) {
					ok = true
				}
			}
			if !ok {
				// every path from the rotation to a return passes a fresh store
				stop := map[*ssa.BasicBlock]bool{}
				for _, fr := range freshRecent {
					if instrDominates(al, fr) {
						stop[fr.Block()] = true
					}
				}
				ok = len(stop) > 0
				for b := range reachable(al.Block(), nil, stop) {
					if stop[b] {
						continue
					}
					if _, isRet := b.Instrs[len(b.Instrs)-1].(*ssa.Return); isRet {
						ok = false
					}
				}
			}
			c.Judge(ok, FuncName(fn)+" rotation gives safeRecent a fresh buffer", c.At(al), "safeOld = safeRecent is followed by safeRecent = make(…)", "after safeOld = safeRecent both generations share one backing array: the next Adds overwrite the retained lines")
		}
	}
	if n < 5 {
		anchorFail("keepSafe: only %d stores into safeRecent/safeOld found", n)
	}
	add := c.P.Func("destination", "*keepSafe", "Add")
	okAdd := false
	allInstrs(add, func(in ssa.Instruction) {
		if st, ok := in.(*ssa.Store); ok {
			if cc, ok := appendOf(st.Val, recF); ok && len(cc.Args) == 2 {
				if elems, ok := variadicElems(cc.Args[1]); ok && len(elems) == 1 && elems[0] == ssa.Value(add.Params[1]) {
					okAdd = true
				}
			}
		}
	})
	c.Judge(okAdd, "destination.keepSafe.Add appends its argument to the recent generation", c.AtFn(add), "safeRecent = append(safeRecent, buf)", "Add does not append the given line to safeRecent")
	ga := c.P.Func("destination", "*keepSafe", "GetAll")
	okGA := false
	allInstrs(ga, func(in ssa.Instruction) {
		ret, ok := in.(*ssa.Return)
		if !ok || len(ret.Results) != 1 {
			return
		}
		res := strip(ret.Results[0]) // a result spilled to a local because of `defer`
		if cc, ok := appendOf(res, oldF); ok && len(cc.Args) == 2 && isFieldLoad(cc.Args[1], recF) {
			// the appended result must be computed before the generations are reset
			okGA = true
			call := res.(*ssa.Call)
			allInstrs(ga, func(x ssa.Instruction) {
				if st, ok := x.(*ssa.Store); ok {
					if fa, ok := st.Addr.(*ssa.FieldAddr); ok && (fieldOfAddr(fa) == recF || fieldOfAddr(fa) == oldF) && !instrDominates(call, x) {
						okGA = false
					}
				}
			})
		}
	})
	c.Judge(okGA, "destination.keepSafe.GetAll returns old then recent generation", c.AtFn(ga), "append(safeOld, safeRecent...) taken before both are reset", "GetAll does not return both generations in order (older lines first), or resets them before reading")
}

func c07r7(c *Check) {
	nNew := modPath + "/destination.NewKeepSafe"
	n := 0
	const tenSeconds = int64(10e9)
	for _, fn := range c.P.Funcs {
		fn := fn
		allInstrs(fn, func(in ssa.Instruction) {
			call, ok := in.(*ssa.Call)
			if !ok || calleeName(call.Common()) != nNew {
				return
			}
			n++
			arg := call.Call.Args[1]
			why := ""
			atLeast := func(v ssa.Value) bool {
				k, ok := constInt(v)
				return ok && k >= tenSeconds
			}
			switch {
			case atLeast(arg):
			default:
				ok := false
				if u, isLoad := strip(arg).(*ssa.UnOp); isLoad && u.Op == token.MUL {
					if g, isG := u.X.(*ssa.Global); isG {
						stores, good := 0, true
						for _, f := range c.P.CGFuncs {
							allInstrs(f, func(x ssa.Instruction) {
								if st, ok := x.(*ssa.Store); ok && st.Addr == ssa.Value(g) {
									stores++
									if !atLeast(st.Val) {
										good = false
									}
								}
							})
						}
						ok = stores > 0 && good
					}
				}
				if !ok {
					why = "the keep-safe period is " + describeVal(arg) + ", which is not a constant of at least 10 s: with a short (configurable) period the lines written just before an outage is noticed are already forgotten and are neither replayed nor counted"
				}
			}
			c.Judge(why == "", FuncName(fn)+" keep-safe period >= 10s", c.At(in), "a constant of at least 10 s", why)
		})
	}
	if n == 0 {
		anchorFail("no call to NewKeepSafe")
	}
}
