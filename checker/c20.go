package main

import (
	"fmt"
	"go/constant"
	"go/token"
	"go/types"
	"path/filepath"
	"sort"
	"strings"

	"golang.org/x/tools/go/ssa"
)

func init() {
	register(&PropDef{
		ID:    "C20",
		Title: "Configuration means what the documentation says, in both syntaxes",
		Decided: "R1 command syntax: every option documented in the docs/config.md tables for carbon destinations, aggregations (addAgg), grafanaNet, kafkaMdm and pubsub routes has a command token, and the value parsed in that token's case reaches exactly the corresponding constructor parameter / config field, with the documented unit; no option token feeds an undocumented or different parameter; constructor parameters are stored into the corresponding struct fields; " +
			"R2 TOML syntax: the documented settings of [[aggregation]], [[rewriter]] and [[route]] sections reach the same constructor parameters / config fields as the equally named command options, with the same unit (sub wins over substr); " +
			"R3 defaults: the constants that reach each parameter when the option is absent equal the default column of docs/config.md, in both syntaxes (the defaults duplicated in imperatives and cfg agree); " +
			"R5 modDest addr=host:port:instance goes through the same (address, instance) split as the address given at construction: the split function receives the option's full value; " +
			"R4 interpolation: the configuration text never passes through os.Expand/os.ExpandEnv, exactly the four documented variables are substituted, and on every path that does not substitute a documented variable the only bytes written are copied from the input at the current position.",
		NotDecided: "TOML decoding itself (third party); what each option does at run time; the free-text command grammar (token scanner); documentation prose outside the tables.",
		Rules: []RuleDef{
			{ID: "C20.R1", Min: 40, Doc: "command wiring: backward value-flow slice from every argument of destination.New / matcher.New / aggregator.New / route.NewKafkaMdm / route.NewPubSub and every store into GrafanaNetConfig fields inside the command readers; the option token guarding each parsed value, and the constant factor on the way, must match the frozen option→parameter table and the unit column of docs/config.md", Run: c20r1},
			{ID: "C20.R2", Min: 30, Doc: "TOML wiring: the same slices inside cfg.InitAggregation / InitRewrite / InitRoutes end in the equally named cfg struct fields", Run: c20r2},
			{ID: "C20.R3", Min: 30, Doc: "defaults: constants reaching each parameter equal docs/config.md defaults × unit", Run: c20r3},
			{ID: "C20.R5", Min: 2, Doc: "modDest addr: the function that splits (address, instance) at construction — the call in destination.New whose two results are stored into Destination.Addr and Destination.Instance, fed by the unchanged address input — is, on the update path ((*Destination).Update and the methods it calls), handed the value given for option addr exactly as given (backward slice through the callees' parameters to the `case \"addr\"` value; no call result or computed piece in between)", Run: c20r5},
			{ID: "C20.R4", Min: 4, Doc: "interpolation: call-graph reachability of os.Expand*; string cases of expandVars; emission discipline of expandConfig by path enumeration of one loop iteration", Run: c20r4},
		},
	})
}

// argument sources of the (single) call to callee inside fn, by parameter name of the callee.
type callWiring struct {
	call   *ssa.Call
	params []string
	srcs   map[string][]srcInfo
}

func wiringOfCall(c *Check, fn *ssa.Function, callee string) *callWiring {
	var call *ssa.Call
	n := 0
	allInstrs(fn, func(in ssa.Instruction) {
		if x, ok := in.(*ssa.Call); ok && calleeName(x.Common()) == callee {
			call = x
			n++
		}
	})
	if call == nil {
		// the constructor may be called by a small helper that fn calls (opts.newMatcher())
		if w := wiringThroughHelper(c, fn, callee); w != nil {
			return w
		}
		anchorFail("%s: no call to %s", FuncName(fn), short(callee))
	}
	target := call.Call.StaticCallee()
	w := &callWiring{call: call, srcs: map[string][]srcInfo{}}
	sl := newSlicer(c.P, fn)
	sig := target.Signature
	for i := 0; i < sig.Params().Len(); i++ {
		name := sig.Params().At(i).Name()
		w.params = append(w.params, name)
		w.srcs[name] = sl.sources(call.Call.Args[i])
	}
	return w
}

// wiringThroughHelper: fn calls a module helper g that contains the single call to callee; the
// helper's parameters (and fields of its struct parameters) are bound to fn's arguments.
func wiringThroughHelper(c *Check, fn *ssa.Function, callee string) *callWiring {
	var site *ssa.Call
	var inner *callWiring
	allInstrs(fn, func(in ssa.Instruction) {
		x, ok := in.(*ssa.Call)
		if !ok || site != nil {
			return
		}
		g := x.Call.StaticCallee()
		if g == nil || g.Blocks == nil || !ModuleFunc(g) || g == fn {
			return
		}
		n := 0
		allInstrs(g, func(in2 ssa.Instruction) {
			if y, ok := in2.(*ssa.Call); ok && calleeName(y.Common()) == callee {
				n++
			}
		})
		if n == 1 {
			site = x
			inner = wiringOfCall(c, g, callee)
		}
	})
	if site == nil {
		return nil
	}
	g := site.Call.StaticCallee()
	sl := newSlicer(c.P, fn)
	w := &callWiring{call: site, params: inner.params, srcs: map[string][]srcInfo{}}
	for _, par := range inner.params {
		for _, si := range inner.srcs[par] {
			switch si.Kind {
			case "param", "paramfield":
				idx := -1
				for i, p := range g.Params {
					if p == si.Param {
						idx = i
					}
				}
				if idx < 0 || idx >= len(site.Call.Args) {
					w.srcs[par] = append(w.srcs[par], si)
					continue
				}
				arg := site.Call.Args[idx]
				var ss []srcInfo
				if si.Kind == "param" {
					ss = sl.sources(arg)
				} else {
					ss = sl.fieldOfValue(arg, si.Field)
				}
				for _, x := range ss {
					x.Mult *= si.Mult
					w.srcs[par] = append(w.srcs[par], x)
				}
			default:
				w.srcs[par] = append(w.srcs[par], si)
			}
		}
	}
	return w
}

// destinationWiring: what reaches each field of the Destination that destination.New builds, seen from
// the (single) call of destination.New inside fn. The constructor's inputs — positional parameters, or
// the fields of a configuration struct it receives — are followed through New's stores into the
// Destination fields and bound back to the call's arguments; the result is keyed by the logical
// parameter names of the frozen tables (destParamField: parameter -> Destination field). The second
// result holds, per Destination field, the sources of the stores inside New itself.
func destinationWiring(c *Check, fn *ssa.Function) (*callWiring, map[string][]srcInfo) {
	callee := modPath + "/destination.New"
	var call *ssa.Call
	allInstrs(fn, func(in ssa.Instruction) {
		if x, ok := in.(*ssa.Call); ok && calleeName(x.Common()) == callee {
			call = x
		}
	})
	if call == nil {
		anchorFail("%s: no call to %s", FuncName(fn), short(callee))
	}
	dn := call.Call.StaticCallee()
	inNew := map[string][]srcInfo{}
	slNew := newSlicer(c.P, dn)
	allInstrs(dn, func(in ssa.Instruction) {
		st, ok := in.(*ssa.Store)
		if !ok {
			return
		}
		fa, ok := st.Addr.(*ssa.FieldAddr)
		if !ok || !strings.HasSuffix(fa.X.Type().String(), "destination.Destination") {
			return
		}
		name := fieldOfAddr(fa).Name()
		inNew[name] = append(inNew[name], slNew.sources(st.Val)...)
	})
	sl := newSlicer(c.P, fn)
	w := &callWiring{call: call, srcs: map[string][]srcInfo{}}
	for par, fld := range destParamField {
		w.params = append(w.params, par)
		for _, si := range inNew[fld] {
			idx := -1
			for i, p := range dn.Params {
				if p == si.Param {
					idx = i
				}
			}
			if (si.Kind != "param" && si.Kind != "paramfield") || idx < 0 || idx >= len(call.Call.Args) {
				w.srcs[par] = append(w.srcs[par], si)
				continue
			}
			var ss []srcInfo
			if si.Kind == "param" {
				ss = sl.sources(call.Call.Args[idx])
			} else {
				ss = sl.fieldOfValue(call.Call.Args[idx], si.Field)
			}
			for _, x := range ss {
				x.Mult *= si.Mult
				w.srcs[par] = append(w.srcs[par], x)
			}
		}
	}
	sort.Strings(w.params)
	return w, inNew
}

func tokenSources(ss []srcInfo) (names []string, mults map[string]int64) {
	mults = map[string]int64{}
	seen := map[string]bool{}
	for _, s := range ss {
		if s.Kind == "token" && !seen[s.Name] {
			seen[s.Name] = true
			names = append(names, s.Name)
			mults[s.Name] = s.Mult
		}
	}
	sort.Strings(names)
	return
}

// impureSources: everything that feeds a value besides struct fields (constants, calls, arithmetic):
// a TOML setting that must reach its parameter unchanged has none.
func impureSources(ss []srcInfo) []string {
	var out []string
	for _, s := range ss {
		if s.Kind != "field" {
			out = append(out, s.String())
		}
	}
	return out
}

func constSources(ss []srcInfo) []constant.Value {
	var out []constant.Value
	for _, s := range ss {
		if s.Kind == "const" && s.Const != nil {
			out = append(out, mulConst(s.Const, s.Mult))
		}
	}
	return out
}

func fieldSources(ss []srcInfo) (names []string, mults map[string]int64) {
	mults = map[string]int64{}
	seen := map[string]bool{}
	for _, s := range ss {
		if (s.Kind == "field" || s.Kind == "paramfield") && !seen[s.Name] {
			seen[s.Name] = true
			names = append(names, s.Name)
			mults[s.Name] = s.Mult
		}
	}
	sort.Strings(names)
	return
}

// optionTokens: option name (as documented) -> token identifier, from the tokens table ("flush=" -> optFlush).
func optionTokens(p *Prog) map[string]string {
	out := map[string]string{}
	for tok, pat := range tokenPatterns(p) {
		if strings.HasSuffix(pat, "=") {
			out[strings.TrimSuffix(pat, "=")] = tok
		}
	}
	return out
}

// settings that the command grammar takes as positional arguments instead of name=value options
var cmdPositional = map[string]string{
	"readAddRouteKafkaMdm/orgId": "positional argument in the command grammar (addRoute kafkaMdm key [opts]  broker topic codec schemasFile partitionBy orgId [opts])",
}

var matcherOrder = []string{"prefix", "notPrefix", "sub", "notSub", "regex", "notRegex"}

// frozen table: documented carbon destination option -> parameter of destination.New
var destOptionParam = map[string]string{
	"flush": "periodFlush", "reconn": "periodReConn", "pickle": "pickle", "spool": "spool", "connbuf": "connBufSize", "iobuf": "ioBufSize",
	"spoolbuf": "spoolBufSize", "spoolmaxbytesperfile": "spoolMaxBytesPerFile", "spoolsyncevery": "spoolSyncEvery", "spoolsyncperiod": "spoolSyncPeriod",
	"spoolsleep": "spoolSleep", "unspoolsleep": "unspoolSleep",
}

// parameter of destination.New -> Destination field
var destParamField = map[string]string{
	"matcher": "Matcher", "spoolDir": "SpoolDir", "spool": "Spool", "pickle": "Pickle", "periodFlush": "periodFlush", "periodReConn": "periodReConn", "connBufSize": "connBufSize",
	"ioBufSize": "ioBufSize", "spoolBufSize": "SpoolBufSize", "spoolMaxBytesPerFile": "SpoolMaxBytesPerFile", "spoolSyncEvery": "SpoolSyncEvery", "spoolSyncPeriod": "SpoolSyncPeriod",
	"spoolSleep": "SpoolSleep", "unspoolSleep": "UnspoolSleep", "routeName": "RouteName",
}

func docsFile(c *Check) string { return filepath.Join(c.P.Dir, "docs", "config.md") }

func checkMatcherArgs(c *Check, fn *ssa.Function, label string, byToken bool, tok map[string]string, fieldOf map[string][]string) {
	w := wiringOfCall(c, fn, modPath+"/matcher.New")
	for i, opt := range matcherOrder {
		par := w.params[i]
		ss := w.srcs[par]
		key := fmt.Sprintf("%s matcher.New(%s)", label, opt)
		if byToken {
			names, _ := tokenSources(ss)
			want := tok[opt]
			okT := len(names) >= 1
			for _, n := range names {
				if n != want {
					okT = false
				}
			}
			c.Judge(okT, key+" ← "+want, c.At(w.call), "fed by option "+opt+"= only", fmt.Sprintf("matcher option %s is fed by tokens %v instead of %s: a filter option is swapped or ignored", opt, names, want))
		} else {
			names, _ := fieldSources(ss)
			want := fieldOf[opt]
			c.Judge(strings.Join(names, ",") == strings.Join(want, ","), key+" ← "+strings.Join(want, "|"), c.At(w.call), "fed by the equally named TOML setting", fmt.Sprintf("matcher option %s is fed by TOML settings %v instead of %v", opt, names, want))
		}
	}
}

func c20r1(c *Check) {
	tok := optionTokens(c.P)
	// ---- carbon destination options
	rows, err := docTable(docsFile(c), "carbon destination")
	if err != nil {
		c.Undecided("docs/config.md carbon destination table", "docs/config.md", err.Error())
		return
	}
	rd := c.P.Func("imperatives", "", "readDestination")
	w, inNew := destinationWiring(c, rd)
	documented := map[string]bool{}
	for _, r := range rows {
		documented[r.Setting] = true
		par, isDest := destOptionParam[r.Setting]
		if !isDest {
			continue // addr, matcher options
		}
		key := "imperatives.readDestination option " + r.Setting + " → destination.New(" + par + ")"
		t, okTok := tok[r.Setting]
		if !okTok {
			c.Violate(key, c.AtFn(rd), "documented option "+r.Setting+" has no command token `"+r.Setting+"=`: it cannot be set")
			continue
		}
		names, mults := tokenSources(w.srcs[par])
		unit := unitOf(r.Values)
		okW := len(names) == 1 && names[0] == t && mults[t] == unit
		c.Judge(okW, key, c.At(w.call), fmt.Sprintf("token %s, factor %d", t, unit), fmt.Sprintf("parameter %s is fed by option tokens %v with factors %v; documentation: option %s (%s) → factor %d. The option is ignored, swapped with another, or applied in the wrong unit", par, names, mults, r.Setting, r.Values, unit))
	}
	// reverse: no undocumented token feeds destination.New
	revTok := map[string]string{}
	for o, t := range tok {
		revTok[t] = o
	}
	for _, par := range w.params {
		names, _ := tokenSources(w.srcs[par])
		for _, n := range names {
			o := revTok[n]
			if want, ok := destOptionParam[o]; !ok || want != par {
				if par == "addr" || par == "matcher" {
					continue
				}
				c.Violate("imperatives.readDestination token "+n+" feeds "+par, c.At(w.call), "an option token feeds a destination parameter it is not documented for")
			}
		}
	}
	checkMatcherArgs(c, rd, "imperatives.readDestination", true, tok, nil)
	// destination.New: constructor input (parameter, or field of the configuration struct it takes) -> field
	dn := c.P.Func("destination", "", "New")
	for par, fld := range destParamField {
		var got []string
		okP := len(inNew[fld]) == 1
		for _, si := range inNew[fld] {
			got = append(got, si.String())
			if (si.Kind != "param" && si.Kind != "paramfield") || !strings.EqualFold(si.Name, par) || si.Mult != 1 {
				okP = false
			}
		}
		c.Judge(okP, "destination.New "+par+" → Destination."+fld, c.AtFn(dn), "parameter stored in its field", fmt.Sprintf("field %q is fed by %v instead of the constructor input %s", fld, got, par))
	}
	// ---- addAgg
	ra := c.P.Func("imperatives", "", "readAddAgg")
	checkMatcherArgs(c, ra, "imperatives.readAddAgg", true, tok, nil)
	wa := wiringOfCall(c, ra, modPath+"/aggregator.New")
	for par, opt := range map[string]string{"cache": "cache", "dropRaw": "dropRaw"} {
		names, _ := tokenSources(wa.srcs[par])
		c.Judge(len(names) == 1 && names[0] == tok[opt], "imperatives.readAddAgg option "+opt+" → aggregator.New("+par+")", c.At(wa.call), "token "+tok[opt], fmt.Sprintf("parameter %s fed by %v", par, names))
	}
	// positional: fun, outFmt, interval, wait must not come from option tokens and be distinct values
	distinct := wa.call.Call.Args[5] != wa.call.Call.Args[6]
	c.Judge(distinct, "imperatives.readAddAgg interval and wait are different values", c.At(wa.call), "interval and wait come from different tokens", "interval and wait are fed from the same value")
	// aggregator.NewMocked: parameter -> field
	nm := c.P.Func("aggregator", "", "NewMocked")
	gotA := map[string]string{}
	allInstrs(nm, func(in ssa.Instruction) {
		if st, ok := in.(*ssa.Store); ok {
			if fa, ok := st.Addr.(*ssa.FieldAddr); ok {
				if p, ok := st.Val.(*ssa.Parameter); ok {
					gotA[p.Name()] = fieldOfAddr(fa).Name()
				}
			}
		}
	})
	for par, fld := range map[string]string{"fun": "Fun", "matcher": "Matcher", "outFmt": "OutFmt", "cache": "Cache", "interval": "Interval", "wait": "Wait", "dropRaw": "DropRaw", "out": "out"} {
		c.Judge(gotA[par] == fld, "aggregator.NewMocked "+par+" → Aggregator."+fld, c.AtFn(nm), "parameter stored in its field", fmt.Sprintf("parameter %s is stored into field %q instead of %q", par, gotA[par], fld))
	}
	// aggregator.New passes its parameters through in order
	an := c.P.Func("aggregator", "", "New")
	okPass := false
	allInstrs(an, func(in ssa.Instruction) {
		if call, ok := in.(*ssa.Call); ok && calleeName(call.Common()) == modPath+"/aggregator.NewMocked" {
			okPass = true
			for i := 0; i < 8; i++ {
				if strip(call.Call.Args[i]) != an.Params[i] {
					okPass = false
				}
			}
		}
	})
	c.Judge(okPass, "aggregator.New forwards its parameters to NewMocked in order", c.AtFn(an), "8 parameters forwarded positionally", "aggregator.New does not forward its parameters unchanged")
	// ---- grafanaNet command options
	gn := c.P.Func("imperatives", "", "readAddRouteGrafanaNet")
	grows, err := docTable(docsFile(c), "grafanaNet route")
	if err != nil {
		c.Undecided("docs/config.md grafanaNet table", "docs/config.md", err.Error())
		return
	}
	stores := fieldStores(c, gn, "GrafanaNetConfig")
	for _, r := range grows {
		if r.Default == "N/A" || isMatcherOpt(r.Setting) {
			continue
		}
		key := "imperatives.readAddRouteGrafanaNet option " + r.Setting + " → GrafanaNetConfig"
		t, okTok := tok[r.Setting]
		if !okTok {
			c.Violate(key, c.AtFn(gn), "documented option "+r.Setting+" has no command token")
			continue
		}
		// the field whose name equals the setting (case-insensitive)
		var fld string
		for f := range stores {
			if strings.EqualFold(f, r.Setting) {
				fld = f
			}
		}
		if fld == "" {
			c.Violate(key, c.AtFn(gn), "no store into a GrafanaNetConfig field named like option "+r.Setting)
			continue
		}
		names, mults := tokenSources(stores[fld])
		unit := unitOf(r.Values)
		c.Judge(len(names) == 1 && names[0] == t && mults[t] == unit, key+"."+fld, c.AtFn(gn), fmt.Sprintf("token %s, factor %d", t, unit), fmt.Sprintf("field %s is fed by tokens %v with factors %v; documentation: option %s (%s), factor %d", fld, names, mults, r.Setting, r.Values, unit))
	}
	for f, ss := range stores {
		names, _ := tokenSources(ss)
		for _, n := range names {
			if !strings.EqualFold(revTok[n], f) {
				c.Violate("imperatives.readAddRouteGrafanaNet token "+n+" feeds GrafanaNetConfig."+f, c.AtFn(gn), "an option token is stored into a field of a different name")
			}
		}
	}
	checkRouteOptsOrder(c, gn, tok)
	// ---- kafkaMdm / pubsub command options
	type rt struct{ fn, ctor, heading string }
	for _, x := range []rt{{"readAddRouteKafkaMdm", "NewKafkaMdm", "kafkaMdm route"}, {"readAddRoutePubSub", "NewPubSub", "Google PubSub route"}} {
		fn := c.P.Func("imperatives", "", x.fn)
		rws, err := docTable(docsFile(c), x.heading)
		if err != nil {
			c.Undecided("docs/config.md "+x.heading, "docs/config.md", err.Error())
			continue
		}
		w := wiringOfCall(c, fn, modPath+"/route."+x.ctor)
		for _, r := range rws {
			if r.Default == "N/A" || isMatcherOpt(r.Setting) {
				continue
			}
			key := "imperatives." + x.fn + " option " + r.Setting + " → route." + x.ctor
			t, okTok := tok[r.Setting]
			if !okTok {
				c.Violate(key, c.AtFn(fn), "documented option "+r.Setting+" has no command token")
				continue
			}
			var par string
			for _, p := range w.params {
				if strings.EqualFold(p, r.Setting) {
					par = p
				}
			}
			if par == "" {
				c.Violate(key, c.At(w.call), "constructor has no parameter named like option "+r.Setting)
				continue
			}
			names, _ := tokenSources(w.srcs[par])
			if why, ok := cmdPositional[x.fn+"/"+r.Setting]; ok && len(names) == 0 {
				c.Hold(key+"("+par+")", c.At(w.call), why)
				continue
			}
			c.Judge(len(names) == 1 && names[0] == t, key+"("+par+")", c.At(w.call), "token "+t, fmt.Sprintf("parameter %s is fed by tokens %v; documentation: option %s", par, names, r.Setting))
		}
		for _, par := range w.params {
			names, _ := tokenSources(w.srcs[par])
			for _, n := range names {
				if !strings.EqualFold(revTok[n], par) {
					c.Violate("imperatives."+x.fn+" token "+n+" feeds "+par, c.At(w.call), "an option token feeds a constructor parameter of a different name")
				}
			}
		}
		checkRouteOptsOrder(c, fn, tok)
	}
	// addBlack <method> <pattern> and the TOML blacklist: method name → matcher option
	checkStringSwitchMatcher(c, c.P.Func("imperatives", "", "readAddBlack"), "imperatives.readAddBlack", false)
	// modRoute / modDest: option token → opts[name] → matcher option
	for _, fnn := range []string{"readModDest", "readModRoute"} {
		fn := c.P.Func("imperatives", "", fnn)
		sl := newSlicer(c.P, fn)
		n := 0
		allInstrs(fn, func(in ssa.Instruction) {
			mu, ok := in.(*ssa.MapUpdate)
			if !ok {
				return
			}
			key, ok := constString(mu.Key)
			if !ok {
				// table-driven: opts[names[t.Token]] = value, names a package-level map literal token → option name
				if ents, idxV, ok := globalMapLookup(c.P, mu.Key); ok {
					if _, path := fieldPath(idxV); len(path) == 0 || path[len(path)-1] != "Token" {
						c.Violate("imperatives."+fnn+" option table lookup", c.At(mu), "the option-name table is not indexed by the token that was read")
						return
					}
					tc := tokenConsts(c.P)
					for _, e := range ents {
						n++
						kv, _ := constant.Int64Val(e[0])
						name := constant.StringVal(e[1])
						want, okT := tok[name]
						c.Judge(okT && tc[kv] == want, "imperatives."+fnn+" option "+name+"= → opts[\""+name+"\"]", c.At(mu), "stored under the name of the option that was given (option table)", fmt.Sprintf("the option table maps token %s to the name %q", tc[kv], name))
					}
				}
				return
			}
			n++
			g := sl.guardOf(mu.Block())
			want, okT := tok[key]
			c.Judge(okT && len(g) == 1 && g[0] == want, "imperatives."+fnn+" option "+key+"= → opts[\""+key+"\"]", c.At(mu), "stored under the name of the option that was given", fmt.Sprintf("the value of option tokens %v is stored as %q", g, key))
		})
		if n == 0 {
			anchorFail("%s: no opts[...] assignments", fnn)
		}
	}
	checkStringSwitchMatcher(c, funcCalling(c.P, c.P.Func("route", "*baseRoute", "update"), modPath+"/matcher.New"), "route.baseRoute.update (modRoute)", true)
	checkStringSwitchMatcher(c, funcCalling(c.P, c.P.Func("destination", "*Destination", "Update"), modPath+"/matcher.New"), "destination.Destination.Update (modDest)", true)
	checkUpdateFlag(c, funcCalling(c.P, c.P.Func("route", "*baseRoute", "update"), modPath+"/matcher.New"), "route.baseRoute.update (modRoute)")
	checkUpdateFlag(c, funcCalling(c.P, c.P.Func("destination", "*Destination", "Update"), modPath+"/matcher.New"), "destination.Destination.Update (modDest)")
	// carbon routes use readRouteOpts too
	checkRouteOptsOrder(c, c.P.Func("imperatives", "", "readAddRoute"), tok)
	checkRouteOptsOrder(c, c.P.Func("imperatives", "", "readAddRouteConsistentHashing"), tok)
	checkReadRouteOpts(c, tok)
}

// checkStringSwitchMatcher: in fn, the value assigned under `case "<opt>"` of a string switch reaches
// matcher.New's parameter for <opt> (and nothing else does, apart from the current value when updating).
func checkStringSwitchMatcher(c *Check, fn *ssa.Function, label string, keepCurrent bool) {
	w := wiringOfCall(c, fn, modPath+"/matcher.New")
	for i, opt := range matcherOrder {
		names, _ := tokenSources(w.srcs[w.params[i]])
		okS := len(names) == 1 && names[0] == "str:"+opt
		c.Judge(okS, label+" \""+opt+"\" → matcher.New("+opt+")", c.At(w.call), "the value given for "+opt+" becomes the "+opt+" option of the new filter", fmt.Sprintf("filter option %s is fed from the cases %v: options are swapped or ignored", opt, names))
		if keepCurrent {
			// an option that is not given keeps its current value: the only other source is the equally named field of the filter in force
			want := strings.ToUpper(opt[:1]) + opt[1:]
			fields, _ := fieldSources(w.srcs[w.params[i]])
			var other []string
			for _, s := range w.srcs[w.params[i]] {
				if s.Kind != "token" && s.Kind != "field" {
					other = append(other, s.String())
				}
			}
			okF := len(fields) == 1 && strings.TrimSuffix(fields[0], "@init") == want && len(other) == 0
			c.Judge(okF, label+" "+opt+" not given → current "+want, c.At(w.call), "an option that is not mentioned keeps the value of field "+want+" of the current filter", fmt.Sprintf("when %s is not given the new filter takes it from fields %v / %v instead of the current %s: updating one option silently changes another", opt, fields, other, want))
		}
	}
}

// checkUpdateFlag: in an update function (modRoute / modDest), the new filter is built and installed
// under a flag; that flag must become true for every one of the six filter options and, once true,
// stay true for the rest of the option loop (it may not be recomputed per option).
func checkUpdateFlag(c *Check, fn *ssa.Function, label string) {
	var call *ssa.Call
	allInstrs(fn, func(in ssa.Instruction) {
		if x, ok := in.(*ssa.Call); ok && calleeName(x.Common()) == modPath+"/matcher.New" {
			call = x
		}
	})
	if call == nil {
		anchorFail("%s: no call to matcher.New", FuncName(fn))
	}
	key := label + " a given filter option always rebuilds the filter"
	// the flag: a non-error condition whose true edge controls the call
	var flag ssa.Value
	for _, b := range fn.Blocks {
		ifi, ok := b.Instrs[len(b.Instrs)-1].(*ssa.If)
		if !ok {
			continue
		}
		if _, _, isErr := errTest(ifi.Cond); isErr {
			continue
		}
		if edgeDominates(b, b.Succs[0], call.Block()) && !edgeDominates(b, b.Succs[1], call.Block()) {
			if types.Identical(ifi.Cond.Type().Underlying(), types.Typ[types.Bool]) {
				flag = ifi.Cond
			}
		}
	}
	if flag == nil {
		// no single flag: either the filter is rebuilt unconditionally, or the decision is spread over
		// several tests (e.g. `a != cur.A || b != cur.B || …`): then every one of the six options must take part
		sl0 := newSlicer(c.P, fn)
		compared := map[string]bool{}
		conditional, unknown := false, ""
		for _, b := range fn.Blocks {
			ifi, ok := b.Instrs[len(b.Instrs)-1].(*ssa.If)
			if !ok || !b.Dominates(call.Block()) && !reachable(b, nil, nil)[call.Block()] {
				continue
			}
			if _, _, isErr := errTest(ifi.Cond); isErr {
				continue
			}
			r0 := reachable(b.Succs[0], nil, nil)[call.Block()] || b.Succs[0] == call.Block()
			r1 := reachable(b.Succs[1], nil, nil)[call.Block()] || b.Succs[1] == call.Block()
			if r0 == r1 {
				continue // does not decide whether the call happens
			}
			if innermostLoop(loopsOf(fn), b) != nil {
				continue // option loop control
			}
			conditional = true
			cnd, _ := negStrip(ifi.Cond)
			bo, ok := cnd.(*ssa.BinOp)
			if !ok || (bo.Op != token.NEQ && bo.Op != token.EQL) {
				unknown = c.P.InstrPos(ifi)
				continue
			}
			opt := ""
			for _, side := range []ssa.Value{bo.X, bo.Y} {
				names, _ := tokenSources(sl0.sources(side))
				for _, n := range names {
					if strings.HasPrefix(n, "str:") {
						opt = strings.TrimPrefix(n, "str:")
					}
				}
			}
			if opt == "" {
				unknown = c.P.InstrPos(ifi)
				continue
			}
			compared[opt] = true
		}
		if !conditional {
			c.Hold(key, c.At(call), "the filter is rebuilt unconditionally")
			return
		}
		var missing []string
		for _, o := range matcherOrder {
			if !compared[o] {
				missing = append(missing, o)
			}
		}
		why := ""
		if unknown != "" {
			why = "whether the new filter is built depends on a condition that is not a comparison of a filter option (" + unknown + ")"
		} else if len(missing) > 0 {
			why = "the new filter is only built when one of the compared options changed, and " + strings.Join(missing, ", ") + " is not compared: giving only that option is acknowledged but ignored"
		}
		c.Judge(why == "", key, c.At(call), "rebuilt when any of the six options differs from the filter in force", why+" — the command is acknowledged but the old filter stays in force")
		return
	}
	g := fn
	if hc, idx, ok := helperResult(flag); ok {
		// the flag is computed by a helper: look at what the helper returns
		g = hc.Call.StaticCallee()
		var rets []ssa.Value
		allInstrs(g, func(in ssa.Instruction) {
			if r, ok := in.(*ssa.Return); ok && idx < len(r.Results) {
				rets = append(rets, r.Results[idx])
			}
		})
		flag = nil
		for _, r := range rets {
			if k, ok := r.(*ssa.Const); ok && k.Value != nil && !constant.BoolVal(k.Value) {
				continue // error returns
			}
			flag = r
		}
		if flag == nil {
			c.Violate(key, c.At(call), "the helper that decides whether the filter changes never reports a change")
			return
		}
	}
	sl := newSlicer(c.P, g)
	loops := loopsOf(g)
	seen := map[ssa.Value]bool{}
	trueOpts := map[string]bool{}
	bad := ""
	var walk func(v ssa.Value, pred *ssa.BasicBlock)
	walk = func(v ssa.Value, pred *ssa.BasicBlock) {
		switch x := v.(type) {
		case *ssa.Phi:
			if seen[v] {
				return
			}
			seen[v] = true
			for i, e := range x.Edges {
				walk(e, x.Block().Preds[i])
			}
		case *ssa.Const:
			if x.Value == nil || x.Value.Kind() != constant.Bool {
				bad = "the flag is not a boolean constant on some path"
				return
			}
			if constant.BoolVal(x.Value) {
				if pred != nil {
					for _, gname := range sl.guardOf(pred) {
						trueOpts[strings.TrimPrefix(gname, "str:")] = true
					}
					// one assignment shared by several cases (the cases only select what is assigned, the flag is
					// raised once behind the switch): it covers every case from whose body the next iteration of
					// the option loop cannot be reached without passing the assignment
					for _, gname := range casesFunnelledThrough(sl, loops, pred) {
						trueOpts[strings.TrimPrefix(gname, "str:")] = true
					}
				}
			} else if pred != nil && innermostLoop(loops, pred) != nil {
				bad = "the flag is reset to false inside the option loop (" + c.P.InstrPos(pred.Instrs[len(pred.Instrs)-1]) + ")"
			}
		case *ssa.UnOp:
			// a local that is assigned in several places (address taken, or spilled because of `defer`)
			if al, ok := x.X.(*ssa.Alloc); ok && x.Op == token.MUL {
				if seen[v] {
					return
				}
				seen[v] = true
				n := 0
				for _, r := range *al.Referrers() {
					if st, ok := r.(*ssa.Store); ok && st.Addr == ssa.Value(al) {
						n++
						walk(st.Val, st.Block())
					}
				}
				if n > 0 {
					return
				}
			}
			bad = "the flag is not a plain boolean variable"
		default:
			pos := ""
			if in, ok := v.(ssa.Instruction); ok {
				pos = " (" + c.P.InstrPos(in) + ")"
			}
			bad = "the flag is recomputed from the option being looked at" + pos + ": with several options in one command the last one visited decides, and Go's map iteration order is random"
		}
	}
	walk(flag, nil)
	var missing []string
	for _, o := range matcherOrder {
		if !trueOpts[o] {
			missing = append(missing, o)
		}
	}
	if bad == "" && len(missing) > 0 {
		bad = "giving " + strings.Join(missing, ", ") + " does not set the flag that makes the new filter take effect"
	}
	c.Judge(bad == "", key, c.At(call), "set to true under each of the six options and never cleared", bad+" — the command is acknowledged but the old filter stays in force")
}

// casesFunnelledThrough: the option cases (guards of sl) inside a loop whose body entry cannot reach the
// loop header again (or leave the loop other than by returning) without passing block b; b has a single
// successor, so passing b means leaving it on the edge the assignment in b is valid on.
func casesFunnelledThrough(sl *slicer, loops []*Loop, b *ssa.BasicBlock) []string {
	if b == nil || len(b.Succs) != 1 {
		return nil
	}
	l := innermostLoop(loops, b)
	if l == nil {
		return nil
	}
	var out []string
	for _, g := range sl.guards {
		if !l.Body[g.block] || len(g.block.Succs) == 0 {
			continue
		}
		body := g.block.Succs[0]
		if body == b {
			out = append(out, g.name)
			continue
		}
		if !l.Body[body] {
			continue
		}
		r := reachable(body, nil, map[*ssa.BasicBlock]bool{b: true})
		escapes := r[l.Header]
		for _, e := range l.Exits() {
			// leaving the loop without passing b: only harmless when the function returns from there
			if r[e.from] && e.from != b {
				ret, isRet := e.to.Instrs[len(e.to.Instrs)-1].(*ssa.Return)
				if !isRet {
					escapes = true
				} else if n := len(ret.Results); n > 0 {
					// … and reports a failure (a nil error would acknowledge the command)
					if k, ok := ret.Results[n-1].(*ssa.Const); ok && k.IsNil() {
						escapes = true
					}
				}
			}
		}
		if !escapes {
			out = append(out, g.name)
		}
	}
	return out
}

// c20r5: an address given to modDest means what the same address means at construction.
func c20r5(c *Check) {
	dn := c.P.Func("destination", "", "New")
	addrF := c.P.Field("destination", "Destination", "Addr")
	instF := c.P.Field("destination", "Destination", "Instance")
	// (1) the split at construction: one call whose results are stored into Addr and Instance
	var splitCall *ssa.Call
	okPair := true
	allInstrs(dn, func(in ssa.Instruction) {
		st, ok := in.(*ssa.Store)
		if !ok {
			return
		}
		fa, ok := st.Addr.(*ssa.FieldAddr)
		if !ok || (fieldOfAddr(fa) != addrF && fieldOfAddr(fa) != instF) {
			return
		}
		call, _, ok := helperResult(st.Val)
		if !ok {
			okPair = false
			return
		}
		if splitCall != nil && splitCall != call {
			okPair = false
		}
		splitCall = call
	})
	if splitCall == nil || !okPair {
		c.Undecided("destination.New splits the address into (Addr, Instance)", c.AtFn(dn), "no single helper call whose results are stored into Destination.Addr and Destination.Instance: the rule must be re-confirmed")
		return
	}
	split := splitCall.Call.StaticCallee()
	okIn := len(splitCall.Call.Args) == 1
	var got []string
	if okIn {
		ss := newSlicer(c.P, dn).sources(splitCall.Call.Args[0])
		okIn = len(ss) == 1 && (ss[0].Kind == "param" || ss[0].Kind == "paramfield")
		for _, si := range ss {
			got = append(got, si.String())
		}
	}
	c.Judge(okIn, "destination.New address input → "+short(FuncName(split))+" → Destination.Addr, Destination.Instance", c.At(splitCall), "the address is split as given", fmt.Sprintf("the (address, instance) split at construction is fed by %v instead of the address input", got))
	// (2) the update path
	entry := c.P.Func("destination", "*Destination", "Update")
	funcs := []*ssa.Function{entry}
	inSet := map[*ssa.Function]bool{entry: true}
	for i := 0; i < len(funcs) && i < 32; i++ {
		allInstrs(funcs[i], func(in ssa.Instruction) {
			if call, ok := in.(*ssa.Call); ok {
				g := call.Call.StaticCallee()
				if g != nil && g != split && g.Blocks != nil && ModuleFunc(g) && !inSet[g] && g.Pkg == entry.Pkg {
					inSet[g] = true
					funcs = append(funcs, g)
				}
			}
		})
	}
	slicers := map[*ssa.Function]*slicer{}
	slOf := func(fn *ssa.Function) *slicer {
		if slicers[fn] == nil {
			slicers[fn] = newSlicer(c.P, fn)
		}
		return slicers[fn]
	}
	// sources of v in fn with parameters bound to the call sites on the update path
	var bound func(fn *ssa.Function, ss []srcInfo, depth int) []srcInfo
	bound = func(fn *ssa.Function, ss []srcInfo, depth int) []srcInfo {
		var out []srcInfo
		for _, si := range ss {
			if si.Kind != "param" || si.Param == nil || fn == entry || depth > 3 {
				out = append(out, si)
				continue
			}
			idx := -1
			for i, p := range fn.Params {
				if p == si.Param {
					idx = i
				}
			}
			n := 0
			for _, caller := range funcs {
				allInstrs(caller, func(in ssa.Instruction) {
					call, ok := in.(*ssa.Call)
					if !ok || call.Call.StaticCallee() != fn || idx < 0 || idx >= len(call.Call.Args) {
						return
					}
					n++
					out = append(out, bound(caller, slOf(caller).sourcesAt(call.Call.Args[idx], call.Block()), depth+1)...)
				})
			}
			if n == 0 {
				out = append(out, si)
			}
		}
		return out
	}
	nCalls := 0
	for _, fn := range funcs {
		fn := fn
		allInstrs(fn, func(in ssa.Instruction) {
			call, ok := in.(*ssa.Call)
			if !ok || call.Call.StaticCallee() != split || len(call.Call.Args) != 1 {
				return
			}
			nCalls++
			ss := bound(fn, slOf(fn).sourcesAt(call.Call.Args[0], call.Block()), 0)
			names, _ := tokenSources(ss)
			var derived []string
			for _, si := range ss {
				switch si.Kind {
				case "token":
				case "const":
					// the "not given" value
				default:
					derived = append(derived, si.String())
				}
			}
			okV := len(names) == 1 && names[0] == "str:addr" && len(derived) == 0
			c.Judge(okV, "destination.Destination.Update (modDest) \"addr\" → "+short(FuncName(split))+" in "+short(FuncName(fn)), c.At(call), "the value given for addr is split as given, like the address at construction", fmt.Sprintf("the (address, instance) split on the modDest path is fed from the cases %v and from %v instead of the value given for addr as it stands: host:port:instance loses its instance, the same address means something else than at construction", names, derived))
		})
	}
	if nCalls == 0 {
		c.Undecided("destination.Destination.Update (modDest) \"addr\" → "+short(FuncName(split)), c.AtFn(entry), "the update path does not call the function that splits (address, instance) at construction: the rule must be re-confirmed")
	}
}

func isMatcherOpt(s string) bool {
	for _, m := range matcherOrder {
		if m == s {
			return true
		}
	}
	return false
}

// fieldStores: sources of every store into a field of a local struct variable of the named type.
func fieldStores(c *Check, fn *ssa.Function, typeName string) map[string][]srcInfo {
	sl := newSlicer(c.P, fn)
	out := map[string][]srcInfo{}
	allInstrs(fn, func(in ssa.Instruction) {
		// a field whose address is handed to a helper that stores through it (overrideInt(&cfg.BufSize, v))
		if fa, ok := in.(*ssa.FieldAddr); ok && strings.HasSuffix(fa.X.Type().String(), "."+typeName) {
			if ss := sl.pointerArgSources(fa); len(ss) > 0 {
				out[fieldOfAddr(fa).Name()] = append(out[fieldOfAddr(fa).Name()], ss...)
			}
			return
		}
		st, ok := in.(*ssa.Store)
		if !ok {
			return
		}
		fa, ok := st.Addr.(*ssa.FieldAddr)
		if !ok {
			return
		}
		if !strings.HasSuffix(fa.X.Type().String(), "."+typeName) {
			return
		}
		out[fieldOfAddr(fa).Name()] = append(out[fieldOfAddr(fa).Name()], sl.sources(st.Val)...)
	})
	return out
}

// checkRouteOptsOrder: in a command reader that takes its filter options from readRouteOpts, every
// matcher.New parameter is fed by the equally named option token only — however the options travel
// (six positional results, a struct, a helper that builds the matcher).
func checkRouteOptsOrder(c *Check, fn *ssa.Function, tok map[string]string) {
	w := wiringOfCall(c, fn, modPath+"/matcher.New")
	bad := ""
	for i, opt := range matcherOrder {
		names, _ := tokenSources(w.srcs[w.params[i]])
		if !(len(names) == 1 && names[0] == tok[opt]) {
			bad = fmt.Sprintf("matcher option %s is fed by option tokens %v instead of %s", opt, names, tok[opt])
		}
	}
	c.Judge(bad == "", FuncName(fn)+" readRouteOpts results → matcher.New in order", c.At(w.call), "prefix, notPrefix, sub, notSub, regex, notRegex each reach the equally named matcher option", "the route filter options returned by readRouteOpts reach matcher.New under a different name: filter options are swapped or dropped — "+bad)
}

// checkReadRouteOpts: each filter option that readRouteOpts hands back is assigned under its own token.
func checkReadRouteOpts(c *Check, tok map[string]string) {
	fn := c.P.Func("imperatives", "", "readRouteOpts")
	sl := newSlicer(c.P, fn)
	res := fn.Signature.Results()
	for i, opt := range matcherOrder {
		var all []srcInfo
		allInstrs(fn, func(in ssa.Instruction) {
			r, ok := in.(*ssa.Return)
			if !ok {
				return
			}
			switch {
			case res.Len() == 7 && len(r.Results) == 7:
				all = append(all, sl.sources(r.Results[i])...)
			case res.Len() >= 1:
				// the options travel in a struct: the field named like the option
				if st, ok := res.At(0).Type().Underlying().(*types.Struct); ok && len(r.Results) >= 1 {
					for fi := 0; fi < st.NumFields(); fi++ {
						if strings.EqualFold(st.Field(fi).Name(), opt) {
							all = append(all, sl.structFieldSources(r.Results[0], fi)...)
						}
					}
				}
			}
		})
		names, _ := tokenSources(all)
		okT := len(names) == 1 && names[0] == tok[opt]
		c.Judge(okT, "imperatives.readRouteOpts result#"+itoa(i)+" ← "+opt, c.AtFn(fn), "assigned under token "+tok[opt], fmt.Sprintf("result %d (%s) is assigned under tokens %v", i, opt, names))
	}
}

// sectionsAreIndependent: inside the loops over configuration sections, nothing that is handed to a
// constructor or to the table depends on an earlier section.
func sectionsAreIndependent(c *Check, fn *ssa.Function, label string) {
	loops := loopsOf(fn)
	n, bad, at := 0, "", ssa.Instruction(nil)
	allInstrs(fn, func(in ssa.Instruction) {
		call, ok := in.(*ssa.Call)
		if !ok {
			return
		}
		l := innermostLoop(loops, in.Block())
		if l == nil {
			return
		}
		name := calleeName(call.Common())
		if !strings.HasPrefix(name, modPath) && !strings.HasPrefix(name, "("+modPath) && !strings.HasPrefix(name, "(*"+modPath) {
			return
		}
		if strings.Contains(name, "/cfg.") {
			return
		}
		for _, a := range argsOf(call.Common()) {
			n++
			if why := loopCarried(c.P, a, l, in); why != "" && bad == "" {
				bad, at = "an argument of "+short(name)+" depends on an earlier section: "+why, in
			}
		}
	})
	pos := c.AtFn(fn)
	if at != nil {
		pos = c.At(at)
	}
	if n == 0 {
		c.Undecided(label+" sections are independent", pos, "no constructor call inside a section loop found")
		return
	}
	c.Judge(bad == "", label+" sections are independent", pos, fmt.Sprintf("%d constructor arguments inside the section loops, all computed from the current section", n), bad+" — a setting that one section does not mention silently takes the value an earlier section gave it instead of its documented default")
}

func c20r2(c *Check) {
	for _, fn := range []string{"InitAggregation", "InitRewrite", "InitRoutes", "InitBlacklist"} {
		sectionsAreIndependent(c, c.P.Func("cfg", "", fn), "cfg."+fn)
	}
	// TOML destination strings reach the option scanner as they are written
	pd := c.P.Func("imperatives", "", "ParseDestinations")
	okIn, nSet := true, 0
	var setAt ssa.Instruction
	pdLoops := loopsOf(pd)
	allInstrs(pd, func(in ssa.Instruction) {
		call, ok := in.(*ssa.Call)
		if !ok || !strings.HasSuffix(calleeName(call.Common()), "toki.Scanner).SetInput") {
			return
		}
		nSet++
		setAt = in
		arg := call.Call.Args[len(call.Call.Args)-1]
		if tc, ok := arg.(*ssa.Call); ok && calleeName(tc.Common()) == "strings.TrimSpace" {
			arg = tc.Call.Args[0]
		}
		l := innermostLoop(pdLoops, in.Block())
		if l == nil {
			okIn = false
			return
		}
		sl, idx, ok := rangeLoopOver(l)
		if !ok || sl != ssa.Value(pd.Params[0]) || !rangeElem(arg, sl, idx) {
			okIn = false
		}
	})
	if nSet == 0 {
		anchorFail("imperatives.ParseDestinations: no Scanner.SetInput call")
	}
	c.Judge(okIn, "imperatives.ParseDestinations scans each destination string as written", c.At(setAt), "SetInput(destinationConfigs[i])", "the TOML destination string is rewritten before it is scanned (the command syntax's separator substitution turns a double space into an end-of-destination marker): options after it are silently dropped")
	// [[aggregation]]
	ia := c.P.Func("cfg", "", "InitAggregation")
	toml := map[string][]string{"prefix": {"Prefix"}, "notPrefix": {"NotPrefix"}, "sub": {"Sub", "Substr"}, "notSub": {"NotSub"}, "regex": {"Regex"}, "notRegex": {"NotRegex"}}
	checkMatcherArgs(c, ia, "cfg.InitAggregation", false, nil, toml)
	w := wiringOfCall(c, ia, modPath+"/aggregator.New")
	for par, fld := range map[string]string{"fun": "Function", "outFmt": "Format", "cache": "Cache", "interval": "Interval", "wait": "Wait", "dropRaw": "DropRaw"} {
		names, mults := fieldSources(w.srcs[par])
		extra := impureSources(w.srcs[par])
		c.Judge(len(names) == 1 && names[0] == fld && mults[fld] == 1 && len(extra) == 0, "cfg.InitAggregation "+fld+" → aggregator.New("+par+")", c.At(w.call), "TOML setting reaches its parameter unchanged", fmt.Sprintf("parameter %s is fed by settings %v (factors %v) and by %v instead of %s alone", par, names, mults, extra, fld))
	}
	checkSubWins(c, ia, "cfg.InitAggregation")
	// blacklist = ['<method> <pattern>', ...]
	checkStringSwitchMatcher(c, c.P.Func("cfg", "", "InitBlacklist"), "cfg.InitBlacklist", false)
	if rows, err := readMarkdownTable(docsFile(c), "Blacklist", "type"); err == nil {
		sort.Strings(rows)
		want := append([]string(nil), matcherOrder...)
		sort.Strings(want)
		c.Judge(strings.Join(rows, ",") == strings.Join(want, ","), "docs/config.md blacklist methods = the six filter options", "docs/config.md", strings.Join(rows, ","), fmt.Sprintf("documented blacklist methods %v differ from the filter options %v", rows, want))
	} else {
		c.Undecided("docs/config.md blacklist table", "docs/config.md", err.Error())
	}
	checkRewriterWiring(c)
	// [[route]]
	iro := c.P.Func("cfg", "", "InitRoutes")
	checkMatcherArgs(c, iro, "cfg.InitRoutes", false, nil, toml)
	checkSubWins(c, iro, "cfg.InitRoutes")
	// grafanaNet TOML overrides
	grows, err := docTable(docsFile(c), "grafanaNet route")
	if err != nil {
		c.Undecided("docs/config.md grafanaNet table", "docs/config.md", err.Error())
		return
	}
	// the function that fills the GrafanaNetConfig: InitRoutes itself or the per-type helper it calls
	gfn := iro
	best := 0
	for _, f := range samePkgCallees(c.P, iro) {
		if n := len(fieldStores(c, f, "GrafanaNetConfig")); n > best {
			gfn, best = f, n
		}
	}
	stores := fieldStores(c, gfn, "GrafanaNetConfig")
	metaBools := metaLookups(gfn)
	for _, r := range grows {
		if r.Default == "N/A" || isMatcherOpt(r.Setting) {
			continue
		}
		var fld string
		for f := range stores {
			if strings.EqualFold(f, r.Setting) {
				fld = f
			}
		}
		key := "cfg.InitRoutes grafanaNet setting " + r.Setting
		if fld == "" {
			c.Violate(key, c.AtFn(iro), "documented TOML setting "+r.Setting+" is never stored into the route configuration: it is silently ignored")
			continue
		}
		if strings.Contains(r.Values, "true/false") {
			c.Judge(strings.EqualFold(metaBools[fld], r.Setting), key+" → GrafanaNetConfig."+fld+" (metadata lookup)", c.AtFn(iro), "looked up by lower-cased key "+strings.ToLower(r.Setting), fmt.Sprintf("boolean setting %s is taken from metadata key %q", r.Setting, metaBools[fld]))
			continue
		}
		names, mults := fieldSources(stores[fld])
		unit := unitOf(r.Values)
		okF := false
		for _, n := range names {
			if strings.EqualFold(n, r.Setting) && mults[n] == unit {
				okF = true
			}
		}
		for _, n := range names {
			if !strings.EqualFold(n, r.Setting) && !strings.HasSuffix(n, "@init") {
				okF = false
			}
		}
		c.Judge(okF, key+" → GrafanaNetConfig."+fld, c.AtFn(iro), fmt.Sprintf("route setting of the same name, factor %d", unit), fmt.Sprintf("field %s is fed by TOML settings %v with factors %v; documentation: %s (%s)", fld, names, mults, r.Setting, r.Values))
	}
	// kafkaMdm / pubsub / cloudWatch TOML
	type rt struct{ ctor, heading string }
	for _, x := range []rt{{"NewKafkaMdm", "kafkaMdm route"}, {"NewPubSub", "Google PubSub route"}, {"NewCloudWatch", "Cloudwatch"}} {
		rws, err := docTable(docsFile(c), x.heading)
		if err != nil {
			c.Undecided("docs/config.md "+x.heading, "docs/config.md", err.Error())
			continue
		}
		w := wiringOfCall(c, iro, modPath+"/route."+x.ctor)
		for _, r := range rws {
			if isMatcherOpt(r.Setting) || r.Setting == "key" {
				continue
			}
			var par string
			for _, p := range w.params {
				if strings.EqualFold(p, r.Setting) || strings.EqualFold(p, "aws"+r.Setting) {
					par = p
				}
			}
			key := "cfg.InitRoutes " + x.heading + " setting " + r.Setting
			if par == "" {
				c.Violate(key, c.At(w.call), "constructor has no parameter for documented setting "+r.Setting)
				continue
			}
			names, _ := fieldSources(w.srcs[par])
			okF := false
			for _, n := range names {
				if strings.EqualFold(n, r.Setting) {
					okF = true
				}
			}
			c.Judge(okF && len(names) == 1, key+" → route."+x.ctor+"("+par+")", c.At(w.call), "TOML setting reaches its parameter", fmt.Sprintf("parameter %s is fed by TOML settings %v; documentation: %s", par, names, r.Setting))
		}
	}
}

// metaLookups: in InitRoutes the boolean grafanaNet settings are read from the TOML metadata by
// comparing the lower-cased key with a constant: returns field -> constant.
func metaLookups(fn *ssa.Function) map[string]string {
	out := map[string]string{}
	for _, b := range fn.Blocks {
		ifi, ok := b.Instrs[len(b.Instrs)-1].(*ssa.If)
		if !ok {
			continue
		}
		bo, ok := ifi.Cond.(*ssa.BinOp)
		if !ok || bo.Op != token.EQL {
			continue
		}
		s, ok := constString(bo.Y)
		if !ok {
			continue
		}
		if call, ok := bo.X.(*ssa.Call); !ok || calleeName(call.Common()) != "strings.ToLower" {
			continue
		}
		// stores in the true successor
		for _, in := range b.Succs[0].Instrs {
			if st, ok := in.(*ssa.Store); ok {
				if fa, ok := st.Addr.(*ssa.FieldAddr); ok && strings.HasSuffix(fa.X.Type().String(), ".GrafanaNetConfig") {
					out[fieldOfAddr(fa).Name()] = s
				}
			}
		}
	}
	return out
}

// checkSubWins: the value passed as `sub` is Substr unless len(Sub) > 0, then Sub.
func checkSubWins(c *Check, fn *ssa.Function, label string) {
	var mcall *ssa.Call
	// the filter may be built by a helper shared between the sections (newMatcher(opts))
	fn = funcCalling(c.P, fn, modPath+"/matcher.New")
	allInstrs(fn, func(in ssa.Instruction) {
		if call, ok := in.(*ssa.Call); ok && calleeName(call.Common()) == modPath+"/matcher.New" {
			mcall = call
		}
	})
	if mcall == nil {
		anchorFail("%s: no call to matcher.New", label)
	}
	phi, ok := mcall.Call.Args[2].(*ssa.Phi)
	okW := false
	if ok && len(phi.Edges) == 2 {
		for i, e := range phi.Edges {
			_, names := fieldPath(e)
			if len(names) > 0 && strings.EqualFold(names[len(names)-1], "sub") {
				// this edge must come from the block guarded by len(Sub) > 0
				pred := phi.Block().Preds[i]
				for _, b := range fn.Blocks {
					ifi, ok := b.Instrs[len(b.Instrs)-1].(*ssa.If)
					if !ok {
						continue
					}
					bo, ok := ifi.Cond.(*ssa.BinOp)
					if !ok || bo.Op != token.GTR {
						continue
					}
					if call, ok := bo.X.(*ssa.Call); ok {
						if _, isLen := call.Call.Value.(*ssa.Builtin); isLen {
							if _, n2 := fieldPath(call.Call.Args[0]); len(n2) > 0 && strings.EqualFold(n2[len(n2)-1], "sub") && b.Succs[0] == pred {
								okW = true
							}
						}
					}
				}
			}
		}
	}
	c.Judge(okW, label+" sub wins over substr", c.At(mcall), "sub = Substr; if len(Sub) > 0 { sub = Sub }", "when both `sub` and the legacy `substr` are given, `sub` does not take preference")
}

func c20r3(c *Check) {
	// carbon destination defaults
	rows, err := docTable(docsFile(c), "carbon destination")
	if err != nil {
		c.Undecided("docs/config.md carbon destination table", "docs/config.md", err.Error())
		return
	}
	rd := c.P.Func("imperatives", "", "readDestination")
	w, _ := destinationWiring(c, rd)
	for _, r := range rows {
		par, ok := destOptionParam[r.Setting]
		if !ok {
			continue
		}
		want, okd := parseDocDefault(r.Default)
		if !okd {
			c.Undecided("docs default of "+r.Setting, "docs/config.md", "cannot parse default "+r.Default)
			continue
		}
		want = mulConst(want, unitOf(r.Values))
		cs := constSources(w.srcs[par])
		okAll := len(cs) >= 1
		for _, cv := range cs {
			if !constEqual(cv, want) {
				okAll = false
			}
		}
		c.Judge(okAll, "imperatives.readDestination default "+r.Setting+" = "+r.Default, c.At(w.call), fmt.Sprintf("constant %v reaches %s", want, par), fmt.Sprintf("the value used when option %s is absent is %v; documentation says %s (%v in the parameter's unit)", r.Setting, cs, r.Default, want))
	}
	// matcher defaults: empty strings
	for _, fnn := range []string{"readDestination", "readAddAgg"} {
		fn := c.P.Func("imperatives", "", fnn)
		wm := wiringOfCall(c, fn, modPath+"/matcher.New")
		okE := true
		for i, opt := range matcherOrder {
			if fnn == "readAddAgg" && opt == "regex" {
				continue
			}
			for _, cv := range constSources(wm.srcs[wm.params[i]]) {
				if cv.Kind() != constant.String || constant.StringVal(cv) != "" {
					okE = false
				}
			}
		}
		c.Judge(okE, "imperatives."+fnn+" filter options default to \"\"", c.At(wm.call), "absent filter options impose no constraint", "a filter option has a non-empty default")
	}
	// addAgg: cache default true (documented asymmetry: TOML default false), dropRaw false
	ra := c.P.Func("imperatives", "", "readAddAgg")
	wa := wiringOfCall(c, ra, modPath+"/aggregator.New")
	for par, want := range map[string]bool{"cache": true, "dropRaw": false} {
		cs := constSources(wa.srcs[par])
		okD := len(cs) >= 1
		for _, cv := range cs {
			if cv.Kind() != constant.Bool || constant.BoolVal(cv) != want {
				okD = false
			}
		}
		c.Judge(okD, fmt.Sprintf("imperatives.readAddAgg default %s = %v", par, want), c.At(wa.call), "documented default", fmt.Sprintf("default of %s is %v", par, cs))
	}
	// grafanaNet defaults: NewGrafanaNetConfig literal
	grows, err := docTable(docsFile(c), "grafanaNet route")
	if err != nil {
		c.Undecided("docs/config.md grafanaNet table", "docs/config.md", err.Error())
		return
	}
	ngc := c.P.Func("route", "", "NewGrafanaNetConfig")
	lit := map[string]constant.Value{}
	allInstrs(ngc, func(in ssa.Instruction) {
		if st, ok := in.(*ssa.Store); ok {
			if fa, ok := st.Addr.(*ssa.FieldAddr); ok {
				if cst, ok := st.Val.(*ssa.Const); ok && cst.Value != nil {
					lit[fieldOfAddr(fa).Name()] = cst.Value
				}
			}
		}
	})
	for _, r := range grows {
		if r.Default == "N/A" || isMatcherOpt(r.Setting) {
			continue
		}
		want, okd := parseDocDefault(r.Default)
		if !okd {
			continue
		}
		want = mulConst(want, unitOf(r.Values))
		var got constant.Value
		found := false
		for f, v := range lit {
			if strings.EqualFold(f, r.Setting) {
				got, found = v, true
			}
		}
		c.Judge(found && constEqual(got, want), "route.NewGrafanaNetConfig default "+r.Setting+" = "+r.Default, c.AtFn(ngc), fmt.Sprintf("%v", want), fmt.Sprintf("default of %s is %v; documentation says %s (= %v)", r.Setting, got, r.Default, want))
	}
	// kafkaMdm / pubsub / cloudWatch defaults, in both syntaxes
	type rt struct{ cmdFn, ctor, heading string }
	iro := c.P.Func("cfg", "", "InitRoutes")
	for _, x := range []rt{{"readAddRouteKafkaMdm", "NewKafkaMdm", "kafkaMdm route"}, {"readAddRoutePubSub", "NewPubSub", "Google PubSub route"}, {"", "NewCloudWatch", "Cloudwatch"}} {
		rws, err := docTable(docsFile(c), x.heading)
		if err != nil {
			continue
		}
		var ws []*callWiring
		var labels []string
		if x.cmdFn != "" {
			ws = append(ws, wiringOfCall(c, c.P.Func("imperatives", "", x.cmdFn), modPath+"/route."+x.ctor))
			labels = append(labels, "imperatives."+x.cmdFn)
		}
		ws = append(ws, wiringOfCall(c, iro, modPath+"/route."+x.ctor))
		labels = append(labels, "cfg.InitRoutes")
		for _, r := range rws {
			if r.Default == "N/A" || isMatcherOpt(r.Setting) {
				continue
			}
			want, okd := parseDocDefault(r.Default)
			if !okd {
				continue
			}
			for wi, w := range ws {
				var par string
				for _, p := range w.params {
					if strings.EqualFold(p, r.Setting) {
						par = p
					}
				}
				if par == "" {
					continue
				}
				cs := constSources(w.srcs[par])
				if tn, _ := tokenSources(w.srcs[par]); len(cs) == 0 && len(tn) == 0 && wi == 0 && x.cmdFn != "" {
					c.Hold(labels[wi]+" "+x.heading+" default "+r.Setting+" = "+r.Default, c.At(w.call), "mandatory positional argument in the command syntax: no default applies")
					continue
				}
				if len(cs) == 0 {
					// booleans / strings taken straight from the TOML struct: zero value of the decoder
					if want.Kind() == constant.Bool && !constant.BoolVal(want) || want.Kind() == constant.String && constant.StringVal(want) == "" {
						c.Hold(labels[wi]+" "+x.heading+" default "+r.Setting+" = "+r.Default, c.At(w.call), "zero value of the decoded setting")
						continue
					}
				}
				okAll := len(cs) >= 1
				for _, cv := range cs {
					if !constEqual(cv, want) {
						okAll = false
					}
				}
				c.Judge(okAll, labels[wi]+" "+x.heading+" default "+r.Setting+" = "+r.Default, c.At(w.call), fmt.Sprintf("%v", want), fmt.Sprintf("the value used when %s is absent is %v; documentation says %s", r.Setting, cs, r.Default))
			}
		}
	}
}

func c20r4(c *Check) {
	cg := c.P.CG()
	rcf := c.P.Func("cmd/carbon-relay-ng", "", "readConfigFile")
	via := cg.Reach([]*ssa.Function{rcf}, allKinds, nil)
	bad := ""
	var at ssa.Instruction
	for fn := range via {
		for _, e := range cg.Out[fn] {
			if e.Name == "os.Expand" || e.Name == "os.ExpandEnv" {
				bad = e.Name + " called from " + FuncName(fn)
				at = e.Site
			}
		}
	}
	pos := c.AtFn(rcf)
	if at != nil {
		pos = c.At(at)
	}
	c.Judge(bad == "", "cmd readConfigFile does not use os.Expand", pos, fmt.Sprintf("%d functions reachable, none calls os.Expand/os.ExpandEnv", len(via)), bad+": the mapping callback of os.Expand receives the name without its braces, so ${1} cannot be preserved (it becomes $1, which Regexp.Expand reads differently when followed by a word character)")
	// substituted names
	ev := c.P.FuncOpt("cmd/carbon-relay-ng", "", "expandVars")
	if ev == nil {
		anchorFail("expandVars not found")
	}
	var names []string
	allInstrs(ev, func(in ssa.Instruction) {
		if bo, ok := in.(*ssa.BinOp); ok && bo.Op == token.EQL {
			if s, ok := constString(bo.Y); ok && bo.X == ev.Params[0] {
				names = append(names, s)
			}
		}
	})
	// ... or looked up in a package-level table keyed by the variable name
	allInstrs(ev, func(in ssa.Instruction) {
		lk, ok := in.(*ssa.Lookup)
		if !ok || lk.Index != ssa.Value(ev.Params[0]) {
			return
		}
		ld, ok := lk.X.(*ssa.UnOp)
		if !ok {
			return
		}
		g, ok := ld.X.(*ssa.Global)
		if !ok {
			return
		}
		if keys, ok := globalMapKeys(c.P, g); ok {
			names = append(names, keys...)
		}
	})
	sort.Strings(names)
	want := []string{"GRAFANA_NET_ADDR", "GRAFANA_NET_API_KEY", "GRAFANA_NET_USER_ID", "HOST"}
	c.Judge(strings.Join(names, ",") == strings.Join(want, ","), "cmd expandVars substitutes exactly the documented variables", c.AtFn(ev), strings.Join(want, ", "), fmt.Sprintf("substituted names are %v, documented are %v", names, want))
	// emission discipline of the expansion loop
	ec := c.P.FuncOpt("cmd/carbon-relay-ng", "", "expandConfig")
	if ec == nil {
		c.Undecided("cmd expandConfig", c.AtFn(rcf), "the interpolation routine was restructured: the emission rule must be re-confirmed")
		return
	}
	loops := loopsOf(ec)
	if len(loops) == 0 {
		c.Undecided("cmd expandConfig loop", c.AtFn(ec), "no scanning loop found")
		return
	}
	// outermost loop
	l := loops[0]
	for _, x := range loops {
		if len(x.Body) > len(l.Body) {
			l = x
		}
	}
	var body *ssa.BasicBlock
	for _, s := range l.Header.Succs {
		if l.Body[s] {
			body = s
		}
	}
	inPar := ec.Params[0]
	cfg := &PathCfg{
		Stop: func(b *ssa.BasicBlock) bool { return b == l.Header },
		Classify: func(in ssa.Instruction) []string {
			call, ok := in.(*ssa.Call)
			if !ok {
				return nil
			}
			switch calleeName(call.Common()) {
			case "(*strings.Builder).WriteByte":
				return []string{"writebyte"}
			case "(*strings.Builder).WriteString", "(*strings.Builder).Write":
				a := call.Call.Args[1]
				if ex, ok := a.(*ssa.Extract); ok {
					if cl, ok := ex.Tuple.(*ssa.Call); ok && calleeName(cl.Common()) == funcCanonical(ev) && ex.Index == 0 {
						return []string{"write:value"}
					}
				}
				if sl, ok := a.(*ssa.Slice); ok && sl.X == inPar {
					return []string{"write:inputslice"}
				}
				return []string{"write:other"}
			case "(*strings.Builder).WriteRune":
				return []string{"write:other"}
			}
			return nil
		},
		BranchV: func(ifi *ssa.If, cond ssa.Value, taken bool, resolve func(ssa.Value) ssa.Value) []string {
			cnd, neg := negStrip(cond)
			if ex, ok := cnd.(*ssa.Extract); ok && ex.Index == 1 {
				if cl, ok := ex.Tuple.(*ssa.Call); ok && calleeName(cl.Common()) == funcCanonical(ev) {
					if taken != neg {
						// the empty name is no variable: this edge cannot be taken for it
						if s, ok := constString(resolve(cl.Call.Args[0])); ok && s == "" {
							return []string{"infeasible"}
						}
						return []string{"known"}
					}
					return []string{"unknown"}
				}
			}
			// tests of an input byte against '{' and '}'
			if bo, ok := cnd.(*ssa.BinOp); ok && (bo.Op == token.EQL || bo.Op == token.NEQ) {
				if k, ok := constInt(bo.Y); ok && (k == '{' || k == '}') {
					isIn := false
					switch x := bo.X.(type) {
					case *ssa.Index:
						isIn = x.X == ssa.Value(inPar)
					case *ssa.Lookup:
						isIn = x.X == ssa.Value(inPar)
					}
					if isIn {
						eq := (bo.Op == token.EQL) == (taken != neg)
						name := map[int64]string{'{': "open", '}': "close"}[k]
						if eq {
							return []string{name + ":T"}
						}
						return []string{name + ":F"}
					}
				}
			}
			return nil
		},
	}
	paths, trunc := EnumPaths(ec, body, cfg)
	var probs []string
	nKnown := 0
	for i := range paths {
		pa := &paths[i]
		if pa.End != "stop" {
			continue
		}
		if pa.Has("infeasible") {
			continue
		}
		if pa.Has("known") && pa.Has("open:T") && !pa.Has("close:T") {
			probs = append(probs, "a name opened with '${' is substituted although no closing '}' follows it: '${HOST.$1}' or '${GRAFANA_NET_ADDR:-x}' is rewritten and leaves a dangling '}': "+pa.String())
		}
		if pa.Has("known") {
			nKnown++
			if pa.Count("write:value") != 1 || pa.Has("write:other") || pa.Has("writebyte") {
				probs = append(probs, "substituting path must write exactly the variable's value: "+pa.String())
			}
			continue
		}
		// not a documented variable (or not a '$' at all): only input bytes may be emitted
		if pa.Has("write:value") || pa.Has("write:other") {
			probs = append(probs, "a '$' sequence that is not a documented variable is re-assembled instead of copied verbatim (braces of ${1} are lost): "+pa.String())
		}
		if pa.Count("writebyte")+pa.Count("write:inputslice") != 1 {
			probs = append(probs, "non-substituting path must copy exactly one piece of input: "+pa.String())
		}
	}
	if trunc || nKnown == 0 {
		probs = append(probs, "expansion loop model incomplete")
	}
	if len(probs) > 6 {
		probs = probs[:6]
	}
	if len(probs) > 0 {
		c.ViolateW("cmd expandConfig copies non-variables verbatim", c.AtFn(ec), probs[0], probs)
	} else {
		c.Hold("cmd expandConfig copies non-variables verbatim", c.AtFn(ec), fmt.Sprintf("%d iteration paths: substitution writes the value once; every other path copies one input byte/slice", len(paths)))
	}
	// when a single byte is copied the position advances by one
	okAdv := true
	allInstrs(ec, func(in ssa.Instruction) {
		call, ok := in.(*ssa.Call)
		if !ok || calleeName(call.Common()) != "(*strings.Builder).WriteByte" {
			return
		}
		// next position in the same block: i + 1
		adv := false
		for _, x := range call.Block().Instrs {
			if bo, ok := x.(*ssa.BinOp); ok && bo.Op == token.ADD {
				if k, ok := constInt(bo.Y); ok && k == 1 {
					if _, isPhi := bo.X.(*ssa.Phi); isPhi {
						adv = true
					}
				}
			}
		}
		if !adv {
			okAdv = false
		}
	})
	c.Judge(okAdv, "cmd expandConfig advances one byte per copied byte", c.AtFn(ec), "WriteByte is paired with i+1", "a single byte is copied but the scan position advances by a different amount: input bytes are skipped or duplicated")
}

// checkRewriterWiring: the four rewriter settings reach rewriter.New unchanged from the TOML section
// and from the addRewriter command, and New stores them in the equally named fields.
func checkRewriterWiring(c *Check) {
	// [[rewriter]]
	ir := c.P.Func("cfg", "", "InitRewrite")
	wr := wiringOfCall(c, ir, modPath+"/rewriter.New")
	for par, fld := range map[string]string{"old": "Old", "new": "New", "not": "Not", "max": "Max"} {
		names, _ := fieldSources(wr.srcs[par])
		extra := impureSources(wr.srcs[par])
		c.Judge(len(names) == 1 && names[0] == fld && len(extra) == 0, "cfg.InitRewrite "+fld+" → rewriter.New("+par+")", c.At(wr.call), "TOML setting reaches its parameter unchanged", fmt.Sprintf("parameter %s is fed by settings %v and also by %v instead of %s alone: some configured value is silently replaced", par, names, extra, fld))
	}
	rn := c.P.Func("rewriter", "", "New")
	gotR := map[string]string{}
	allInstrs(rn, func(in ssa.Instruction) {
		if st, ok := in.(*ssa.Store); ok {
			if fa, ok := st.Addr.(*ssa.FieldAddr); ok {
				if p, ok := st.Val.(*ssa.Parameter); ok {
					gotR[fieldOfAddr(fa).Name()] = p.Name()
				}
			}
		}
	})
	for fld, par := range map[string]string{"Old": "old", "New": "new", "Not": "not", "Max": "max"} {
		c.Judge(gotR[fld] == par, "rewriter.New "+par+" → RW."+fld, c.AtFn(rn), "parameter stored in its field", fmt.Sprintf("RW.%s is filled from parameter %q", fld, gotR[fld]))
	}
	// command: addRewriter old new max
	rar := c.P.Func("imperatives", "", "readAddRewriter")
	wrr := wiringOfCall(c, rar, modPath+"/rewriter.New")
	d := wrr.call.Call.Args[0] != wrr.call.Call.Args[1]
	notC, _ := constString(wrr.call.Call.Args[2])
	c.Judge(d && notC == "", "imperatives.readAddRewriter old,new distinct; not=\"\"", c.At(wrr.call), "old and new from different tokens", "addRewriter passes the same token as old and new")
}

// globalMapLookup: v is m[idx] (plain or comma-ok) for a package-level map m that is initialised
// from a literal with constant keys and values and never written elsewhere; returns the entries.
func globalMapLookup(p *Prog, v ssa.Value) ([][2]constant.Value, ssa.Value, bool) {
	if ex, ok := v.(*ssa.Extract); ok && ex.Index == 0 {
		v = ex.Tuple
	}
	lk, ok := v.(*ssa.Lookup)
	if !ok {
		return nil, nil, false
	}
	ld, ok := lk.X.(*ssa.UnOp)
	if !ok {
		return nil, nil, false
	}
	g, ok := ld.X.(*ssa.Global)
	if !ok {
		return nil, nil, false
	}
	var ents [][2]constant.Value
	okAll := true
	nStores := 0
	for _, fn := range p.Funcs {
		allInstrs(fn, func(in ssa.Instruction) {
			switch x := in.(type) {
			case *ssa.Store:
				if x.Addr != ssa.Value(g) {
					return
				}
				nStores++
				mk, ok := x.Val.(*ssa.MakeMap)
				if !ok || fn.Name() != "init" {
					okAll = false
					return
				}
				for _, r := range *mk.Referrers() {
					if mu, ok := r.(*ssa.MapUpdate); ok {
						k, ok1 := mu.Key.(*ssa.Const)
						val, ok2 := mu.Value.(*ssa.Const)
						if !ok1 || !ok2 {
							okAll = false
							continue
						}
						ents = append(ents, [2]constant.Value{k.Value, val.Value})
					}
				}
			case *ssa.MapUpdate:
				if u, ok := x.Map.(*ssa.UnOp); ok && u.X == ssa.Value(g) {
					okAll = false // written at run time
				}
			}
		})
	}
	if !okAll || nStores != 1 || len(ents) == 0 {
		return nil, nil, false
	}
	return ents, lk.Index, true
}

// globalStructMapLookup: v is a field (path) of m[idx] for a package-level map m that is initialised
// once, from a literal with constant keys and struct values; returns, per key, the values stored into
// the struct's fields, the field that v reads, and the index expression.
func globalStructMapLookup(p *Prog, v ssa.Value) (map[string]map[string]ssa.Value, string, ssa.Value, bool) {
	root, names := fieldPath(v)
	if len(names) != 1 {
		return nil, "", nil, false
	}
	if ex, ok := root.(*ssa.Extract); ok && ex.Index == 0 {
		root = ex.Tuple
	}
	lk, ok := root.(*ssa.Lookup)
	if !ok {
		return nil, "", nil, false
	}
	ld, ok := lk.X.(*ssa.UnOp)
	if !ok {
		return nil, "", nil, false
	}
	g, ok := ld.X.(*ssa.Global)
	if !ok {
		return nil, "", nil, false
	}
	out := map[string]map[string]ssa.Value{}
	okAll, nStores := true, 0
	for _, fn := range p.Funcs {
		allInstrs(fn, func(in ssa.Instruction) {
			switch x := in.(type) {
			case *ssa.Store:
				if x.Addr != ssa.Value(g) {
					return
				}
				nStores++
				mk, ok := x.Val.(*ssa.MakeMap)
				if !ok || fn.Name() != "init" {
					okAll = false
					return
				}
				for _, r := range *mk.Referrers() {
					mu, ok := r.(*ssa.MapUpdate)
					if !ok {
						continue
					}
					key, ok := constString(mu.Key)
					if !ok {
						okAll = false
						continue
					}
					u, ok := mu.Value.(*ssa.UnOp)
					if !ok {
						okAll = false
						continue
					}
					al, ok := u.X.(*ssa.Alloc)
					if !ok {
						okAll = false
						continue
					}
					fields := map[string]ssa.Value{}
					for _, ar := range *al.Referrers() {
						if fa, ok := ar.(*ssa.FieldAddr); ok {
							for _, fr := range *fa.Referrers() {
								if st, ok := fr.(*ssa.Store); ok && st.Addr == ssa.Value(fa) {
									fields[fieldOfAddr(fa).Name()] = st.Val
								}
							}
						}
					}
					out[key] = fields
				}
			case *ssa.MapUpdate:
				if u, ok := x.Map.(*ssa.UnOp); ok && u.X == ssa.Value(g) {
					okAll = false
				}
			}
		})
	}
	if !okAll || nStores != 1 || len(out) == 0 {
		return nil, "", nil, false
	}
	return out, names[0], lk.Index, true
}

// globalMapKeys: the constant string keys of a package-level map that is initialised once from a
// literal and never written elsewhere.
func globalMapKeys(p *Prog, g *ssa.Global) ([]string, bool) {
	var keys []string
	okAll, nStores := true, 0
	for _, fn := range p.Funcs {
		allInstrs(fn, func(in ssa.Instruction) {
			switch x := in.(type) {
			case *ssa.Store:
				if x.Addr != ssa.Value(g) {
					return
				}
				nStores++
				mk, ok := x.Val.(*ssa.MakeMap)
				if !ok || fn.Name() != "init" {
					okAll = false
					return
				}
				for _, r := range *mk.Referrers() {
					if mu, ok := r.(*ssa.MapUpdate); ok {
						k, ok := constString(mu.Key)
						if !ok {
							okAll = false
							continue
						}
						keys = append(keys, k)
					}
				}
			case *ssa.MapUpdate:
				if u, ok := x.Map.(*ssa.UnOp); ok && u.X == ssa.Value(g) {
					okAll = false
				}
			}
		})
	}
	return keys, okAll && nStores == 1 && len(keys) > 0
}
