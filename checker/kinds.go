package main

// Engine B: value kinds for byte slices — which part of a metric line a value
// denotes. Declared kinds of parameters/fields are assumed inside a callee and
// checked at every call site (qualifier checking), so the module is covered
// without a global fixpoint.

import (
	"go/token"
	"go/types"

	"golang.org/x/tools/go/ssa"
)

type Kind int

const (
	KUnknown Kind = iota
	KLine         // "name value timestamp"
	KName         // the metric name only
	KFields       // [][]byte{name, value, timestamp}
	KToken        // value or timestamp token
)

func (k Kind) String() string {
	return [...]string{"UNKNOWN", "LINE", "NAME", "FIELDS", "TOKEN"}[k]
}

const pMatcher = "(*" + modPath + "/matcher.Matcher)."
const pRoute = "(" + modPath + "/route.Route)."

// declared kinds of (non-receiver) parameters, by canonical callee name.
var paramKinds = map[string]map[int]Kind{
	pMatcher + "Match":                                              {0: KName},
	pMatcher + "PreMatch":                                           {0: KName},
	pMatcher + "MatchRegexAndExpand":                                {0: KName},
	pRoute + "Match":                                                {0: KName},
	pRoute + "Dispatch":                                             {0: KLine},
	"(*" + modPath + "/route.baseRoute).Match":                      {0: KName},
	"(*" + modPath + "/destination.Destination).Match":              {0: KName},
	"(*" + modPath + "/aggregator.Aggregator).matchWithCache":       {0: KName},
	"(*" + modPath + "/aggregator.Aggregator).AddMaybe":             {0: KFields},
	modPath + "/validate.Ordered":                                   {0: KName},
	"(*" + modPath + "/route.ConsistentHasher).GetDestinationIndex": {0: KName},
	"(" + modPath + "/rewriter.RW).Do":                              {0: KName},
	"(*" + modPath + "/table.Table).Dispatch":                       {0: KLine},
	"(*" + modPath + "/table.Table).DispatchAggregate":              {0: KLine},
	"(" + modPath + "/input.Dispatcher).Dispatch":                   {0: KLine},
	"(*" + modPath + "/route.SendAllMatch).Dispatch":                {0: KLine},
	"(*" + modPath + "/route.SendFirstMatch).Dispatch":              {0: KLine},
	"(*" + modPath + "/route.ConsistentHashing).Dispatch":           {0: KLine},
	"(*" + modPath + "/route.GrafanaNet).Dispatch":                  {0: KLine},
	"(*" + modPath + "/route.KafkaMdm).Dispatch":                    {0: KLine},
	"(*" + modPath + "/route.PubSub).Dispatch":                      {0: KLine},
	"(*" + modPath + "/route.CloudWatch).Dispatch":                  {0: KLine},
}

type Kinds struct {
	p     *Prog
	memo  map[ssa.Value]Kind
	busy  map[ssa.Value]bool
	fnRet map[*ssa.Function]Kind
}

func newKinds(p *Prog) *Kinds {
	return &Kinds{p: p, memo: map[ssa.Value]Kind{}, busy: map[ssa.Value]bool{}, fnRet: map[*ssa.Function]Kind{}}
}

func funcCanonical(fn *ssa.Function) string {
	if fn.Object() != nil {
		if f, ok := fn.Object().(*types.Func); ok {
			return f.FullName()
		}
	}
	return fn.String()
}

// separatorIndex: v is bytes.IndexByte(x, ' ') / bytes.Index(x, []byte(" ")) / strings variants; returns x.
func separatorIndex(v ssa.Value) (ssa.Value, bool) {
	call, ok := v.(*ssa.Call)
	if !ok {
		return nil, false
	}
	switch calleeName(call.Common()) {
	case "bytes.IndexByte":
		if c, ok := constInt(call.Call.Args[1]); ok && c == ' ' {
			return call.Call.Args[0], true
		}
	case "bytes.Index":
		if isSpaceBytes(call.Call.Args[1]) {
			return call.Call.Args[0], true
		}
	}
	return nil, false
}

// isSpaceBytes: v is []byte(" ").
func isSpaceBytes(v ssa.Value) bool {
	if cv, ok := v.(*ssa.Convert); ok {
		if s, ok := constString(cv.X); ok && s == " " {
			return true
		}
	}
	// composite literal []byte{' '} is lowered to an array alloc + slice; accept a 1-element array storing ' '
	if sl, ok := v.(*ssa.Slice); ok {
		if al, ok := sl.X.(*ssa.Alloc); ok {
			n, okv := 0, false
			for _, r := range *al.Referrers() {
				if ia, ok := r.(*ssa.IndexAddr); ok {
					for _, rr := range *ia.Referrers() {
						if st, ok := rr.(*ssa.Store); ok {
							n++
							if c, ok := constInt(st.Val); ok && c == ' ' {
								okv = true
							}
						}
					}
				}
			}
			return n == 1 && okv
		}
	}
	return false
}

func (k *Kinds) Of(v ssa.Value) Kind {
	if v == nil {
		return KUnknown
	}
	if r, ok := k.memo[v]; ok {
		return r
	}
	if k.busy[v] {
		return KUnknown
	}
	k.busy[v] = true
	r := k.compute(v)
	delete(k.busy, v)
	k.memo[v] = r
	return r
}

func (k *Kinds) compute(v ssa.Value) Kind {
	switch x := v.(type) {
	case *ssa.Parameter:
		fn := x.Parent()
		name := funcCanonical(fn)
		idx := -1
		for i, p := range fn.Params {
			if p == x {
				idx = i
			}
		}
		if fn.Signature.Recv() != nil {
			idx--
		}
		if m, ok := paramKinds[name]; ok {
			if kd, ok := m[idx]; ok {
				return kd
			}
		}
		// an undeclared parameter of a module helper (e.g. a loop body extracted into its own
		// function): the kind every call site agrees on
		if args, ok := k.p.paramArgs(x); ok {
			res := KUnknown
			for i, a := range args {
				kd := k.Of(a)
				if i == 0 {
					res = kd
				} else if kd != res {
					return KUnknown
				}
			}
			return res
		}
		return KUnknown
	case *ssa.ChangeType:
		return k.Of(x.X)
	case *ssa.Convert:
		// string(name) / []byte(name) keep the kind
		return k.Of(x.X)
	case *ssa.MakeInterface:
		return k.Of(x.X)
	case *ssa.Phi:
		// all edges NAME, or the LINE itself as fallback of its own NAME prefix (no separator present)
		var kinds []Kind
		nameOf := map[ssa.Value]bool{}
		for _, e := range x.Edges {
			kd := k.Of(e)
			kinds = append(kinds, kd)
			if kd == KName {
				if sl, ok := e.(*ssa.Slice); ok {
					nameOf[sl.X] = true
				}
			}
		}
		res := KUnknown
		for i, kd := range kinds {
			if kd == KLine && nameOf[x.Edges[i]] {
				kd = KName
			}
			if i == 0 {
				res = kd
			} else if res != kd {
				return KUnknown
			}
		}
		return res
	case *ssa.Slice:
		base := k.Of(x.X)
		lowZero := x.Low == nil
		if c, ok := constInt(x.Low); x.Low != nil && ok && c == 0 {
			lowZero = true
		}
		if lowZero && x.High != nil {
			if of, ok := separatorIndex(x.High); ok && of == x.X && base == KLine {
				return KName
			}
		}
		if x.Low == nil && x.High == nil {
			return base
		}
		return KUnknown
	case *ssa.UnOp:
		if x.Op != token.MUL {
			return KUnknown
		}
		switch a := x.X.(type) {
		case *ssa.IndexAddr:
			if k.Of(a.X) == KFields {
				if c, ok := constInt(a.Index); ok {
					if c == 0 {
						// the name slot: only valid if every store into slot 0 stores a NAME
						return KName
					}
					return KToken
				}
			}
		case *ssa.FieldAddr:
			f := fieldOfAddr(a)
			if f.Name() == "buf" && f.Pkg() != nil && f.Pkg().Path() == modPath+"/aggregator" {
				return KFields // aggregator.msg.buf, filled by AddMaybe from its FIELDS parameter (checked by C03.R1)
			}
		case *ssa.Alloc:
			if s := cellValue(a); s != nil {
				return k.Of(s)
			}
			// a local reassigned on some paths (name := buf; if ... { name = buf[:pos] }) without phi because its address is taken
		}
		return KUnknown
	case *ssa.Field:
		st := x.X.Type().Underlying().(*types.Struct)
		f := st.Field(x.Field)
		if f.Name() == "buf" && f.Pkg() != nil && f.Pkg().Path() == modPath+"/aggregator" {
			return KFields
		}
		return KUnknown
	case *ssa.Extract:
		if call, ok := x.Tuple.(*ssa.Call); ok {
			if calleeName(call.Common()) == "github.com/metrics20/go-metrics20/carbon20.ValidatePacket" && x.Index == 0 {
				return KName
			}
		}
		return KUnknown
	case *ssa.Call:
		cc := x.Common()
		switch calleeName(cc) {
		case "bytes.Fields":
			return KFields
		case "(" + modPath + "/rewriter.RW).Do":
			return KName
		case "bytes.Join":
			if k.Of(cc.Args[0]) == KFields && isSpaceBytes(cc.Args[1]) {
				return KLine
			}
			return KUnknown
		case "bytes.TrimSpace":
			return k.Of(cc.Args[0])
		}
		if callee := cc.StaticCallee(); callee != nil && callee.Blocks != nil && ModuleFunc(callee) {
			return k.retKind(callee, cc.Args)
		}
		return KUnknown
	}
	return KUnknown
}

// retKind: kind of the (single) result of a small module helper such as
// metricName(buf): evaluated with the helper's parameters bound to the kinds of the arguments.
func (k *Kinds) retKind(fn *ssa.Function, args []ssa.Value) Kind {
	if fn.Signature.Results().Len() != 1 {
		return KUnknown
	}
	// bind parameter kinds temporarily
	saved := map[ssa.Value]Kind{}
	for i, p := range fn.Params {
		if i < len(args) {
			if old, ok := k.memo[p]; ok {
				saved[p] = old
			}
			k.memo[p] = k.Of(args[i])
		}
	}
	// results are not memoised across different bindings: use a fresh sub-evaluator for the body
	sub := &Kinds{p: k.p, memo: map[ssa.Value]Kind{}, busy: map[ssa.Value]bool{}, fnRet: k.fnRet}
	for _, p := range fn.Params {
		sub.memo[p] = k.memo[p]
	}
	for _, p := range fn.Params {
		if old, ok := saved[p]; ok {
			k.memo[p] = old
		} else {
			delete(k.memo, p)
		}
	}
	res := KUnknown
	first := true
	bad := false
	nameOf := map[ssa.Value]bool{}
	var rets []ssa.Value
	allInstrs(fn, func(in ssa.Instruction) {
		if r, ok := in.(*ssa.Return); ok && len(r.Results) == 1 {
			rets = append(rets, r.Results[0])
			if sub.Of(r.Results[0]) == KName {
				if sl, ok := r.Results[0].(*ssa.Slice); ok {
					nameOf[sl.X] = true
				}
			}
		}
	})
	for _, r := range rets {
		kd := sub.Of(r)
		if kd == KLine && nameOf[r] {
			kd = KName
		}
		if first {
			res, first = kd, false
		} else if res != kd {
			bad = true
		}
	}
	if bad {
		return KUnknown
	}
	return res
}
