package main

import (
	"fmt"
	"go/token"
	"go/types"
	"os"
	"path/filepath"
	"regexp"
	"sort"
	"strings"

	"golang.org/x/tools/go/ssa"
)

func init() {
	register(&PropDef{
		ID:    "C02",
		Title: "Only valid metrics are forwarded; every rejection is counted and reported",
		Decided: "R1 in the Dispatcher implementation ValidatePacket is called exactly once on every path, everything that forwards (AddMaybe, Route.Dispatch, sends) happens only after its no-error edge, and the error edge reports to the bad-metrics tracker once, increments the invalid counter once, the inbound counter once, and returns; " +
			"R2 the two level arguments of ValidatePacket are the loaded snapshot's Validation_level_legacy.Level / Validation_level_m20.Level, and those snapshot fields are filled from the equally named configuration fields; " +
			"R3 the level-name tables map each documented name to the constant of the same name, are written through a pointer receiver into the Level field, agree with the tables in docs/validation.md, and the defaults of NewConfig are the rows marked (default); " +
			"R4 IncNumInvalid increments inbound and invalid once each; " +
			"R5 the bad-metrics tracker records every reported line under its name with the rejected text and the reason, and expires records only after maxAge; " +
			"R6 the configured levels survive runtime table changes: no TableConfig value is assembled from a literal that leaves fields out (C19.R5).",
		NotDecided: "the validation grammar itself (third-party carbon20 package, pinned by go.sum); retention timing of the bad-metrics report; TOML decoding.",
		Rules: []RuleDef{
			{ID: "C02.R1", Min: 1, Doc: "gate: path enumeration of every input.Dispatcher.Dispatch implementation; forwarding events only after the `valid` edge; the `invalid` edge is followed by exactly bad.Add×1, numInvalid.Inc×1 and return", Run: c02r1},
			{ID: "C02.R2", Min: 4, Doc: "level plumbing: value flow from cfg.Config.Validation_level_* through TableConfig() → NewTableConfig → TableConfig fields → ValidatePacket arguments", Run: c02r2},
			{ID: "C02.R3", Min: 8, Doc: "level-name tables: map literal entries key ↔ constant name, pointer receiver and store into l.Level, agreement with docs/validation.md, defaults", Run: c02r3},
			{ID: "C02.R4", Min: 1, Doc: "IncNumInvalid: numIn.Inc and numInvalid.Inc exactly once on every path", Run: c02r4},
			{ID: "C02.R5", Min: 3, Doc: "bad-metrics report: Add builds Record{name, rejected text, reason, now} from its parameters; manage stores each received record under its own name; records are only expired when older than maxAge", Run: c02r5},
			{ID: "C02.R6", Min: 1, Doc: "the configured validation levels survive table changes: no TableConfig value is assembled field by field with fields left out — a copy that forgets Validation_level_legacy / Validation_level_m20 validates at the zero level (strict) after the next runtime change (rule C19.R5 evaluated for this property as well)", Run: checkTableConfigLiterals},
		},
	})
}

func c02r1(c *Check) {
	for _, fn := range dispatcherImpls(c.P) {
		name := FuncName(fn)
		paths, trunc := EnumPaths(fn, nil, tableDispatchCfg())
		c.Stat("paths", len(paths))
		if trunc || len(paths) == 0 {
			c.Undecided(name+" gate", c.AtFn(fn), "path enumeration incomplete")
			continue
		}
		var probs []string
		add := func(s string, pa *Path) {
			if len(probs) < 8 {
				probs = append(probs, s+": "+pa.String())
			}
		}
		nInvalid := 0
		for i := range paths {
			pa := &paths[i]
			if pa.Count("validate") != 1 {
				add(fmt.Sprintf("ValidatePacket called %d times", pa.Count("validate")), pa)
			}
			if !pa.Has("valid") && !pa.Has("invalid") {
				add("the result of ValidatePacket is not tested", pa)
			}
			vi := pa.Index("valid")
			for j, e := range pa.Events {
				switch e.Class {
				case "addmaybe", "route.dispatch", "send", "go", "route.match", "rw.Do", "matcher.match", "ordered":
					if vi < 0 || j < vi {
						add(e.Class+" is reachable without passing the no-error edge of validation", pa)
					}
				}
			}
			// every received line is counted inbound once, whatever becomes of it
			if pa.End == "return" && pa.Count("inc:numIn") != 1 {
				add(fmt.Sprintf("a received line increments the inbound counter %d times on this path", pa.Count("inc:numIn")), pa)
			}
			if pa.Has("invalid") {
				nInvalid++
				if pa.Count("bad.Add") != 1 || pa.Count("inc:numInvalid") != 1 || pa.Count("inc:numIn") != 1 {
					add(fmt.Sprintf("rejected line: bad.Add×%d numInvalid×%d numIn×%d (each must be 1)", pa.Count("bad.Add"), pa.Count("inc:numInvalid"), pa.Count("inc:numIn")), pa)
				}
				if pa.End != "return" {
					add("rejection does not return", pa)
				}
			} else if pa.Has("inc:numInvalid") {
				add("invalid counter incremented for a line that passed validation", pa)
			}
		}
		if nInvalid == 0 {
			probs = append(probs, "no rejecting path found: the error result of ValidatePacket is ignored")
		}
		if len(probs) > 0 {
			c.ViolateW(name+" gate", c.AtFn(fn), probs[0], probs)
		} else {
			c.Hold(name+" gate", c.AtFn(fn), fmt.Sprintf("%d paths, %d rejecting", len(paths), nInvalid))
		}
		// bad.Add arguments: (name, line copy, err)
		for _, ba := range badAddSites(c.P, fn) {
			in, args := ba.at, ba.args
			_, isKey := callOf(args[0], nValidatePacket)
			ex, _ := args[0].(*ssa.Extract)
			okName := isKey && ex != nil && ex.Index == 0
			_, okErr1 := callOf(args[2], nValidatePacket)
			_, okErr2 := callOf(args[2], nOrdered)
			c.Judge(okName && (okErr1 || okErr2), name+" bad.Add(name, line, reason)", c.At(in), "reported under the parsed name with the validation error", "the bad-metrics report is not fed with the parsed name and the error that caused the rejection")
		}
	}
}

func c02r2(c *Check) {
	for _, fn := range dispatcherImpls(c.P) {
		allInstrs(fn, func(in ssa.Instruction) {
			if !isCallNamed(in, nValidatePacket) {
				return
			}
			cc := callCommon(in)
			for i, want := range map[int]string{1: "Validation_level_legacy", 2: "Validation_level_m20"} {
				arg := cc.Args[i]
				okf := false
				// arg = conf.<want>.Level
				if root, names := fieldPath(arg); isSnapshotLoad(root) && len(names) == 2 && names[0] == want && names[1] == "Level" {
					okf = true
				}
				c.Judge(okf, fmt.Sprintf("%s ValidatePacket arg%d ← snapshot.%s.Level", FuncName(fn), i, want), c.At(in), "level taken from the loaded table snapshot", "the validation level passed to ValidatePacket is not the configured "+want+" of the loaded snapshot (a constant or the wrong field): the configured level has no effect")
			}
		})
	}
	// NewTableConfig: field <- parameter of the same meaning
	ntc := c.P.Func("table", "", "NewTableConfig")
	wantParam := map[string]int{"Validation_level_legacy": 2, "Validation_level_m20": 3, "Validate_order": 4, "SpoolDir": 0}
	got := map[string]int{}
	allInstrs(ntc, func(in ssa.Instruction) {
		st, ok := in.(*ssa.Store)
		if !ok {
			return
		}
		fa, ok := st.Addr.(*ssa.FieldAddr)
		if !ok {
			return
		}
		for i, p := range ntc.Params {
			if st.Val == p {
				got[fieldOfAddr(fa).Name()] = i
			}
		}
	})
	for f, pi := range wantParam {
		g, ok := got[f]
		c.Judge(ok && g == pi, "table.NewTableConfig "+f+" ← param#"+itoa(pi), c.AtFn(ntc), "field filled from the corresponding parameter", fmt.Sprintf("TableConfig.%s is not filled from parameter %s", f, ntc.Params[pi].Name()))
	}
	// cfg.Config.TableConfig(): arguments are the equally named Config fields
	tc := c.P.Func("cfg", "Config", "TableConfig")
	wantArg := map[int]string{0: "Spool_dir", 1: "Bad_metrics_max_age", 2: "Validation_level_legacy", 3: "Validation_level_m20", 4: "Validate_order"}
	allInstrs(tc, func(in ssa.Instruction) {
		if !isCallNamed(in, modPath+"/table.NewTableConfig") {
			return
		}
		cc := callCommon(in)
		for i, want := range wantArg {
			base, f, ok := fieldLoad(cc.Args[i])
			c.Judge(ok && f.Name() == want, fmt.Sprintf("cfg.Config.TableConfig arg%d ← Config.%s", i, want), c.At(in), "argument is the equally named configuration field", fmt.Sprintf("argument %d of NewTableConfig is not Config.%s: the configured value does not reach the table", i, want))
			if !ok || i < 2 {
				continue
			}
			// the configured level / order flag is handed on as parsed: the method does not overwrite it on the way
			// (every value of these settings, the zero value included, is a documented choice)
			bad := ""
			if al, isAl := base.(*ssa.Alloc); isAl {
				for _, r := range *al.Referrers() {
					switch r := r.(type) {
					case *ssa.Store:
						if r.Addr == al {
							if _, fromParam := r.Val.(*ssa.Parameter); !fromParam {
								bad = "the configuration value is replaced as a whole at " + c.At(r)
							}
						}
					case *ssa.FieldAddr:
						if fieldOfAddr(r).Name() != want {
							continue
						}
						for _, fr := range *r.Referrers() {
							if st, isSt := fr.(*ssa.Store); isSt && st.Addr == r {
								bad = "Config." + want + " is overwritten at " + c.At(st) + " before it is handed to the table"
							}
						}
					}
				}
			} else if _, isPar := base.(*ssa.Parameter); !isPar {
				bad = "the argument is not read from the receiver"
			}
			c.Judge(bad == "", fmt.Sprintf("cfg.Config.TableConfig Config.%s handed on as parsed", want), c.At(in), "no write to the setting between parsing and NewTableConfig", bad+": a configured "+want+" (whose zero value is a valid, documented choice) silently becomes another one")
		}
	})
}

// levelTable resolves the name table an UnmarshalText method consults: the map whose lookup result is the
// level it stores — a map literal built in the method (or a helper of the package) or a package-level
// variable initialised with one — as key -> name of the declared constant stored under it.
func levelTable(p *Prog, recvType string) (map[string]string, *ssa.Function) {
	fn := p.Func("validate", "*"+recvType, "UnmarshalText")
	var levelT types.Type
	if st, ok := p.Named("validate", recvType).Underlying().(*types.Struct); ok {
		for i := 0; i < st.NumFields(); i++ {
			if st.Field(i).Name() == "Level" {
				levelT = st.Field(i).Type()
			}
		}
	}
	if levelT == nil {
		anchorFail("validate.%s has no field Level", recvType)
	}
	var tables []ssa.Value
	for _, f := range samePkgCallees(p, fn) {
		allInstrs(f, func(in ssa.Instruction) {
			lk, ok := in.(*ssa.Lookup)
			if !ok {
				return
			}
			if mt, isMap := lk.X.Type().Underlying().(*types.Map); isMap && types.Identical(mt.Elem(), levelT) {
				tables = append(tables, lk.X)
			}
		})
	}
	if len(tables) == 0 {
		anchorFail("validate.%s.UnmarshalText: no lookup in a table of level names found", recvType)
	}
	out := map[string]string{}
	addEntries := func(m ssa.Value) {
		for _, r := range *m.Referrers() {
			mu, ok := r.(*ssa.MapUpdate)
			if !ok || mu.Map != m {
				continue
			}
			kc, ok := mu.Key.(*ssa.Const)
			if !ok || kc.Value == nil {
				anchorFail("validate.%s.UnmarshalText: level table with a computed key", recvType)
			}
			name := "?"
			if vc, ok := mu.Value.(*ssa.Const); ok && vc.Value != nil {
				name = constName(p, vc)
			}
			out[strings.Trim(kc.Value.ExactString(), "\"")] = name
		}
	}
	for _, t := range tables {
		switch x := strip(t).(type) {
		case *ssa.MakeMap:
			addEntries(x)
		case *ssa.UnOp:
			g, isG := x.X.(*ssa.Global)
			if !isG {
				anchorFail("validate.%s.UnmarshalText: level table %s not resolved", recvType, describeVal(t))
			}
			// a package-level table: what is stored into the variable, and every update of it, anywhere
			for _, f := range p.Funcs {
				allInstrs(f, func(in ssa.Instruction) {
					switch y := in.(type) {
					case *ssa.Store:
						if y.Addr == ssa.Value(g) {
							mm, ok := strip(y.Val).(*ssa.MakeMap)
							if !ok {
								anchorFail("validate.%s.UnmarshalText: level table variable %s assigned something else than a map literal", recvType, g.Name())
							}
							addEntries(mm)
						}
					case *ssa.UnOp:
						if y.X == ssa.Value(g) && y.Op == token.MUL {
							addEntries(y)
						}
					}
				})
			}
		default:
			anchorFail("validate.%s.UnmarshalText: level table %s not resolved", recvType, describeVal(t))
		}
	}
	return out, fn
}

// docTable parses the first markdown table after a heading line containing `heading`.
func docLevels(file, heading string) (levels []string, def string, reserved []string, err error) {
	b, e := os.ReadFile(file)
	if e != nil {
		return nil, "", nil, e
	}
	lines := strings.Split(string(b), "\n")
	in := false
	started := false
	for _, l := range lines {
		if strings.HasPrefix(l, "#") {
			if in && started {
				break
			}
			in = strings.Contains(strings.ToLower(l), strings.ToLower(heading))
			continue
		}
		if !in {
			continue
		}
		if !strings.HasPrefix(strings.TrimSpace(l), "|") {
			if started {
				break
			}
			continue
		}
		cells := strings.Split(strings.Trim(strings.TrimSpace(l), "|"), "|")
		if len(cells) < 2 {
			continue
		}
		name := strings.TrimSpace(cells[0])
		if name == "Level" || strings.HasPrefix(name, "---") {
			started = true
			continue
		}
		started = true
		isDef := strings.Contains(name, "(default)")
		name = strings.TrimSpace(strings.Replace(name, "(default)", "", 1))
		if strings.Contains(strings.ToLower(cells[1]), "reserved") {
			reserved = append(reserved, name)
			continue
		}
		levels = append(levels, name)
		if isDef {
			def = name
		}
	}
	if len(levels) == 0 {
		return nil, "", nil, fmt.Errorf("no level table under heading %q in %s", heading, file)
	}
	return
}

func c02r3(c *Check) {
	type spec struct{ typ, suffix, docHeading, cfgField string }
	for _, sp := range []spec{{"LevelLegacy", "Legacy", "standard carbon key", "Validation_level_legacy"}, {"LevelM20", "M20", "metrics2.0", "Validation_level_m20"}} {
		tbl, fn := levelTable(c.P, sp.typ)
		pos := c.AtFn(fn)
		var keys []string
		for k := range tbl {
			keys = append(keys, k)
		}
		sort.Strings(keys)
		for _, k := range keys {
			want := strings.ToUpper(k[:1]) + k[1:] + sp.suffix
			c.Judge(tbl[k] == want, fmt.Sprintf("validate.%s name %q ↔ %s", sp.typ, k, want), pos, "name maps to the constant of the same name", fmt.Sprintf("level name %q is mapped to %s instead of %s: the configured level is not the one applied", k, tbl[k], want))
		}
		// pointer receiver + store into Level
		_, isPtr := fn.Params[0].Type().(*types.Pointer)
		stores := false
		allInstrs(fn, func(in ssa.Instruction) {
			if st, ok := in.(*ssa.Store); ok {
				if fa, ok := st.Addr.(*ssa.FieldAddr); ok && fa.X == fn.Params[0] && fieldOfAddr(fa).Name() == "Level" {
					// value comes from the map lookup
					stores = true
				}
			}
		})
		c.Judge(isPtr && stores, fmt.Sprintf("validate.%s.UnmarshalText writes the receiver", sp.typ), pos, "pointer receiver; the looked-up level is stored into l.Level", "UnmarshalText does not store the parsed level into the caller's value (value receiver or missing store): every configured level silently stays at the default")
		// docs
		levels, def, _, err := docLevels(filepath.Join(c.P.Dir, "docs", "validation.md"), sp.docHeading)
		if err != nil {
			c.Undecided("docs/validation.md "+sp.docHeading, "docs/validation.md", err.Error())
			continue
		}
		sort.Strings(levels)
		c.Judge(strings.Join(levels, ",") == strings.Join(keys, ","), fmt.Sprintf("validate.%s names = docs/validation.md (%s)", sp.typ, sp.docHeading), pos, "accepted names "+strings.Join(keys, ",")+" equal the documented levels", fmt.Sprintf("accepted level names %v differ from the documented ones %v", keys, levels))
		// default in NewConfig
		nc := c.P.Func("cfg", "", "NewConfig")
		gotDef := ""
		allInstrs(nc, func(in ssa.Instruction) {
			st, ok := in.(*ssa.Store)
			if !ok {
				return
			}
			fa, ok := st.Addr.(*ssa.FieldAddr)
			if !ok || fieldOfAddr(fa).Name() != "Level" {
				return
			}
			outer, ok := fa.X.(*ssa.FieldAddr)
			if !ok || fieldOfAddr(outer).Name() != sp.cfgField {
				return
			}
			if cst, ok := st.Val.(*ssa.Const); ok {
				gotDef = constName(c.P, cst)
			}
		})
		wantDef := strings.ToUpper(def[:1]) + def[1:] + sp.suffix
		c.Judge(gotDef == wantDef, fmt.Sprintf("cfg.NewConfig default %s = %s", sp.cfgField, wantDef), c.AtFn(nc), "default level is the documented one", fmt.Sprintf("default %s is %q, documentation says %q (default)", sp.cfgField, gotDef, def))
	}
}

// constName finds the declared constant of the same type and value (for enum-like constants).
func constName(p *Prog, cst *ssa.Const) string {
	named, ok := cst.Type().(*types.Named)
	if !ok || named.Obj().Pkg() == nil {
		return cst.String()
	}
	sc := named.Obj().Pkg().Scope()
	for _, n := range sc.Names() {
		if k, ok := sc.Lookup(n).(*types.Const); ok && types.Identical(k.Type(), cst.Type()) && k.Val().ExactString() == cst.Value.ExactString() {
			return n
		}
	}
	return cst.String()
}

func c02r4(c *Check) {
	inc := c.P.Func("table", "*Table", "IncNumInvalid")
	paths, _ := EnumPaths(inc, nil, tableDispatchCfg())
	bad := ""
	for i := range paths {
		pa := &paths[i]
		if pa.Count("inc:numIn") != 1 || pa.Count("inc:numInvalid") != 1 {
			bad = "IncNumInvalid must count one inbound and one invalid: " + pa.String()
		}
	}
	c.Judge(bad == "" && len(paths) > 0, FuncName(inc)+" counts in+invalid once", c.AtFn(inc), "numIn and numInvalid incremented once each", bad)
}

var _ = regexp.MustCompile
var _ = token.ADD

func c02r5(c *Check) {
	add := c.P.Func("badmetrics", "*BadMetrics", "Add")
	lit := literalFields(add, "badmetrics.Record")
	okLit := false
	if len(lit) == 4 {
		m, isM := lit["Metric"].(*ssa.Convert)
		l, isL := lit["LastMsg"].(*ssa.Convert)
		okLit = isM && isL && m.X == ssa.Value(add.Params[1]) && l.X == ssa.Value(add.Params[2])
		if e, ok := lit["LastErr"].(*ssa.Call); !ok || !e.Call.IsInvoke() || e.Call.Method.Name() != "Error" || e.Call.Value != ssa.Value(add.Params[3]) {
			okLit = false
		}
		if n, ok := lit["LastSeen"].(*ssa.Call); !ok || calleeName(n.Common()) != "time.Now" {
			okLit = false
		}
	}
	inF := c.P.Field("badmetrics", "BadMetrics", "In")
	sent := false
	allInstrs(add, func(in ssa.Instruction) {
		if s, ok := in.(*ssa.Send); ok && isFieldLoad(s.Chan, inF) {
			sent = true
		}
	})
	c.Judge(okLit && sent, "badmetrics.Add records (name, rejected text, reason, now)", c.AtFn(add), "Record{string(metric), string(msg), err.Error(), time.Now()} sent to the tracker", "the bad-metrics record is not built from the name, the rejected line and the reason (fields swapped or dropped)")
	mg := c.P.Func("badmetrics", "*BadMetrics", "manage")
	seenF := c.P.Field("badmetrics", "BadMetrics", "seen")
	// the select state receiving from b.In, its received value and its case body
	var sel *ssa.Select
	selK := -1
	allInstrs(mg, func(in ssa.Instruction) {
		if x, ok := in.(*ssa.Select); ok {
			for k, st := range x.States {
				if st.Dir == types.RecvOnly && isFieldLoad(st.Chan, inF) {
					sel, selK = x, k
				}
			}
		}
	})
	if sel == nil {
		anchorFail("badmetrics.manage: no select receiving from BadMetrics.In")
	}
	caseEntry := selectCases(sel)[selK]
	isReceived := func(v ssa.Value) bool {
		ex, ok := strip(v).(*ssa.Extract)
		return ok && ex.Tuple == ssa.Value(sel)
	}
	good := map[*ssa.BasicBlock]bool{}
	badStore := ""
	allInstrs(mg, func(in ssa.Instruction) {
		mu, ok := in.(*ssa.MapUpdate)
		if !ok || !isFieldLoad(mu.Map, seenF) {
			return
		}
		root, names := fieldPath(mu.Key)
		vr, vn := fieldPath(mu.Value)
		if len(names) == 1 && names[0] == "Metric" && len(vn) == 0 && (vr == root || strip(vr) == strip(root)) && isReceived(vr) {
			good[in.Block()] = true
		} else if badStore == "" {
			badStore = "at " + c.At(in) + " the tracker stores something other than the record just received under that record's name: the report no longer shows the last rejected line and reason for the name"
		}
	})
	okStore := badStore == "" && len(good) > 0
	if okStore && caseEntry != nil && !good[caseEntry] {
		// every path through the case body stores the record before waiting again
		r := reachable(caseEntry, nil, good)
		if r[sel.Block()] {
			okStore = false
			badStore = "some path through the `<-b.In` case returns to the select without storing the received record: that rejection never becomes visible in the report"
		}
	}
	if caseEntry == nil {
		okStore, badStore = false, "case body of the receive from BadMetrics.In not found"
	}
	if badStore == "" {
		badStore = "a reported record is not stored under its own metric name"
	}
	c.Judge(okStore, "badmetrics.manage keeps the last record per name", c.AtFn(mg), "seen[record.Metric] = record on every path of the receive case, and no other store into seen", badStore)
	// expiry: delete only under LastSeen.Before(now - maxAge)
	okExp := false
	nDel := 0
	maxAgeF := c.P.Field("badmetrics", "BadMetrics", "maxAge")
	// cutoff = time.Now().Add(-maxAge), possibly handed to a helper as a parameter
	var isCutoff func(v ssa.Value, depth int) bool
	isCutoff = func(v ssa.Value, depth int) bool {
		if par, ok := v.(*ssa.Parameter); ok && depth < 3 {
			args, ok := c.P.paramArgs(par)
			if !ok {
				return false
			}
			for _, a := range args {
				if !isCutoff(a, depth+1) {
					return false
				}
			}
			return true
		}
		cut, ok := v.(*ssa.Call)
		if !ok || calleeName(cut.Common()) != "(time.Time).Add" {
			return false
		}
		if now, ok := cut.Call.Args[0].(*ssa.Call); !ok || calleeName(now.Common()) != "time.Now" {
			return false
		}
		neg, ok := cut.Call.Args[1].(*ssa.UnOp)
		return ok && neg.Op == token.SUB && isFieldLoad(neg.X, maxAgeF)
	}
	for _, g := range samePkgCallees(c.P, mg) {
		g := g
		allInstrs(g, func(in ssa.Instruction) {
			cc, ok := isBuiltinCall(in, "delete")
			if !ok || !isFieldLoad(cc.Args[0], seenF) {
				return
			}
			nDel++
			guarded := false
			for _, b := range g.Blocks {
				ifi, ok := b.Instrs[len(b.Instrs)-1].(*ssa.If)
				if !ok {
					continue
				}
				call, ok := ifi.Cond.(*ssa.Call)
				if !ok || calleeName(call.Common()) != "(time.Time).Before" {
					continue
				}
				if !isCutoff(call.Call.Args[1], 0) {
					continue
				}
				if _, names := fieldPath(call.Call.Args[0]); len(names) > 0 && names[len(names)-1] == "LastSeen" && edgeDominates(b, b.Succs[0], in.Block()) {
					guarded = true
				}
			}
			if guarded {
				okExp = true
			} else {
				nDel = -1000
			}
		})
	}
	okExp = okExp && nDel > 0
	c.Judge(okExp, "badmetrics.manage expires a record only when it is older than maxAge", c.AtFn(mg), "delete under record.LastSeen.Before(now − maxAge)", "bad-metrics records are expired by a different rule than `older than maxAge`")
}
