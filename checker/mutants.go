package main

// Thorough tier: mutant battery. Every mutant is a source edit that still
// type-checks, applied in memory through packages.Config.Overlay (no scratch
// copy on disk); the property's rules must fire on it ("caught") or stay silent
// on it (benign variants). Mutants come from two sources: the table in
// mutants_table.go (hand-written from DESIGN.md) and the independently written
// seeded changes kept under /verif/seeded/<property>_<variant>/patch.diff.

import (
	"fmt"
	"os"
	"path/filepath"
	"sort"
	"strconv"
	"strings"
	"sync"
)

type mutant struct {
	Prop   string
	Name   string
	File   string // path relative to the repo root
	Old    string
	New    string
	Expect string // "caught" | "silent"
	Why    string
	// Patch: unified diff file (seeded changes); when set, File/Old/New are ignored
	Patch string
}

type mutantResult struct {
	summary map[string]interface{}
	failed  []string
}

// seeded changes that the checks are known not to detect, with the reason (DESIGN.md section 8)
var seedExpectedMissed = map[string]string{}

func applyReplace(content []byte, old, new string) ([]byte, bool) {
	s := string(content)
	if strings.Count(s, old) != 1 {
		return nil, false
	}
	return []byte(strings.Replace(s, old, new, 1)), true
}

// applyUnifiedDiff applies a git unified diff to files read from repo; returns overlay (abs path → content).
func applyUnifiedDiff(repo string, patch []byte) (map[string][]byte, error) {
	out := map[string][]byte{}
	lines := strings.Split(string(patch), "\n")
	var file string
	var cur []string
	flush := func() {
		if file != "" {
			out[filepath.Join(repo, file)] = []byte(strings.Join(cur, "\n"))
		}
	}
	i := 0
	offset := 0
	for i < len(lines) {
		l := lines[i]
		switch {
		case strings.HasPrefix(l, "+++ "):
			flush()
			file = strings.TrimPrefix(strings.TrimPrefix(l, "+++ "), "b/")
			if file == "/dev/null" {
				return nil, fmt.Errorf("patch deletes a file: not supported in memory")
			}
			if i > 0 && strings.HasPrefix(lines[i-1], "--- /dev/null") {
				// a file the patch creates
				cur = nil
				offset = 0
				i++
				continue
			}
			b, err := os.ReadFile(filepath.Join(repo, file))
			if err != nil {
				return nil, err
			}
			cur = strings.Split(string(b), "\n")
			offset = 0
			i++
		case strings.HasPrefix(l, "@@ "):
			// @@ -a,b +c,d @@
			parts := strings.Fields(l)
			if len(parts) < 3 {
				return nil, fmt.Errorf("bad hunk header %q", l)
			}
			oldSpec := strings.TrimPrefix(parts[1], "-")
			start, _ := strconv.Atoi(strings.Split(oldSpec, ",")[0])
			i++
			var oldL, newL []string
			for i < len(lines) && !strings.HasPrefix(lines[i], "@@ ") && !strings.HasPrefix(lines[i], "diff ") && !strings.HasPrefix(lines[i], "--- ") {
				h := lines[i]
				switch {
				case strings.HasPrefix(h, "+"):
					newL = append(newL, h[1:])
				case strings.HasPrefix(h, "-"):
					oldL = append(oldL, h[1:])
				case strings.HasPrefix(h, " "):
					oldL = append(oldL, h[1:])
					newL = append(newL, h[1:])
				case h == "":
					if i == len(lines)-1 {
						break
					}
					oldL = append(oldL, "")
					newL = append(newL, "")
				case strings.HasPrefix(h, "\\"):
				}
				i++
			}
			// locate: expected position, else search
			pos := start - 1 + offset
			match := func(at int) bool {
				if at < 0 || at+len(oldL) > len(cur) {
					return false
				}
				for k := range oldL {
					if cur[at+k] != oldL[k] {
						return false
					}
				}
				return true
			}
			if !match(pos) {
				found := -1
				for d := 1; d < 400 && found < 0; d++ {
					if match(pos - d) {
						found = pos - d
					} else if match(pos + d) {
						found = pos + d
					}
				}
				if found < 0 {
					return nil, fmt.Errorf("hunk at %s:%d does not apply", file, start)
				}
				pos = found
			}
			next := append([]string{}, cur[:pos]...)
			next = append(next, newL...)
			next = append(next, cur[pos+len(oldL):]...)
			offset += len(newL) - len(oldL)
			cur = next
		default:
			i++
		}
	}
	flush()
	if len(out) == 0 {
		return nil, fmt.Errorf("no file in patch")
	}
	return out, nil
}

func seededMutants(prop string) []mutant {
	var out []mutant
	dirs, _ := filepath.Glob(filepath.Join(verifDir(), "seeded", prop+"_*"))
	sort.Strings(dirs)
	for _, d := range dirs {
		name := filepath.Base(d)
		exp := "caught"
		why := "independently written regression (see " + name + "/notes.md)"
		if r, ok := seedExpectedMissed[name]; ok {
			exp, why = "silent", "known limit: "+r
		}
		out = append(out, mutant{Prop: prop, Name: "seed:" + name, Patch: filepath.Join(d, "patch.diff"), Expect: exp, Why: why})
	}
	return out
}

// benignVariants: the behaviour-preserving refactorings kept under /verif/benign (written by
// independent agents); every property's rules must stay silent on each of them.
func benignVariants(prop string) []mutant {
	var out []mutant
	files, _ := filepath.Glob(filepath.Join(verifDir(), "benign", "*.diff"))
	sort.Strings(files)
	for _, f := range files {
		name := strings.TrimSuffix(filepath.Base(f), ".diff")
		out = append(out, mutant{Prop: prop, Name: "benign:" + name, Patch: f, Expect: "silent", Why: "behaviour-preserving refactoring (see benign/" + name + ".md)"})
	}
	return out
}

func runMutants(repo string, def *PropDef) mutantResult {
	var ms []mutant
	for _, m := range mutantTable {
		if m.Prop == def.ID {
			ms = append(ms, m)
		}
	}
	ms = append(ms, seededMutants(def.ID)...)
	ms = append(ms, benignVariants(def.ID)...)
	known, _ := loadKnown(filepath.Join(verifDir(), "known_findings.txt"))
	knownKeys := map[string]bool{}
	for _, k := range known {
		if k.prop == def.ID {
			knownKeys[k.key] = true
		}
	}
	type res struct {
		m       mutant
		outcome string // caught | silent | skipped | invalid
		detail  string
	}
	results := make([]res, len(ms))
	var wg sync.WaitGroup
	sem := make(chan struct{}, 8)
	for i := range ms {
		wg.Add(1)
		go func(i int) {
			defer wg.Done()
			sem <- struct{}{}
			defer func() { <-sem }()
			m := ms[i]
			var overlay map[string][]byte
			if m.Patch != "" {
				b, err := os.ReadFile(m.Patch)
				if err != nil {
					results[i] = res{m, "skipped", err.Error()}
					return
				}
				ov, err := applyUnifiedDiff(repo, b)
				if err != nil {
					results[i] = res{m, "skipped", "patch no longer applies to the working tree: " + err.Error()}
					return
				}
				overlay = ov
			} else {
				abs := filepath.Join(repo, m.File)
				b, err := os.ReadFile(abs)
				if err != nil {
					results[i] = res{m, "skipped", err.Error()}
					return
				}
				nb, ok := applyReplace(b, m.Old, m.New)
				if !ok {
					results[i] = res{m, "skipped", "the construct to mutate is not present (exactly once) in the working tree"}
					return
				}
				overlay = map[string][]byte{abs: nb}
			}
			p, err := LoadProg(repo, overlay)
			if err != nil {
				results[i] = res{m, "invalid", "mutant does not type-check: " + firstLine(err.Error())}
				return
			}
			c := runProp(p, def, "thorough", "")
			var hits []string
			for _, o := range c.Obs {
				if o.Verdict != "holds" && !knownKeys[o.Key] {
					hits = append(hits, o.Key)
				}
			}
			if len(hits) > 0 {
				sort.Strings(hits)
				if len(hits) > 3 {
					hits = append(hits[:3], fmt.Sprintf("… %d more", len(hits)-3))
				}
				results[i] = res{m, "caught", strings.Join(hits, " | ")}
			} else {
				results[i] = res{m, "silent", ""}
			}
		}(i)
	}
	wg.Wait()
	var failed []string
	var rows []map[string]string
	counts := map[string]int{}
	for _, r := range results {
		counts[r.outcome]++
		ok := r.outcome == r.m.Expect || r.outcome == "skipped" || r.outcome == "invalid"
		rows = append(rows, map[string]string{"mutant": r.m.Name, "expect": r.m.Expect, "outcome": r.outcome, "detail": r.detail, "why": r.m.Why})
		if !ok {
			failed = append(failed, fmt.Sprintf("rule=%s mutant=%s expected=%s got=%s", def.ID, r.m.Name, r.m.Expect, r.outcome))
		}
		fmt.Printf("mutant %-52s expect=%-6s outcome=%-7s %s\n", r.m.Name, r.m.Expect, r.outcome, firstLine(r.detail))
	}
	return mutantResult{summary: map[string]interface{}{"mutants": len(ms), "outcomes": counts, "results": rows,
		"method": "each mutant is applied to the working tree in memory (packages.Config.Overlay), the program is re-loaded and the property's rules are re-run; 'caught' = at least one obligation not listed as known finding is violated or undecided"}, failed: failed}
}
