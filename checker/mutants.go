package main

// Mutant battery for the thorough tier (filled in mutants_table.go).

type mutantResult struct {
	summary map[string]interface{}
	failed  []string
}

func runMutants(repo string, def *PropDef) mutantResult {
	return mutantResult{summary: map[string]interface{}{"status": "no mutants registered for this property"}}
}
