package main

import (
	"fmt"
	"go/token"
	"go/types"
	"sort"
	"strings"

	"golang.org/x/tools/go/ssa"
)

func init() {
	register(&PropDef{
		ID:    "C06",
		Title: "A bad endpoint never stalls ingestion; steady-state losses are all counted",
		Decided: "R1 inside the destination's relay loop no potentially blocking operation is reachable (channel operations outside select-with-default, sleeps, waits, socket or file I/O, mutexes held across such operations) other than the loop's own select; the two operator-initiated synchronous commands (flush, shutdown) are exempted by key; " +
			"R2 each carbon route's Dispatch performs only non-blocking work plus the rendezvous send to that loop; " +
			"R3 connecting (net.Dial*) is never reachable synchronously from the loop, only through `go`; " +
			"R4 every line received by the loop ends in exactly one disposition (queued to the connection, counted slow_conn, queued to the spool, counted slow_spool, counted conn_down_no_spool), likewise for unspooled lines, and the connection writer counts a line as sent exactly when Write succeeded; the counters handed out by package stats are the instances registered under their name, so what a destination counts is what is reported.",
		NotDecided:  "a wall-clock bound; OS socket behaviour; that the counters equal what the endpoint did not receive (needs C05's undecided buffer arithmetic).",
		Assumptions: []string{"logging (logrus) and go-metrics updates do not block", "a rendezvous send to a select loop that has no blocking operation in its bodies completes as soon as the loop comes round"},
		Rules: []RuleDef{
			{ID: "C06.R1", Min: 8, Doc: "relay loop never blocks: may-block analysis of the pre-select part and of every select case body of (*Destination).relay, through all synchronously called module functions", Run: c06r1},
			{ID: "C06.R2", Min: 3, Doc: "route hand-off: may-block analysis of SendAllMatch/SendFirstMatch/ConsistentHashing.Dispatch with the send on Destination.In accepted; that send completes only while the destination's loop runs, so a destination is shut down only after the route snapshot listing it has been replaced (rule C18.R5(a) for Destination.Shutdown)", Run: func(c *Check) {
				c06r2(c)
				if storeBeforeShutdown(c, "destination.Destination") == 0 {
					anchorFail("no Destination.Shutdown next to a snapshot Store found")
				}
			}},
			{ID: "C06.R3", Min: 1, Doc: "dialling is never inline: net.Dial* is unreachable from relay over call/defer edges", Run: c06r3},
			{ID: "C06.R5", Min: 1, Doc: "fresh liveness: on every path from the relay loop's header to its select on which a connection is held (conn != nil), conn.isAlive() was evaluated in that iteration — the conn != nil decision of the `<-dest.In` case (write vs. count as conn-down drop) is never made on a connection that died before the iteration", Run: c06r5},
			{ID: "C06.R6", Min: 3, Doc: "no silent loss on a healthy connection: what Conn.Write hands to the buffered writer is the complete line and its newline (or the complete pickle frame), and the buffered writer copies only into free space of its buffer — bytes that vanish there are lost without any counter moving (rules C05.R3 and C05.R5 evaluated for this property as well)", Run: func(c *Check) { c05r3(c); c05r5(c) }},
			{ID: "C06.R4", Min: 7, Doc: "disposition accounting: path enumeration of the `<-dest.In` and `<-toUnspool` case bodies and of HandleData's `<-c.In` case; every metric constructor of package stats returns the instance the registry holds under the name (the result of get-or-register), never a freshly built one", Run: c06r4},
		},
	})
}

type relayModel struct {
	fn     *ssa.Function
	loop   *Loop
	sel    *ssa.Select
	cases  map[int]*ssa.BasicBlock
	labels map[int]string
}

func buildRelayModel(c *Check) *relayModel {
	fn := c.P.Func("destination", "*Destination", "relay")
	loops := loopsOf(fn)
	if len(loops) == 0 {
		anchorFail("relay: no loop")
	}
	l := loops[0]
	for _, x := range loops {
		if len(x.Body) > len(l.Body) {
			l = x
		}
	}
	var sel *ssa.Select
	for b := range l.Body {
		for _, in := range b.Instrs {
			if s, ok := in.(*ssa.Select); ok && s.Blocking && len(s.States) >= 4 {
				sel = s
			}
		}
	}
	if sel == nil {
		anchorFail("relay: main select not found")
	}
	m := &relayModel{fn: fn, loop: l, sel: sel, cases: selectCases(sel), labels: map[int]string{}}
	for i, st := range sel.States {
		lab := "?"
		if f, ok := chanField(st.Chan); ok {
			lab = f.Name()
		} else if _, names := fieldPath(st.Chan); len(names) > 0 {
			lab = names[len(names)-1]
		} else if st.Dir == types.RecvOnly {
			// the only receive whose channel is a local value (a variable switched between
			// spool.Out and nil, or the result of a helper that makes that choice)
			lab = "toUnspool"
		} else {
			lab = describeVal(st.Chan)
		}
		m.labels[i] = lab
	}
	return m
}

func (m *relayModel) caseOf(label string) (int, *ssa.BasicBlock) {
	for i, l := range m.labels {
		if l == label || strings.HasSuffix(l, label) {
			return i, m.cases[i]
		}
	}
	return -1, nil
}

// keepCleanStopsPromptly: the goroutine awaited by keepSafe.Stop is a select loop with a case on the
// closed channel that returns, and its other bodies do not block.
func keepCleanStopsPromptly(c *Check, a *blockAnalysis) bool {
	kc := c.P.Func("destination", "*keepSafe", "keepClean")
	closedF := c.P.Field("destination", "keepSafe", "closed")
	stop := c.P.Func("destination", "*keepSafe", "Stop")
	// Stop closes `closed` before waiting
	closes := false
	allInstrs(stop, func(in ssa.Instruction) {
		if cc, ok := isBuiltinCall(in, "close"); ok && isFieldLoad(cc.Args[0], closedF) {
			closes = true
		}
	})
	ok := false
	allInstrs(kc, func(in ssa.Instruction) {
		sel, isSel := in.(*ssa.Select)
		if !isSel {
			return
		}
		cases := selectCases(sel)
		for i, st := range sel.States {
			if sel.Blocking && st.Dir == types.RecvOnly && isFieldLoad(st.Chan, closedF) {
				// body returns
				if b := cases[i]; b != nil {
					if _, isRet := b.Instrs[len(b.Instrs)-1].(*ssa.Return); isRet {
						ok = true
					}
					for _, x := range b.Instrs {
						if _, isRD := x.(*ssa.RunDefers); isRD {
							ok = true
						}
					}
				}
			}
		}
		// other bodies non-blocking
		loops := loopsOf(kc)
		if len(loops) == 0 {
			ok = false
			return
		}
		for i := range sel.States {
			if b := cases[i]; b != nil {
				if ops := a.opsIn(kc, regionFrom(b, loops[0].Header), nil); len(ops) > 0 {
					ok = false
				}
			}
		}
		// the select is the goroutine's only waiting point: nothing else in keepClean may block
		// (e.g. a receive from the ticker in front of a non-blocking look at `closed`)
		if ops := a.opsIn(kc, kc.Blocks, func(x ssa.Instruction) bool { return x == in }); len(ops) > 0 {
			ok = false
		}
	})
	return ok && closes
}

// relayHeadPaths enumerates the paths of one iteration of the relay loop from the loop header to
// the choice of a select state. Methods of Destination and closures are expanded, so the model is
// the same whether the pre-select part is written inline or split into helpers. Events:
//
//	conn:nil / conn:held          a *Conn value compared with nil
//	alive@X / dead@X              outcome of X.isAlive()
//	spool:on|off  slowlast:T|F  slownow:T|F
//	tasks.Add  go:collectRedo@X  go:other  clearRedo
//	unspool:on|off|?              what the toUnspool state of the select receives from on this path
func relayHeadPaths(c *Check, m *relayModel) ([]Path, bool) {
	nIsAlive := "(*" + modPath + "/destination.Conn).isAlive"
	nCollect := "(*" + modPath + "/destination.Destination).collectRedo"
	nClear := "(*" + modPath + "/destination.Conn).clearRedo"
	spoolF := c.P.Field("destination", "Destination", "Spool")
	slowLastF := c.P.Field("destination", "Destination", "SlowLastLoop")
	slowNowF := c.P.Field("destination", "Destination", "SlowNow")
	tasksF := c.P.Field("destination", "Destination", "tasks")
	outF := c.P.Field("destination", "Spool", "Out")
	isConn := func(v ssa.Value) bool {
		pt, ok := v.Type().(*types.Pointer)
		if !ok {
			return false
		}
		n, ok := pt.Elem().(*types.Named)
		return ok && n.Obj().Name() == "Conn" && n.Obj().Pkg() != nil && n.Obj().Pkg().Path() == modPath+"/destination"
	}
	stop := map[*ssa.BasicBlock]bool{}
	for _, su := range m.sel.Block().Succs {
		stop[su] = true
	}
	// identity of a connection value: the variable it is loaded from, or the value itself
	id := func(v ssa.Value) string {
		v = strip(v)
		if u, ok := v.(*ssa.UnOp); ok && u.Op == token.MUL {
			switch a := u.X.(type) {
			case *ssa.Alloc:
				return fmt.Sprintf("var:%p", a)
			case *ssa.FreeVar:
				if b := freeVarBinding(a); b != nil {
					return fmt.Sprintf("var:%p", b)
				}
			}
		}
		return fmt.Sprintf("%p", v)
	}
	cfg := &PathCfg{
		ConsistentFields: map[*types.Var]bool{spoolF: true, slowLastF: true, slowNowF: true},
		Stop:             func(b *ssa.BasicBlock) bool { return stop[b] },
		Inline: func(g *ssa.Function) bool {
			if g.Parent() != nil {
				return true
			}
			return g.Signature.Recv() != nil && types.Identical(g.Signature.Recv().Type(), m.fn.Signature.Recv().Type()) && FuncName(g) != short(nCollect)
		},
		ClassifyV: func(in ssa.Instruction, resolve func(ssa.Value) ssa.Value) []string {
			if g, ok := in.(*ssa.Go); ok {
				if calleeName(&g.Call) == nCollect && len(g.Call.Args) == 2 {
					return []string{"go:collectRedo@" + id(resolve(g.Call.Args[1]))}
				}
				return []string{"go:other"}
			}
			if sel, ok := in.(*ssa.Select); ok && sel == m.sel {
				for i, st := range sel.States {
					if m.labels[i] != "toUnspool" {
						continue
					}
					v := resolve(st.Chan)
					if u, ok := v.(*ssa.UnOp); ok {
						if al, ok := u.X.(*ssa.Alloc); ok {
							if s := cellValue(al); s != nil {
								v = resolve(s)
							}
						}
					}
					switch {
					case isFieldLoad(v, outF):
						return []string{"unspool:on"}
					case func() bool { k, ok := v.(*ssa.Const); return ok && k.IsNil() }():
						return []string{"unspool:off"}
					}
					return []string{"unspool:?"}
				}
				return nil
			}
			cc := callCommon(in)
			if cc == nil {
				return nil
			}
			switch calleeName(cc) {
			case nClear:
				return []string{"clearRedo"}
			case "(*sync.WaitGroup).Add":
				if isFieldAddrOf(cc.Args[0], tasksF) {
					return []string{"tasks.Add"}
				}
			}
			return nil
		},
		BranchV: func(ifi *ssa.If, cond ssa.Value, taken bool, resolve func(ssa.Value) ssa.Value) []string {
			cnd, neg := negStrip(cond)
			val := taken != neg
			if call, ok := cnd.(*ssa.Call); ok && calleeName(call.Common()) == nIsAlive {
				if val {
					return []string{"alive@" + id(resolve(call.Call.Args[0]))}
				}
				return []string{"dead@" + id(resolve(call.Call.Args[0]))}
			}
			if bo, ok := cnd.(*ssa.BinOp); ok && (bo.Op == token.NEQ || bo.Op == token.EQL) {
				var x ssa.Value
				if k, ok := bo.Y.(*ssa.Const); ok && k.IsNil() {
					x = bo.X
				} else if k, ok := bo.X.(*ssa.Const); ok && k.IsNil() {
					x = bo.Y
				}
				if x != nil && isConn(x) {
					if (bo.Op == token.NEQ) == val {
						return []string{"conn:held"}
					}
					return []string{"conn:nil"}
				}
			}
			if _, f, ok := fieldLoad(cnd); ok {
				tf := map[bool]string{true: "T", false: "F"}
				switch f {
				case spoolF:
					if val {
						return []string{"spool:on"}
					}
					return []string{"spool:off"}
				case slowLastF:
					return []string{"slowlast:" + tf[val]}
				case slowNowF:
					return []string{"slownow:" + tf[val]}
				}
			}
			return nil
		},
	}
	return EnumPaths(m.fn, m.loop.Header, cfg)
}

func hasPrefixEvent(pa *Path, prefix string) (string, bool) {
	for _, e := range pa.Events {
		if strings.HasPrefix(e.Class, prefix) {
			return e.Class, true
		}
	}
	return "", false
}

func c06r5(c *Check) {
	m := buildRelayModel(c)
	paths, trunc := relayHeadPaths(c, m)
	bad := ""
	nHeld := 0
	for i := range paths {
		pa := &paths[i]
		first, _ := hasPrefixEvent(pa, "conn:")
		if first == "conn:held" {
			nHeld++
			_, a := hasPrefixEvent(pa, "alive@")
			_, d := hasPrefixEvent(pa, "dead@")
			if !a && !d {
				bad = "a held connection reaches the select without conn.isAlive() having been consulted in this iteration: lines received while the endpoint is down are queued on the dead connection and disappear uncounted instead of being counted as conn-down drops: " + pa.String()
			}
		}
	}
	key := "destination.relay liveness checked before every select"
	pos := c.P.InstrPos(m.loop.Header.Instrs[0])
	if trunc || nHeld == 0 {
		c.Undecided(key, pos, "no loop-head path with a held connection was found (the rule's model of relay no longer matches)")
		return
	}
	c.Judge(bad == "", key, pos, fmt.Sprintf("%d loop-head paths, %d with a held connection, all through isAlive()", len(paths), nHeld), bad)
}

func c06r1(c *Check) {
	m := buildRelayModel(c)
	a := newBlockAnalysis(c.P)
	stopName := "(*" + modPath + "/destination.keepSafe).Stop"
	if keepCleanStopsPromptly(c, a) {
		a.accepted[stopName] = "keepClean is a select loop with a case on the channel Stop closes first; its other body only swaps two slices under a short mutex"
		c.Hold("destination.keepSafe.Stop returns promptly", c.AtFn(c.P.Func("destination", "*keepSafe", "Stop")), a.accepted[stopName])
	} else {
		c.Violate("destination.keepSafe.Stop returns promptly", c.AtFn(c.P.Func("destination", "*keepSafe", "Stop")), "keepSafe.Stop waits for a goroutine that is not guaranteed to notice the close at once")
	}
	exempt := map[string]string{
		"flush":    "operator-initiated synchronous command (Table.Flush has no production caller); its contract is to wait for the socket",
		"shutdown": "operator-initiated: the destination is being removed; flushing and closing the connection is its contract",
	}
	skipSel := func(in ssa.Instruction) bool { return in == ssa.Instruction(m.sel) }
	// pre-select part: from the loop header to the select, not entering case bodies
	stopAt := map[*ssa.BasicBlock]bool{}
	for _, b := range m.cases {
		if b != nil {
			stopAt[b] = true
		}
	}
	pre := reachable(m.loop.Header, nil, stopAt)
	var preBlocks []*ssa.BasicBlock
	for b := range pre {
		if !stopAt[b] && m.loop.Body[b] {
			preBlocks = append(preBlocks, b)
		}
	}
	sort.Slice(preBlocks, func(i, j int) bool { return preBlocks[i].Index < preBlocks[j].Index })
	ops := a.opsIn(m.fn, preBlocks, skipSel)
	if len(ops) > 0 {
		c.ViolateW("destination.relay loop head (before the select)", c.P.InstrPos(m.loop.Header.Instrs[0]), "the relay loop can block before it reaches its select: handing a line to the destination (dest.In <- buf) then stalls the route, the table and every input", describeOps(ops, 6))
	} else {
		c.Hold("destination.relay loop head (before the select)", c.P.InstrPos(m.loop.Header.Instrs[0]), fmt.Sprintf("%d blocks, no blocking operation", len(preBlocks)))
	}
	var idx []int
	for i := range m.labels {
		idx = append(idx, i)
	}
	sort.Ints(idx)
	for _, i := range idx {
		lab := m.labels[i]
		key := "destination.relay case <-" + lab
		b := m.cases[i]
		if b == nil {
			c.Undecided(key, c.At(m.sel), "case body not located")
			continue
		}
		if why, ok := exempt[lab]; ok {
			c.Hold(key+" (exempt)", c.P.InstrPos(b.Instrs[0]), why)
			continue
		}
		region := regionFrom(b, m.loop.Header)
		ops := a.opsIn(m.fn, region, skipSel)
		if len(ops) > 0 {
			c.ViolateW(key, c.P.InstrPos(b.Instrs[0]), "a branch of the relay select can block: one slow or dead endpoint stalls everything that hands lines to this destination", describeOps(ops, 6))
		} else {
			c.Hold(key, c.P.InstrPos(b.Instrs[0]), fmt.Sprintf("%d blocks, no blocking operation", len(region)))
		}
	}
	// closures defined in relay that are called from the loop are covered through opsIn; count them
	c.Stat("relay_select_states", len(m.sel.States))
}

func c06r2(c *Check) {
	a := newBlockAnalysis(c.P)
	inF := c.P.Field("destination", "Destination", "In")
	a.acceptedSend[inF] = true
	for _, typ := range []string{"SendAllMatch", "SendFirstMatch", "ConsistentHashing"} {
		fn := c.P.Func("route", "*"+typ, "Dispatch")
		ops := a.Ops(fn)
		key := "route." + typ + ".Dispatch non-blocking"
		if len(ops) > 0 {
			c.ViolateW(key, c.AtFn(fn), "Route.Dispatch can block on something other than the hand-off to the destination's relay loop", describeOps(ops, 6))
		} else {
			c.Hold(key, c.AtFn(fn), "only the rendezvous send on Destination.In, received by the relay loop checked in R1")
		}
	}
	// the table: Dispatch may block only in route hand-off and in the aggregator / bad-metrics inboxes (buffered)
}

func c06r3(c *Check) {
	cg := c.P.CG()
	relay := c.P.Func("destination", "*Destination", "relay")
	via := cg.Reach([]*ssa.Function{relay}, syncKinds, nil)
	bad := ""
	var chain []string
	for fn := range via {
		for _, e := range cg.Out[fn] {
			if e.Kind == EdgeGo || e.Kind == EdgeRef {
				continue
			}
			if strings.HasPrefix(e.Name, "net.Dial") {
				bad = e.Name
				chain = cg.Chain(via, fn)
			}
		}
	}
	if bad != "" {
		c.ViolateW("destination.relay never dials inline", c.AtFn(relay), "the relay loop reaches "+bad+" through ordinary calls: while a connect attempt hangs (SYN black hole) nothing is received from dest.In", chain)
	} else {
		c.Hold("destination.relay never dials inline", c.AtFn(relay), fmt.Sprintf("%d functions reachable by call/defer, none dials", len(via)))
	}
	// updateConn is started with go from relay
	nGo := 0
	allInstrs(relay, func(in ssa.Instruction) {
		if g, ok := in.(*ssa.Go); ok && strings.HasSuffix(calleeName(&g.Call), "Destination).updateConn") {
			nGo++
		}
	})
	c.Judge(nGo >= 1, "destination.relay starts updateConn with go", c.AtFn(relay), fmt.Sprintf("%d go statements", nGo), "relay no longer starts connection attempts in their own goroutine")
}

func dispositionCfg(c *Check, fn *ssa.Function) *PathCfg {
	connIn := c.P.Field("destination", "Conn", "In")
	inRT := c.P.Field("destination", "Spool", "InRT")
	return &PathCfg{
		Classify: func(in ssa.Instruction) []string {
			if f, ok := counterField(in); ok && strings.HasPrefix(f, "numDrop") {
				return []string{"inc:" + f}
			}
			if s, ok := in.(*ssa.Send); ok {
				if isFieldLoad(s.Chan, connIn) {
					return []string{"send:conn.In"}
				}
				if isFieldLoad(s.Chan, inRT) {
					return []string{"send:spool.InRT"}
				}
				return []string{"send:other"}
			}
			if _, ok := in.(*ssa.Go); ok {
				return []string{"go"}
			}
			return nil
		},
		SelectEvent: func(sel *ssa.Select, k int) []string {
			if k < 0 {
				return []string{"default"}
			}
			st := sel.States[k]
			if st.Dir == types.SendOnly {
				if isFieldLoad(st.Chan, connIn) {
					return []string{"send:conn.In"}
				}
				if isFieldLoad(st.Chan, inRT) {
					return []string{"send:spool.InRT"}
				}
				return []string{"send:other"}
			}
			return []string{"recv"}
		},
		Inline: inlineSameRecv(fn), // local closures and helper methods of the same type
	}
}

var dispositions = []string{"send:conn.In", "inc:numDropSlowConn", "send:spool.InRT", "inc:numDropSlowSpool", "inc:numDropNoConnNoSpool"}

func c06r4(c *Check) {
	m := buildRelayModel(c)
	check := func(label string, allowed []string) {
		_, b := m.caseOf(label)
		key := "destination.relay case <-" + label + " one disposition per line"
		if b == nil {
			c.Undecided(key, c.At(m.sel), "case body not located")
			return
		}
		cfg := dispositionCfg(c, m.fn)
		cfg.Stop = func(x *ssa.BasicBlock) bool { return x == m.loop.Header }
		paths, trunc := EnumPaths(m.fn, b, cfg)
		c.Stat("paths", len(paths))
		var probs []string
		seen := map[string]bool{}
		for i := range paths {
			pa := &paths[i]
			n := 0
			for _, d := range dispositions {
				n += pa.Count(d)
				if pa.Count(d) > 0 {
					okD := false
					for _, al := range allowed {
						if al == d {
							okD = true
						}
					}
					if !okD {
						probs = append(probs, "unexpected disposition "+d+": "+pa.String())
					}
					seen[d] = true
				}
			}
			if n != 1 {
				probs = append(probs, fmt.Sprintf("%d dispositions on a path (a line must be queued or counted exactly once): %s", n, pa.String()))
			}
			if pa.Has("send:other") || pa.Has("go") {
				probs = append(probs, "line handed to something else: "+pa.String())
			}
		}
		for _, al := range allowed {
			if !seen[al] {
				probs = append(probs, "no path with disposition "+al+" (model out of date)")
			}
		}
		if trunc {
			probs = append(probs, "path enumeration truncated")
		}
		if len(probs) > 6 {
			probs = probs[:6]
		}
		if len(probs) > 0 {
			c.ViolateW(key, c.P.InstrPos(b.Instrs[0]), probs[0], probs)
		} else {
			c.Hold(key, c.P.InstrPos(b.Instrs[0]), fmt.Sprintf("%d paths, each with exactly one of %v", len(paths), allowed))
		}
	}
	check("In", dispositions)
	check("toUnspool", []string{"send:conn.In", "inc:numDropSlowConn"})
	// the counters that are incremented are the ones the registry reports
	if metricsAreRegistered(c) == 0 {
		anchorFail("package stats: no function handing out a go-metrics metric found")
	}
	// HandleData: numOut exactly on the success edge of Write
	hd := c.P.Func("destination", "*Conn", "HandleData")
	connIn := c.P.Field("destination", "Conn", "In")
	var sel *ssa.Select
	allInstrs(hd, func(in ssa.Instruction) {
		if s, ok := in.(*ssa.Select); ok && s.Blocking {
			sel = s
		}
	})
	if sel == nil {
		anchorFail("HandleData: select not found")
	}
	cases := selectCases(sel)
	var body *ssa.BasicBlock
	for i, st := range sel.States {
		if st.Dir == types.RecvOnly && isFieldLoad(st.Chan, connIn) {
			body = cases[i]
		}
	}
	if body == nil {
		anchorFail("HandleData: `<-c.In` case not found")
	}
	loops := loopsOf(hd)
	nWrite := "(*" + modPath + "/destination.Conn).Write"
	sameRecv := inlineSameRecv(hd)
	cfg := &PathCfg{
		Stop: func(x *ssa.BasicBlock) bool { return len(loops) > 0 && x == loops[0].Header },
		// the case body may have been moved into a helper method; Write itself is an event, not expanded
		Inline: func(g *ssa.Function) bool { return sameRecv(g) && FuncName(g) != short(nWrite) },
		Classify: func(in ssa.Instruction) []string {
			if isCallNamed(in, nWrite) {
				return []string{"write"}
			}
			if f, ok := counterField(in); ok && f == "numOut" {
				return []string{"inc:numOut"}
			}
			if isCallNamed(in, "(*"+modPath+"/destination.Conn).close") {
				return []string{"close"}
			}
			return nil
		},
		Branch: func(ifi *ssa.If, cond ssa.Value, taken bool) []string {
			if e, errEdge, ok := errTest(cond); ok {
				if _, isW := callOf(e, nWrite); isW {
					if taken == errEdge {
						return []string{"write:failed"}
					}
					return []string{"write:ok"}
				}
			}
			return nil
		},
	}
	paths, _ := EnumPaths(hd, body, cfg)
	bad := ""
	for i := range paths {
		pa := &paths[i]
		if pa.Count("write") != 1 {
			bad = "a received line is not written exactly once: " + pa.String()
		}
		if pa.Has("write:ok") && pa.Count("inc:numOut") != 1 {
			bad = "a successfully written line is not counted as sent: " + pa.String()
		}
		if pa.Has("write:failed") && pa.Has("inc:numOut") {
			bad = "a failed write is counted as sent: " + pa.String()
		}
	}
	c.Judge(bad == "" && len(paths) >= 2, "destination.Conn.HandleData counts a line as sent iff Write succeeded", c.P.InstrPos(body.Instrs[0]), fmt.Sprintf("%d paths", len(paths)), bad)
	// HandleData treats every error of Write as a broken connection (closes it, which discards what is
	// buffered): Write may report an error only after it attempted I/O on the connection
	closesOnErr := false
	for i := range paths {
		if paths[i].Has("write:failed") && paths[i].Has("close") {
			closesOnErr = true
		}
	}
	wr := c.P.Func("destination", "*Conn", "Write")
	wcfg := &PathCfg{
		Inline: inlineSameRecv(wr),
		Classify: func(in ssa.Instruction) []string {
			if cc := callCommon(in); cc != nil {
				n := calleeName(cc)
				if strings.HasSuffix(n, "destination.Writer).Write") || strings.HasSuffix(n, "destination.Writer).Flush") || n == "(io.Writer).Write" || n == "(net.Conn).Write" {
					return []string{"io"}
				}
			}
			return nil
		},
	}
	wpaths, wtrunc := EnumPaths(wr, nil, wcfg)
	bad = ""
	nErr := 0
	for i := range wpaths {
		pa := &wpaths[i]
		if pa.End != "return" || len(pa.Ret) == 0 {
			continue
		}
		last := pa.Ret[len(pa.Ret)-1]
		if last != nil && isNilConst(last) {
			continue
		}
		nErr++
		if !pa.Has("io") {
			bad = "Conn.Write can return an error without having written to the connection (" + pa.String() + "): HandleData takes every error from Write for a dead connection and closes it, discarding the lines buffered for a healthy endpoint without counting them"
		}
	}
	if !closesOnErr {
		c.Hold("destination.Conn.Write errors mean I/O errors", c.AtFn(wr), "HandleData does not close the connection on a Write error: nothing to decide")
	} else {
		c.Judge(bad == "" && !wtrunc && nErr > 0, "destination.Conn.Write errors mean I/O errors", c.AtFn(wr), fmt.Sprintf("%d paths, %d may return an error, all after a write to the buffered writer", len(wpaths), nErr), bad)
	}
}

// metricsAreRegistered: a loss is only "counted" if the counter that is incremented is the one the
// registry reports under its name. Every function of package stats that hands out a go-metrics metric
// must return the registry's instance for the name — the result of a get-or-register (or lookup) call
// of the registry — on every return; a freshly constructed metric that was merely offered to the
// registry (Register / NewRegistered*, which keep the older instance when the name exists and still
// return the new one) is a private object nobody reads once a name is asked for a second time
// (destination re-added under the same key, every reconnect).
func metricsAreRegistered(c *Check) int {
	const mpkg = "github.com/Dieterbe/go-metrics"
	isRegistryInstance := func(call *ssa.Call) bool {
		cc := call.Common()
		if cc.IsInvoke() {
			if cc.Method.Pkg() == nil || cc.Method.Pkg().Path() != mpkg {
				return false
			}
			return cc.Method.Name() == "GetOrRegister" || cc.Method.Name() == "Get"
		}
		g := cc.StaticCallee()
		if g == nil || fnPkg(g) == nil || fnPkg(g).Path() != mpkg {
			return false
		}
		return strings.HasPrefix(g.Name(), "GetOrRegister") || g.Name() == "Get"
	}
	n := 0
	for _, fn := range c.P.Funcs {
		if fn.Parent() != nil || fn.Blocks == nil || fn.Synthetic != "" || fnPkg(fn) == nil || fnPkg(fn).Path() != modPath+"/stats" {
			continue
		}
		res := fn.Signature.Results()
		if res.Len() != 1 {
			continue
		}
		named, ok := res.At(0).Type().(*types.Named)
		if !ok || named.Obj().Pkg() == nil || named.Obj().Pkg().Path() != mpkg {
			continue
		}
		if _, isIface := named.Underlying().(*types.Interface); !isIface {
			continue
		}
		n++
		bad := ""
		seen := map[ssa.Value]bool{}
		var walk func(v ssa.Value, at ssa.Instruction)
		walk = func(v ssa.Value, at ssa.Instruction) {
			if v == nil || seen[v] {
				return
			}
			seen[v] = true
			switch x := v.(type) {
			case *ssa.Phi:
				for _, e := range x.Edges {
					walk(e, at)
				}
				return
			case *ssa.TypeAssert:
				walk(x.X, at)
				return
			case *ssa.ChangeInterface:
				walk(x.X, at)
				return
			case *ssa.Extract:
				if ta, ok := x.Tuple.(*ssa.TypeAssert); ok && x.Index == 0 {
					walk(ta.X, at)
					return
				}
			case *ssa.UnOp:
				if s := strip(v); s != v {
					walk(s, at)
					return
				}
			case *ssa.Call:
				if isRegistryInstance(x) {
					return
				}
				// a helper of the package that itself hands out the registry's instance
				if g := x.Call.StaticCallee(); g != nil && g.Blocks != nil && fnPkg(g) == fnPkg(fn) && len(seen) < 64 {
					allInstrs(g, func(in ssa.Instruction) {
						if r, ok := in.(*ssa.Return); ok && in.Parent() == g && len(r.Results) == 1 {
							walk(r.Results[0], at)
						}
					})
					return
				}
			}
			bad = "returns " + describeVal(v) + " at " + c.At(at)
		}
		allInstrs(fn, func(in ssa.Instruction) {
			if r, ok := in.(*ssa.Return); ok && in.Parent() == fn && len(r.Results) == 1 {
				walk(r.Results[0], in)
			}
		})
		c.Judge(bad == "", FuncName(fn)+" hands out the registered metric", c.AtFn(fn), "every return yields what the registry's get-or-register returned for the name", FuncName(fn)+" "+bad+", which is not the instance the registry holds under the name: when the name is already registered (a destination added again under the same key, every reconnect) the caller increments a private metric and the losses it counts are never reported")
	}
	return n
}
