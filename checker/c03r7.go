package main

// C03.R7: the static prefix that matcher.regexToPrefix derives from a regular expression is implied by
// every match of that expression. Decided for the byte-scanning form of the function by enumerating
// its paths over the first iterations with a concrete loop counter and evaluating the comparisons
// that guard each step over the finite domain of a byte (which characters can be where on this path).

import (
	"fmt"
	"go/constant"
	"go/token"
	"sort"
	"strconv"
	"strings"

	"golang.org/x/tools/go/ssa"
)

type byteSet [256]bool

func fullByteSet() *byteSet {
	var s byteSet
	for i := range s {
		s[i] = true
	}
	return &s
}

func (s *byteSet) restrict(op token.Token, c int64, val bool) {
	for b := 0; b < 256; b++ {
		r, ok := evalRel(op, int64(b), c)
		if !ok {
			continue
		}
		if r != val {
			s[b] = false
		}
	}
}

func (s *byteSet) empty() bool {
	for _, v := range s {
		if v {
			return false
		}
	}
	return true
}

func (s *byteSet) subsetOf(pred func(b byte) bool) bool {
	for b, v := range s {
		if v && !pred(byte(b)) {
			return false
		}
	}
	return true
}

func (s *byteSet) only(c byte) bool {
	return s[c] && s.subsetOf(func(b byte) bool { return b == c })
}

func (s *byteSet) String() string {
	var out []string
	for b, v := range s {
		if v {
			if b > 32 && b < 127 {
				out = append(out, string(rune(b)))
			} else {
				out = append(out, fmt.Sprintf("0x%02x", b))
			}
		}
		if len(out) > 12 {
			out = append(out, "…")
			break
		}
	}
	return "{" + strings.Join(out, " ") + "}"
}

// a byte that, written in a regular expression outside any construct, matches exactly itself
func reLiteralByte(b byte) bool {
	if b < 0x20 || b >= 0x7f {
		return false
	}
	return !strings.ContainsRune(`\.+*?()|[]{}^$`, rune(b))
}

// a byte c for which `\c` in a regular expression matches exactly c (RE2: escaped punctuation)
func reEscapableByte(b byte) bool {
	return b > 0x20 && b < 0x7f && !(b >= '0' && b <= '9') && !(b >= 'a' && b <= 'z') && !(b >= 'A' && b <= 'Z')
}

func c03r7(c *Check) {
	fn := c.P.Func("matcher", "", "regexToPrefix")
	key := "matcher.regexToPrefix derived prefix is implied by every match"
	regex := ssa.Value(fn.Params[0])
	var cfg *PathCfg
	// position of a byte load from the expression, "" when v is not one
	posOf := func(v ssa.Value, resolve func(ssa.Value) ssa.Value) (string, bool) {
		for k := 0; k < 6; k++ {
			if resolve != nil {
				v = resolve(v)
			}
			if cv, ok := v.(*ssa.Convert); ok {
				v = cv.X
				continue
			}
			break
		}
		var x, idx ssa.Value
		switch l := v.(type) {
		case *ssa.Lookup:
			x, idx = l.X, l.Index
		case *ssa.Index:
			x, idx = l.X, l.Index
		case *ssa.UnOp:
			if ia, ok := l.X.(*ssa.IndexAddr); ok && l.Op == token.MUL {
				x, idx = ia.X, ia.Index
			}
		}
		if x == nil {
			return "", false
		}
		if x != regex {
			if cv, ok := x.(*ssa.Convert); !ok || cv.X != regex { // []byte(regex)[i]
				return "", false
			}
		}
		if cfg.Eval != nil {
			if cst := cfg.Eval(idx); cst != nil && cst.Kind() == constant.Int {
				return cst.ExactString(), true
			}
		}
		return "?", true
	}
	isLenOfAcc := func(v ssa.Value) bool {
		call, ok := v.(*ssa.Call)
		if !ok {
			return false
		}
		if b, ok := call.Call.Value.(*ssa.Builtin); ok && b.Name() == "len" {
			return call.Call.Args[0] != regex
		}
		n := calleeName(call.Common())
		return n == "(*strings.Builder).Len" || n == "(*bytes.Buffer).Len"
	}
	pipeTest := func(v ssa.Value) (ssa.Value, string) {
		// returns the call and its kind when v is a search for '|' in the expression
		call, ok := v.(*ssa.Call)
		if !ok || len(call.Call.Args) < 2 || call.Call.Args[0] != regex {
			return nil, ""
		}
		switch calleeName(call.Common()) {
		case "strings.IndexByte", "strings.IndexRune":
			if k, ok := constInt(call.Call.Args[1]); ok && k == '|' {
				return call, "index"
			}
		case "strings.Index":
			if s, ok := constString(call.Call.Args[1]); ok && s == "|" {
				return call, "index"
			}
		case "strings.IndexAny":
			if s, ok := constString(call.Call.Args[1]); ok && strings.Contains(s, "|") {
				return call, "index"
			}
		case "strings.ContainsRune":
			if k, ok := constInt(call.Call.Args[1]); ok && k == '|' {
				return call, "bool"
			}
		case "strings.Contains":
			if s, ok := constString(call.Call.Args[1]); ok && s == "|" {
				return call, "bool"
			}
		case "strings.ContainsAny":
			if s, ok := constString(call.Call.Args[1]); ok && strings.Contains(s, "|") {
				return call, "bool"
			}
		}
		return nil, ""
	}
	cfg = &PathCfg{
		Arith:       true,
		EmitCut:     true,
		BackEdgeMax: 2,
		// the character class may be tested by a helper of the package (isWordByte(ch))
		Inline:   func(g *ssa.Function) bool { return fnPkg(g) == fnPkg(fn) && g != fn },
		MaxPaths: 400000,
		ClassifyV: func(in ssa.Instruction, resolve func(ssa.Value) ssa.Value) []string {
			switch x := in.(type) {
			case *ssa.BinOp:
				if x.Op != token.ADD || x.Type().Underlying().String() != "string" {
					return nil
				}
				for _, side := range []ssa.Value{x.Y, x.X} {
					if s, ok := constString(side); ok {
						return []string{"appc:" + strconv.Quote(s)}
					}
					if cv, ok := side.(*ssa.Convert); ok {
						if p, ok := posOf(cv.X, resolve); ok {
							return []string{"app:" + p}
						}
					}
				}
				return []string{"app:!"}
			case *ssa.Call:
				if b, ok := x.Call.Value.(*ssa.Builtin); ok && b.Name() == "append" && len(x.Call.Args) == 2 {
					if elems, ok := variadicElems(x.Call.Args[1]); ok && len(elems) == 1 {
						if p, ok := posOf(elems[0], resolve); ok {
							return []string{"app:" + p}
						}
						if k, ok := constInt(elems[0]); ok {
							return []string{"appc:" + strconv.Quote(string(rune(k)))}
						}
					}
					return []string{"app:!"}
				}
				switch calleeName(x.Common()) {
				case "(*strings.Builder).WriteByte", "(*bytes.Buffer).WriteByte":
					if p, ok := posOf(x.Call.Args[1], resolve); ok {
						return []string{"app:" + p}
					}
					if k, ok := constInt(x.Call.Args[1]); ok {
						return []string{"appc:" + strconv.Quote(string(rune(k)))}
					}
					return []string{"app:!"}
				case "(*strings.Builder).WriteString", "(*bytes.Buffer).WriteString", "(*strings.Builder).WriteRune", "(*bytes.Buffer).WriteRune", "(*strings.Builder).Write", "(*bytes.Buffer).Write":
					if s, ok := constString(x.Call.Args[1]); ok {
						return []string{"appc:" + strconv.Quote(s)}
					}
					if k, ok := constInt(x.Call.Args[1]); ok {
						return []string{"appc:" + strconv.Quote(string(rune(k)))}
					}
					return []string{"app:!"}
				}
			case *ssa.Slice:
				// acc[:len(acc)-1]
				if x.X == regex || x.Low != nil {
					return nil
				}
				if bo, ok := x.High.(*ssa.BinOp); ok && bo.Op == token.SUB {
					if k, ok := constInt(bo.Y); ok && k == 1 && isLenOf(bo.X, x.X) {
						return []string{"drop"}
					}
				}
			}
			return nil
		},
		BranchV: func(ifi *ssa.If, cond ssa.Value, taken bool, resolve func(ssa.Value) ssa.Value) []string {
			cnd, neg := negStrip(cond)
			val := taken != neg
			tf := map[bool]string{true: "T", false: "F"}
			if call, kind := pipeTest(cnd); call != nil && kind == "bool" {
				if !val {
					return []string{"nopipe"}
				}
				return []string{"pipe"}
			}
			bo, ok := cnd.(*ssa.BinOp)
			if !ok {
				return nil
			}
			// search for '|' compared with a constant
			for _, sd := range [][2]ssa.Value{{bo.X, bo.Y}, {bo.Y, bo.X}} {
				if call, kind := pipeTest(sd[0]); call != nil && kind == "index" {
					k, ok := constInt(sd[1])
					if !ok {
						return nil
					}
					op := bo.Op
					if sd[0] == bo.Y {
						op = flipRel(op)
					}
					// absent ⇔ index == -1: does the taken edge imply index < 0 ?
					implied := true
					for _, v := range []int64{0, 1, 5} {
						if r, ok := evalRel(op, v, k); ok && r == val {
							implied = false // a non-negative index is still possible on this edge
						}
					}
					if r, ok := evalRel(op, -1, k); !ok || r != val {
						implied = false
					}
					if implied {
						return []string{"nopipe"}
					}
					return []string{"pipe"}
				}
			}
			// a byte of the expression compared with a constant
			for _, sd := range [][2]ssa.Value{{bo.X, bo.Y}, {bo.Y, bo.X}} {
				p, ok := posOf(sd[0], resolve)
				if !ok {
					continue
				}
				k, ok := constInt(sd[1])
				if !ok {
					return []string{"cmp:?"}
				}
				op := bo.Op
				if sd[0] == bo.Y {
					op = flipRel(op)
				}
				return []string{fmt.Sprintf("c:%s:%s:%d:%s", p, op.String(), k, tf[val])}
			}
			// the accumulator is (not) empty
			for _, sd := range [][2]ssa.Value{{bo.X, bo.Y}, {bo.Y, bo.X}} {
				if !isLenOfAcc(sd[0]) {
					continue
				}
				k, ok := constInt(sd[1])
				if !ok {
					return nil
				}
				op := bo.Op
				if sd[0] == bo.Y {
					op = flipRel(op)
				}
				r0, ok0 := evalRel(op, 0, k)
				r1, ok1 := evalRel(op, 1, k)
				if ok0 && ok1 && r0 != r1 {
					// the test separates empty from non-empty
					if r0 == val {
						return []string{"acc:empty"}
					}
					return []string{"acc:nonempty"}
				}
			}
			// the scan position reached the end of the expression
			if isLenOf(bo.X, regex) || isLenOf(bo.Y, regex) {
				return []string{"lencmp:" + tf[val]}
			}
			return nil
		},
	}
	paths, trunc := EnumPaths(fn, nil, cfg)
	if trunc {
		c.Undecided(key, c.AtFn(fn), "too many paths")
		return
	}
	ops := map[string]token.Token{"==": token.EQL, "!=": token.NEQ, "<": token.LSS, "<=": token.LEQ, ">": token.GTR, ">=": token.GEQ}
	var probs []string
	nFeasible, nWithPrefix := 0, 0
	for i := range paths {
		pa := &paths[i]
		// a path that was cut at the iteration bound still shows what was taken into the prefix so far
		partial := pa.End != "return"
		S := map[int]*byteSet{}
		get := func(k int) *byteSet {
			if S[k] == nil {
				S[k] = fullByteSet()
			}
			return S[k]
		}
		type atom struct{ start, end int }
		var atoms []atom
		infeasible, nopipe, dropped := false, false, false
		lastTested := -1
		bad := ""
		for _, e := range pa.Events {
			cl := e.Class
			switch {
			case cl == "nopipe":
				nopipe = true
			case cl == "pipe":
			case cl == "acc:empty":
				if len(atoms) > 0 && !dropped {
					infeasible = true
				}
			case cl == "acc:nonempty":
				if len(atoms) == 0 {
					infeasible = true
				}
			case cl == "drop":
				if len(atoms) > 0 {
					atoms = atoms[:len(atoms)-1]
					dropped = true
				}
			case strings.HasPrefix(cl, "c:"):
				f := strings.Split(cl, ":")
				if f[1] == "?" {
					bad = "a comparison on a byte of the expression whose position could not be evaluated (" + c.At(e.In) + ")"
					continue
				}
				k, _ := strconv.Atoi(f[1])
				cv, _ := strconv.ParseInt(f[3], 10, 64)
				get(k).restrict(ops[f[2]], cv, f[4] == "T")
				if get(k).empty() {
					infeasible = true
				}
				lastTested = k
			case cl == "cmp:?":
				bad = "a byte of the expression is compared with a non-constant (" + c.At(e.In) + ")"
			case cl == "app:!" || cl == "app:?":
				bad = "something other than a tested byte of the expression or a constant is appended to the prefix (" + c.At(e.In) + ")"
			case strings.HasPrefix(cl, "app:"):
				k, _ := strconv.Atoi(strings.TrimPrefix(cl, "app:"))
				dropped = false
				if !get(k).subsetOf(reLiteralByte) {
					bad = fmt.Sprintf("the byte at position %d is taken into the prefix although it can be %s, which is not an ordinary character of a regular expression (%s)", k, get(k).String(), c.At(e.In))
				}
				atoms = append(atoms, atom{k, k})
			case strings.HasPrefix(cl, "appc:"):
				s, _ := strconv.Unquote(strings.TrimPrefix(cl, "appc:"))
				dropped = false
				if s == "" {
					continue
				}
				// an escape: `\c` at (k, k+1)
				k := -1
				for p, set := range S {
					if set.only('\\') && S[p+1] != nil && len(s) == 1 && S[p+1].only(s[0]) && p > k {
						k = p
					}
				}
				if len(s) != 1 || !reEscapableByte(s[0]) || k < 0 {
					bad = fmt.Sprintf("the constant %q is appended to the prefix without the expression having been seen to contain the escape `\\%s` at the scan position (%s)", s, s, c.At(e.In))
					continue
				}
				atoms = append(atoms, atom{k, k + 1})
			}
		}
		if infeasible {
			continue
		}
		nFeasible++
		if len(atoms) == 0 && !pa.Has("app:!") {
			if bad != "" && (strings.Contains(bad, "appended") || strings.Contains(bad, "taken into")) {
				probs = append(probs, bad+": "+pa.String())
			}
			continue
		}
		nWithPrefix++
		if bad == "" {
			if s0 := S[0]; s0 == nil || !s0.only('^') {
				bad = "a prefix is derived although the expression is not known to start with '^' (an unanchored expression matches anywhere in the name)"
			}
		}
		if bad == "" && !nopipe && !partial {
			bad = "a prefix is derived although the expression may contain an alternation '|' (\"^foo|bar\" also matches names that do not start with foo)"
		}
		if bad == "" {
			want := 1
			for _, a := range atoms {
				if a.start != want {
					bad = fmt.Sprintf("the prefix skips from position %d to position %d of the expression: what lies between is not part of the prefix", want, a.start)
					break
				}
				want = a.end + 1
			}
			if bad == "" && !dropped && !partial {
				// what follows the last character taken: a quantifier that allows zero repetitions makes it optional
				if set := S[want]; set != nil && lastTested >= want {
					for _, q := range []byte{'?', '*', '{'} {
						if set[q] {
							bad = fmt.Sprintf("the character before a %q (position %d) stays in the prefix although the quantifier makes it optional (\"^ab?c\" matches \"ac\")", string(q), want)
						}
					}
				}
			}
		}
		if bad != "" {
			probs = append(probs, bad+": "+pa.String())
		}
	}
	if nWithPrefix == 0 {
		// does the function ever return something non-empty?
		nonEmpty := false
		allInstrs(fn, func(in ssa.Instruction) {
			if r, ok := in.(*ssa.Return); ok && len(r.Results) == 1 {
				if k, ok := r.Results[0].(*ssa.Const); !ok || !k.IsNil() {
					nonEmpty = true
				}
			}
		})
		if nonEmpty {
			c.Undecided(key, c.AtFn(fn), "regexToPrefix can return a prefix, but not through a byte-by-byte scan of the expression that this rule can evaluate: whether every match has that prefix is not decided")
		} else {
			c.Hold(key, c.AtFn(fn), "no prefix is ever derived")
		}
		return
	}
	sort.Strings(probs)
	if len(probs) > 0 {
		if len(probs) > 5 {
			probs = probs[:5]
		}
		c.ViolateW(key, c.AtFn(fn), "the static prefix derived from a regex is not implied by every match, so the shortcut in Match/PreMatch changes the filter's decision — "+probs[0], probs)
		return
	}
	c.Hold(key, c.AtFn(fn), fmt.Sprintf("%d feasible paths over the first three scan steps, %d deriving a prefix: anchored by '^', no alternation, only ordinary characters and escaped punctuation taken contiguously from position 1, the character before ?, * or { left out", nFeasible, nWithPrefix))
}
