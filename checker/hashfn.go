package main

import (
	"go/constant"
	"go/token"
	"go/types"

	"golang.org/x/tools/go/ssa"
)

// inlineFNV recognises a value that is the FNV-1 / FNV-1a hash of exactly one byte sequence, computed
// without any hasher object: the accumulator of a loop that runs over all elements of `src`
// (`range src` or `for i := 0; i < len(src); i++`), starts from the FNV offset basis of its width and is
// stepped by `(acc ^ T(src[i])) * prime` (1a) or `(acc * prime) ^ T(src[i])` (1) and by nothing else.
// The value may be the result of a module helper (`fnv32a(key)`), in which case `src` is the caller's
// argument. By construction nothing but the bytes of src flows into the value and no state survives the
// call, which is what "a hasher that is fresh for every call and fed with src only" establishes for the
// library form.
func inlineFNV(v ssa.Value) (src ssa.Value, bits int, ok bool) {
	return inlineFNVd(v, 0)
}

func inlineFNVd(v ssa.Value, depth int) (ssa.Value, int, bool) {
	if depth > 3 {
		return nil, 0, false
	}
	v = strip(v)
	switch x := v.(type) {
	case *ssa.Call:
		g := x.Call.StaticCallee()
		if g == nil || g.Blocks == nil || x.Call.IsInvoke() {
			return nil, 0, false
		}
		var rets []ssa.Value
		allInstrs(g, func(in ssa.Instruction) {
			if in.Parent() != g {
				return
			}
			if r, ok := in.(*ssa.Return); ok && len(r.Results) == 1 {
				rets = append(rets, r.Results[0])
			}
		})
		if len(rets) == 0 {
			return nil, 0, false
		}
		var src ssa.Value
		bits := 0
		for _, r := range rets {
			s, b, ok := inlineFNVd(r, depth+1)
			if !ok || (src != nil && (s != src || b != bits)) {
				return nil, 0, false
			}
			src, bits = s, b
		}
		// the helper's parameter is what this call passes
		if p, isPar := src.(*ssa.Parameter); isPar && p.Parent() == g {
			for i, q := range g.Params {
				if q == p && i < len(x.Call.Args) {
					return x.Call.Args[i], bits, true
				}
			}
			return nil, 0, false
		}
		return src, bits, true
	case *ssa.Phi:
		if len(x.Edges) != 2 {
			return nil, 0, false
		}
		bt, isBasic := x.Type().Underlying().(*types.Basic)
		if !isBasic {
			return nil, 0, false
		}
		var offset, prime uint64
		bits := 0
		switch bt.Kind() {
		case types.Uint32:
			offset, prime, bits = 2166136261, 16777619, 32
		case types.Uint64:
			offset, prime, bits = 14695981039346656037, 1099511628211, 64
		default:
			return nil, 0, false
		}
		var l *Loop
		for _, cand := range loopsOf(x.Parent()) {
			if cand.Header == x.Block() {
				l = cand
			}
		}
		if l == nil {
			return nil, 0, false
		}
		slice, idx, isRange := rangeLoopOver(l)
		if !isRange {
			return nil, 0, false
		}
		isConst := func(w ssa.Value, k uint64) bool {
			c, ok := w.(*ssa.Const)
			if !ok || c.Value == nil || c.Value.Kind() != constant.Int {
				return false
			}
			u, exact := constant.Uint64Val(c.Value)
			return exact && u == k
		}
		// T(src[i]) for the loop's own element
		isElem := func(w ssa.Value) bool {
			for {
				cv, ok := w.(*ssa.Convert)
				if !ok {
					break
				}
				w = cv.X
			}
			if rangeElem(w, slice, idx) {
				return true
			}
			// a string indexed by the loop counter
			if lk, ok := w.(*ssa.Lookup); ok && lk.X == slice && lk.Index == ssa.Value(idx) {
				return true
			}
			return false
		}
		binop := func(w ssa.Value, op token.Token) (ssa.Value, ssa.Value, bool) {
			bo, ok := w.(*ssa.BinOp)
			if !ok || bo.Op != op {
				return nil, nil, false
			}
			return bo.X, bo.Y, true
		}
		// either(a, b, p, q): {a,b} satisfy p and q in some order
		either := func(a, b ssa.Value, p, q func(ssa.Value) bool) bool {
			return (p(a) && q(b)) || (p(b) && q(a))
		}
		isAcc := func(w ssa.Value) bool { return w == ssa.Value(x) }
		isPrime := func(w ssa.Value) bool { return isConst(w, prime) }
		nInit, nStep := 0, 0
		for i, e := range x.Edges {
			fromLoop := l.Body[x.Block().Preds[i]]
			if !fromLoop {
				if isConst(e, offset) {
					nInit++
				}
				continue
			}
			// FNV-1a: (acc ^ elem) * prime
			if a, b, ok := binop(e, token.MUL); ok {
				if either(a, b, isPrime, func(w ssa.Value) bool {
					p, q, ok := binop(w, token.XOR)
					return ok && either(p, q, isAcc, isElem)
				}) {
					nStep++
					continue
				}
			}
			// FNV-1: (acc * prime) ^ elem
			if a, b, ok := binop(e, token.XOR); ok {
				if either(a, b, isElem, func(w ssa.Value) bool {
					p, q, ok := binop(w, token.MUL)
					return ok && either(p, q, isAcc, isPrime)
				}) {
					nStep++
				}
			}
		}
		if nInit != 1 || nStep != 1 {
			return nil, 0, false
		}
		return slice, bits, true
	}
	return nil, 0, false
}
