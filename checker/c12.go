package main

import (
	"fmt"
	"go/types"
	"strings"

	"golang.org/x/tools/go/ssa"
)

func init() {
	register(&PropDef{
		ID:    "C12",
		Title: "Input framing is independent of how the network chops the stream",
		Decided: "necessary capacity and ordering conditions only: R1 every input obtains its lines from a standard-library framing primitive applied to the whole stream, whose maximum line length is at least the documented limit (bufio.Scanner: lines shorter than the larger of Buffer()'s maximum and its initial buffer, 64 KiB by default; Reader.ReadLine with the isPrefix result discarded: the reader's size; 4 KiB for AMQP), the UDP read buffer holds a maximal datagram (65535), and the scanner keeps its default line splitter; " +
			"R2 between obtaining a line and Dispatcher.Dispatch there is no `go` statement and the dispatch happens in the loop iteration that obtained the line; each datagram / connection is handled to completion by the goroutine that read it (no goroutine is started with the reusable read buffer); " +
			"R4 every io.Reader wrapper of package input between the socket and the handlers returns the byte count of the underlying Read on every path, so data delivered together with EOF or a timeout error reaches the scanner.",
		NotDecided:  "chunk-invariance itself: it follows from the documented contract of bufio.Scanner / bufio.Reader over the whole stream, which is assumed, not analysed; carriage-return handling inside ScanLines.",
		Assumptions: []string{"bufio.Scanner with the default split function yields exactly the newline-delimited lines of its reader, however Read chops the stream (documented contract)"},
		Rules: []RuleDef{
			{ID: "C12.R3", Min: 2, Doc: "handlers are re-entrant: one Handler object serves every connection of a listener, each in its own goroutine; Plain.Handle / Pickle.Handle and the methods they call on the receiver never store into a field of the receiver nor hand out a field's address", Run: c12r3},
			{ID: "C12.R1", Min: 3, Doc: "line capacity per input: framing API used by Plain.Handle / Amqp.consumeAMQP and its effective maximum token size; size of the UDP buffer", Run: c12r1},
			{ID: "C12.R2", Min: 4, Doc: "order and once: one Dispatch per obtained line in the same loop iteration, no go statement in the handlers; HandleData/HandleConn are invoked synchronously with the read buffer", Run: c12r2},
			{ID: "C12.R4", Min: 1, Doc: "reader wrappers pass the count through: every function of package input that forwards its []byte to an underlying Read (TimeoutConn.Read) returns, on every path after that call, the n the call returned — also together with an error", Run: c12r4},
		},
	})
}

const kib64 = 64 * 1024

func c12r1(c *Check) {
	// Plain: bufio.Scanner
	ph := c.P.Func("input", "*Plain", "Handle")
	var newScanner, bufferCall, splitCall, readLine *ssa.Call
	var newReader *ssa.Call
	allInstrs(ph, func(in ssa.Instruction) {
		if call, ok := in.(*ssa.Call); ok {
			switch calleeName(call.Common()) {
			case "bufio.NewScanner":
				newScanner = call
			case "(*bufio.Scanner).Buffer":
				bufferCall = call
			case "(*bufio.Scanner).Split":
				splitCall = call
			case "(*bufio.Reader).ReadLine", "(*bufio.Reader).ReadSlice":
				readLine = call
			case "bufio.NewReaderSize", "bufio.NewReader":
				newReader = call
			}
		}
	})
	capacity := int64(-1)
	how := ""
	switch {
	case newScanner != nil && readLine == nil:
		capacity, how = scannerCapacity(bufferCall)
		if newScanner.Call.Args[0] != ssa.Value(ph.Params[1]) {
			if mi, ok := newScanner.Call.Args[0].(*ssa.MakeInterface); !ok || mi.X != ssa.Value(ph.Params[1]) {
				capacity, how = -1, "the scanner does not read the handler's whole stream"
			}
		}
		if splitCall != nil {
			if f := resolveFuncValue(splitCall.Call.Args[1]); f == nil || f.String() != "bufio.ScanLines" {
				capacity, how = -1, "the scanner uses a custom split function"
			}
		}
	case readLine != nil:
		capacity, how = readerCapacity(readLine, newReader)
	default:
		how = "no standard framing primitive found (hand-written read loop)"
	}
	c.Judge(capacity >= kib64-1, "input.Plain.Handle line capacity >= 64 KiB", c.AtFn(ph), how, fmt.Sprintf("plain-text lines are framed by %s, capacity %d bytes < 65535: a longer (documented as supported) line is processed as fragments or aborts the connection", how, capacity))
	// AMQP: ReadLine on NewReaderSize(…, 4096)
	am := c.P.Func("input", "*Amqp", "consumeAMQP")
	readLine, newReader = nil, nil
	var amScanner, amBuffer, amSplit *ssa.Call
	for _, f := range samePkgCallees(c.P, am) {
		allInstrs(f, func(in ssa.Instruction) {
			if call, ok := in.(*ssa.Call); ok {
				switch calleeName(call.Common()) {
				case "(*bufio.Reader).ReadLine":
					readLine = call
				case "bufio.NewReaderSize", "bufio.NewReader":
					newReader = call
				case "bufio.NewScanner":
					amScanner = call
				case "(*bufio.Scanner).Buffer":
					amBuffer = call
				case "(*bufio.Scanner).Split":
					amSplit = call
				}
			}
		})
	}
	cap2, how2 := int64(-1), "no framing primitive found"
	if readLine != nil {
		cap2, how2 = readerCapacity(readLine, newReader)
	} else if amScanner != nil {
		// "lines up to 4 KiB are processed whole": a scanner whose buffer may not grow beyond m bytes
		// carries lines shorter than m only
		cap2, how2 = scannerCapacity(amBuffer)
		if amSplit != nil {
			if f := resolveFuncValue(amSplit.Call.Args[1]); f == nil || f.String() != "bufio.ScanLines" {
				cap2, how2 = -1, "the scanner uses a custom split function"
			}
		}
	}
	c.Judge(cap2 >= 4096, "input.Amqp.consumeAMQP line capacity >= 4 KiB", c.AtFn(am), how2, fmt.Sprintf("AMQP bodies are framed by %s, capacity %d bytes < 4096", how2, cap2))
	// the reader wraps the whole message body
	okBody := false
	if newReader != nil {
		if mi, ok := newReader.Call.Args[0].(*ssa.MakeInterface); ok {
			if call, ok := mi.X.(*ssa.Call); ok && calleeName(call.Common()) == "bytes.NewReader" {
				isBody := func(v ssa.Value) bool {
					_, names := fieldPath(v)
					return len(names) > 0 && names[len(names)-1] == "Body"
				}
				if isBody(call.Call.Args[0]) {
					okBody = true
				} else if par, ok := call.Call.Args[0].(*ssa.Parameter); ok {
					// a helper that is given the body
					if args, ok := c.P.paramArgs(par); ok {
						okBody = true
						for _, a := range args {
							if !isBody(a) {
								okBody = false
							}
						}
					}
				}
			}
		}
	}
	c.Judge(okBody || amScanner != nil, "input.Amqp.consumeAMQP frames the whole message body", c.AtFn(am), "reader over delivery.Body", "the line reader is not built over the complete AMQP body")
	// UDP buffer
	cu := c.P.Func("input", "*Listener", "consumeUdp")
	size := int64(-1)
	allInstrs(cu, func(in ssa.Instruction) {
		if ms, ok := in.(*ssa.MakeSlice); ok {
			if k, ok := constInt(ms.Len); ok {
				size = k
			}
		}
		// make([]byte, const) with a constant size is lowered to an array allocation + slice
		if al, ok := in.(*ssa.Alloc); ok {
			if arr, ok := al.Type().(*types.Pointer).Elem().(*types.Array); ok && arr.Elem().String() == "byte" {
				size = arr.Len()
			}
		}
	})
	c.Judge(size >= 65535, "input.Listener.consumeUdp buffer holds a maximal datagram", c.AtFn(cu), fmt.Sprintf("%d bytes", size), fmt.Sprintf("the UDP read buffer is %d bytes: larger datagrams are silently truncated in the middle of a line", size))
}

// scannerCapacity: the longest line a bufio.Scanner with the line splitter hands over whole. Scan gives up
// with ErrTooLong when its buffer is full without a complete token and the buffer is already
// max(maxTokenSize, cap(initial buffer)) bytes long; the buffer must also hold the terminator (at the time of the
// test the scanner has not seen the end of the stream yet), so a line is carried iff it is shorter than that size.
// Without Buffer() the size is bufio.MaxScanTokenSize = 64 KiB.
func scannerCapacity(bufferCall *ssa.Call) (int64, string) {
	if bufferCall == nil {
		return kib64 - 1, "bufio.Scanner (default 64 KiB token limit)"
	}
	max, ok := constLenInt(bufferCall.Call.Args[2])
	if !ok {
		return -1, "bufio.Scanner.Buffer with a non-constant maximum"
	}
	size := max
	// a larger initial buffer is used to its full capacity before the limit is consulted
	if _, k, ok := sliceConstSize(bufferCall.Call.Args[1]); ok && k > size {
		size = k
	}
	return size - 1, fmt.Sprintf("bufio.Scanner.Buffer(max=%d): lines shorter than %d bytes", max, size)
}

// constLenInt: an integer constant, or len/cap of a slice of constant size.
func constLenInt(v ssa.Value) (int64, bool) {
	if k, ok := constInt(v); ok {
		return k, true
	}
	switch x := strip(v).(type) {
	case *ssa.Call:
		if b, ok := x.Call.Value.(*ssa.Builtin); ok && (b.Name() == "len" || b.Name() == "cap") && len(x.Call.Args) == 1 {
			l, c, ok := sliceConstSize(x.Call.Args[0])
			if b.Name() == "cap" {
				l = c
			}
			return l, ok
		}
	case *ssa.Phi:
		var k0 int64
		for i, e := range x.Edges {
			k, ok := constLenInt(e)
			if !ok || i > 0 && k != k0 {
				return 0, false
			}
			k0 = k
		}
		return k0, len(x.Edges) > 0
	}
	return 0, false
}

// sliceConstSize: length and capacity of a slice created with constant sizes: make([]T, l[, c]) (lowered to
// a MakeSlice or to the slice of a fresh array) and the whole or a constant front part of an array.
func sliceConstSize(v ssa.Value) (length, capacity int64, ok bool) {
	switch x := strip(v).(type) {
	case *ssa.MakeSlice:
		l, ok1 := constInt(x.Len)
		c, ok2 := constInt(x.Cap)
		return l, c, ok1 && ok2
	case *ssa.Slice:
		pt, isPtr := x.X.Type().Underlying().(*types.Pointer)
		if !isPtr {
			return 0, 0, false
		}
		arr, isArr := pt.Elem().Underlying().(*types.Array)
		if !isArr {
			return 0, 0, false
		}
		if x.Low != nil {
			if k, ok := constInt(x.Low); !ok || k != 0 {
				return 0, 0, false
			}
		}
		length, capacity = arr.Len(), arr.Len()
		if x.Max != nil {
			k, ok := constInt(x.Max)
			if !ok {
				return 0, 0, false
			}
			capacity, length = k, k
		}
		if x.High != nil {
			k, ok := constInt(x.High)
			if !ok {
				return 0, 0, false
			}
			length = k
		}
		return length, capacity, true
	}
	return 0, 0, false
}

// readerCapacity: ReadLine yields at most the reader's buffer size per call; if isPrefix (#1) is used the caller can reassemble.
func readerCapacity(readLine, newReader *ssa.Call) (int64, string) {
	prefixUsed := false
	for _, r := range *readLine.Referrers() {
		if ex, ok := r.(*ssa.Extract); ok && ex.Index == 1 && len(*ex.Referrers()) > 0 {
			prefixUsed = true
		}
	}
	if prefixUsed {
		// handled how? a fragment that is appended to / written into an accumulator makes lines of any
		// length whole again; otherwise (fragments dropped, flagged, counted) a line is only processed whole
		// when it fits the reader's buffer together with its terminator
		accumulated := false
		for _, r := range *readLine.Referrers() {
			ex, ok := r.(*ssa.Extract)
			if !ok || ex.Index != 0 {
				continue
			}
			var walk func(v ssa.Value, d int)
			seen := map[ssa.Value]bool{}
			walk = func(v ssa.Value, d int) {
				if d > 6 || seen[v] || v.Referrers() == nil {
					return
				}
				seen[v] = true
				for _, u := range *v.Referrers() {
					switch x := u.(type) {
					case *ssa.Call:
						if b, ok := x.Call.Value.(*ssa.Builtin); ok && b.Name() == "append" {
							accumulated = true
						}
						switch calleeName(x.Common()) {
						case "(*bytes.Buffer).Write", "(*strings.Builder).Write":
							accumulated = true
						}
					case *ssa.Slice:
						walk(x, d+1)
					case *ssa.Phi:
						walk(x, d+1)
					}
				}
			}
			walk(ex, 0)
		}
		if accumulated {
			return 1 << 40, "ReadLine with isPrefix fragments accumulated"
		}
		sz := int64(4096)
		if newReader != nil && calleeName(newReader.Common()) == "bufio.NewReaderSize" {
			if k, ok := constInt(newReader.Call.Args[1]); ok {
				sz = k
			} else {
				return -1, "bufio.NewReaderSize with a non-constant size"
			}
		}
		return sz - 1, fmt.Sprintf("bufio.Reader(size %d).ReadLine whose isPrefix fragments are not re-assembled (a line that fills the buffer is reported as a fragment)", sz)
	}
	size := int64(4096)
	if newReader != nil && calleeName(newReader.Common()) == "bufio.NewReaderSize" {
		if k, ok := constInt(newReader.Call.Args[1]); ok {
			size = k
		} else {
			return -1, "bufio.NewReaderSize with a non-constant size"
		}
	}
	return size, fmt.Sprintf("bufio.Reader(size %d).ReadLine with isPrefix discarded", size)
}

func c12r2(c *Check) {
	for _, h := range [][3]string{{"input", "*Plain", "Handle"}, {"input", "*Amqp", "consumeAMQP"}, {"input", "*Pickle", "Handle"}} {
		fn := c.P.Func(h[0], h[1], h[2])
		nGo := 0
		var disp []ssa.Instruction
		// the read loop may live in a helper of the handler
		for _, g := range samePkgCallees(c.P, fn) {
			for _, f := range withAnons(g) {
				allInstrs(f, func(in ssa.Instruction) {
					if _, ok := in.(*ssa.Go); ok {
						nGo++
					}
				})
			}
			allInstrs(g, func(in ssa.Instruction) {
				if isCallNamed(in, nDispatch) {
					disp = append(disp, in)
				}
			})
		}
		var loops []*Loop
		okLoop := len(disp) == 1
		if okLoop {
			loops = loopsOf(disp[0].Parent())
			okLoop = innermostLoop(loops, disp[0].Block()) != nil
			if !okLoop {
				// the per-line code is a helper: every call of it (from the handler) sits in the read loop
				okLoop = true
				n := 0
				for _, e := range c.P.CG().In[disp[0].Parent()] {
					if e.Kind != EdgeCall || e.Dyn {
						okLoop = false
						continue
					}
					n++
					if innermostLoop(loopsOf(e.Caller), e.Site.Block()) == nil {
						okLoop = false
					}
				}
				okLoop = okLoop && n > 0
			}
		}
		c.Judge(nGo == 0 && okLoop, FuncName(fn)+" dispatches each line synchronously, once", c.AtFn(fn), "one Dispatch call site, inside the read loop, no go statement", fmt.Sprintf("%d go statements / %d dispatch sites: lines can be processed out of order, twice, or after the read buffer was reused", nGo, len(disp)))
		if len(disp) == 1 && h[2] != "Handle" || len(disp) == 1 && h[1] == "*Plain" {
			// the dispatched value is the line obtained in the same iteration
			arg := callCommon(disp[0]).Args[0]
			src := ""
			switch x := arg.(type) {
			case *ssa.Call:
				src = calleeName(x.Common())
			case *ssa.Extract:
				if call, ok := x.Tuple.(*ssa.Call); ok {
					src = calleeName(call.Common())
				}
			}
			okSrc := src == "(*bufio.Scanner).Bytes" || src == "(*bufio.Reader).ReadLine"
			if okSrc {
				var prod ssa.Instruction
				if call, ok := arg.(*ssa.Call); ok {
					prod = call
				} else if ex, ok := arg.(*ssa.Extract); ok {
					prod = ex.Tuple.(*ssa.Call)
				}
				l1, l2 := innermostLoop(loops, prod.Block()), innermostLoop(loops, disp[0].Block())
				okSrc = l1 != nil && l1 == l2
			}
			c.Judge(okSrc, FuncName(fn)+" dispatches the line just read", c.At(disp[0]), "argument is the token produced in the same loop iteration", "the dispatched value is not the line obtained from the framing primitive in this iteration ("+short(src)+")")
		}
	}
	// listener: datagrams and connections handled synchronously with their buffer
	cu := c.P.Func("input", "*Listener", "consumeUdp")
	nGo := 0
	okCall := false
	hdF := c.P.Field("input", "Listener", "HandleData")
	allInstrs(cu, func(in ssa.Instruction) {
		if g, ok := in.(*ssa.Go); ok {
			_ = g
			nGo++
		}
		if call, ok := in.(*ssa.Call); ok && isFieldLoad(call.Call.Value, hdF) {
			okCall = true
		}
	})
	c.Judge(nGo == 0 && okCall, "input.Listener.consumeUdp handles each datagram before reading the next", c.AtFn(cu), "HandleData is called synchronously; the shared read buffer is not handed to another goroutine", "a datagram is handled in its own goroutine while the read loop reuses the same buffer for the next ReadFrom: lines are overwritten mid-scan (lost or dispatched twice)")
	hd := c.P.Func("input", "", "handleData")
	okH := false
	allInstrs(hd, func(in ssa.Instruction) {
		if call, ok := in.(*ssa.Call); ok && strings.HasSuffix(calleeName(call.Common()), "input.Handler).Handle") {
			if mi, ok := call.Call.Args[0].(*ssa.MakeInterface); ok {
				if br, ok := mi.X.(*ssa.Call); ok && calleeName(br.Common()) == "bytes.NewReader" && br.Call.Args[0] == ssa.Value(hd.Params[1]) {
					okH = true
				}
			}
		}
	})
	// one handler invocation per stream: a second Handle on the same connection starts a fresh
	// framing state, so whatever the first one had buffered is dispatched as a fragment
	nHandle := 0
	for _, f := range c.P.Funcs {
		if fnPkg(f) != c.P.Pkg("input").Types {
			continue
		}
		f := f
		allInstrs(f, func(in ssa.Instruction) {
			call, ok := in.(*ssa.Call)
			if !ok || !strings.HasSuffix(calleeName(call.Common()), "input.Handler).Handle") {
				return
			}
			nHandle++
			c.Judge(innermostLoop(loopsOf(f), in.Block()) == nil, FuncName(f)+" invokes the handler once per stream", c.At(in), "Handler.Handle is not called in a loop", "Handler.Handle is invoked repeatedly on the same stream (in a loop): each call starts with a fresh reader, so a line that was only partly received when the previous call returned (e.g. on a read timeout) is processed as two fragments")
		})
	}
	if nHandle == 0 {
		anchorFail("package input: no call to Handler.Handle")
	}
	c.Judge(okH, "input.handleData treats a datagram as its own stream", c.AtFn(hd), "Handler.Handle(bytes.NewReader(datagram))", "a UDP datagram is not handed to the handler as a complete, separate stream")
	// TCP: one goroutine per connection, which runs the handler to completion
	atc := c.P.Func("input", "*Listener", "acceptTcpConn")
	hcF := c.P.Field("input", "Listener", "HandleConn")
	okT := false
	allInstrs(atc, func(in ssa.Instruction) {
		if call, ok := in.(*ssa.Call); ok && isFieldLoad(call.Call.Value, hcF) {
			okT = true
		}
	})
	c.Judge(okT, "input.Listener.acceptTcpConn runs the handler on the connection", c.AtFn(atc), "HandleConn(conn) called synchronously in the connection's goroutine", "the connection handler is not run to completion by the connection's goroutine")
}

// c12r3: the Handler objects of package input are shared by all connections of a listener (each
// connection runs Handle in its own goroutine): Handle and the methods it calls on the same
// receiver keep every per-stream state in locals — no store into a field of the receiver, and no
// field address handed to a callee (p.payload.Reset(), &p.scratch).
func c12r3(c *Check) {
	n := 0
	for _, h := range [][3]string{{"input", "*Plain", "Handle"}, {"input", "*Pickle", "Handle"}} {
		fn := c.P.Func(h[0], h[1], h[2])
		for _, f := range workerFuncs(c.P, fn) {
			// the receiver: first parameter of a method, or the captured receiver of a closure
			var recvs []ssa.Value
			if f.Signature.Recv() != nil && len(f.Params) > 0 {
				recvs = append(recvs, f.Params[0])
			}
			for _, fv := range f.FreeVars {
				if fv.Type().String() == fn.Params[0].Type().String() {
					recvs = append(recvs, fv)
				}
			}
			bad := ""
			allInstrs(f, func(in ssa.Instruction) {
				fa, ok := in.(*ssa.FieldAddr)
				if !ok {
					return
				}
				isRecv := false
				for _, r := range recvs {
					if fa.X == r {
						isRecv = true
					}
				}
				if !isRecv {
					return
				}
				for _, r := range *fa.Referrers() {
					switch x := r.(type) {
					case *ssa.UnOp:
						// reading the field (the dispatcher interface) is fine
					case *ssa.Store:
						if x.Addr == ssa.Value(fa) {
							bad = "field " + fieldOfAddr(fa).Name() + " of the shared handler is written at " + c.At(x)
						}
					case ssa.CallInstruction:
						if n := calleeName(x.Common()); strings.HasPrefix(n, "sync/atomic.") || strings.HasPrefix(n, "(*sync.") || strings.HasPrefix(n, "(*sync/atomic.") {
							continue // counters and locks are made for sharing
						}
						bad = "the address of field " + fieldOfAddr(fa).Name() + " of the shared handler is handed to " + short(calleeName(x.Common())) + " at " + c.At(r)
					case *ssa.MakeInterface, *ssa.FieldAddr, *ssa.IndexAddr, *ssa.Slice:
						bad = "field " + fieldOfAddr(fa).Name() + " of the shared handler is used as per-stream storage at " + c.At(r)
					}
				}
			})
			n++
			c.Judge(bad == "", "input handler "+FuncName(f)+" keeps per-stream state in locals", c.AtFn(f), "no field of the receiver is written or lent out", bad+": two connections handled at the same time overwrite each other's partially read data (lines or frames are lost, torn or mixed)")
		}
	}
	if n < 2 {
		anchorFail("handlers of package input not found")
	}
}
