package main

// C08.R9 — nothing behind the persisted write position survives a reopen.
//
// The reader of the disk queue reads through a read-ahead buffer (bufio.Reader
// over the read segment). Whatever lies in the current write segment behind the
// persisted write position when the queue is opened (records written but never
// synced before a crash, or the remains of a segment whose metadata was never
// written) can therefore be picked up by that buffer before the writer
// overwrites it in the file, and is then handed out in place of what was
// enqueued after the restart. Necessary condition, decided on the constructor's
// CFG: if readOne's reader is buffered, NewDiskQueue cuts the write segment
// (fileName(writeFileNum)) back to writePos after the metadata was loaded and
// before the I/O loop is started, and the only ways around the truncation are
// "the file cannot be examined" and "it is not longer than writePos".

import (
	"fmt"
	"go/token"
	"strings"

	"golang.org/x/tools/go/ssa"
)

// truncatesWriteTail: cc is os.Truncate(fileName(writeFileNum), writePos) or (*os.File).Truncate(writePos)
// on a file opened under that name.
func truncatesWriteTail(c *Check, cc *ssa.CallCommon) (bool, string) {
	n := calleeName(cc)
	if n != "os.Truncate" && n != "(*os.File).Truncate" {
		return false, ""
	}
	wfn, wpos := dqField(c, "writeFileNum"), dqField(c, "writePos")
	var name, size ssa.Value
	if n == "os.Truncate" {
		name, size = cc.Args[0], cc.Args[1]
	} else {
		size = cc.Args[1]
		// the file: result of os.OpenFile(name, …) in the same function
		if ex, ok := stripNoConv(cc.Args[0]).(*ssa.Extract); ok {
			if call, ok := ex.Tuple.(*ssa.Call); ok && calleeName(&call.Call) == "os.OpenFile" {
				name = call.Call.Args[0]
			}
		}
	}
	if !isFieldLoad(stripNoConv(size), wpos) {
		return false, "the new size is not the persisted write position (field writePos) but " + describeVal(size)
	}
	ok := false
	var walk func(v ssa.Value, d int)
	walk = func(v ssa.Value, d int) {
		if v == nil || d > 6 {
			return
		}
		switch x := stripNoConv(v).(type) {
		case *ssa.Call:
			if g := x.Call.StaticCallee(); g != nil && g.Name() == "fileName" {
				for _, a := range x.Call.Args {
					if isFieldLoad(stripNoConv(a), wfn) {
						ok = true
					}
				}
			}
		case *ssa.Phi:
			for _, e := range x.Edges {
				walk(e, d+1)
			}
		}
	}
	walk(name, 0)
	if !ok {
		return false, "the truncated file is not the current write segment fileName(writeFileNum)"
	}
	return true, ""
}

func c08r9(c *Check) {
	newQ := c.P.Func("nsqd", "", "NewDiskQueue")
	readOne := c.P.Func("nsqd", "*DiskQueue", "readOne")
	ioLoop := c.P.Func("nsqd", "*DiskQueue", "ioLoop")
	retrieve := c.P.Func("nsqd", "*DiskQueue", "retrieveMetaData")
	// (0) is the reader buffered?
	buffered := false
	var bufAt ssa.Instruction
	for _, g := range workerFuncs(c.P, readOne) {
		allInstrs(g, func(in ssa.Instruction) {
			if cc := callCommon(in); cc != nil {
				switch calleeName(cc) {
				case "bufio.NewReader", "bufio.NewReaderSize":
					buffered, bufAt = true, in
				}
			}
		})
	}
	key := "nsqd.NewDiskQueue drops what lies behind the persisted write position"
	if !buffered {
		c.Hold(key, c.AtFn(readOne), "the segment reader is not buffered: it reads only what ioLoop asks for (below writePos)")
		return
	}
	// (1) the go statement and the metadata load in the constructor
	var goAt, loadAt ssa.Instruction
	allInstrs(newQ, func(in ssa.Instruction) {
		if g, ok := in.(*ssa.Go); ok && g.Call.StaticCallee() == ioLoop {
			goAt = in
		}
		if cc := callCommon(in); cc != nil && cc.StaticCallee() == retrieve {
			if _, isGo := in.(*ssa.Go); !isGo {
				loadAt = in
			}
		}
	})
	if goAt == nil || loadAt == nil {
		c.Undecided(key, c.AtFn(newQ), "NewDiskQueue does not call retrieveMetaData and start ioLoop itself")
		return
	}
	// (2) a truncation reachable synchronously from the constructor; site in the constructor = the
	// call (in NewDiskQueue) through which it is reached
	cg := c.P.CG()
	type site struct {
		fn   *ssa.Function
		call ssa.Instruction
	}
	var cands []site
	var whyNot []string
	for _, in := range instrsOf(newQ) {
		cc := callCommon(in)
		if cc == nil {
			continue
		}
		if _, isGo := in.(*ssa.Go); isGo {
			continue
		}
		if ok, why := truncatesWriteTail(c, cc); ok {
			cands = append(cands, site{newQ, in})
			continue
		} else if why != "" {
			whyNot = append(whyNot, why)
		}
		g := cc.StaticCallee()
		if g == nil || !ModuleFunc(g) || g == retrieve {
			continue
		}
		for f := range cg.Reach([]*ssa.Function{g}, syncKinds, nil) {
			for _, in2 := range instrsOf(f) {
				if cc2 := callCommon(in2); cc2 != nil {
					if ok, why := truncatesWriteTail(c, cc2); ok {
						cands = append(cands, site{f, in})
						// the ways around the truncation inside f
						if bad := truncBypass(c, f, in2); bad != "" {
							whyNot = append(whyNot, bad)
							cands = cands[:len(cands)-1]
						}
					} else if why != "" {
						whyNot = append(whyNot, why)
					}
				}
			}
		}
	}
	for _, s := range cands {
		if instrDominates(loadAt, s.call) && instrDominates(s.call, goAt) {
			c.Hold(key, c.At(s.call), fmt.Sprintf("the reader is buffered (%s); the write segment is cut back to writePos after the metadata load and before `go ioLoop`", c.At(bufAt)))
			return
		}
		whyNot = append(whyNot, "the truncation at "+c.At(s.call)+" is not on every path between retrieveMetaData and `go ioLoop`")
	}
	detail := "readOne reads through a read-ahead buffer (" + c.At(bufAt) + ") but the constructor does not cut the write segment back to the persisted write position before the I/O loop starts: records a crash left behind writePos are cached by the reader, overwritten in the file by the writer, and then delivered instead of what was enqueued after the restart"
	if len(whyNot) > 0 {
		detail += " — " + strings.Join(whyNot, "; ")
	}
	c.Violate(key, c.AtFn(newQ), detail)
}

func instrsOf(fn *ssa.Function) []ssa.Instruction {
	var out []ssa.Instruction
	for _, b := range fn.Blocks {
		out = append(out, b.Instrs...)
	}
	return out
}

// truncBypass: in f, every conditional edge that leads to the exit without passing the truncation
// must be "Stat/Open failed" or "size <= writePos" (also written <, ==). Returns "" when fine.
func truncBypass(c *Check, f *ssa.Function, trunc ssa.Instruction) string {
	wpos := dqField(c, "writePos")
	tb := trunc.Block()
	for _, b := range f.Blocks {
		if len(b.Instrs) == 0 {
			continue
		}
		ifi, ok := b.Instrs[len(b.Instrs)-1].(*ssa.If)
		if !ok {
			continue
		}
		// only branches that decide whether the truncation runs: b reaches tb
		if !reachable(b, nil, nil)[tb] || b == tb {
			continue
		}
		for k, succ := range b.Succs {
			if succ == tb || reachable(succ, nil, nil)[tb] {
				continue
			}
			// this edge skips the truncation: what does it establish?
			taken := k == 0
			cond, neg := negStrip(ifi.Cond)
			if neg {
				taken = !taken
			}
			if e, errOnTrue, ok := errTest(cond); ok && e != nil {
				if taken == errOnTrue {
					continue // an error: the file cannot be examined / does not exist
				}
				return "the truncation in " + FuncName(f) + " is skipped when a call succeeded (" + c.At(ifi) + ")"
			}
			bo, ok := cond.(*ssa.BinOp)
			if !ok {
				return "the truncation in " + FuncName(f) + " is skipped under a condition this rule cannot read (" + c.At(ifi) + ")"
			}
			op := bo.Op
			var sizeSide, posSide ssa.Value = bo.X, bo.Y
			if isFieldLoad(stripNoConv(bo.X), wpos) {
				sizeSide, posSide = bo.Y, bo.X
				op = flipRel(op)
			}
			if !isFieldLoad(stripNoConv(posSide), wpos) {
				return "the truncation in " + FuncName(f) + " is skipped under a test that does not compare with writePos (" + c.At(ifi) + ")"
			}
			if call, isCall := stripNoConv(sizeSide).(*ssa.Call); !isCall || !strings.HasSuffix(calleeName(&call.Call), ".Size") {
				return "the truncation in " + FuncName(f) + " is skipped under a test of " + describeVal(sizeSide) + ", not of the file's size (" + c.At(ifi) + ")"
			}
			if !taken {
				op = negRel(op)
			}
			// size op writePos holds on the skipping edge
			if op == token.LEQ || op == token.LSS || op == token.EQL {
				continue
			}
			return "the truncation in " + FuncName(f) + " is skipped although the file may be longer than writePos (" + c.At(ifi) + ")"
		}
	}
	return ""
}
