package main

// Obligations, verdicts, known findings, evidence and replay files.

import (
	"bufio"
	"encoding/json"
	"fmt"
	"os"
	"path/filepath"
	"runtime/debug"
	"sort"
	"strings"
	"time"

	"golang.org/x/tools/go/ssa"
)

type Obligation struct {
	Rule    string   `json:"rule"`
	Key     string   `json:"key"` // rule + construct; no line numbers
	Pos     string   `json:"pos"`
	Verdict string   `json:"verdict"` // holds | violated | undecided
	Detail  string   `json:"detail"`
	Witness []string `json:"witness,omitempty"`
	Known   string   `json:"known_finding,omitempty"`
}

type RuleDef struct {
	ID  string
	Doc string // the rule applied, in one or two sentences
	Min int    // minimum number of matched instances (obligations) confirmed by hand
	Run func(c *Check)
}

type PropDef struct {
	ID          string
	Title       string
	Decided     string // what the rules decide
	NotDecided  string // what stays undecided
	Assumptions []string
	Rules       []RuleDef
}

type Check struct {
	Prop    *PropDef
	Tier    string
	P       *Prog
	Obs     []Obligation
	cur     *RuleDef
	Stats   map[string]int
	perRule map[string]int
	quiet   bool
}

func (c *Check) add(verdict, key, pos, detail string, witness []string) {
	rule := "?"
	if c.cur != nil {
		rule = c.cur.ID
	}
	c.Obs = append(c.Obs, Obligation{Rule: rule, Key: rule + " " + key, Pos: pos, Verdict: verdict, Detail: detail, Witness: witness})
	c.perRule[rule]++
}

func (c *Check) Hold(key, pos, detail string)    { c.add("holds", key, pos, detail, nil) }
func (c *Check) Violate(key, pos, detail string) { c.add("violated", key, pos, detail, nil) }
func (c *Check) ViolateW(key, pos, detail string, w []string) {
	c.add("violated", key, pos, detail, w)
}
func (c *Check) Undecided(key, pos, detail string) { c.add("undecided", key, pos, detail, nil) }

// Judge records holds when ok, violated otherwise.
func (c *Check) Judge(ok bool, key, pos, okDetail, badDetail string) {
	if ok {
		c.Hold(key, pos, okDetail)
	} else {
		c.Violate(key, pos, badDetail)
	}
}

func (c *Check) Stat(name string, n int) { c.Stats[name] += n }

func (c *Check) At(in ssa.Instruction) string { return c.P.InstrPos(in) }
func (c *Check) AtFn(fn *ssa.Function) string { return c.P.Pos(fn.Pos()) }

func runProp(p *Prog, def *PropDef, tier string, only string) *Check {
	c := &Check{Prop: def, Tier: tier, P: p, Stats: map[string]int{}, perRule: map[string]int{}}
	for i := range def.Rules {
		r := &def.Rules[i]
		if only != "" && only != r.ID {
			continue
		}
		c.cur = r
		t0 := time.Now()
		func() {
			defer func() {
				if e := recover(); e != nil {
					if ae, ok := e.(anchorError); ok {
						c.Undecided("anchor: "+ae.msg, "-", "an anchored program entity was not found; the rule table must be re-confirmed against the refactored code")
						return
					}
					c.Undecided("internal error", "-", fmt.Sprintf("%v\n%s", e, debug.Stack()))
				}
			}()
			r.Run(c)
		}()
		if os.Getenv("CRNG_TIMING") != "" {
			fmt.Fprintf(os.Stderr, "timing %s %.2fs\n", r.ID, time.Since(t0).Seconds())
		}
		if c.perRule[r.ID] < r.Min {
			c.Undecided("instance count", "-", fmt.Sprintf("rule matched %d program constructs, fewer than the %d confirmed by hand: the rule would pass vacuously", c.perRule[r.ID], r.Min))
		}
	}
	c.cur = nil
	return c
}

// ---------------------------------------------------------------------------
// known findings

type knownEntry struct {
	prop, key, desc string
}

func loadKnown(path string) ([]knownEntry, error) {
	f, err := os.Open(path)
	if err != nil {
		if os.IsNotExist(err) {
			return nil, nil
		}
		return nil, err
	}
	defer f.Close()
	var out []knownEntry
	sc := bufio.NewScanner(f)
	sc.Buffer(make([]byte, 1<<20), 1<<20)
	for sc.Scan() {
		line := strings.TrimSpace(sc.Text())
		if !strings.HasPrefix(line, "known:") {
			continue // comments, blank lines and "fixed:" entries suppress nothing
		}
		rest := strings.TrimSpace(strings.TrimPrefix(line, "known:"))
		parts := strings.SplitN(rest, " :: ", 2)
		head := parts[0]
		desc := ""
		if len(parts) == 2 {
			desc = parts[1]
		}
		if !strings.HasPrefix(head, "property=") {
			return nil, fmt.Errorf("bad known-findings line: %q", line)
		}
		i := strings.Index(head, " key=")
		if i < 0 {
			return nil, fmt.Errorf("bad known-findings line (no key=): %q", line)
		}
		out = append(out, knownEntry{prop: strings.TrimPrefix(head[:i], "property="), key: strings.TrimSpace(head[i+5:]), desc: desc})
	}
	return out, sc.Err()
}

// ---------------------------------------------------------------------------
// output

type evidenceFile struct {
	PropertyID  string                 `json:"property_id"`
	Tier        string                 `json:"tier"`
	Seed        int                    `json:"seed"`
	Level       string                 `json:"level"`
	Coverage    map[string]interface{} `json:"coverage"`
	Assumptions []string               `json:"assumptions"`
	WallS       float64                `json:"wall_s"`
	Violations  int                    `json:"violations"`
}

func verifDir() string {
	if d := os.Getenv("VERIF_DIR"); d != "" {
		return d
	}
	exe, err := os.Executable()
	if err == nil {
		d := filepath.Dir(filepath.Dir(exe))
		if _, err := os.Stat(filepath.Join(d, "properties.jsonl")); err == nil {
			return d
		}
	}
	wd, _ := os.Getwd()
	return wd
}

// finish prints the verdict lines, writes evidence and replay files and returns the exit code.
func finish(c *Check, start time.Time, seed int, extra map[string]interface{}, selftestFailed []string) int {
	vd := verifDir()
	known, err := loadKnown(filepath.Join(vd, "known_findings.txt"))
	if err != nil {
		fmt.Printf("ERROR reading known_findings.txt: %v\n", err)
		return 2
	}
	knownByKey := map[string]knownEntry{}
	for _, k := range known {
		if k.prop == c.Prop.ID {
			knownByKey[k.key] = k
		}
	}
	evDir := filepath.Join(vd, "evidence")
	rpDir := filepath.Join(evDir, "replay")
	os.MkdirAll(rpDir, 0o755)
	old, _ := filepath.Glob(filepath.Join(rpDir, c.Prop.ID+"-*.json"))
	for _, f := range old {
		os.Remove(f)
	}

	sort.SliceStable(c.Obs, func(i, j int) bool {
		if c.Obs[i].Rule != c.Obs[j].Rule {
			return c.Obs[i].Rule < c.Obs[j].Rule
		}
		return c.Obs[i].Key < c.Obs[j].Key
	})
	nViol, nKnown, nHold := 0, 0, 0
	observedKnown := map[string]bool{}
	distinct := map[string]bool{}
	var samples []interface{}
	perRule := map[string]map[string]int{}
	for i := range c.Obs {
		o := &c.Obs[i]
		distinct[o.Key] = true
		if perRule[o.Rule] == nil {
			perRule[o.Rule] = map[string]int{}
		}
		switch o.Verdict {
		case "holds":
			nHold++
			perRule[o.Rule]["holds"]++
		default:
			if k, ok := knownByKey[o.Key]; ok && o.Verdict == "violated" {
				o.Known = k.desc
				if !observedKnown[o.Key] {
					fmt.Printf("KNOWN-FINDING: property=%s %s (%s) :: %s\n", c.Prop.ID, o.Key, o.Pos, k.desc)
				}
				observedKnown[o.Key] = true
				nKnown++
				perRule[o.Rule]["known"]++
				continue
			}
			nViol++
			perRule[o.Rule][o.Verdict]++
			rp := filepath.Join(rpDir, fmt.Sprintf("%s-%d.json", c.Prop.ID, nViol))
			b, _ := json.MarshalIndent(map[string]interface{}{"property": c.Prop.ID, "tier": c.Tier, "obligation": o, "rule_doc": ruleDoc(c.Prop, o.Rule), "repo": c.P.Dir}, "", " ")
			os.WriteFile(rp, b, 0o644)
			fmt.Printf("%s: %s [%s] %s — %s\n", o.Pos, o.Verdict, o.Rule, o.Key, firstLine(o.Detail))
			for _, w := range o.Witness {
				fmt.Printf("    %s\n", w)
			}
			fmt.Printf("VIOLATION property=%s replay=%s\n", c.Prop.ID, rp)
		}
	}
	for k, e := range knownByKey {
		if !observedKnown[k] && (c.cur == nil) {
			fmt.Printf("note: listed known finding not observed on this tree (repaired?): %s :: %s\n", k, e.desc)
		}
	}
	// samples: up to 4 obligations per rule, violations first
	perRuleN := map[string]int{}
	for pass := 0; pass < 2; pass++ {
		for _, o := range c.Obs {
			if (pass == 0) != (o.Verdict != "holds") {
				continue
			}
			if perRuleN[o.Rule] >= 4 {
				continue
			}
			perRuleN[o.Rule]++
			samples = append(samples, o)
		}
	}
	var rules []map[string]interface{}
	for _, r := range c.Prop.Rules {
		rules = append(rules, map[string]interface{}{"id": r.ID, "rule": r.Doc, "min_instances": r.Min, "instances": c.perRule[r.ID], "verdicts": perRule[r.ID]})
	}
	cov := map[string]interface{}{
		"explanation":         "Static analysis of /repo's working tree (type-checked packages + go/ssa); level 'other': necessary structural conditions of the property are decided on every path / call site of the anchored code, not the behaviour itself. DECIDED: " + c.Prop.Decided + " NOT DECIDED: " + c.Prop.NotDecided,
		"evaluations":         len(c.Obs),
		"distinct_nontrivial": len(distinct),
		"rule":                "one obligation per (rule, program construct) instance found in the loaded program; an instance is non-trivial when it is matched to a real instruction, call site, path set or table row of the working tree; distinct = distinct rule+construct keys",
		"samples":             samples,
		"exhaustive":          true,
		"obligations":         len(c.Obs),
		"discharged":          nHold,
		"known_findings":      nKnown,
		"rules":               rules,
		"packages_loaded":     len(c.P.Pkgs),
		"functions_loaded":    len(c.P.Funcs),
		"stats":               c.Stats,
	}
	for k, v := range extra {
		cov[k] = v
	}
	if len(selftestFailed) > 0 {
		cov["selftest_failed"] = selftestFailed
	}
	ev := evidenceFile{PropertyID: c.Prop.ID, Tier: c.Tier, Seed: seed, Level: "other", Coverage: cov,
		Assumptions: append([]string{"Go type checker and golang.org/x/tools go/ssa v0.29.0 are correct", "third-party and standard-library callees behave as documented; they are classified by reviewed tables, their bodies are not analysed"}, c.Prop.Assumptions...),
		WallS:       time.Since(start).Seconds(), Violations: nViol}
	b, _ := json.MarshalIndent(ev, "", " ")
	if err := os.WriteFile(filepath.Join(evDir, c.Prop.ID+".json"), b, 0o644); err != nil {
		fmt.Printf("ERROR writing evidence: %v\n", err)
		return 2
	}
	fmt.Printf("%s %s: %d obligations over %d rules: %d hold, %d known findings, %d violations/undecided (%.1fs)\n", c.Prop.ID, c.Tier, len(c.Obs), len(c.Prop.Rules), nHold, nKnown, nViol, time.Since(start).Seconds())
	for _, s := range selftestFailed {
		fmt.Printf("SELFTEST-FAILED %s\n", s)
	}
	if nViol > 0 {
		return 1
	}
	// an unexpected mutant outcome says something about the machinery's sensitivity, not about /repo:
	// it is printed and recorded in the evidence (coverage.mutant_battery), the verdict on /repo stands.
	return 0
}

func ruleDoc(p *PropDef, id string) string {
	for _, r := range p.Rules {
		if r.ID == id {
			return r.Doc
		}
	}
	return ""
}

func firstLine(s string) string {
	if i := strings.IndexByte(s, '\n'); i >= 0 {
		return s[:i]
	}
	return s
}
