package main

import (
	"fmt"
	"go/token"
	"go/types"
	"sort"
	"strings"

	"golang.org/x/tools/go/ssa"
)

func init() {
	register(&PropDef{
		ID:    "C15",
		Title: "Consistent hashing agrees with Carbon and moves only the keys it must",
		Decided: "R1 the key handed to the ring lookup is the metric name; " +
			"R2 every stored consistent-hashing configuration carries a ring built from exactly the destination list it stores, and when a destination's address is updated the ring is rebuilt after the update; " +
			"R3 every configuration-changing method that ConsistentHashing inherits from baseRoute is overridden so that the ring is rebuilt (otherwise a plain configuration is stored and Dispatch's assertion fails); " +
			"R4 the production ring uses 100 replicas per destination, positions are the first two MD5 bytes read big-endian, replica keys are \"('host', 'instance'|None):i\", and the ring order is (position, hostname, instance); " +
			"R5 the lookup is bisect-left on position with wrap-around (first entry with position >= key position, modulo ring length), on a non-empty ring.",
		NotDecided: "the numeric ring positions and therefore agreement with carbon-relay.py for concrete keys; minimal disruption when destinations are added or removed (a property of the values).",
		Rules: []RuleDef{
			{ID: "C15.R1", Min: 1, Doc: "kind of the argument of GetDestinationIndex = NAME", Run: c15r1},
			{ID: "C15.R2", Min: 3, Doc: "ring and destination list agree: in every function that builds a consistentHashingConfig the hasher is NewConsistentHasher(d) with d the stored dests; in updateDestination the extender call comes after Destination.Update", Run: c15r2},
			{ID: "C15.R9", Min: 1, Doc: "purity: the functions that build the ring or look a key up in it use no package-level variable of package route (no memo of positions shared between hashers): the ring is a function of the destination list alone", Run: c15r9},
			{ID: "C15.R3", Min: 5, Doc: "overrides: every exported baseRoute method that stores a configuration (directly or through helpers) is redeclared on *ConsistentHashing (that the override rebuilds the ring is C15.R2's path rule)", Run: c15r3},
			{ID: "C15.R4", Min: 4, Doc: "ring construction constants: replica count 100; MD5 first two bytes, binary.BigEndian; key pieces; truth table of hashRing.Less against the lexicographic order (Position, Hostname, Instance)", Run: c15r4},
			{ID: "C15.R6", Min: 1, Doc: "address splitting: an address with exactly two ':' is split into host:port (first two components joined by ':') and instance (third component); the ring key uses the host part before the first ':'", Run: c15r6},
			{ID: "C15.R7", Min: 2, Doc: "the configured instance survives reconnects: the relay loop re-dials with the stored, instance-less Destination.Addr, so outside the constructor every store into Destination.Instance takes the instance of the same addrInstanceSplit call as the Addr stored with it, and is controlled by the edge on which the split address differs from the current Destination.Addr (a reconnect to the unchanged address must not touch it)", Run: c15r7},
			{ID: "C15.R8", Min: 1, Doc: "ring order: every function that assigns ConsistentHasher.Ring sorts it with the library sort (sort.Sort / sort.Stable over hashRing, whose Less R4 checks) on every path before it returns — a hand-written merge or insertion is reported, its agreement with Carbon's (position, host, instance) order being a claim about values", Run: c15r8},
			{ID: "C15.R5", Min: 2, Doc: "lookup: sort.Search over len(Ring) with predicate Ring[i].Position >= position, result % len(Ring), returns Ring[index].DestinationIndex; Dispatch indexes Dests() with it", Run: c15r5},
		},
	})
}

func c15r1(c *Check) {
	k := newKinds(c.P)
	n := 0
	for _, fn := range c.P.Funcs {
		allInstrs(fn, func(in ssa.Instruction) {
			if !isCallNamed(in, "(*"+modPath+"/route.ConsistentHasher).GetDestinationIndex") {
				return
			}
			n++
			kd := k.Of(argsOf(callCommon(in))[0])
			c.Judge(kd == KName, FuncName(fn)+" hashes the metric name", c.At(in), "ring lookup keyed by the name", fmt.Sprintf("the ring lookup is keyed by a value of kind %s: value or timestamp influence the destination, so points of one series are spread over destinations and disagree with Carbon", kd))
		})
	}
	if n == 0 {
		anchorFail("no call to GetDestinationIndex")
	}
}

func c15r2(c *Check) {
	nNew := modPath + "/route.NewConsistentHasher"
	n := 0
	for _, fn := range c.P.Funcs {
		if pk := fnPkg(fn); pk == nil || pk.Path() != modPath+"/route" {
			continue
		}
		// stores of a local consistentHashingConfig: find the Hasher field store and the dests stored
		allocs := map[*ssa.Alloc]bool{}
		allInstrs(fn, func(in ssa.Instruction) {
			if al, ok := in.(*ssa.Alloc); ok && strings.HasSuffix(al.Type().String(), "route.consistentHashingConfig") {
				allocs[al] = true
			}
		})
		for al := range allocs {
			n++
			var hasherArg, dests ssa.Value
			for _, r := range *al.Referrers() {
				fa, ok := r.(*ssa.FieldAddr)
				if !ok {
					continue
				}
				switch fieldOfAddr(fa).Name() {
				case "Hasher":
					for _, rr := range *fa.Referrers() {
						if st, ok := rr.(*ssa.Store); ok {
							// &hasher where hasher := NewConsistentHasher(x)
							if ha, ok := st.Val.(*ssa.Alloc); ok {
								for _, hr := range *ha.Referrers() {
									if hs, ok := hr.(*ssa.Store); ok && hs.Addr == ha {
										if call, ok := hs.Val.(*ssa.Call); ok && calleeName(call.Common()) == nNew {
											hasherArg = call.Call.Args[0]
										}
									}
								}
							}
						}
					}
				case "baseConfig":
					for _, rr := range *fa.Referrers() {
						switch x := rr.(type) {
						case *ssa.Store:
							// whole baseConfig stored: from parameter or literal
							if bc, ok := x.Val.(*ssa.UnOp); ok {
								_ = bc
							}
							dests = x.Val
						case *ssa.FieldAddr:
							if fieldOfAddr(x).Name() == "dests" {
								for _, r3 := range *x.Referrers() {
									if st, ok := r3.(*ssa.Store); ok {
										dests = st.Val
									}
								}
							}
						}
					}
				}
			}
			hasHasherStore := false
			for _, r := range *al.Referrers() {
				if fa, ok := r.(*ssa.FieldAddr); ok && fieldOfAddr(fa).Name() == "Hasher" {
					for _, rr := range *fa.Referrers() {
						if _, ok := rr.(*ssa.Store); ok {
							hasHasherStore = true
						}
					}
				}
			}
			if !hasHasherStore {
				n--
				continue // a reader's copy of the configuration, not a construction site
			}
			okAgree := false
			if hasherArg != nil && dests != nil {
				if hasherArg == dests {
					okAgree = true
				}
				// hasher built from baseConfig.Dests() of the stored baseConfig
				if call, ok := hasherArg.(*ssa.Call); ok && strings.HasSuffix(calleeName(call.Common()), "baseConfig).Dests") {
					if sameLoc(call.Call.Args[0], dests) || call.Call.Args[0] == dests || strip(call.Call.Args[0]) == strip(dests) {
						okAgree = true
					}
				}
			}
			c.Judge(okAgree, FuncName(fn)+" ring built from the stored destination list", c.AtFn(fn), "Hasher = NewConsistentHasher(the dests stored in the same configuration)", "a consistent-hashing configuration is stored whose ring was built from a different destination list than the one it carries: indexes returned by the ring point at the wrong (or a missing) destination")
		}
	}
	if n < 2 {
		anchorFail("fewer than two construction sites of consistentHashingConfig found")
	}
	// every configuration change of a consistentHashing route rebuilds the ring, after the change it reflects
	c15r2paths(c)
}

// c15r2paths enumerates the paths of every method declared on *ConsistentHashing (expanding the
// functions and closures of the route package it runs, including closures handed to a publishing
// helper) and requires of every path that stores a configuration: the ring is built before the
// Store; after any Destination.Update on the path; and from the new destination list when the
// path builds one with append.
func c15r2paths(c *Check) {
	ch := c.P.Named("route", "ConsistentHashing")
	nNew := modPath + "/route.NewConsistentHasher"
	routePkg := c.P.Pkg("route").Types
	destsOf := func(v ssa.Value, resolve func(ssa.Value) ssa.Value) ssa.Value {
		// v: a baseConfig value (load of a local literal): the value stored into its dests field
		v = resolve(v)
		u, ok := v.(*ssa.UnOp)
		if !ok {
			return nil
		}
		al, ok := u.X.(*ssa.Alloc)
		if !ok {
			return nil
		}
		var out ssa.Value
		for _, r := range *al.Referrers() {
			if fa, ok := r.(*ssa.FieldAddr); ok && fieldOfAddr(fa).Name() == "dests" {
				for _, rr := range *fa.Referrers() {
					if st, ok := rr.(*ssa.Store); ok {
						out = resolve(st.Val)
					}
				}
			}
		}
		return out
	}
	isAppend := func(v ssa.Value) bool {
		call, ok := v.(*ssa.Call)
		if !ok {
			return false
		}
		b, ok := call.Call.Value.(*ssa.Builtin)
		return ok && b.Name() == "append"
	}
	nEntries := 0
	for i := 0; i < ch.NumMethods(); i++ {
		fn := c.P.SSA.FuncValue(ch.Method(i))
		if fn == nil || len(fn.Blocks) == 0 {
			continue
		}
		cfg := &PathCfg{
			Inline:   func(g *ssa.Function) bool { return fnPkg(g) == routePkg && funcCanonical(g) != nNew },
			MaxDepth: 6,
			ClassifyV: func(in ssa.Instruction, resolve func(ssa.Value) ssa.Value) []string {
				if isCallNamed(in, "(*"+modPath+"/destination.Destination).Update") {
					return []string{"update"}
				}
				if isCallNamed(in, nNew) {
					return []string{"ring"}
				}
				if _, _, ok := publishedAccess(in, atomicStore); ok {
					// storing back the very snapshot that was loaded changes nothing
					v := callCommon(in).Args[len(callCommon(in).Args)-1]
					for k := 0; k < 8; k++ {
						v = resolve(v)
						switch x := v.(type) {
						case *ssa.MakeInterface:
							v = x.X
							continue
						case *ssa.ChangeInterface:
							v = x.X
							continue
						case *ssa.TypeAssert:
							if !isSnapshotLoad(x) {
								v = x.X
								continue
							}
						}
						break
					}
					if isSnapshotLoad(v) {
						return []string{"store:unchanged"}
					}
					return []string{"store"}
				}
				if call, ok := in.(*ssa.Call); ok {
					if isAppend(call) && strings.Contains(call.Type().String(), "destination.Destination") {
						return []string{"append"}
					}
					// a call of a configuration extender (directly or through a function value): which list does it get?
					sig := call.Call.Signature()
					if sig != nil && sig.Params().Len() == 1 && strings.HasSuffix(sig.Params().At(0).Type().String(), "route.baseConfig") && len(call.Call.Args) >= 1 {
						if d := destsOf(call.Call.Args[len(call.Call.Args)-1], resolve); d != nil && isAppend(d) {
							return []string{"extend:new"}
						}
						return []string{"extend:other"}
					}
				}
				return nil
			},
		}
		paths, trunc := EnumPaths(fn, nil, cfg)
		nStore := 0
		bad := ""
		for _, pa := range paths {
			if !pa.Has("store") {
				continue
			}
			nStore++
			si := pa.Index("store")
			ri := -1
			ui := -1
			for k, e := range pa.Events {
				if k >= si {
					break
				}
				if e.Class == "ring" {
					ri = k
				}
				if e.Class == "update" {
					ui = k
				}
			}
			switch {
			case ri < 0:
				bad = "a configuration is stored without rebuilding the ring: the ring keeps describing the old destinations"
			case ui > ri:
				bad = "the ring is rebuilt before the destination's address is updated: the stored ring reflects the old host/instance and routing depends on history instead of the configured destinations"
			case pa.Has("append") && !pa.Has("extend:new"):
				bad = "the configuration (and ring) is rebuilt from the old destination list although the path builds a new one"
			}
			if bad != "" {
				bad += " (path: " + pa.String() + ")"
				break
			}
		}
		if nStore == 0 && !trunc {
			continue
		}
		nEntries++
		c.Judge(bad == "" && !trunc, "route.ConsistentHashing."+fn.Name()+" rebuilds the ring from the changed configuration", c.AtFn(fn), fmt.Sprintf("%d storing paths: ring built after the change and before the Store", nStore), bad)
	}
	if nEntries < 4 {
		anchorFail("fewer than four configuration-changing methods of ConsistentHashing found (%d)", nEntries)
	}
}

func c15r3(c *Check) {
	base := c.P.Named("route", "baseRoute")
	ch := c.P.Named("route", "ConsistentHashing")
	declared := map[string]*ssa.Function{}
	for i := 0; i < ch.NumMethods(); i++ {
		m := ch.Method(i)
		declared[m.Name()] = c.P.SSA.FuncValue(m)
	}
	// a method of baseRoute that publishes a configuration (directly or through the helpers it calls)
	storesConfig := func(fn *ssa.Function) bool {
		found := false
		for _, g := range samePkgCallees(c.P, fn) {
			allInstrs(g, func(in ssa.Instruction) {
				if _, _, ok := publishedAccess(in, atomicStore); ok {
					found = true
				}
			})
		}
		return found
	}
	n := 0
	for i := 0; i < base.NumMethods(); i++ {
		m := base.Method(i)
		fn := c.P.SSA.FuncValue(m)
		if fn == nil || fn.Blocks == nil || !m.Exported() || !storesConfig(fn) {
			continue
		}
		n++
		ov := declared[m.Name()]
		okOv := ov != nil && ov.Blocks != nil && ov != fn
		c.Judge(okOv, "route.ConsistentHashing overrides "+m.Name(), c.AtFn(fn), "ConsistentHashing declares its own "+m.Name()+" (that it rebuilds the ring is rule C15.R2)", "ConsistentHashing inherits baseRoute."+m.Name()+", which stores a plain baseConfig: the next Dispatch asserts consistentHashingConfig and panics, or keeps routing with a stale ring")
	}
	if n < 4 {
		anchorFail("fewer than four exported baseRoute methods that store a configuration (%d)", n)
	}
}

func c15r4(c *Check) {
	// replica count
	nh := c.P.Func("route", "", "NewConsistentHasher")
	rc := int64(-1)
	allInstrs(nh, func(in ssa.Instruction) {
		if call, ok := in.(*ssa.Call); ok && strings.HasSuffix(calleeName(call.Common()), "NewConsistentHasherReplicaCount") {
			rc, _ = constInt(call.Call.Args[1])
		}
	})
	c.Judge(rc == 100, "route.NewConsistentHasher uses 100 replicas", c.AtFn(nh), "Carbon's replica count", fmt.Sprintf("the production ring uses %d replicas per destination, Carbon uses 100: keys map to different destinations than carbon-relay.py", rc))
	// ring position
	cp := c.P.Func("route", "", "computeRingPosition")
	md5ok, slice02, be, u16 := false, false, false, false
	allInstrs(cp, func(in ssa.Instruction) {
		switch x := in.(type) {
		case *ssa.Call:
			switch calleeName(x.Common()) {
			case "crypto/md5.Sum":
				md5ok = x.Call.Args[0] == ssa.Value(cp.Params[0])
			case "encoding/binary.Read":
				if mi, ok := x.Call.Args[1].(*ssa.MakeInterface); ok {
					if u, ok := mi.X.(*ssa.UnOp); ok {
						if g, ok := u.X.(*ssa.Global); ok && g.Name() == "BigEndian" {
							be = true
						}
					}
				}
				if mi, ok := x.Call.Args[2].(*ssa.MakeInterface); ok {
					if p, ok := mi.X.Type().(*types.Pointer); ok && p.Elem().String() == "uint16" {
						u16 = true
					}
				}
			}
		case *ssa.Slice:
			lo, okl := constInt(x.Low)
			hi, okh := constInt(x.High)
			if (x.Low == nil || okl && lo == 0) && okh && hi == 2 {
				slice02 = true
			}
		}
	})
	c.Judge(md5ok && slice02 && be && u16, "route.computeRingPosition = first two MD5 bytes, big-endian uint16", c.AtFn(cp), "md5.Sum(key)[0:2] read as big-endian uint16", "the ring position is not the big-endian uint16 of the first two MD5 bytes of the key")
	// replica key pieces
	ad := c.P.Func("route", "*ConsistentHasher", "AddDestination")
	type piece struct {
		pos int
		s   string
	}
	var ps []piece
	// a value inside a key-building helper, traced to what its (single) call site passes
	traceArg := func(v ssa.Value) ssa.Value {
		for k := 0; k < 4; k++ {
			par, ok := v.(*ssa.Parameter)
			if !ok || par.Parent() == ad {
				return v
			}
			args, ok := c.P.paramArgs(par)
			if !ok || len(args) != 1 {
				return v
			}
			v = args[0]
		}
		return v
	}
	for _, f := range samePkgCallees(c.P, ad) {
		if f != ad && fnPkg(f) != fnPkg(ad) {
			continue
		}
		allInstrs(f, func(in ssa.Instruction) {
			if call, ok := in.(*ssa.Call); ok && calleeName(call.Common()) == "(*bytes.Buffer).WriteString" {
				var s string
				arg := traceArg(call.Call.Args[1])
				if cs, ok := constString(arg); ok {
					s = cs
				} else if _, names := fieldPath(arg); len(names) > 0 {
					s = "<" + names[len(names)-1] + ">"
				} else if ic, ok := arg.(*ssa.Call); ok && calleeName(ic.Common()) == "strconv.Itoa" {
					s = "<i>"
				} else {
					s = "<host>"
				}
				ps = append(ps, piece{int(call.Pos()), s})
			}
		})
	}
	sort.Slice(ps, func(i, j int) bool { return ps[i].pos < ps[j].pos })
	var pieces []string
	for _, x := range ps {
		pieces = append(pieces, x.s)
	}
	want := "('|<host>|', |'|<Instance>|'|None|)|:|<i>"
	c.Judge(strings.Join(pieces, "|") == want, "route.AddDestination replica key \"('host', 'instance'|None):i\"", c.AtFn(ad), strings.Join(pieces, " "), "the replica key is assembled as ["+strings.Join(pieces, " ")+"], not as Carbon's repr of (host, instance) followed by :i")
	// Less truth table
	less := c.P.Func("route", "hashRing", "Less")
	cfg := &PathCfg{Branch: func(ifi *ssa.If, cond ssa.Value, taken bool) []string {
		cnd, neg := negStrip(cond)
		bo, ok := cnd.(*ssa.BinOp)
		if !ok {
			return []string{"?"}
		}
		_, n1 := fieldPath(bo.X)
		_, n2 := fieldPath(bo.Y)
		if len(n1) == 0 || len(n2) == 0 || n1[len(n1)-1] != n2[len(n2)-1] {
			return []string{"?"}
		}
		// operand order: r[i] on the left, r[j] on the right
		li, lj := indexParam(bo.X, less), indexParam(bo.Y, less)
		op := bo.Op
		if li == 2 && lj == 1 {
			op = flipRel(op)
		} else if !(li == 1 && lj == 2) {
			return []string{"?"}
		}
		if taken == neg {
			op = negRel(op)
		}
		return []string{n1[len(n1)-1] + op.String()}
	}}
	paths, _ := EnumPaths(less, nil, cfg)
	var probs []string
	for i := range paths {
		pa := &paths[i]
		if pa.Has("?") {
			probs = append(probs, "unrecognised comparison: "+pa.String())
			continue
		}
		// derive what is known: for each field: "<", "==", ">" , "<=" , ">=" , "!="
		known := map[string]map[string]bool{}
		for _, e := range pa.Events {
			for _, f := range []string{"Position", "Hostname", "Instance"} {
				if strings.HasPrefix(e.Class, f) {
					if known[f] == nil {
						known[f] = map[string]bool{}
					}
					known[f][strings.TrimPrefix(e.Class, f)] = true
				}
			}
		}
		lt := func(f string) int { // 1 yes, 0 no, -1 unknown
			k := known[f]
			switch {
			case k["<"]:
				return 1
			case k[">="] || k["=="] || k[">"]:
				return 0
			}
			return -1
		}
		eq := func(f string) int {
			k := known[f]
			switch {
			case k["=="]:
				return 1
			case k["!="] || k["<"] || k[">"]:
				return 0
			}
			return -1
		}
		and := func(a, b int) int {
			if a == 0 || b == 0 {
				return 0
			}
			if a == 1 && b == 1 {
				return 1
			}
			return -1
		}
		or := func(a, b int) int {
			if a == 1 || b == 1 {
				return 1
			}
			if a == 0 && b == 0 {
				return 0
			}
			return -1
		}
		// infeasible combinations of facts about one field (the same comparison occurs in several disjuncts)
		contra := false
		for _, k := range known {
			if (k["=="] && (k["!="] || k["<"] || k[">"])) || (k["<"] && (k[">="] || k[">"])) || (k[">"] && k["<="]) {
				contra = true
			}
		}
		if contra {
			continue
		}
		formula := func() int {
			return or(lt("Position"), or(and(eq("Position"), lt("Hostname")), and(eq("Position"), and(eq("Hostname"), lt("Instance")))))
		}
		want := formula()
		if len(pa.Ret) != 1 || pa.Ret[0] == nil {
			// the result is the last comparison itself: check both outcomes
			okSym := false
			if len(pa.RetV) == 1 {
				if bo, isBo := pa.RetV[0].(*ssa.BinOp); isBo {
					_, n1 := fieldPath(bo.X)
					if len(n1) > 0 && indexParam(bo.X, less) == 1 && indexParam(bo.Y, less) == 2 && bo.Op == token.LSS {
						f := n1[len(n1)-1]
						if known[f] == nil {
							known[f] = map[string]bool{}
						}
						known[f]["<"] = true
						wT := formula()
						delete(known[f], "<")
						known[f][">="] = true
						wF := formula()
						delete(known[f], ">=")
						okSym = wT == 1 && wF == 0
					}
				}
			}
			if !okSym {
				probs = append(probs, "the result on this path is not the comparison the lexicographic order needs: "+pa.String())
			}
			continue
		}
		got := 0
		if pa.Ret[0].String() == "true" {
			got = 1
		}
		if want != -1 && want != got {
			probs = append(probs, fmt.Sprintf("returns %v where (Position, Hostname, Instance) order gives %v: %s", got == 1, want == 1, pa.String()))
		}
		if want == -1 {
			probs = append(probs, fmt.Sprintf("returns %v without deciding the lexicographic order: %s", got == 1, pa.String()))
		}
	}
	if len(paths) == 0 {
		probs = append(probs, "no paths")
	}
	if len(probs) > 5 {
		probs = probs[:5]
	}
	if len(probs) > 0 {
		c.ViolateW("route.hashRing.Less orders by (Position, Hostname, Instance)", c.AtFn(less), probs[0]+" — ring entries that collide on a position are ordered differently from Carbon, so the colliding keys go to another destination", probs)
	} else {
		c.Hold("route.hashRing.Less orders by (Position, Hostname, Instance)", c.AtFn(less), fmt.Sprintf("%d paths agree with the lexicographic order", len(paths)))
	}
}

// indexParam: v is r[i].F or r[j].F — returns 1 for the first index parameter, 2 for the second.
func indexParam(v ssa.Value, fn *ssa.Function) int {
	for i := 0; i < 8; i++ {
		switch x := v.(type) {
		case *ssa.UnOp:
			v = x.X
		case *ssa.FieldAddr:
			v = x.X
		case *ssa.Field:
			v = x.X
		case *ssa.Alloc:
			// a, b := r[i], r[j]: a local copy initialised once
			s := cellValue(x)
			if s == nil {
				return 0
			}
			v = s
		case *ssa.IndexAddr:
			for pi, p := range fn.Params {
				if x.Index == ssa.Value(p) {
					return pi // receiver is param 0
				}
			}
			return 0
		case *ssa.Index:
			for pi, p := range fn.Params {
				if x.Index == ssa.Value(p) {
					return pi
				}
			}
			return 0
		default:
			return 0
		}
	}
	return 0
}

func c15r5(c *Check) {
	gd := c.P.Func("route", "*ConsistentHasher", "GetDestinationIndex")
	ringF := c.P.Field("route", "ConsistentHasher", "Ring")
	var search *ssa.Call
	// the lookup may be written in a helper method of the hasher (ringIndex(position))
	for _, f := range workerFuncs(c.P, gd) {
		allInstrs(f, func(in ssa.Instruction) {
			if call, ok := in.(*ssa.Call); ok && calleeName(call.Common()) == "sort.Search" {
				search = call
			}
		})
	}
	ok := false
	detail := "sort.Search not found"
	if search != nil {
		// n = len(h.Ring)
		nOK := false
		if lc, isCall := search.Call.Args[0].(*ssa.Call); isCall {
			if b, isB := lc.Call.Value.(*ssa.Builtin); isB && b.Name() == "len" && isFieldLoad(lc.Call.Args[0], ringF) {
				nOK = true
			}
		}
		// predicate: Ring[i].Position >= position
		predOK := false
		if f := resolveFuncValue(search.Call.Args[1]); f != nil {
			allInstrs(f, func(in ssa.Instruction) {
				if bo, isBo := in.(*ssa.BinOp); isBo {
					_, names := fieldPath(bo.X)
					if bo.Op == token.GEQ && len(names) > 0 && names[len(names)-1] == "Position" {
						predOK = true
					}
				}
			})
		}
		// result % len(Ring)
		remOK := false
		for _, r := range *search.Referrers() {
			if bo, isBo := r.(*ssa.BinOp); isBo && bo.Op == token.REM && bo.X == ssa.Value(search) {
				if lc, isCall := bo.Y.(*ssa.Call); isCall {
					if b, isB := lc.Call.Value.(*ssa.Builtin); isB && b.Name() == "len" && isFieldLoad(lc.Call.Args[0], ringF) {
						remOK = true
					}
				}
			}
		}
		ok = nOK && predOK && remOK
		detail = fmt.Sprintf("n=len(Ring):%v predicate Position>=key:%v wrap-around %%len(Ring):%v", nOK, predOK, remOK)
	}
	c.Judge(ok, "route.GetDestinationIndex bisect-left with wrap-around", c.AtFn(gd), detail, "the ring lookup is not `first entry with Position >= key position, modulo ring length` ("+detail+"): keys map to a neighbouring destination compared with Carbon")
	// returns Ring[index].DestinationIndex
	retOK := false
	allInstrs(gd, func(in ssa.Instruction) {
		if r, isRet := in.(*ssa.Return); isRet {
			if _, names := fieldPath(r.Results[0]); len(names) >= 1 && names[len(names)-1] == "DestinationIndex" {
				retOK = true
			}
		}
	})
	disp := c.P.Func("route", "*ConsistentHashing", "Dispatch")
	idxOK := false
	allInstrs(disp, func(in ssa.Instruction) {
		if ia, isIA := in.(*ssa.IndexAddr); isIA {
			if call, isCall := ia.Index.(*ssa.Call); isCall && strings.HasSuffix(calleeName(call.Common()), "GetDestinationIndex") {
				if dc, isD := ia.X.(*ssa.Call); isD && strings.HasSuffix(calleeName(dc.Common()), ".Dests") {
					idxOK = true
				}
			}
		}
	})
	c.Judge(retOK && idxOK, "route.ConsistentHashing.Dispatch sends to Dests()[ring index]", c.AtFn(disp), "the ring entry's DestinationIndex selects the destination of the same configuration", "the destination is not selected as Dests()[Ring[index].DestinationIndex] of the loaded configuration")
}

func c15r6(c *Check) {
	fn := c.P.Func("destination", "", "addrInstanceSplit")
	count2, split, join02, inst2 := false, false, false, false
	allInstrs(fn, func(in ssa.Instruction) {
		switch x := in.(type) {
		case *ssa.BinOp:
			if call, ok := x.X.(*ssa.Call); ok && calleeName(call.Common()) == "strings.Count" && x.Op == token.EQL {
				sep, _ := constString(call.Call.Args[1])
				if k, ok := constInt(x.Y); ok && k == 2 && sep == ":" {
					count2 = true
				}
			}
		case *ssa.Call:
			switch calleeName(x.Common()) {
			case "strings.Split":
				if sep, _ := constString(x.Call.Args[1]); sep == ":" {
					split = true
				}
			case "strings.Join":
				sep, _ := constString(x.Call.Args[1])
				if sl, ok := x.Call.Args[0].(*ssa.Slice); ok && sep == ":" {
					lo, okl := constInt(sl.Low)
					hi, okh := constInt(sl.High)
					if (sl.Low == nil || okl && lo == 0) && okh && hi == 2 {
						join02 = true
					}
				}
			}
		case *ssa.IndexAddr:
			if k, ok := constInt(x.Index); ok && k == 2 {
				inst2 = true
			}
		}
	})
	// equivalent form: cut at the last ':' — pos := strings.LastIndexByte(addr, ':'); addr[:pos], addr[pos+1:]
	var lastIdx *ssa.Call
	allInstrs(fn, func(in ssa.Instruction) {
		if call, ok := in.(*ssa.Call); ok {
			switch calleeName(call.Common()) {
			case "strings.LastIndexByte":
				if k, ok := constInt(call.Call.Args[1]); ok && k == ':' && call.Call.Args[0] == ssa.Value(fn.Params[0]) {
					lastIdx = call
				}
			case "strings.LastIndex":
				if sep, _ := constString(call.Call.Args[1]); sep == ":" && call.Call.Args[0] == ssa.Value(fn.Params[0]) {
					lastIdx = call
				}
			}
		}
	})
	if lastIdx != nil && count2 {
		head, tail := false, false
		allInstrs(fn, func(in ssa.Instruction) {
			sl, ok := in.(*ssa.Slice)
			if !ok || sl.X != ssa.Value(fn.Params[0]) {
				return
			}
			if sl.Low == nil && sl.High == ssa.Value(lastIdx) {
				head = true
			}
			if bo, ok := sl.Low.(*ssa.BinOp); ok && sl.High == nil && bo.Op == token.ADD && bo.X == ssa.Value(lastIdx) {
				if k, ok := constInt(bo.Y); ok && k == 1 {
					tail = true
				}
			}
		})
		if head && tail {
			split, join02, inst2 = true, true, true
		}
	}
	c.Judge(count2 && split && join02 && inst2, "destination.addrInstanceSplit host:port:instance", c.AtFn(fn), "two ':' → (components[0:2] joined by ':', components[2])", "host:port:instance addresses are not split into (host:port, instance): the ring key or the dial address is wrong")
}

func c15r7(c *Check) {
	instF := c.P.Field("destination", "Destination", "Instance")
	addrF := c.P.Field("destination", "Destination", "Addr")
	nSplit := modPath + "/destination.addrInstanceSplit"
	n := 0
	for _, fn := range c.P.Funcs {
		fn := fn
		allInstrs(fn, func(in ssa.Instruction) {
			st, ok := in.(*ssa.Store)
			if !ok {
				return
			}
			fa, ok := st.Addr.(*ssa.FieldAddr)
			if !ok || fieldOfAddr(fa) != instF {
				return
			}
			n++
			key := FuncName(fn) + " store into Destination.Instance"
			// the object under construction (composite literal in New / Snapshot copies) is free to set it
			if al, isAlloc := fa.X.(*ssa.Alloc); isAlloc && al.Heap {
				fromSplit := false
				if ex, ok := st.Val.(*ssa.Extract); ok && ex.Index == 1 {
					if call, ok := ex.Tuple.(*ssa.Call); ok && calleeName(call.Common()) == nSplit {
						fromSplit = true
					}
				}
				_, _, isCopy2 := fieldLoad(st.Val)
				c.Judge(fromSplit || isCopy2, key+" (new object)", c.At(in), "instance part of the configured address (or a copy of another destination's)", "a new Destination's Instance is not the instance part of its configured address")
				return
			}
			ex, ok := st.Val.(*ssa.Extract)
			var split *ssa.Call
			if ok && ex.Index == 1 {
				if call, ok := ex.Tuple.(*ssa.Call); ok && calleeName(call.Common()) == nSplit {
					split = call
				}
			}
			if split == nil {
				c.Violate(key, c.At(in), "Destination.Instance is overwritten with something that is not the instance part of an address: the hash ring is rebuilt with a different (host, instance) pair on the next route change")
				return
			}
			// the split address
			var splitAddr ssa.Value
			for _, r := range *split.Referrers() {
				if e0, ok := r.(*ssa.Extract); ok && e0.Index == 0 {
					splitAddr = e0
				}
			}
			// controlled by splitAddr != dest.Addr
			guarded := false
			for _, b := range fn.Blocks {
				ifi, ok := b.Instrs[len(b.Instrs)-1].(*ssa.If)
				if !ok {
					continue
				}
				cnd, neg := negStrip(ifi.Cond)
				bo, ok := cnd.(*ssa.BinOp)
				if !ok || (bo.Op != token.NEQ && bo.Op != token.EQL) {
					continue
				}
				okOps := (bo.X == splitAddr && isFieldLoad(bo.Y, addrF)) || (bo.Y == splitAddr && isFieldLoad(bo.X, addrF))
				if !okOps || splitAddr == nil {
					continue
				}
				si := 0 // edge on which they differ
				if (bo.Op == token.EQL) != neg {
					si = 1
				}
				if edgeDominates(b, b.Succs[si], in.Block()) {
					guarded = true
				}
			}
			// and Addr is stored from the same split
			paired := false
			allInstrs(fn, func(x ssa.Instruction) {
				if s2, ok := x.(*ssa.Store); ok && s2.Block() == in.Block() {
					if fa2, ok := s2.Addr.(*ssa.FieldAddr); ok && fieldOfAddr(fa2) == addrF && s2.Val == splitAddr {
						paired = true
					}
				}
			})
			c.Judge(guarded && paired, key, c.At(in), "only when the split address differs from the current Addr, together with that address", "Destination.Instance can be overwritten on a (re)connect to the unchanged address: the relay loop dials with the stored host:port (which carries no instance), so the configured instance is replaced by \"\" and the next route change rebuilds the hash ring from a different (host, instance) pair — keys move between destinations that did not change")
		})
	}
	if n < 2 {
		anchorFail("destination: %d stores into Destination.Instance found", n)
	}
}

func c15r8(c *Check) {
	ringF := c.P.Field("route", "ConsistentHasher", "Ring")
	n := 0
	for _, fn := range c.P.Funcs {
		fn := fn
		var stores []*ssa.Store
		sortBlocks := map[*ssa.BasicBlock][]ssa.Instruction{}
		allInstrs(fn, func(in ssa.Instruction) {
			if st, ok := in.(*ssa.Store); ok {
				if fa, ok := st.Addr.(*ssa.FieldAddr); ok && fieldOfAddr(fa) == ringF {
					stores = append(stores, st)
				}
			}
			if cc := callCommon(in); cc != nil {
				switch calleeName(cc) {
				case "sort.Sort", "sort.Stable":
					if len(cc.Args) == 1 && derivedFromField(cc.Args[0], ringF) {
						sortBlocks[in.Block()] = append(sortBlocks[in.Block()], in)
					}
				}
			}
		})
		for _, st := range stores {
			n++
			// fresh empty ring needs no sort
			if k, ok := st.Val.(*ssa.Const); ok && k.IsNil() {
				c.Hold(FuncName(fn)+" Ring sorted after assignment", c.At(st), "empty ring")
				continue
			}
			okAll := true
			// same block: a sort after the store
			sameBlockSort := false
			for _, so := range sortBlocks[st.Block()] {
				if instrDominates(st, so) {
					sameBlockSort = true
				}
			}
			if !sameBlockSort {
				stop := map[*ssa.BasicBlock]bool{}
				for b := range sortBlocks {
					if b != st.Block() {
						stop[b] = true
					}
				}
				for b := range reachable(st.Block(), nil, stop) {
					if stop[b] {
						continue
					}
					if _, isRet := b.Instrs[len(b.Instrs)-1].(*ssa.Return); isRet {
						okAll = false
					}
				}
			}
			c.Judge(okAll, FuncName(fn)+" Ring sorted after assignment", c.At(st), "sort.Sort(h.Ring) follows on every path", "the ring is assigned without being sorted by the library sort afterwards (hand-written merge/insert, or no sort): entries that collide on a position are not in Carbon's (position, host, instance) order, so keys on that arc go to a different destination than Carbon picks")
		}
	}
	if n == 0 {
		anchorFail("no store into ConsistentHasher.Ring")
	}
}

// c15r9: the ring is a function of the configured destinations only: nothing that builds the ring or
// looks a key up in it (NewConsistentHasher*, AddDestination, GetDestinationIndex and the functions of
// package route they call) reads or writes a package-level variable — no memo of positions shared
// between hashers, no global that routing could depend on besides its inputs.
func c15r9(c *Check) {
	roots := []*ssa.Function{
		c.P.Func("route", "", "NewConsistentHasherReplicaCount"),
		c.P.Func("route", "*ConsistentHasher", "AddDestination"),
		c.P.Func("route", "*ConsistentHasher", "GetDestinationIndex"),
		c.P.Func("route", "", "computeRingPosition"),
	}
	seen := map[*ssa.Function]bool{}
	var fns []*ssa.Function
	for _, r := range roots {
		for _, f := range samePkgCallees(c.P, r) {
			for _, g := range withAnons(f) {
				if !seen[g] {
					seen[g] = true
					fns = append(fns, g)
				}
			}
		}
	}
	bad := ""
	for _, f := range fns {
		allInstrs(f, func(in ssa.Instruction) {
			for _, op := range in.Operands(nil) {
				g, ok := (*op).(*ssa.Global)
				if !ok || g.Pkg == nil || g.Pkg.Pkg.Path() != modPath+"/route" {
					continue
				}
				// error values and the like that are only read and never assigned outside init are constants in effect
				if strings.HasPrefix(g.Name(), "err") || strings.HasPrefix(g.Name(), "Err") {
					continue
				}
				bad = FuncName(f) + " uses the package-level variable " + g.Name() + " at " + c.At(in)
			}
		})
	}
	c.Judge(bad == "", "route: the hash ring depends on the destination list only", c.AtFn(roots[1]), fmt.Sprintf("%d functions that build or query the ring use no package-level variable", len(fns)), bad+": ring positions (or the lookup) depend on state shared between hashers — e.g. a memo keyed by something coarser than (host, instance) hands one node the positions of another")
}
