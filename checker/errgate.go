package main

// Error gating of fallible constructors: a value returned together with an error may be
// used only where the error is known to be nil (or be handed on together with that error).

import (
	"fmt"
	"go/types"

	"golang.org/x/tools/go/ssa"
)

var errorType = types.Universe.Lookup("error").Type()

// errGated checks every call site in the module of the named callee (which returns (..., error)):
// each use of a non-error result is dominated by the no-error edge of a test of the error
// result, or is a Return that also returns that error. Returns the number of call sites.
func errGated(c *Check, rule string, callee string, what string) int {
	n := 0
	for _, fn := range c.P.Funcs {
		allInstrs(fn, func(in ssa.Instruction) {
			call, ok := in.(*ssa.Call)
			if !ok || calleeName(call.Common()) != callee {
				return
			}
			tup, ok := call.Type().(*types.Tuple)
			if !ok || tup.Len() < 2 || !types.Identical(tup.At(tup.Len()-1).Type(), errorType) {
				return
			}
			n++
			key := fmt.Sprintf("%s %s → %s", rule, FuncName(fn), short(callee))
			var errEx *ssa.Extract
			var vals []*ssa.Extract
			for _, r := range *call.Referrers() {
				if ex, ok := r.(*ssa.Extract); ok {
					if ex.Index == tup.Len()-1 {
						errEx = ex
					} else {
						vals = append(vals, ex)
					}
				}
			}
			if len(vals) == 0 {
				c.Hold(key, c.At(in), "result unused")
				return
			}
			// edges on which the error is known nil
			type edge struct{ from, to *ssa.BasicBlock }
			var okEdges []edge
			if errEx != nil {
				for _, b := range fn.Blocks {
					ifi, ok := b.Instrs[len(b.Instrs)-1].(*ssa.If)
					if !ok {
						continue
					}
					e, errEdge, ok := errTest(ifi.Cond)
					if !ok || e != errEx {
						continue
					}
					si := 1
					if !errEdge {
						si = 0
					}
					okEdges = append(okEdges, edge{b, b.Succs[si]})
				}
			}
			bad := ""
			for _, v := range vals {
				// uses of the value, looking through the local variable it is first stored into
				var uses []ssa.Instruction
				for _, r := range *v.Referrers() {
					if st, ok := r.(*ssa.Store); ok && st.Val == v {
						if al, ok := st.Addr.(*ssa.Alloc); ok {
							for _, ar := range *al.Referrers() {
								if ar == r {
									continue
								}
								// a result spilled because of `defer`: loaded only to be returned
								if ld, ok := ar.(*ssa.UnOp); ok {
									onlyReturned := len(*ld.Referrers()) > 0
									for _, lr := range *ld.Referrers() {
										if _, isRet := lr.(*ssa.Return); !isRet {
											onlyReturned = false
										}
									}
									if onlyReturned {
										continue
									}
								}
								uses = append(uses, ar)
							}
							continue
						}
					}
					uses = append(uses, r)
				}
				for _, r := range uses {
					if _, isDbg := r.(*ssa.DebugRef); isDbg {
						continue
					}
					if ret, ok := r.(*ssa.Return); ok && errEx != nil {
						withErr := false
						for _, x := range ret.Results {
							if x == errEx {
								withErr = true
							}
						}
						// ... or together with an error that was just constructed (a wrapped message)
						if n := len(ret.Results); n > 0 && isErrorCtor(ret.Results[n-1]) {
							withErr = true
						}
						if withErr {
							continue
						}
					}
					gated := false
					for _, e := range okEdges {
						if edgeDominates(e.from, e.to, r.Block()) {
							gated = true
						}
					}
					// a phi merges the value on some edge: the edge's source block must be gated
					if phi, ok := r.(*ssa.Phi); ok && !gated {
						gated = true
						for i, ed := range phi.Edges {
							if ed != v {
								continue
							}
							pred := phi.Block().Preds[i]
							g := false
							for _, e := range okEdges {
								if edgeDominates(e.from, e.to, pred) || (e.from == pred && e.to == phi.Block()) {
									g = true
								}
							}
							if !g {
								gated = false
							}
						}
					}
					if !gated && bad == "" {
						bad = fmt.Sprintf("%s is used at %s although the error returned with it may be non-nil: a refused request still takes effect, with a half-built value", what, c.At(r))
					}
				}
			}
			c.Judge(bad == "", key, c.At(in), "every use of the result is on the no-error edge (or hands the error on)", bad)
		})
	}
	return n
}
