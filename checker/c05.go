package main

import (
	"fmt"
	"go/token"
	"go/types"
	"sort"
	"strings"

	"golang.org/x/tools/go/ssa"
)

func init() {
	register(&PropDef{
		ID:    "C05",
		Title: "A healthy carbon connection carries the lines in order, once, unbroken",
		Decided: "R1 only the connection's HandleData goroutine can reach the buffered writer's Write/Flush and the socket write (single writer: no interleaving of two writers' bytes); " +
			"R2 the hand-off relay → Conn.In → HandleData → Write involves no `go` statement, so channel FIFO order is the write order; " +
			"R3 on every successful path of Conn.Write in plain mode the writes to the buffered writer are exactly [the line, the one-byte newline] and in pickle mode exactly [the pickled datapoint] with no newline; " +
			"R4 Pickle() writes the 4-byte big-endian uint32 length of the payload buffer before that payload; " +
			"R5 the buffered writer hands caller data directly to the socket (bypassing its buffer) only when the buffer is empty, copies into the buffer at the current fill position, and writes buf[0:n] on flush.",
		NotDecided: "the offset/length arithmetic of bufwriter.go beyond R5 (overflow flush, short-write compaction): whether a line is torn at a buffer boundary depends on numeric values; slow-connection drops (C06).",
		Rules: []RuleDef{
			{ID: "C05.R1", Min: 3, Doc: "single writer: goroutine roots (functions started with `go`, or uncalled entry points) from which (*Writer).Write / flush and the socket's Write are reachable over call/defer edges must be {(*Conn).HandleData}", Run: c05r1},
			{ID: "C05.R2", Min: 2, Doc: "synchronous FIFO hand-off: every send on Conn.In is reachable from relay without a go edge; Conn.Write is called from HandleData without a go edge; Conn.In has one receiver loop besides the redo drain", Run: c05r2},
			{ID: "C05.R3", Min: 1, Doc: "write trace per line: path enumeration of Conn.Write with `pickle` as a path-consistent boolean", Run: c05r3},
			{ID: "C05.R4", Min: 1, Doc: "pickle framing: the byte layout of what Pickle returns — evaluated over the buffers and slices it allocates, whichever API writes them (binary.Write, ByteOrder.PutUint32/AppendUint32, Buffer.Write, copy, append, an encoder bound to the buffer) — is [4 bytes big-endian holding the length of the rest][the encoder's output], the length being taken after the encoder ran", Run: c05r4},
			{ID: "C05.R5", Min: 3, Doc: "buffered writer structure: the direct wr.Write(p) is dominated by the true edge of `Buffered() == 0`; copy destinations are buf[n:]; flush writes buf[0:n]", Run: c05r5},
		},
	})
}

// goroutineRoots: the functions, reached by walking callers of fn over call/defer edges, that are
// started with `go` or have no callers at all.
func goroutineRoots(cg *CallGraph, fn *ssa.Function) map[*ssa.Function][]string {
	roots := map[*ssa.Function][]string{}
	seen := map[*ssa.Function]bool{}
	var walk func(f *ssa.Function, chain []string)
	walk = func(f *ssa.Function, chain []string) {
		if seen[f] {
			return
		}
		seen[f] = true
		chain = append([]string{FuncName(f)}, chain...)
		ins := cg.In[f]
		nSync := 0
		for _, e := range ins {
			switch e.Kind {
			case EdgeGo:
				roots[f] = chain
			case EdgeCall, EdgeDefer:
				nSync++
				walk(e.Caller, chain)
			case EdgeRef:
				// function value escaping: whoever holds it may call it; treat the referrer as a caller
				nSync++
				walk(e.Caller, chain)
			}
		}
		if nSync == 0 && len(ins) == 0 {
			roots[f] = chain
		}
	}
	walk(fn, nil)
	return roots
}

func c05r1(c *Check) {
	cg := c.P.CG()
	hd := c.P.Func("destination", "*Conn", "HandleData")
	for _, name := range []string{"Write", "flush", "Flush"} {
		fn := c.P.Func("destination", "*Writer", name)
		roots := goroutineRoots(cg, fn)
		var bad []string
		for r, chain := range roots {
			if r != hd {
				bad = append(bad, strings.Join(chain, " → "))
			}
		}
		sort.Strings(bad)
		key := "destination.Writer." + name + " only from HandleData"
		if len(bad) > 0 {
			c.ViolateW(key, c.AtFn(fn), "the buffered writer is reachable from a goroutine other than the connection's HandleData: two goroutines writing the same unsynchronised buffer duplicate or tear bytes", bad)
		} else {
			c.Hold(key, c.AtFn(fn), "single goroutine root: (*Conn).HandleData")
		}
	}
	// the socket: Conn.conn writes
	connF := c.P.Field("destination", "Conn", "conn")
	nW := 0
	for _, fn := range c.P.Funcs {
		allInstrs(fn, func(in ssa.Instruction) {
			cc := callCommon(in)
			if cc == nil || !strings.HasSuffix(calleeName(cc), ").Write") || len(cc.Args) == 0 {
				return
			}
			if isFieldLoad(cc.Args[0], connF) {
				nW++
				c.Violate(FuncName(fn)+" writes Conn.conn directly", c.At(in), "the socket is written outside the buffered writer")
			}
		})
	}
	if nW == 0 {
		c.Hold("Conn.conn is only written through the buffered writer", "-", "no direct Write on the socket field")
	}
}

func c05r2(c *Check) {
	cg := c.P.CG()
	connIn := c.P.Field("destination", "Conn", "In")
	relay := c.P.Func("destination", "*Destination", "relay")
	viaSync := cg.Reach([]*ssa.Function{relay}, syncKinds, nil)
	n := 0
	for _, fn := range c.P.Funcs {
		for _, s := range sendsOn(fn, connIn) {
			n++
			_, okSync := viaSync[fn]
			c.Judge(okSync, FuncName(fn)+" send on Conn.In is synchronous with relay", c.At(s), "executed by the relay goroutine itself: lines enter the connection queue in the order they left Destination.In", "a line is put on the connection queue from a goroutine other than the relay loop (go statement in between): later lines can overtake earlier ones")
		}
	}
	if n == 0 {
		anchorFail("no send on Conn.In")
	}
	// no goroutine started from the relay loop may send on Conn.In
	for fn := range viaSync {
		for _, e := range cg.Out[fn] {
			if e.Kind != EdgeGo || e.Callee == nil {
				continue
			}
			sub := cg.Reach([]*ssa.Function{e.Callee}, syncKinds, nil)
			for g := range sub {
				if len(sendsOn(g, connIn)) > 0 {
					c.Violate(FuncName(fn)+" hands lines to Conn.In through a goroutine", c.At(e.Site), "`go` between taking a line from Destination.In and queueing it on the connection: concurrent goroutines race for the queue, so lines are reordered")
				}
			}
		}
	}
	hd := c.P.Func("destination", "*Conn", "HandleData")
	viaHD := cg.Reach([]*ssa.Function{hd}, syncKinds, nil)
	cw := c.P.Func("destination", "*Conn", "Write")
	_, okW := viaHD[cw]
	nGo := 0
	for _, f := range withAnons(hd) {
		allInstrs(f, func(in ssa.Instruction) {
			if _, ok := in.(*ssa.Go); ok {
				nGo++
			}
		})
	}
	c.Judge(okW && nGo == 0, "destination.Conn.HandleData writes synchronously", c.AtFn(hd), "Conn.Write is called by HandleData itself; no go statement in HandleData", "HandleData hands writes to other goroutines: order of lines on the socket is no longer the queue order")
	// receivers of Conn.In: HandleData's select and getRedo's drain
	var recvFns []string
	for _, fn := range c.P.Funcs {
		allInstrs(fn, func(in ssa.Instruction) {
			switch x := in.(type) {
			case *ssa.Select:
				for _, st := range x.States {
					if st.Dir == types.RecvOnly && isFieldLoad(st.Chan, connIn) {
						recvFns = append(recvFns, FuncName(fn))
					}
				}
			case *ssa.UnOp:
				if x.Op == token.ARROW && isFieldLoad(x.X, connIn) {
					recvFns = append(recvFns, FuncName(fn))
				}
			}
		})
	}
	sort.Strings(recvFns)
	want := "(*destination.Conn).HandleData,(*destination.Conn).getRedo"
	c.Judge(strings.Join(recvFns, ",") == want, "receivers of Conn.In", c.AtFn(hd), want, "Conn.In is received by "+strings.Join(recvFns, ",")+": a second consumer splits the stream")
}

func c05r3(c *Check) {
	cw := c.P.Func("destination", "*Conn", "Write")
	pickleF := c.P.Field("destination", "Conn", "pickle")
	nlG := c.P.Global("destination", "newLine")
	nW := "(*" + modPath + "/destination.Writer).Write"
	bufPar := cw.Params[1]
	cfg := &PathCfg{
		ConsistentFields: map[*types.Var]bool{pickleF: true},
		// helpers of Conn (e.g. an extracted encode step) are expanded in place
		Inline: inlineConnMethods,
		ClassifyV: func(in ssa.Instruction, resolve func(ssa.Value) ssa.Value) []string {
			call, ok := in.(*ssa.Call)
			if !ok || calleeName(call.Common()) != nW {
				return nil
			}
			arg := resolve(call.Call.Args[1])
			switch {
			case arg == ssa.Value(bufPar):
				return []string{"write:line"}
			case isGlobalLoad(arg, nlG):
				return []string{"write:newline"}
			}
			if pc, ok := arg.(*ssa.Call); ok && strings.HasSuffix(calleeName(pc.Common()), "destination.Pickle") {
				return []string{"write:pickled"}
			}
			if _, ok := arg.(*ssa.Phi); ok {
				return []string{"write:phi"}
			}
			return []string{"write:other"}
		},
		Branch: func(ifi *ssa.If, cond ssa.Value, taken bool) []string {
			cnd, neg := negStrip(cond)
			if _, f, ok := fieldLoad(cnd); ok && f == pickleF {
				if taken != neg {
					return []string{"mode:pickle"}
				}
				return []string{"mode:plain"}
			}
			if e, errEdge, ok := errTest(cond); ok {
				if _, isParse := callOf(e, modPath+"/destination.ParseDataPoint"); isParse {
					if taken == errEdge {
						return []string{"parse:failed"}
					}
					return []string{"parse:ok"}
				}
			}
			return nil
		},
	}
	paths, trunc := EnumPaths(cw, nil, cfg)
	c.Stat("paths", len(paths))
	var probs []string
	nPlain, nPickle := 0, 0
	for i := range paths {
		pa := &paths[i]
		if pa.End != "return" || len(pa.Ret) != 2 {
			continue
		}
		success := isNilConst(pa.Ret[1])
		var ws []string
		for _, e := range pa.Events {
			if strings.HasPrefix(e.Class, "write:") {
				cl := e.Class
				if cl == "write:phi" {
					// the phi merges the original line (plain mode) and the pickled bytes (pickle mode)
					if pa.Has("mode:pickle") {
						cl = "write:pickled"
					} else {
						cl = "write:line"
					}
				}
				ws = append(ws, cl)
			}
		}
		trace := strings.Join(ws, ",")
		if pa.Has("parse:failed") {
			if len(ws) != 0 {
				probs = append(probs, "an unparsable line still reaches the writer in pickle mode: "+pa.String())
			}
			continue
		}
		if !success {
			continue
		}
		plain := pa.Has("mode:plain") && !pa.Has("mode:pickle")
		if plain {
			nPlain++
			if trace != "write:line,write:newline" {
				probs = append(probs, "plain mode success path writes ["+trace+"] instead of [line, newline]: "+pa.String())
			}
		} else if pa.Has("mode:pickle") {
			nPickle++
			if trace != "write:pickled" {
				probs = append(probs, "pickle mode success path writes ["+trace+"] instead of [pickled datapoint]: "+pa.String())
			}
		}
	}
	if trunc || nPlain == 0 || nPickle == 0 {
		probs = append(probs, fmt.Sprintf("model incomplete: %d plain and %d pickle success paths", nPlain, nPickle))
	}
	if len(probs) > 6 {
		probs = probs[:6]
	}
	if len(probs) > 0 {
		c.ViolateW("destination.Conn.Write write trace", c.AtFn(cw), probs[0], probs)
	} else {
		c.Hold("destination.Conn.Write write trace", c.AtFn(cw), fmt.Sprintf("%d paths: plain = [line, newline], pickle = [pickled]", len(paths)))
	}
	// newLine is the single byte '\n'
	okNL := false
	for _, f := range c.P.CGFuncs {
		allInstrs(f, func(in ssa.Instruction) {
			if st, ok := in.(*ssa.Store); ok && st.Addr == nlG {
				if sl, ok := st.Val.(*ssa.Slice); ok {
					if al, ok := sl.X.(*ssa.Alloc); ok {
						if arr, ok := al.Type().(*types.Pointer).Elem().(*types.Array); ok && arr.Len() == 1 {
							for _, r := range *al.Referrers() {
								if ia, ok := r.(*ssa.IndexAddr); ok {
									for _, rr := range *ia.Referrers() {
										if s2, ok := rr.(*ssa.Store); ok {
											if k, ok := constInt(s2.Val); ok && k == '\n' {
												okNL = true
											}
										}
									}
								}
							}
						}
					}
				}
			}
		})
	}
	c.Judge(okNL, "destination.newLine is the single byte '\\n'", "destination/conn.go", "terminator is exactly one newline", "the line terminator is not a single '\\n' byte")
}

func isGlobalLoad(v ssa.Value, g *ssa.Global) bool {
	u, ok := v.(*ssa.UnOp)
	return ok && u.Op == token.MUL && u.X == g
}

func c05r4(c *Check) {
	fn := c.P.Func("destination", "", "Pickle")
	// what Pickle returns, as a byte layout (bytelayout.go): whichever API writes the bytes
	st := evalByteLayout(fn, func(name string) (bool, bool) {
		return strings.HasSuffix(name, "og-rek.NewEncoder"), strings.HasSuffix(name, "og-rek.Encoder).Encode")
	})
	key := "destination.Pickle length prefix"
	want := "[4-byte big-endian length of the payload][payload = the encoder's output]"
	var msg blView
	okView := false
	if st.Problem == "" && len(st.Ret) == 1 {
		msg, okView = st.Ret[0].(blView)
	}
	switch {
	case !okView:
		c.Undecided(key, c.AtFn(fn), "the returned message is not a byte slice / buffer content assembled in this function from fresh memory ("+st.Problem+"): its layout "+want+" cannot be established")
	case msg.l.unknown != "":
		c.Undecided(key, c.At(st.RetInstr), "the layout of the returned message is not known: "+msg.l.unknown)
	case msg.gen != msg.l.gen || !msg.off.isZero() || !msg.end.eq(msg.l.total()):
		c.Violate(key, c.At(st.RetInstr), "the returned slice is not the whole assembled message "+msg.l.String()+" (it was taken before the last write, or is a part of it)")
	default:
		segs := msg.l.segs
		payload := lenConst(0)
		okPayload := len(segs) >= 2
		for _, sg := range segs[1:] {
			if sg.kind != 'E' {
				okPayload = false
			}
			payload = payload.add(sg.n, 1)
		}
		ok := okPayload && segs[0].kind == 'H' && segs[0].be && segs[0].n.eq(lenConst(4)) && segs[0].val.eq(payload)
		bad := "the pickle frame is " + msg.l.String()
		if len(segs) > 0 && segs[0].kind == 'H' {
			bad += fmt.Sprintf(" with the integer holding %s while what follows it is %s long", describeLen(segs[0].val), describeLen(payload))
		}
		c.Judge(ok, key, c.At(st.RetInstr), "the returned message is "+msg.l.String()+", the integer being the length of what follows", bad+", not "+want+": the receiving carbon daemon cannot delimit the datapoints")
	}
	// tuple layout: (name, (time, value))
	okTuple := false
	allInstrs(fn, func(in ssa.Instruction) {
		// outer tuple literal: 2 elements: string(dp.Name), inner tuple of dp.Time, dp.Val
		if sl, ok := in.(*ssa.Slice); ok {
			if al, ok := sl.X.(*ssa.Alloc); ok {
				if arr, ok := al.Type().(*types.Pointer).Elem().(*types.Array); ok && arr.Len() == 2 {
					names := map[int64]string{}
					for _, r := range *al.Referrers() {
						if ia, ok := r.(*ssa.IndexAddr); ok {
							k, _ := constInt(ia.Index)
							for _, rr := range *ia.Referrers() {
								if st, ok := rr.(*ssa.Store); ok {
									v := st.Val
									if mi, ok := v.(*ssa.MakeInterface); ok {
										v = mi.X
									}
									if cv, ok := v.(*ssa.Convert); ok {
										v = cv.X
									}
									if _, nm := fieldPath(v); len(nm) > 0 {
										names[k] = nm[len(nm)-1]
									}
								}
							}
						}
					}
					if names[0] == "Time" && names[1] == "Val" {
						okTuple = true
					}
				}
			}
		}
	})
	c.Judge(okTuple, "destination.Pickle inner tuple is (Time, Val)", c.AtFn(fn), "(timestamp, value) as carbon expects", "the pickled datapoint does not carry (timestamp, value) in that order")
}

func c05r5(c *Check) {
	w := c.P.Func("destination", "*Writer", "Write")
	wrF := c.P.Field("destination", "Writer", "wr")
	bufF := c.P.Field("destination", "Writer", "buf")
	nF := c.P.Field("destination", "Writer", "n")
	pPar := w.Params[1]
	// direct write of caller data: every socket write in the Writer's methods that does not write the buffer itself
	emptyGuarded := func(fn *ssa.Function, at *ssa.BasicBlock) bool {
		for _, b := range fn.Blocks {
			ifi, ok := b.Instrs[len(b.Instrs)-1].(*ssa.If)
			if !ok {
				continue
			}
			cnd, neg := negStrip(ifi.Cond)
			bo, ok := cnd.(*ssa.BinOp)
			if !ok || (bo.Op != token.EQL && bo.Op != token.NEQ) {
				continue
			}
			k, okc := constInt(bo.Y)
			if !okc || k != 0 {
				continue
			}
			isFill := false
			if call2, ok := bo.X.(*ssa.Call); ok && strings.HasSuffix(calleeName(call2.Common()), "Writer).Buffered") {
				isFill = true
			}
			if isFieldLoad(bo.X, nF) {
				isFill = true
			}
			if !isFill {
				continue
			}
			emptyEdge := 0
			if (bo.Op == token.NEQ) != neg {
				emptyEdge = 1
			}
			if edgeDominates(b, b.Succs[emptyEdge], at) {
				return true
			}
		}
		return false
	}
	var guardedIP func(fn *ssa.Function, at *ssa.BasicBlock, depth int) bool
	guardedIP = func(fn *ssa.Function, at *ssa.BasicBlock, depth int) bool {
		if emptyGuarded(fn, at) {
			return true
		}
		if depth > 3 || fn == w {
			return false
		}
		ins := c.P.CG().In[fn]
		if len(ins) == 0 {
			return false
		}
		for _, e := range ins {
			if e.Kind != EdgeCall || e.Dyn || !guardedIP(e.Caller, e.Site.Block(), depth+1) {
				return false
			}
		}
		return true
	}
	n := 0
	for _, fn := range c.P.Funcs {
		if fnPkg(fn) != fnPkg(w) || fn.Signature.Recv() == nil || fn.Signature.Recv().Type().String() != w.Signature.Recv().Type().String() {
			continue
		}
		fn := fn
		allInstrs(fn, func(in ssa.Instruction) {
			call, ok := in.(*ssa.Call)
			if !ok || !call.Call.IsInvoke() || call.Call.Method.Name() != "Write" || !isFieldLoad(call.Call.Value, wrF) {
				return
			}
			if sl, ok := call.Call.Args[0].(*ssa.Slice); ok && isFieldLoad(sl.X, bufF) {
				return // writes the buffer itself (flush)
			}
			n++
			fromParam := false
			for _, par := range fn.Params {
				if derivedFrom(call.Call.Args[0], par, map[ssa.Value]bool{}) {
					fromParam = true
				}
			}
			if !fromParam {
				c.Violate("destination.Writer direct write "+FuncName(fn), c.At(call), "the socket is written with something other than the caller's data or the buffer")
				return
			}
			c.Judge(guardedIP(fn, call.Block(), 0), "destination.Writer direct write only when the buffer is empty "+FuncName(fn), c.At(call), "dominated by Buffered() == 0 (in the method or at every call site of the helper)", "caller data is written straight to the socket while earlier bytes may still be in the buffer: a long line overtakes (and tears) the lines buffered before it")
		})
	}
	if n == 0 {
		c.Hold("destination.Writer has no direct write", c.AtFn(w), "all data goes through the buffer")
	}
	// copies of caller data go to buf[n:] — wherever in the Writer's methods the copy is written
	okCopy, nCopy := true, 0
	for _, fn := range c.P.Funcs {
		if fnPkg(fn) != fnPkg(w) || fn.Signature.Recv() == nil || fn.Signature.Recv().Type().String() != w.Signature.Recv().Type().String() {
			continue
		}
		fn := fn
		allInstrs(fn, func(in ssa.Instruction) {
			cc, ok := isBuiltinCall(in, "copy")
			if !ok {
				return
			}
			sl, ok := cc.Args[0].(*ssa.Slice)
			if !ok || !isFieldLoad(sl.X, bufF) {
				return
			}
			// moving the unwritten remainder to the front (source is the buffer itself) is flush's business
			if ssl, ok := cc.Args[1].(*ssa.Slice); ok && isFieldLoad(ssl.X, bufF) {
				return
			}
			nCopy++
			if sl.Low == nil || !isFieldLoad(sl.Low, nF) || sl.High != nil {
				okCopy = false
			}
			fromParam := false
			for _, par := range fn.Params {
				if derivedFrom(cc.Args[1], par, map[ssa.Value]bool{}) {
					fromParam = true
				}
			}
			if !fromParam {
				okCopy = false
			}
		})
	}
	_ = pPar
	c.Judge(okCopy && nCopy >= 1, "destination.Writer.Write appends at the fill position", c.AtFn(w), fmt.Sprintf("%d copies of caller data into the buffer, all copy(b.buf[b.n:], p)", nCopy), "data is copied into the buffer at a position other than the current fill level: buffered bytes are overwritten or gaps are sent")
	// the fill level is advanced right after the copy, before the buffer is flushed or the call returns
	same := inlineSameRecv(w)
	ocfg := &PathCfg{
		BackEdgeMax: 1,
		Inline:      func(g *ssa.Function) bool { return same(g) && g.Name() != "flush" && g.Name() != "Flush" },
		HigherOrder: map[string]int{"(github.com/Dieterbe/go-metrics.Timer).Time": 0},
		Classify: func(in ssa.Instruction) []string {
			if cc, ok := isBuiltinCall(in, "copy"); ok {
				if sl, ok := cc.Args[0].(*ssa.Slice); ok && isFieldLoad(sl.X, bufF) {
					if ssl, ok := cc.Args[1].(*ssa.Slice); !ok || !isFieldLoad(ssl.X, bufF) {
						return []string{"copy"}
					}
				}
			}
			if st, ok := in.(*ssa.Store); ok {
				if fa, ok := st.Addr.(*ssa.FieldAddr); ok && fieldOfAddr(fa) == nF {
					return []string{"n="}
				}
			}
			if cc := callCommon(in); cc != nil {
				n := calleeName(cc)
				if strings.HasSuffix(n, "destination.Writer).flush") || strings.HasSuffix(n, "destination.Writer).Flush") {
					return []string{"flush"}
				}
			}
			return nil
		},
	}
	opaths, otrunc := EnumPaths(w, nil, ocfg)
	badOrder, nCopyPaths := "", 0
	for i := range opaths {
		pa := &opaths[i]
		for j, e := range pa.Events {
			if e.Class != "copy" {
				continue
			}
			nCopyPaths++
			if j+1 >= len(pa.Events) || pa.Events[j+1].Class != "n=" {
				badOrder = "after copying into the buffer the fill level is not advanced before the next flush / return: " + pa.String()
			}
		}
	}
	if otrunc || nCopyPaths == 0 {
		c.Undecided("destination.Writer.Write advances the fill level right after the copy", c.AtFn(w), "no path with a copy enumerated")
	} else {
		c.Judge(badOrder == "", "destination.Writer.Write advances the fill level right after the copy", c.AtFn(w), fmt.Sprintf("%d copies on the enumerated paths, each followed at once by the update of n", nCopyPaths), badOrder+" — the flush sends the buffer without the bytes just copied, and counts stale bytes as pending afterwards: lines arrive torn")
	}
	// flush writes buf[0:n]
	fl := c.P.Func("destination", "*Writer", "flush")
	okFl := false
	allInstrs(fl, func(in ssa.Instruction) {
		call, ok := in.(*ssa.Call)
		if !ok || !call.Call.IsInvoke() || call.Call.Method.Name() != "Write" || !isFieldLoad(call.Call.Value, wrF) {
			return
		}
		if sl, ok := call.Call.Args[0].(*ssa.Slice); ok && isFieldLoad(sl.X, bufF) && isFieldLoad(sl.High, nF) {
			if sl.Low == nil {
				okFl = true
			} else if k, ok := constInt(sl.Low); ok && k == 0 {
				okFl = true
			}
		}
	})
	c.Judge(okFl, "destination.Writer.flush writes buf[0:n]", c.AtFn(fl), "exactly the buffered bytes, from the start", "flush does not write exactly the buffered prefix buf[0:n]")
}
