package main

import (
	"fmt"
	"go/constant"
	"go/token"
	"go/types"
	"sort"
	"strings"

	"golang.org/x/tools/go/ssa"
)

func init() {
	register(&PropDef{
		ID:    "C13",
		Title: "Pickle input is equivalent to the plain-text input for the same datapoints",
		Decided: "R1 in the item loop of the pickle handler every iteration ends in exactly one of {Dispatcher.Dispatch, IncNumInvalid} and a rejected item continues with the next item (never ends the connection); " +
			"R2 the sets of dynamic types accepted for the value and for the timestamp are equal (the text path accepts any integer spelling for either); " +
			"R3 every unchecked type assertion in the handler repeats a checked one on the same operand (no crash on odd items), and the line handed to Dispatch is `name value timestamp` in that order with single spaces, however it is assembled (concatenation, appends to an empty slice, a helper returning the line); " +
			"R4 framing: the 4-byte length is read with a full-read primitive (binary.Read, or io.ReadFull into 4 bytes + BigEndian.Uint32, directly or in a helper) in big-endian order into a uint32, the payload loop ends only when the number of bytes read equals that length, and checkProtocol never rejects a prefix produced by pickle protocols 0-4 for a list ( ']' | '(l' | 0x80 v ']' | 0x80 v 0x95 ).",
		NotDecided: "equivalence with CPython's encoders for every scalar, float formatting, the og-rek decoder (third party), behaviour under every segmentation of the stream (R4 only pins the primitives that make it segmentation-independent).",
		Rules: []RuleDef{
			{ID: "C13.R1", Min: 1, Doc: "per-item accounting by path enumeration of one iteration of the item loop (from the loop body entry back to the header)", Run: c13r1},
			{ID: "C13.R2", Min: 1, Doc: "scalar switches agree: type sets of the comma-ok assertions on data[1] (value) and data[0] (timestamp) are equal", Run: c13r2},
			{ID: "C13.R3", Min: 2, Doc: "unchecked assertions are dominated by the ok edge of a checked assertion of the same type on the same slot; the dispatched line is assembled from exactly the pieces metric, \" \", value, \" \", timestamp in that order — by string concatenation, by appends to an empty byte slice, by Sprintf/Join, or in a helper that returns the line (opened with its parameters bound to the arguments)", Run: c13r3},
			{ID: "C13.R6", Min: 3, Doc: "invalid structure is skipped, not indexed: every constant index into an unpickled tuple in the per-item functions is controlled by a length test of the same tuple that excludes every too-short length", Run: c13r6},
			{ID: "C13.R7", Min: 1, Doc: "handlers are re-entrant: one Handler serves all connections of a listener concurrently, so Handle (and the methods it calls on its receiver) never writes a field of the receiver or hands out the address of one (rule C12.R3 evaluated for this property as well)", Run: c12r3},
			{ID: "C13.R5", Min: 1, Doc: "one decoder per frame: the receiver of every Decoder.Decode call in the pickle input is the result of ogorek.NewDecoder constructed inside every loop that contains the Decode call (directly, or handed to a helper from such a place) — a decoder kept across frames carries its memo along, and protocol 4 resolves memo references by position", Run: c13r5},
			{ID: "C13.R4", Min: 3, Doc: "framing primitives: the length is four bytes read in full and decoded big-endian as a uint32 — binary.Read(r, BigEndian, *uint32), or io.ReadFull over all of a 4-byte buffer that dominates BigEndian.Uint32 of the same buffer, in Handle or in a helper that returns the value; payload loop exit test lengthRead == lengthTotal; checkProtocol truth table over the peeked prefix bytes (reject-direction only)", Run: c13r4},
		},
	})
}

const nDispatch = "(" + modPath + "/input.Dispatcher).Dispatch"
const nIncInvalid = "(" + modPath + "/input.Dispatcher).IncNumInvalid"

// pickleItemFunc locates the code that handles one decoded item: the function (Handle itself or
// a helper method it calls) that contains the Dispatch call, and the instruction in Handle that
// stands for it (the Dispatch call, or the call of the helper).
func pickleItemFunc(c *Check) (handle, item *ssa.Function, site ssa.Instruction, disp ssa.Instruction) {
	handle = c.P.Func("input", "*Pickle", "Handle")
	for _, g := range workerFuncs(c.P, handle) {
		allInstrs(g, func(in ssa.Instruction) {
			if isCallNamed(in, nDispatch) {
				disp, item = in, g
			}
		})
	}
	if disp == nil {
		anchorFail("Pickle.Handle: no Dispatch call")
	}
	if item == handle {
		return handle, item, disp, disp
	}
	// the call in Handle through which the item function is reached
	allInstrs(handle, func(in ssa.Instruction) {
		call, ok := in.(*ssa.Call)
		if !ok {
			return
		}
		g := call.Call.StaticCallee()
		if g == nil {
			return
		}
		for _, w := range workerFuncs(c.P, g) {
			if w == item {
				site = in
			}
		}
	})
	if site == nil {
		anchorFail("Pickle.Handle: the function that dispatches items is not called from Handle")
	}
	return
}

func c13r1(c *Check) {
	fn, _, site, disp := pickleItemFunc(c)
	loops := loopsOf(fn)
	l := enclosingLoop(loops, site.Block())
	if l == nil {
		anchorFail("Pickle.Handle: Dispatch is not in a loop")
	}
	if _, _, ok := rangeLoopOver(l); !ok {
		c.Violate("input.Pickle.Handle item loop", c.At(disp), "the item loop is not a range loop over the decoded list")
		return
	}
	var body *ssa.BasicBlock
	for _, s := range l.Header.Succs {
		if l.Body[s] {
			body = s
		}
	}
	cfg := &PathCfg{
		Classify: func(in ssa.Instruction) []string {
			if isCallNamed(in, nDispatch) {
				return []string{"dispatch"}
			}
			if isCallNamed(in, nIncInvalid) {
				return []string{"invalid"}
			}
			return nil
		},
		Stop:   func(b *ssa.BasicBlock) bool { return b == l.Header },
		Inline: inlineSameRecv(fn), // the per-item code may be a helper method
	}
	paths, trunc := EnumPaths(fn, body, cfg)
	c.Stat("paths", len(paths))
	var probs []string
	nd, ni := 0, 0
	for i := range paths {
		pa := &paths[i]
		d, iv := pa.Count("dispatch"), pa.Count("invalid")
		if pa.End != "stop" {
			probs = append(probs, "an item ends the whole connection ("+pa.End+") instead of continuing with the next item: "+pa.String())
			continue
		}
		if d+iv != 1 {
			probs = append(probs, fmt.Sprintf("an item is dispatched %d times and counted invalid %d times (exactly one of them must happen once): %s", d, iv, pa.String()))
		}
		nd += d
		ni += iv
	}
	if trunc || nd == 0 || ni == 0 {
		probs = append(probs, "item loop model incomplete (no dispatching or no rejecting path)")
	}
	if len(probs) > 6 {
		probs = probs[:6]
	}
	if len(probs) > 0 {
		c.ViolateW("input.Pickle.Handle per-item accounting", c.At(disp), probs[0], probs)
	} else {
		c.Hold("input.Pickle.Handle per-item accounting", c.At(disp), fmt.Sprintf("%d iteration paths: 1 dispatching, %d rejecting, all continue the loop", len(paths), len(paths)-1))
	}
}

// slotAsserts collects the asserted types of TypeAsserts whose operand is a load of slice[k]
// where the slice has element type interface{} and is named `data`-like: we key by (slice value, k).
type slotKey struct {
	slice ssa.Value
	idx   int64
}

func slotOf(v ssa.Value) (slotKey, bool) {
	u, ok := v.(*ssa.UnOp)
	if !ok || u.Op != token.MUL {
		return slotKey{}, false
	}
	ia, ok := u.X.(*ssa.IndexAddr)
	if !ok {
		return slotKey{}, false
	}
	k, ok := constInt(ia.Index)
	if !ok {
		return slotKey{}, false
	}
	return slotKey{ia.X, k}, true
}

// slotsOf: the tuple slots a value stands for: the slot it is loaded from, or — for a parameter
// of a helper — the slots of the arguments at every call site of the helper.
func slotsOf(p *Prog, v ssa.Value, depth int) []slotKey {
	if mi, ok := v.(*ssa.MakeInterface); ok {
		v = mi.X
	}
	if sk, ok := slotOf(v); ok {
		return []slotKey{sk}
	}
	if par, ok := v.(*ssa.Parameter); ok && depth < 2 {
		if args, ok := p.paramArgs(par); ok {
			var out []slotKey
			for _, a := range args {
				out = append(out, slotsOf(p, a, depth+1)...)
			}
			return out
		}
	}
	return nil
}

// pickleItemFuncs: the function handling one item plus the plain helper functions of the package it calls.
func pickleItemFuncs(c *Check) (*ssa.Function, []*ssa.Function) {
	_, fn, _, _ := pickleItemFunc(c)
	return fn, samePkgCallees(c.P, fn)
}

func c13r2(c *Check) {
	fn, fns := pickleItemFuncs(c)
	sets := map[slotKey]map[string]bool{}
	for _, f := range fns {
		allInstrs(f, func(in ssa.Instruction) {
			ta, ok := in.(*ssa.TypeAssert)
			if !ok || !ta.CommaOk {
				return
			}
			for _, sk := range slotsOf(c.P, ta.X, 0) {
				if sets[sk] == nil {
					sets[sk] = map[string]bool{}
				}
				sets[sk][types.TypeString(ta.AssertedType, nil)] = true
			}
		})
	}
	// the data tuple: the slice with scalar switches on both slot 0 and slot 1 (more than 3 types each)
	var found bool
	for sk, s0 := range sets {
		if sk.idx != 0 || len(s0) < 4 {
			continue
		}
		s1 := sets[slotKey{sk.slice, 1}]
		if len(s1) < 4 {
			continue
		}
		found = true
		var only0, only1 []string
		for t := range s0 {
			if !s1[t] {
				only0 = append(only0, t)
			}
		}
		for t := range s1 {
			if !s0[t] {
				only1 = append(only1, t)
			}
		}
		sort.Strings(only0)
		sort.Strings(only1)
		c.Judge(len(only0) == 0 && len(only1) == 0, "input.Pickle.Handle value/timestamp scalar types agree", c.AtFn(fn), fmt.Sprintf("%d types accepted for both", len(s0)),
			fmt.Sprintf("types accepted only for the timestamp: %v; only for the value: %v — a datapoint the text protocol accepts is counted invalid when it arrives pickled (e.g. integers >= 2^31 arrive as *big.Int)", only0, only1))
	}
	if !found {
		anchorFail("Pickle.Handle: scalar type switches on data[0]/data[1] not found")
	}
}

func c13r3(c *Check) {
	fn, fns := pickleItemFuncs(c)
	type chk struct {
		ta *ssa.TypeAssert
		sk slotKey
	}
	n := 0
	for _, f := range fns {
		var checked []chk
		allInstrs(f, func(in ssa.Instruction) {
			if ta, ok := in.(*ssa.TypeAssert); ok && ta.CommaOk {
				if sk, ok := slotOf(ta.X); ok {
					checked = append(checked, chk{ta, sk})
				} else {
					checked = append(checked, chk{ta, slotKey{ta.X, -1}})
				}
			}
		})
		allInstrs(f, func(in ssa.Instruction) {
			ta, ok := in.(*ssa.TypeAssert)
			if !ok || ta.CommaOk {
				return
			}
			n++
			sk, ok := slotOf(ta.X)
			if !ok {
				sk = slotKey{ta.X, -1}
			}
			guarded := false
			for _, ck := range checked {
				if ck.sk != sk || !types.Identical(ck.ta.AssertedType, ta.AssertedType) {
					continue
				}
				// ok result of ck.ta tested by an If whose true edge dominates ta
				for _, r := range *ck.ta.Referrers() {
					ex, ok := r.(*ssa.Extract)
					if !ok || ex.Index != 1 {
						continue
					}
					for _, rr := range *ex.Referrers() {
						if ifi, ok := rr.(*ssa.If); ok && edgeDominates(ifi.Block(), ifi.Block().Succs[0], ta.Block()) {
							guarded = true
						}
					}
				}
			}
			c.Judge(guarded, fmt.Sprintf("input.Pickle.Handle unchecked assertion .(%s) #%d", types.TypeString(ta.AssertedType, nil), n), c.At(ta), "repeats a checked assertion of the same type on the same slot", "a type assertion without comma-ok is applied to data decoded from the network without a guarding type test: a crafted pickle panics the relay")
		})
	}
	if n == 0 {
		c.Hold("input.Pickle.Handle unchecked assertions", c.AtFn(fn), "the item functions contain no type assertion without comma-ok (type switches bind the value)")
	}
	// scalar formatting: ints verbatim (%d), float values to six decimals (%f), float timestamps as integers (%.0f)
	got := map[string]bool{}
	for _, f := range fns {
		f := f
		allInstrs(f, func(in ssa.Instruction) {
			call, ok := in.(*ssa.Call)
			if !ok || calleeName(call.Common()) != "fmt.Sprintf" {
				return
			}
			elems, ok := variadicElems(call.Call.Args[1])
			if !ok || len(elems) != 1 {
				return
			}
			// bindings: the helper's parameters at each of its call sites (one empty binding for the item function itself)
			type binding map[*ssa.Parameter]ssa.Value
			bindings := []binding{{}}
			if f != fn {
				bindings = nil
				for _, e := range c.P.CG().In[f] {
					cc := callCommon(e.Site)
					if cc == nil || e.Kind != EdgeCall || e.Dyn {
						continue
					}
					b := binding{}
					for i, p := range f.Params {
						if i < len(cc.Args) {
							b[p] = cc.Args[i]
						}
					}
					bindings = append(bindings, b)
				}
			}
			for _, b := range bindings {
				bind := func(v ssa.Value) ssa.Value {
					if mi, ok := v.(*ssa.MakeInterface); ok {
						v = mi.X
					}
					if p, ok := v.(*ssa.Parameter); ok {
						if a, ok := b[p]; ok {
							if mi, ok := a.(*ssa.MakeInterface); ok {
								return mi.X
							}
							return a
						}
					}
					return v
				}
				format, _ := constString(bind(call.Call.Args[0]))
				slot := int64(-1)
				if sk, ok := slotOf(bind(elems[0])); ok {
					slot = sk.idx
				}
				got[fmt.Sprintf("slot%d:%s", slot, format)] = true
			}
		})
	}
	wantF := []string{"slot1:%d", "slot1:%f", "slot0:%d", "slot0:%.0f"}
	okF := len(got) == len(wantF)
	for _, w := range wantF {
		if !got[w] {
			okF = false
		}
	}
	c.Judge(okF, "input.Pickle.Handle scalar formatting", c.AtFn(fn), "value: %d / %f; timestamp: %d / %.0f", fmt.Sprintf("scalar formats are %v: integers must be rendered verbatim, float values with six decimals, float timestamps as integers", keysOf(got)))
	// line construction: buf = []byte(metric + " " + value + " " + timestamp)
	allInstrs(fn, func(in ssa.Instruction) {
		if !isCallNamed(in, nDispatch) {
			return
		}
		arg := callCommon(in).Args[0]
		// the line is judged on the sequence of pieces it is assembled from, however it is assembled
		// (string concatenation converted to bytes, appends to an empty slice, a formatting helper ...);
		// helpers that return the line are opened level by level until the pieces show
		okLine := false
		for depth := 0; depth <= 3 && !okLine; depth++ {
			alts, ok := lineAlts(arg, depth, map[ssa.Value]bool{})
			if !ok || len(alts) == 0 {
				continue
			}
			okLine = true
			for _, parts := range alts {
				// parts[0] from item[0].(string); parts[2] value; parts[4] timestamp
				if !(len(parts) == 5 && isSpacePiece(parts[1]) && isSpacePiece(parts[3]) && parts[0] != parts[2] && parts[2] != parts[4] && valueFromSlot(parts[2], 1) && valueFromSlot(parts[4], 0) && valueFromSlot(parts[0], 0)) {
					okLine = false
				}
			}
		}
		c.Judge(okLine, "input.Pickle.Handle line = name + \" \" + value + \" \" + timestamp", c.At(in), "fields in text-protocol order, single spaces; value from data[1], timestamp from data[0]", "the line built from a pickled datapoint does not have the text protocol's field order (name, value, timestamp) or takes value/timestamp from the wrong tuple slot")
	})
}

// valueFromSlot: every leaf feeding v (through phis, Sprintf calls, assertions) loads slot k of some tuple.
func valueFromSlot(v ssa.Value, k int64) bool {
	seen := map[ssa.Value]bool{}
	okAll, any := true, false
	var rec func(v ssa.Value)
	rec = func(v ssa.Value) {
		if seen[v] {
			return
		}
		seen[v] = true
		switch x := v.(type) {
		case *ssa.Phi:
			for _, e := range x.Edges {
				rec(e)
			}
		case *ssa.TypeAssert:
			rec(x.X)
		case *ssa.Extract:
			rec(x.Tuple)
		case *ssa.Call:
			if calleeName(x.Common()) == "fmt.Sprintf" {
				// variadic args slice -> array stores
				if sl, ok := x.Call.Args[1].(*ssa.Slice); ok {
					if al, ok := sl.X.(*ssa.Alloc); ok {
						for _, r := range *al.Referrers() {
							if ia, ok := r.(*ssa.IndexAddr); ok {
								for _, rr := range *ia.Referrers() {
									if st, ok := rr.(*ssa.Store); ok {
										rec(st.Val)
									}
								}
							}
						}
					}
				}
				return
			}
			// a module helper that renders / unpacks the slot value it is given
			if g := x.Call.StaticCallee(); g != nil && g.Blocks != nil && ModuleFunc(g) {
				n := 0
				for _, a := range x.Call.Args {
					if _, isConst := a.(*ssa.Const); isConst {
						continue
					}
					n++
					rec(a)
				}
				if n > 0 {
					return
				}
			}
			okAll = false
		case *ssa.MakeInterface:
			rec(x.X)
		case *ssa.ChangeInterface:
			rec(x.X)
		case *ssa.UnOp:
			if sk, ok := slotOf(x); ok {
				any = true
				if sk.idx != k {
					okAll = false
				}
				return
			}
			okAll = false
		case *ssa.Const:
			// zero value of the declared variable on unreachable default edges
		default:
			okAll = false
		}
	}
	rec(v)
	return okAll && any
}

// isSpacePiece: the piece is the constant " " (as a string) or ' ' (as a byte).
func isSpacePiece(v ssa.Value) bool {
	if s, ok := constString(v); ok {
		return s == " "
	}
	if k, ok := v.(*ssa.Const); ok && k.Value != nil && k.Value.Kind() == constant.Int {
		if b, ok := k.Type().Underlying().(*types.Basic); ok && b.Kind() == types.Uint8 {
			n, _ := constInt(k)
			return n == ' '
		}
	}
	return false
}

func isTextType(t types.Type) bool {
	switch u := t.Underlying().(type) {
	case *types.Basic:
		return u.Info()&types.IsString != 0
	case *types.Slice:
		b, ok := u.Elem().Underlying().(*types.Basic)
		return ok && b.Kind() == types.Uint8
	}
	return false
}

const maxLineAlts = 256

func crossPieces(a, b [][]ssa.Value) ([][]ssa.Value, bool) {
	if len(a)*len(b) > maxLineAlts {
		return nil, false
	}
	var out [][]ssa.Value
	for _, x := range a {
		for _, y := range b {
			out = append(out, append(append([]ssa.Value{}, x...), y...))
		}
	}
	return out, true
}

// lineAlts: the sequences of pieces the text value v (a string or a byte slice) is assembled
// from, in order; one sequence per way of assembling it (a byte slice that differs from path to
// path, the several returns of a helper). Concatenation, string<->[]byte conversion, appends to
// an empty slice (make(…, 0, n), nil, x[:0]), fmt.Sprintf with a constant format of %s/%v verbs
// and strings.Join over a literal list are all the same thing here. A piece is a value that is
// not assembled further: a field value (however it is chosen or rendered) or a constant.
// Calls of module helpers that return the text are opened (parameters replaced by the arguments)
// while depth > 0, and stay pieces otherwise. ok is false when v is not an assembly the rule
// understands (e.g. appends to a slice that already has a length).
func lineAlts(v ssa.Value, depth int, seen map[ssa.Value]bool) ([][]ssa.Value, bool) {
	leaf := [][]ssa.Value{{v}}
	empty := [][]ssa.Value{{}}
	switch x := v.(type) {
	case *ssa.Convert:
		if isTextType(x.Type()) && isTextType(x.X.Type()) {
			return lineAlts(x.X, depth, seen)
		}
	case *ssa.ChangeType:
		return lineAlts(x.X, depth, seen)
	case *ssa.BinOp:
		if x.Op == token.ADD && isTextType(x.Type()) {
			a, ok1 := lineAlts(x.X, depth, seen)
			b, ok2 := lineAlts(x.Y, depth, seen)
			if !ok1 || !ok2 {
				return nil, false
			}
			return crossPieces(a, b)
		}
	case *ssa.Const:
		if x.Value == nil && isTextType(x.Type()) {
			return empty, true
		}
		if s, ok := constString(x); ok && s == "" {
			return empty, true
		}
	case *ssa.MakeSlice:
		if n, ok := constInt(x.Len); ok && n == 0 {
			return empty, true
		}
		return nil, false
	case *ssa.Slice:
		if x.High != nil {
			if n, ok := constInt(x.High); ok && n == 0 {
				return empty, true
			}
		}
	case *ssa.Phi:
		if _, isSlice := x.Type().Underlying().(*types.Slice); !isSlice {
			// a string chosen by path is one field value (valueFromSlot looks at every edge)
			return leaf, true
		}
		if seen[x] {
			return nil, false
		}
		seen[x] = true
		defer delete(seen, x)
		var out [][]ssa.Value
		for _, e := range x.Edges {
			a, ok := lineAlts(e, depth, seen)
			if !ok {
				return nil, false
			}
			out = append(out, a...)
		}
		return out, len(out) <= maxLineAlts
	case *ssa.Extract:
		if call, ok := x.Tuple.(*ssa.Call); ok {
			if alts, ok, opened := helperLineAlts(call, x.Index, depth, seen); opened {
				return alts, ok
			}
		}
	case *ssa.Call:
		switch calleeName(x.Common()) {
		case "builtin.append":
			if len(x.Call.Args) != 2 {
				return nil, false
			}
			base, ok := lineAlts(x.Call.Args[0], depth, seen)
			if !ok {
				return nil, false
			}
			var add [][]ssa.Value
			if elems, ok := variadicElems(x.Call.Args[1]); ok {
				add = [][]ssa.Value{elems}
			} else if add, ok = lineAlts(x.Call.Args[1], depth, seen); !ok {
				return nil, false
			}
			return crossPieces(base, add)
		case "fmt.Sprintf":
			if pieces, ok := sprintfPieces(x); ok {
				return expandPieces(pieces, depth, seen)
			}
		case "strings.Join":
			if elems, ok := variadicElems(x.Call.Args[0]); ok {
				if sep, ok := constString(x.Call.Args[1]); ok {
					var pieces []ssa.Value
					for i, e := range elems {
						if i > 0 && sep != "" {
							pieces = append(pieces, ssa.NewConst(constant.MakeString(sep), types.Typ[types.String]))
						}
						pieces = append(pieces, e)
					}
					return expandPieces(pieces, depth, seen)
				}
			}
		default:
			if alts, ok, opened := helperLineAlts(x, 0, depth, seen); opened {
				return alts, ok
			}
		}
	}
	return leaf, true
}

// expandPieces: the alternatives of a sequence whose pieces may be assemblies themselves.
func expandPieces(pieces []ssa.Value, depth int, seen map[ssa.Value]bool) ([][]ssa.Value, bool) {
	out := [][]ssa.Value{{}}
	for _, p := range pieces {
		a, ok := lineAlts(p, depth, seen)
		if !ok {
			return nil, false
		}
		if out, ok = crossPieces(out, a); !ok {
			return nil, false
		}
	}
	return out, true
}

// sprintfPieces: fmt.Sprintf with a constant format made of literal text and plain %s / %v verbs
// over text operands (two or more: a single verb renders one field value, which is a piece).
func sprintfPieces(call *ssa.Call) ([]ssa.Value, bool) {
	if len(call.Call.Args) != 2 {
		return nil, false
	}
	format, ok := constString(call.Call.Args[0])
	if !ok {
		return nil, false
	}
	elems, ok := variadicElems(call.Call.Args[1])
	if !ok {
		return nil, false
	}
	var out []ssa.Value
	lit := ""
	flush := func() {
		if lit != "" {
			out = append(out, ssa.NewConst(constant.MakeString(lit), types.Typ[types.String]))
			lit = ""
		}
	}
	k := 0
	for i := 0; i < len(format); i++ {
		if format[i] != '%' {
			lit += string(format[i])
			continue
		}
		i++
		if i >= len(format) {
			return nil, false
		}
		switch format[i] {
		case '%':
			lit += "%"
		case 's', 'v':
			if k >= len(elems) || !isTextType(elems[k].Type()) {
				return nil, false
			}
			flush()
			out = append(out, elems[k])
			k++
		default:
			return nil, false
		}
	}
	flush()
	if k != len(elems) || k < 2 {
		return nil, false
	}
	return out, true
}

// helperLineAlts opens a call of a module helper that returns the text as result idx: the
// alternatives of every return that hands out a line (a return whose other results say
// "rejected" — a constant false or an error — hands out none), with the helper's parameters
// replaced by the arguments of this call. opened is false when the call is not opened (not a
// module function with a body, or depth exhausted): the call then stays a piece.
func helperLineAlts(call *ssa.Call, idx int, depth int, seen map[ssa.Value]bool) (alts [][]ssa.Value, ok bool, opened bool) {
	g := call.Call.StaticCallee()
	if g == nil || g.Blocks == nil || !ModuleFunc(g) || depth <= 0 {
		return nil, false, false
	}
	if idx >= g.Signature.Results().Len() || !isTextType(g.Signature.Results().At(idx).Type()) {
		return nil, false, false
	}
	if seen[call] {
		return nil, false, true
	}
	seen[call] = true
	defer delete(seen, call)
	errType := types.Universe.Lookup("error").Type()
	for _, b := range g.Blocks {
		if len(b.Instrs) == 0 {
			continue
		}
		ret, isRet := b.Instrs[len(b.Instrs)-1].(*ssa.Return)
		if !isRet {
			continue
		}
		if idx >= len(ret.Results) {
			return nil, false, true
		}
		rejecting := false
		for j, o := range ret.Results {
			if j == idx {
				continue
			}
			if v, isBool := constBool(o); isBool && !v {
				rejecting = true
			}
			if k, isConst := o.(*ssa.Const); types.Identical(o.Type(), errType) && !(isConst && k.IsNil()) {
				rejecting = true
			}
		}
		if rejecting {
			continue
		}
		inner, ok := lineAlts(ret.Results[idx], depth-1, seen)
		if !ok {
			return nil, false, true
		}
		for _, pieces := range inner {
			// parameters of the helper stand for the arguments of this call
			subst := make([]ssa.Value, len(pieces))
			for i, p := range pieces {
				subst[i] = p
				if par, isPar := p.(*ssa.Parameter); isPar && par.Parent() == g {
					for pi, q := range g.Params {
						if q == par && pi < len(call.Call.Args) {
							subst[i] = call.Call.Args[pi]
						}
					}
				}
			}
			ex, ok := expandPieces(subst, depth-1, seen)
			if !ok {
				return nil, false, true
			}
			alts = append(alts, ex...)
		}
	}
	return alts, len(alts) > 0 && len(alts) <= maxLineAlts, true
}

// frameLengthValue finds in f (or in a helper of the same package that f calls and that returns
// a uint32) the value that holds the frame length announced by the 4-byte header, provided it is
// obtained in a way that does not depend on how the stream is segmented:
//   - binary.Read(r, binary.BigEndian, p) with p a *uint32 — src is the variable p points to;
//   - io.ReadFull(r, b) (or io.ReadAtLeast(r, b, n>=4)) over all of a 4-byte buffer b, executed
//     before binary.BigEndian.Uint32(b) on every path — src is the decoded value;
//   - a helper doing one of these whose uint32 result is that value on every return (constants
//     only next to a non-nil error) — src is the call.
//
// at is the instruction that reads or decodes the header (for the position), also when it is not
// an accepted one.
func frameLengthValue(p *Prog, f *ssa.Function, depth int) (src ssa.Value, at ssa.Instruction, ok bool) {
	isBigEndian := func(v ssa.Value) bool {
		if mi, isMI := v.(*ssa.MakeInterface); isMI {
			v = mi.X
		}
		if u, isLoad := v.(*ssa.UnOp); isLoad && u.Op == token.MUL {
			if g, isG := u.X.(*ssa.Global); isG && g.Name() == "BigEndian" && g.Pkg != nil && g.Pkg.Pkg.Path() == "encoding/binary" {
				return true
			}
		}
		return false
	}
	var fullReads []*ssa.Call
	allInstrs(f, func(in ssa.Instruction) {
		call, isCall := in.(*ssa.Call)
		if !isCall {
			return
		}
		switch calleeName(call.Common()) {
		case "io.ReadFull":
			fullReads = append(fullReads, call)
		case "io.ReadAtLeast":
			if n, isConst := constInt(call.Call.Args[2]); isConst && n >= 4 {
				fullReads = append(fullReads, call)
			}
		}
	})
	errType := types.Universe.Lookup("error").Type()
	allInstrs(f, func(in ssa.Instruction) {
		call, isCall := in.(*ssa.Call)
		if !isCall {
			return
		}
		name := calleeName(call.Common())
		switch {
		case name == "encoding/binary.Read":
			at = in
			if mi, isMI := call.Call.Args[2].(*ssa.MakeInterface); isMI && isBigEndian(call.Call.Args[1]) {
				if al, isAl := mi.X.(*ssa.Alloc); isAl {
					if b, isB := al.Type().(*types.Pointer).Elem().Underlying().(*types.Basic); isB && b.Kind() == types.Uint32 {
						src, ok = al, true
					}
				}
			}
		case strings.HasPrefix(name, "(encoding/binary.") && strings.HasSuffix(name, ").Uint32"):
			// BigEndian.Uint32(b), directly or through the ByteOrder interface
			var order, buf ssa.Value
			if call.Call.IsInvoke() {
				order, buf = call.Call.Value, call.Call.Args[0]
			} else if len(call.Call.Args) == 2 {
				order, buf = call.Call.Args[0], call.Call.Args[1]
			}
			if at == nil {
				at = in
			}
			if order == nil || !isBigEndian(order) {
				return
			}
			base, isFour := fourByteBuffer(buf)
			if !isFour {
				return
			}
			for _, rd := range fullReads {
				if rb, isFour := fourByteBuffer(rd.Call.Args[1]); isFour && rb == base && instrDominates(rd, call) {
					src, ok, at = call, true, in
				}
			}
		default:
			g := call.Call.StaticCallee()
			if g == nil || g.Blocks == nil || depth >= 2 || fnPkg(g) != fnPkg(f) || g == f {
				return
			}
			res := g.Signature.Results()
			k := -1
			for i := 0; i < res.Len(); i++ {
				if b, isB := res.At(i).Type().Underlying().(*types.Basic); isB && b.Kind() == types.Uint32 {
					k = i
				}
			}
			if k < 0 {
				return
			}
			gsrc, gat, gok := frameLengthValue(p, g, depth+1)
			if gat == nil {
				return
			}
			at = in
			if !gok {
				return
			}
			good := true
			for _, b := range g.Blocks {
				if len(b.Instrs) == 0 {
					continue
				}
				ret, isRet := b.Instrs[len(b.Instrs)-1].(*ssa.Return)
				if !isRet {
					continue
				}
				r := ret.Results[k]
				if derivedFrom(r, gsrc, map[ssa.Value]bool{}) {
					continue
				}
				failing := false
				for _, o := range ret.Results {
					if kc, isConst := o.(*ssa.Const); types.Identical(o.Type(), errType) && !(isConst && kc.IsNil()) {
						failing = true
					}
				}
				if _, isConst := r.(*ssa.Const); !isConst || !failing {
					good = false
				}
			}
			if good {
				src, ok = call, true
			}
		}
	})
	return
}

// fourByteBuffer: v is all of a 4-byte buffer — a[:] (or a[0:4]) of a [4]byte array, or a
// make([]byte, 4) (possibly resliced in full); base identifies the buffer.
func fourByteBuffer(v ssa.Value) (base ssa.Value, ok bool) {
	isByte := func(t types.Type) bool {
		b, isB := t.Underlying().(*types.Basic)
		return isB && b.Kind() == types.Uint8
	}
	switch x := v.(type) {
	case *ssa.MakeSlice:
		if n, isConst := constInt(x.Len); isConst && n == 4 && isByte(x.Type().Underlying().(*types.Slice).Elem()) {
			return x, true
		}
	case *ssa.Slice:
		if x.Low != nil {
			if n, isConst := constInt(x.Low); !isConst || n != 0 {
				return nil, false
			}
		}
		if x.High != nil {
			if n, isConst := constInt(x.High); !isConst || n != 4 {
				return nil, false
			}
		}
		if pt, isPtr := x.X.Type().Underlying().(*types.Pointer); isPtr {
			if arr, isArr := pt.Elem().Underlying().(*types.Array); isArr && arr.Len() == 4 && isByte(arr.Elem()) {
				return x.X, true
			}
			return nil, false
		}
		return fourByteBuffer(x.X)
	}
	return nil, false
}

func c13r4(c *Check) {
	fn := c.P.Func("input", "*Pickle", "Handle")
	// (a) length read
	lengthSrc, at, okRead := frameLengthValue(c.P, fn, 0)
	pos := c.AtFn(fn)
	if at != nil {
		pos = c.At(at)
	}
	c.Judge(okRead, "input.Pickle.Handle length header read", pos, "four header bytes read in full and decoded big-endian as a uint32 (binary.Read(r, binary.BigEndian, *uint32), or io.ReadFull into 4 bytes + BigEndian.Uint32), whatever the segmentation", "the frame length is not read with binary.Read(…, BigEndian, *uint32) or an equivalent full read of four bytes decoded big-endian: a partial Read of the header (segment boundary inside the 4 bytes) yields a wrong length and kills the connection")
	// (b) payload loop exit
	okExit := false
	// the chunk loop may live in a helper that is given the frame length
	for _, f := range samePkgCallees(c.P, fn) {
		f := f
		fromLen := func(v ssa.Value) bool {
			if lengthSrc == nil {
				return false
			}
			if f == fn {
				return derivedFrom(v, lengthSrc, map[ssa.Value]bool{})
			}
			for _, par := range f.Params {
				if !derivedFrom(v, par, map[ssa.Value]bool{}) {
					continue
				}
				args, ok := c.P.paramArgs(par)
				if !ok {
					continue
				}
				all := true
				for _, a := range args {
					if !derivedFrom(a, lengthSrc, map[ssa.Value]bool{}) {
						all = false
					}
				}
				if all {
					return true
				}
			}
			return false
		}
		allInstrs(f, func(in ssa.Instruction) {
			ifi, ok := in.(*ssa.If)
			if !ok {
				return
			}
			bo, ok := ifi.Cond.(*ssa.BinOp)
			if !ok || bo.Op != token.EQL {
				return
			}
			// one side derives from the length header (through int conversion), other is an accumulating phi
			if (fromLen(bo.X) && isAccumulator(bo.Y)) || (fromLen(bo.Y) && isAccumulator(bo.X)) {
				okExit = true
			}
		})
	}
	c.Judge(okExit, "input.Pickle.Handle payload read until length reached", pos, "the chunk loop ends when bytes read == frame length", "the payload loop does not end exactly when the announced number of bytes has been read")
	// (c) checkProtocol
	cp := c.P.Func("input", "", "checkProtocol")
	cfg := &PathCfg{Branch: func(ifi *ssa.If, cond ssa.Value, taken bool) []string {
		if e, errEdge, ok := errTest(cond); ok {
			if _, isPeek := callOf(e, "(*bufio.Reader).Peek"); isPeek {
				if taken == errEdge {
					return []string{"peekerr"}
				}
				return nil
			}
		}
		cnd, neg := negStrip(cond)
		bo, ok := cnd.(*ssa.BinOp)
		if !ok || (bo.Op != token.EQL && bo.Op != token.NEQ) {
			return nil
		}
		sk, ok := slotOf(bo.X)
		cst, okc := constInt(bo.Y)
		if !ok || !okc {
			return []string{"?"}
		}
		val := (taken != neg) == (bo.Op == token.EQL)
		return []string{fmt.Sprintf("b%d=%d:%v", sk.idx, cst, val)}
	}}
	paths, _ := EnumPaths(cp, nil, cfg)
	// list prefixes produced by pickle.dumps(list, protocol) for protocols 0..4
	rows := [][]int64{{93}, {40, 108}, {128, 2, 93}, {128, 3, 93}, {128, 4, 93}, {128, 4, 149}}
	rowName := []string{"protocol 1: ']'", "protocol 0: '(l'", "protocol 2: 0x80 2 ']'", "protocol 3: 0x80 3 ']'", "protocol 4 (short, unframed): 0x80 4 ']'", "protocol 4: 0x80 4 FRAME"}
	var probs []string
	for ri, row := range rows {
		accepting := 0
		for i := range paths {
			pa := &paths[i]
			if pa.Has("peekerr") || pa.Has("?") {
				continue
			}
			consistent := true
			for _, e := range pa.Events {
				var idx int
				var cst int64
				var val bool
				if _, err := fmt.Sscanf(strings.Replace(strings.Replace(e.Class, "=", " ", 1), ":", " ", 1), "b%d %d %t", &idx, &cst, &val); err != nil {
					continue
				}
				if idx >= len(row) {
					// a 1- or 2-byte prefix row: later bytes are unconstrained, both outcomes possible
					continue
				}
				if (row[idx] == cst) != val {
					consistent = false
				}
			}
			if !consistent {
				continue
			}
			accept := len(pa.Ret) == 1 && isNilConst(pa.Ret[0])
			if accept {
				accepting++
			} else if len(row) == 3 || !mentionsBeyond(pa, len(row)) {
				probs = append(probs, "rejects the list prefix of "+rowName[ri]+": "+pa.String())
			}
		}
		if accepting == 0 {
			probs = append(probs, "no accepting path for the list prefix of "+rowName[ri])
		}
	}
	for i := range paths {
		if paths[i].Has("?") {
			probs = append(probs, "unrecognised prefix test: "+paths[i].String())
			break
		}
	}
	if len(paths) == 0 {
		probs = append(probs, "no paths")
	}
	if len(probs) > 6 {
		probs = probs[:6]
	}
	if len(probs) > 0 {
		c.ViolateW("input.checkProtocol accepts protocols 0-4", c.AtFn(cp), probs[0], probs)
	} else {
		c.Hold("input.checkProtocol accepts protocols 0-4", c.AtFn(cp), fmt.Sprintf("%d paths checked against %d documented list prefixes: none is rejected", len(paths), len(rows)))
	}
}

// mentionsBeyond: the path tests a prefix byte at index >= n.
func mentionsBeyond(pa *Path, n int) bool {
	for _, e := range pa.Events {
		var idx int
		if _, err := fmt.Sscanf(e.Class, "b%d=", &idx); err == nil && idx >= n {
			return true
		}
	}
	return false
}

// isAccumulator: v is a loop phi that adds to itself.
func isAccumulator(v ssa.Value) bool {
	if bo, ok := v.(*ssa.BinOp); ok && bo.Op == token.ADD {
		if _, ok := bo.X.(*ssa.Phi); ok {
			return true
		}
	}
	if phi, ok := v.(*ssa.Phi); ok {
		for _, e := range phi.Edges {
			if bo, ok := e.(*ssa.BinOp); ok && bo.Op == token.ADD && bo.X == phi {
				return true
			}
		}
	}
	return false
}

func keysOf(m map[string]bool) []string {
	var out []string
	for k := range m {
		out = append(out, k)
	}
	sort.Strings(out)
	return out
}

// c13r5: every frame is decoded by its own decoder. The unpickler keeps a memo of the objects it
// has seen; protocol 4 refers to memo entries by position, so a decoder that lives across frames
// resolves a reference in a later frame to an object of an earlier one — silently another datapoint.
func c13r5(c *Check) {
	h := c.P.Func("input", "*Pickle", "Handle")
	n := 0
	for _, fn := range samePkgCallees(c.P, h) {
		fn := fn
		loops := loopsOf(fn)
		allInstrs(fn, func(in ssa.Instruction) {
			call, ok := in.(*ssa.Call)
			if !ok || !strings.HasSuffix(calleeName(call.Common()), "og-rek.Decoder).Decode") {
				return
			}
			n++
			key := "input." + fn.Name() + " decodes each frame with a fresh decoder"
			recv := call.Call.Args[0]
			bad := ""
			// where does the decoder come from?
			var origin func(v ssa.Value, at ssa.Instruction, f *ssa.Function, ls []*Loop, depth int)
			origin = func(v ssa.Value, at ssa.Instruction, f *ssa.Function, ls []*Loop, depth int) {
				if depth > 3 {
					bad = "the decoder's origin could not be traced"
					return
				}
				switch x := v.(type) {
				case *ssa.Call:
					if !strings.HasSuffix(calleeName(x.Common()), "og-rek.NewDecoder") && !strings.HasSuffix(calleeName(x.Common()), "og-rek.NewDecoderWithConfig") {
						bad = "the decoder comes from " + short(calleeName(x.Common())) + ", not from a constructor call"
						return
					}
					for _, l := range ls {
						if l.Body[at.Block()] && !l.Body[x.Block()] {
							bad = "the decoder is created once (" + c.At(x) + ") outside the loop that decodes frame after frame: its memo of seen objects survives from one frame to the next, and a protocol-4 frame's back-references then resolve to objects of an earlier frame"
						}
					}
				case *ssa.Parameter:
					idx := -1
					for i, p := range f.Params {
						if p == x {
							idx = i
						}
					}
					ins := c.P.CG().In[f]
					if len(ins) == 0 || idx < 0 {
						bad = "the decoder is a parameter of a function without known callers"
						return
					}
					for _, e := range ins {
						cc := callCommon(e.Site)
						if e.Kind != EdgeCall || e.Dyn || cc == nil || idx >= len(cc.Args) {
							bad = "the decoder is handed in through a call that could not be resolved"
							return
						}
						origin(cc.Args[idx], e.Site, e.Caller, loopsOf(e.Caller), depth+1)
					}
				case *ssa.Phi:
					bad = "the decoder differs from path to path (" + c.At(x) + ")"
				default:
					bad = "the decoder is kept in a variable or field that outlives the frame (" + describeVal(v) + ")"
				}
			}
			origin(recv, in, fn, loops, 0)
			c.Judge(bad == "", key, c.At(in), "the decoder is constructed in the same loop iteration that decodes the frame", bad)
		})
	}
	if n == 0 {
		anchorFail("no call of ogorek's Decoder.Decode found in the pickle input")
	}
}

// c13r6: a structurally invalid item is skipped, not indexed: every constant index into a slice
// inside the functions that handle one unpickled item is controlled by a test of that slice's
// length which excludes every length that is too short (the K9 obligations of the crash-site
// engine, evaluated for the item functions of the pickle reader).
func c13r6(c *Check) {
	_, fns := pickleItemFuncs(c)
	set := map[*ssa.Function]*CGEdge{}
	for _, f := range fns {
		set[f] = nil
	}
	n := 0
	for _, s := range enumerateCrashSites(c.P, set) {
		if s.Class != "K9" {
			continue
		}
		ia, ok := s.In.(*ssa.IndexAddr)
		if !ok {
			continue
		}
		k, ok := constInt(ia.Index)
		if !ok {
			continue
		}
		// only slices decoded from the network (interface elements)
		if !strings.Contains(s.Val.Type().String(), "interface") {
			continue
		}
		n++
		guarded := lenGuardedN(s.Fn, s.In, s.Val, k+1, 0)
		c.Judge(guarded, "input pickle item "+s.What+" in "+FuncName(s.Fn), c.At(s.In), "controlled by a test of the tuple's length", "an element of an unpickled tuple is accessed without a test that the tuple is long enough (the length test looks at another slice, or was removed): a structurally invalid item is not counted invalid and skipped — it panics the connection's goroutine or is dispatched from its first elements")
	}
	if n < 3 {
		anchorFail("fewer than three indexed accesses to unpickled tuples found (%d)", n)
	}
}
