package main

import (
	"encoding/json"
	"flag"
	"fmt"
	"os"
	"sort"
	"strconv"
	"time"
)

var registry = map[string]*PropDef{}

func register(p *PropDef) { registry[p.ID] = p }

func usage() {
	fmt.Fprintln(os.Stderr, `usage:
  crngcheck check   -property Cxx [-tier quick|thorough] [-repo /repo]
  crngcheck explain -replay <file>
  crngcheck list`)
	os.Exit(2)
}

func main() {
	if len(os.Args) < 2 {
		usage()
	}
	switch os.Args[1] {
	case "check":
		os.Exit(cmdCheck(os.Args[2:]))
	case "explain":
		os.Exit(cmdExplain(os.Args[2:]))
	case "manifest":
		os.Exit(cmdManifest())
	case "list":
		var ids []string
		for id := range registry {
			ids = append(ids, id)
		}
		sort.Strings(ids)
		for _, id := range ids {
			p := registry[id]
			fmt.Printf("%s %s\n", id, p.Title)
			for _, r := range p.Rules {
				fmt.Printf("   %s (min %d): %s\n", r.ID, r.Min, r.Doc)
			}
		}
	default:
		usage()
	}
}

func cmdCheck(args []string) int {
	fs := flag.NewFlagSet("check", flag.ExitOnError)
	prop := fs.String("property", "", "property id")
	tier := fs.String("tier", "", "quick|thorough")
	repo := fs.String("repo", "/repo", "repository root")
	rule := fs.String("rule", "", "run only this rule (diagnostics; evidence is still written)")
	fs.Parse(args)
	if *tier == "" {
		*tier = os.Getenv("VERIF_TIER")
	}
	if *tier == "" {
		*tier = "quick"
	}
	seed, _ := strconv.Atoi(os.Getenv("VERIF_SEED"))
	def := registry[*prop]
	if def == nil {
		fmt.Fprintf(os.Stderr, "unknown property %q\n", *prop)
		return 2
	}
	start := time.Now()
	p, err := LoadProg(*repo, nil)
	if err != nil {
		// a tree that does not load cannot be decided: fail loudly
		fmt.Printf("load failed: %v\n", err)
		c := &Check{Prop: def, Tier: *tier, P: &Prog{Dir: *repo}, Stats: map[string]int{}, perRule: map[string]int{}}
		c.cur = &RuleDef{ID: def.ID + ".load"}
		c.Undecided("program load", "-", err.Error())
		c.cur = nil
		return finish(c, start, seed, nil, nil)
	}
	c := runProp(p, def, *tier, *rule)
	extra := map[string]interface{}{}
	var stFailed []string
	if *tier == "thorough" && *rule == "" {
		res := runMutants(*repo, def)
		extra["mutant_battery"] = res.summary
		stFailed = res.failed
	}
	return finish(c, start, seed, extra, stFailed)
}

func cmdExplain(args []string) int {
	fs := flag.NewFlagSet("explain", flag.ExitOnError)
	replay := fs.String("replay", "", "replay file written by a failing check")
	fs.Parse(args)
	b, err := os.ReadFile(*replay)
	if err != nil {
		fmt.Fprintln(os.Stderr, err)
		return 2
	}
	var r struct {
		Property   string     `json:"property"`
		Obligation Obligation `json:"obligation"`
		RuleDoc    string     `json:"rule_doc"`
		Repo       string     `json:"repo"`
	}
	if err := json.Unmarshal(b, &r); err != nil {
		fmt.Fprintln(os.Stderr, err)
		return 2
	}
	def := registry[r.Property]
	if def == nil {
		fmt.Fprintln(os.Stderr, "unknown property in replay file")
		return 2
	}
	fmt.Printf("property %s, rule %s: %s\nrecorded: %s at %s — %s\n", r.Property, r.Obligation.Rule, r.RuleDoc, r.Obligation.Key, r.Obligation.Pos, r.Obligation.Detail)
	p, err := LoadProg(r.Repo, nil)
	if err != nil {
		fmt.Printf("load failed: %v\n", err)
		return 1
	}
	c := runProp(p, def, "quick", r.Obligation.Rule)
	found := false
	for _, o := range c.Obs {
		if o.Key == r.Obligation.Key {
			found = true
			fmt.Printf("now: %s at %s — %s\n", o.Verdict, o.Pos, o.Detail)
			for _, w := range o.Witness {
				fmt.Printf("    %s\n", w)
			}
			if o.Verdict != "holds" {
				return 1
			}
		}
	}
	if !found {
		fmt.Println("now: the obligation is no longer produced by the rule on this tree")
	}
	return 0
}

func cmdManifest() int {
	allIDs := []string{}
	for i := 1; i <= 20; i++ {
		allIDs = append(allIDs, fmt.Sprintf("C%02d", i))
	}
	var checks []map[string]interface{}
	var na []map[string]string
	engines := map[string][]string{}
	for _, id := range allIDs {
		def := registry[id]
		if def == nil {
			na = append(na, map[string]string{"property_id": id, "reason": "check not built yet in this session; see DESIGN.md section 3 for the planned structural clauses"})
			continue
		}
		engines["crngcheck"] = append(engines["crngcheck"], id)
		var ruleIDs string
		for i, r := range def.Rules {
			if i > 0 {
				ruleIDs += ", "
			}
			ruleIDs += r.ID
		}
		checks = append(checks, map[string]interface{}{
			"property_id":         id,
			"quick_cmd":           "./bin/crngcheck check -property " + id + " -tier quick",
			"thorough_cmd":        "./bin/crngcheck check -property " + id + " -tier thorough",
			"evidence_file":       "/verif/evidence/" + id + ".json",
			"replay_cmd_template": "./bin/crngcheck explain -replay {path}",
			"engine":              "crngcheck",
			"technique":           "static analysis: repository-specific rules over the type-checked program and go/ssa (CFG paths, dominance, taint, call graph); no execution",
			"level_claimed": map[string]string{
				"category":   "other",
				"text":       "Necessary structural conditions of the property, decided on every path / call site of the anchored code of /repo's working tree (rules " + ruleIDs + "). Decided: " + def.Decided + " Not decided: " + def.NotDecided,
				"design_ref": "DESIGN.md section 3, " + id,
			},
			"level_note": "Trusted: Go type checker, x/tools go/ssa v0.29.0, the rule tables in /verif/checker (confirmed by reading), documented contracts of the standard library and third-party callees (bodies not analysed). " + joinStr(def.Assumptions),
		})
	}
	m := map[string]interface{}{
		"version":   1,
		"setup_cmd": "mkdir -p bin evidence && cd checker && GOFLAGS=-mod=mod GOPROXY=off GOSUMDB=off GOWORK=off GOTOOLCHAIN=local go build -o ../bin/crngcheck .",
		"hooks": map[string]interface{}{
			"guard":            "verif",
			"enable":           "no hooks are needed: the checks analyse the unmodified source of /repo (the build tag is reserved, no file uses it)",
			"baseline_off_cmd": "cd /repo && GOFLAGS=-mod=mod GOPROXY=off GOSUMDB=off go test -vet=off -count=1 ./...",
			"source_commits":   []string{},
			"add_only":         true,
		},
		"engines":        []map[string]interface{}{{"name": "crngcheck", "path": "/verif/checker", "serves_properties": engines["crngcheck"], "kind_free_text": "Go program: go/packages loader + go/ssa; engines for path-effect counting, snapshot taint / lock discipline, may-block effects, option wiring, crash-site obligations, ordering, confinement and sibling agreement; mutant battery through packages.Config.Overlay in the thorough tier"}},
		"checks":         checks,
		"not_applicable": na,
		"notes":          "All checks are static analyses of /repo's current working tree; every claim is at level 'other' (necessary structural clauses, see DESIGN.md). Known findings: /verif/known_findings.txt.",
	}
	if na == nil {
		m["not_applicable"] = []map[string]string{}
	}
	b, _ := json.MarshalIndent(m, "", " ")
	fmt.Println(string(b))
	return 0
}

func joinStr(ss []string) string {
	out := ""
	for _, s := range ss {
		out += s + ". "
	}
	return out
}
