package main

import (
	"fmt"
	"go/token"
	"go/types"
	"strings"

	"golang.org/x/tools/go/ssa"
)

func init() {
	register(&PropDef{
		ID:    "C04",
		Title: "Forwarded line = rewritten name + untouched value/timestamp; buffers isolated",
		Decided: "R1 the caller's buffer of every Dispatcher.Dispatch implementation is used only for len() and as the source of a copy (never stored, resliced, passed on or captured), and in the plain and AMQP handlers the reader's volatile buffer flows only into Dispatcher.Dispatch and logging; " +
			"R2 the fields are split from the private copy; the only stores into the fields are into slot 0 with the result of RW.Do applied to the current slot 0; the line handed to every route is bytes.Join(fields, single space) — hence value and timestamp tokens are the received bytes; " +
			"R3 the rewriters are applied in one range loop over the snapshot's rewriter list without early exit; " +
			"R4 after the first hand-off to an aggregator nothing stores into the fields any more, and route, destination, aggregator and table code never writes through a line/name/fields parameter; " +
			"R5 RW.Do passes its argument only to non-mutating library calls or returns it; " +
			"R6 RW.Do skips a rule exactly when its not-clause matches, applies regex rules with ReplaceAll (every match) and literal rules with bytes.Replace limited by Max.",
		NotDecided: "that bytes.Replace / Regexp.ReplaceAll implement the documented max and ${n} semantics (library contract); rewriter rule parsing; the UDP read buffer (wrapped in a reader that is consumed synchronously).",
		Rules: []RuleDef{
			{ID: "C04.R1", Min: 3, Doc: "volatile no-escape: every referrer of the Dispatch parameter is builtin len or the source operand of builtin copy; scanner.Bytes()/ReadLine() results are only passed to Dispatcher.Dispatch or boxed for logging", Run: c04r1},
			{ID: "C04.R2", Min: 4, Doc: "only the name is rewritten: bytes.Fields is applied to the make+copy private buffer; stores into the fields slice have constant index 0 and value RW.Do(load fields[0]); Route.Dispatch receives bytes.Join(fields, \" \") directly", Run: c04r2},
			{ID: "C04.R3", Min: 2, Doc: "rewriters in table order: RW.Do is called in a range loop over the `rewriters` slice of the loaded snapshot, on the loop element, loop exits only by exhaustion", Run: c04r3},
			{ID: "C04.R4", Min: 2, Doc: "read-only after hand-off: no store into the fields slice is reachable after an AddMaybe call; no element store / copy destination / append on values derived from parameters of declared kind LINE, NAME or FIELDS in table, route, destination, aggregator", Run: c04r4},
			{ID: "C04.R6", Min: 1, Doc: "RW.Do decision table by path enumeration: the rule is skipped (argument returned unchanged) exactly when the not-regex matches, or — only when there is no not-regex — the not-substring is contained; otherwise regex rules return re.ReplaceAll(name, new) and literal rules bytes.Replace(name, old, new, Max)", Run: c04r6},
			{ID: "C04.R7", Min: 9, Doc: "rewriter.New builds the rule from its arguments: Old/New/Not/Max and the byte forms old/new/not are the parameters themselves; re (notRe) is nil or the expression compiled from old[1:len-1] (not[1:len-1]), and is never reset once compiled", Run: c04r7},
			{ID: "C04.R8", Min: 8, Doc: "the configured rule is the applied rule: old, new, not and max of a [[rewriter]] section and of the addRewriter command reach rewriter.New unchanged (no substituted defaults), and New stores them in the equally named fields (part of rule C20.R2 evaluated for this property as well)", Run: checkRewriterWiring},
			{ID: "C04.R5", Min: 1, Doc: "RW.Do: values derived from the argument are only passed to Regexp.Match, bytes.Contains, Regexp.ReplaceAll, bytes.Replace/ReplaceAll (all non-mutating) or returned; no stores through it", Run: c04r5},
		},
	})
}

func isBuiltinCall(in ssa.Instruction, name string) (*ssa.CallCommon, bool) {
	cc := callCommon(in)
	if cc == nil {
		return nil, false
	}
	b, ok := cc.Value.(*ssa.Builtin)
	if !ok || b.Name() != name {
		return nil, false
	}
	return cc, true
}

// onlyLoggedOrDispatched: every use of v is an argument of Dispatcher.Dispatch or a boxing for a logrus call.
func volatileUses(c *Check, v ssa.Value) (bad []ssa.Instruction) {
	dispatch := "(" + modPath + "/input.Dispatcher).Dispatch"
	for _, r := range *v.Referrers() {
		switch x := r.(type) {
		case *ssa.Call:
			if calleeName(x.Common()) == dispatch {
				continue
			}
			if cc, ok := isBuiltinCall(x, "len"); ok && cc != nil {
				continue
			}
			bad = append(bad, r)
		case *ssa.MakeInterface:
			// boxed for a variadic logging call: store into a varargs array only
			okLog := true
			for _, rr := range *x.Referrers() {
				st, ok := rr.(*ssa.Store)
				if !ok {
					okLog = false
					continue
				}
				ia, ok := st.Addr.(*ssa.IndexAddr)
				if !ok {
					okLog = false
					continue
				}
				al, ok := ia.X.(*ssa.Alloc)
				if !ok {
					okLog = false
					continue
				}
				// the array is sliced and passed to logrus
				for _, ar := range *al.Referrers() {
					if sl, ok := ar.(*ssa.Slice); ok {
						for _, sr := range *sl.Referrers() {
							if call, ok := sr.(*ssa.Call); ok {
								if !strings.HasPrefix(calleeName(call.Common()), "github.com/sirupsen/logrus.") {
									okLog = false
								}
							} else {
								okLog = false
							}
						}
					}
				}
			}
			if !okLog {
				bad = append(bad, r)
			}
		case *ssa.DebugRef:
		default:
			bad = append(bad, r)
		}
	}
	return bad
}

func c04r1(c *Check) {
	for _, fn := range dispatcherImpls(c.P) {
		buf := fn.Params[len(fn.Params)-1]
		var bad []string
		for _, r := range *buf.Referrers() {
			if _, ok := isBuiltinCall(r, "len"); ok {
				continue
			}
			if cc, ok := isBuiltinCall(r, "copy"); ok && cc.Args[1] == buf && cc.Args[0] != buf {
				continue
			}
			if _, ok := r.(*ssa.DebugRef); ok {
				continue
			}
			bad = append(bad, c.At(r)+": "+r.String())
		}
		key := FuncName(fn) + " caller buffer"
		if len(bad) > 0 {
			c.ViolateW(key, c.AtFn(fn), "the caller's buffer is used beyond len() and copy-source: the reader reuses it for the next line while routes and aggregations still hold the previous one", bad)
		} else {
			c.Hold(key, c.AtFn(fn), "parameter used only by len() and as copy source")
		}
	}
	// handlers: volatile reader buffers
	// every framing primitive of package input that returns a view of the reader's own buffer
	volatile := map[string]bool{"(*bufio.Scanner).Bytes": true, "(*bufio.Reader).ReadLine": true, "(*bufio.Reader).ReadSlice": true}
	n := 0
	inputPkg := c.P.Pkg("input").Types
	for _, fn := range c.P.Funcs {
		if fnPkg(fn) != inputPkg {
			continue
		}
		fn := fn
		allInstrs(fn, func(in ssa.Instruction) {
			call, ok := in.(*ssa.Call)
			if !ok || !volatile[calleeName(call.Common())] {
				return
			}
			var v ssa.Value = call
			if call.Type().(interface{ String() string }).String() != "[]byte" {
				// tuple: take element 0
				for _, r := range *call.Referrers() {
					if ex, ok := r.(*ssa.Extract); ok && ex.Index == 0 {
						v = ex
					}
				}
			}
			n++
			bad := volatileUses(c, v)
			key := FuncName(EnclosingDecl(fn)) + " volatile " + calleeName(call.Common())
			if len(bad) > 0 {
				var w []string
				for _, b := range bad {
					w = append(w, c.At(b)+": "+b.String())
				}
				c.ViolateW(key, c.At(in), "the reader's reusable buffer escapes to something other than Dispatcher.Dispatch", w)
			} else {
				c.Hold(key, c.At(in), "only passed to Dispatcher.Dispatch (and logging)")
			}
		})
	}
	if n < 2 {
		anchorFail("package input: %d calls to Scanner.Bytes / Reader.ReadLine found, the plain and AMQP handlers have one each", n)
	}
}

// privateCopy: v is a make([]byte, len(p)) slice that is the destination of copy(v, p) with p a parameter.
func privateCopy(v ssa.Value) bool {
	ms, ok := v.(*ssa.MakeSlice)
	if !ok {
		return false
	}
	for _, r := range *ms.Referrers() {
		if cc, ok := isBuiltinCall(r, "copy"); ok && cc.Args[0] == ms {
			if _, isParam := cc.Args[1].(*ssa.Parameter); isParam {
				return true
			}
		}
	}
	return false
}

func c04r2(c *Check) {
	for _, fn := range dispatcherImpls(c.P) {
		name := FuncName(fn)
		var fields *ssa.Call
		allInstrs(fn, func(in ssa.Instruction) {
			if call, ok := in.(*ssa.Call); ok && calleeName(call.Common()) == "bytes.Fields" {
				fields = call
			}
		})
		if fields == nil {
			anchorFail("%s: no bytes.Fields call", name)
		}
		c.Judge(privateCopy(fields.Call.Args[0]), name+" fields of private copy", c.At(fields), "bytes.Fields is applied to the private make+copy buffer", "the fields alias a buffer that is not the private copy (the caller's buffer): aggregations keep slices into memory the reader overwrites")
		// validate on the same copy
		allInstrs(fn, func(in ssa.Instruction) {
			if call, ok := in.(*ssa.Call); ok && calleeName(call.Common()) == nValidatePacket {
				c.Judge(call.Call.Args[0] == fields.Call.Args[0], name+" validate and split the same buffer", c.At(call), "ValidatePacket and bytes.Fields see the same bytes", "validation and field splitting are applied to different buffers")
			}
		})
		// stores into fields
		okStores := true
		nst := 0
		var why string
		allInstrs(fn, func(in ssa.Instruction) {
			st, ok := in.(*ssa.Store)
			if !ok {
				return
			}
			ia, ok := st.Addr.(*ssa.IndexAddr)
			if !ok || ia.X != fields {
				return
			}
			nst++
			if k, ok := constInt(ia.Index); !ok || k != 0 {
				okStores, why = false, "a store into the fields slice targets a slot other than the name (value/timestamp tokens are rewritten)"
				return
			}
			call, ok := st.Val.(*ssa.Call)
			if !ok || calleeName(call.Common()) != nRWDo {
				okStores, why = false, "the name slot is overwritten with something other than a rewriter result"
				return
			}
			arg := argsOf(call.Common())[0]
			ld, ok := arg.(*ssa.UnOp)
			if !ok {
				okStores, why = false, "the rewriter is not applied to the current name"
				return
			}
			ia2, ok := ld.X.(*ssa.IndexAddr)
			if k, okc := constInt(ia2.Index); !ok || ia2.X != fields || !okc || k != 0 {
				okStores, why = false, "the rewriter is not applied to the current name slot"
			}
		})
		c.Judge(okStores && nst >= 1, name+" only slot 0 rewritten", c.At(fields), fmt.Sprintf("%d store(s) into the fields, all `fields[0] = rw.Do(fields[0])`", nst), why)
		// Route.Dispatch argument: wherever the table hands a line to a route (in the dispatcher itself or
		// in a helper it calls), the value is a LINE: the single-space join of the fields, or the line
		// parameter of DispatchAggregate — never the unsplit private copy
		kinds := newKinds(c.P)
		for _, g := range samePkgCallees(c.P, fn) {
			g := g
			allInstrs(g, func(in ssa.Instruction) {
				call, ok := in.(*ssa.Call)
				if !ok || calleeName(call.Common()) != nRouteDispatch {
					return
				}
				kd := kinds.Of(call.Call.Args[0])
				c.Judge(kd == KLine, name+" forwarded line = Join(fields, \" \")", c.At(call), "routes receive bytes.Join(fields, single space)", fmt.Sprintf("the line handed to the routes is not the single-space join of the (rewritten) fields on every path (kind %s): unusual whitespace or a stale name reaches the routes", kd))
			})
		}
		// the join happens after the last rewrite
		allInstrs(fn, func(in ssa.Instruction) {
			j, ok := in.(*ssa.Call)
			if !ok || calleeName(j.Common()) != "bytes.Join" || j.Call.Args[0] != ssa.Value(fields) {
				return
			}
			okAfter := isSpaceBytes(j.Call.Args[1])
			allInstrs(fn, func(st ssa.Instruction) {
				if s, ok := st.(*ssa.Store); ok {
					if ia, ok := s.Addr.(*ssa.IndexAddr); ok && ia.X == ssa.Value(fields) && instrReachAvoiding(j, s, nil) {
						okAfter = false
					}
				}
			})
			c.Judge(okAfter, name+" fields joined after the last rewrite", c.At(j), "no store into the fields can follow the join", "the line is assembled before a rewriter changes the name: routes receive the pre-rewrite name")
		})
		// AddMaybe receives the fields
		allInstrs(fn, func(in ssa.Instruction) {
			if call, ok := in.(*ssa.Call); ok && calleeName(call.Common()) == nAddMaybe {
				c.Judge(argsOf(call.Common())[0] == fields, name+" aggregators receive the fields", c.At(call), "AddMaybe gets the split fields of the private copy", "AddMaybe is not given the fields of the private copy")
			}
		})
	}
}

func c04r3(c *Check) {
	for _, fn := range dispatcherImpls(c.P) {
		name := FuncName(fn)
		loops := loopsOf(fn)
		n := 0
		allInstrs(fn, func(in ssa.Instruction) {
			call, ok := in.(*ssa.Call)
			if !ok || calleeName(call.Common()) != nRWDo {
				return
			}
			n++
			l := enclosingLoop(loops, call.Block())
			if l == nil {
				c.Violate(name+" rewriter loop", c.At(call), "RW.Do is not applied in a loop over the rewriter list")
				return
			}
			sl, idx, ok := rangeLoopOver(l)
			okAll := ok && snapshotField(sl, "rewriters") && rangeElem(call.Call.Args[0], sl, idx)
			c.Judge(okAll, name+" rewriter loop", c.At(call), "range loop over the snapshot's rewriters, Do called on the loop element", "rewriters are not applied by a range loop over the loaded snapshot's rewriter list in order")
			exitOK, _ := loopExitsOnlyFromHeader(l)
			c.Judge(exitOK, name+" rewriter loop no early exit", c.At(call), "all rewriters are applied", "the rewriter loop can be left early: later rewriters are skipped")
		})
		if n == 0 {
			anchorFail("%s: no RW.Do call", name)
		}
	}
}

func c04r4(c *Check) {
	for _, fn := range dispatcherImpls(c.P) {
		name := FuncName(fn)
		var adds []ssa.Instruction
		var fields *ssa.Call
		allInstrs(fn, func(in ssa.Instruction) {
			if isCallNamed(in, nAddMaybe) {
				adds = append(adds, in)
			}
			if call, ok := in.(*ssa.Call); ok && calleeName(call.Common()) == "bytes.Fields" {
				fields = call
			}
		})
		bad := false
		var at ssa.Instruction
		allInstrs(fn, func(in ssa.Instruction) {
			st, ok := in.(*ssa.Store)
			if !ok {
				return
			}
			ia, ok := st.Addr.(*ssa.IndexAddr)
			if !ok || fields == nil || ia.X != fields {
				return
			}
			for _, a := range adds {
				if instrReachAvoiding(a, st, nil) {
					bad, at = true, st
				}
			}
		})
		pos := c.AtFn(fn)
		if at != nil {
			pos = c.At(at)
		}
		c.Judge(!bad, name+" no rewrite after aggregator hand-off", pos, "no store into the fields is reachable after AddMaybe", "the fields are modified after they were handed to an aggregator goroutine: the aggregator may see the old or the new name, and later aggregators see a different name than earlier ones")
	}
	// write-through on declared LINE/NAME/FIELDS parameters
	n := 0
	for _, fn := range c.P.Funcs {
		pk := fnPkg(fn)
		if pk == nil {
			continue
		}
		rel := strings.TrimPrefix(pk.Path(), modPath+"/")
		if rel != "table" && rel != "route" && rel != "destination" && rel != "aggregator" && rel != "matcher" && rel != "rewriter" {
			continue
		}
		kinds, ok := paramKinds[funcCanonical(fn)]
		if !ok {
			continue
		}
		off := 0
		if fn.Signature.Recv() != nil {
			off = 1
		}
		for idx := range kinds {
			if idx+off >= len(fn.Params) {
				continue
			}
			par := fn.Params[idx+off]
			if strings.HasSuffix(funcCanonical(fn), "table.Table).Dispatch") {
				continue // the volatile parameter: C04.R1
			}
			n++
			var w []string
			for _, f := range withAnons(fn) {
				allInstrs(f, func(in ssa.Instruction) {
					switch x := in.(type) {
					case *ssa.Store:
						if ia, ok := x.Addr.(*ssa.IndexAddr); ok && derivedFrom(ia.X, par, map[ssa.Value]bool{}) {
							w = append(w, c.At(in)+": element store")
						}
					case *ssa.Call:
						if cc, ok := isBuiltinCall(in, "copy"); ok && derivedFrom(cc.Args[0], par, map[ssa.Value]bool{}) {
							w = append(w, c.At(in)+": copy destination")
						}
						if cc, ok := isBuiltinCall(in, "append"); ok && derivedFrom(cc.Args[0], par, map[ssa.Value]bool{}) {
							w = append(w, c.At(in)+": append")
						}
					}
				})
			}
			key := FuncName(fn) + " read-only " + par.Name()
			if len(w) > 0 {
				c.ViolateW(key, c.AtFn(fn), "a line/name shared between routes, destinations and aggregations is written through", w)
			} else {
				c.Hold(key, c.AtFn(fn), "no write-through")
			}
		}
	}
	c.Stat("readonly_params", n)
}

func c04r5(c *Check) {
	fn := c.P.Func("rewriter", "RW", "Do")
	allowed := map[string]bool{"(*regexp.Regexp).Match": true, "bytes.Contains": true, "(*regexp.Regexp).ReplaceAll": true, "bytes.Replace": true, "bytes.ReplaceAll": true, "builtin.len": true,
		"bytes.HasPrefix": true, "bytes.HasSuffix": true, "bytes.Index": true, "bytes.IndexByte": true, "bytes.Equal": true, "(*regexp.Regexp).MatchString": true}
	var w []string
	seen := map[*ssa.Parameter]bool{}
	var visit func(f *ssa.Function, buf *ssa.Parameter, depth int)
	visit = func(f *ssa.Function, buf *ssa.Parameter, depth int) {
		if seen[buf] || depth > 3 {
			return
		}
		seen[buf] = true
		allInstrs(f, func(in ssa.Instruction) {
			switch x := in.(type) {
			case *ssa.Call:
				for ai, a := range x.Call.Args {
					if !derivedFrom(a, buf, map[ssa.Value]bool{}) {
						continue
					}
					if allowed[calleeName(x.Common())] {
						continue
					}
					// a helper of the module that only reads it in the same way
					if g := x.Call.StaticCallee(); g != nil && g.Blocks != nil && ModuleFunc(g) && ai < len(g.Params) {
						visit(g, g.Params[ai], depth+1)
						continue
					}
					w = append(w, c.At(in)+": passed to "+calleeName(x.Common()))
				}
			case *ssa.Store:
				if derivedFrom(x.Addr, buf, map[ssa.Value]bool{}) {
					w = append(w, c.At(in)+": store through the argument")
				}
				if x.Val == ssa.Value(buf) && f != fn {
					w = append(w, c.At(in)+": the argument is kept by a helper")
				}
			}
		})
	}
	visit(fn, fn.Params[1], 0)
	if len(w) > 0 {
		c.ViolateW("rewriter.RW.Do argument read-only", c.AtFn(fn), "RW.Do may modify its argument in place: the blacklist/aggregator copies of the name change under them", w)
	} else {
		c.Hold("rewriter.RW.Do argument read-only", c.AtFn(fn), "argument only reaches non-mutating library calls (directly or in the module helpers it is handed to) or is returned")
	}
	_ = types.Typ
}

func c04r6(c *Check) {
	fn := c.P.Func("rewriter", "RW", "Do")
	recv, buf := ssa.Value(fn.Params[0]), ssa.Value(fn.Params[1])
	var resolve func(ssa.Value) ssa.Value
	rwField := func(v ssa.Value) (string, bool) {
		root, names := fieldPath(v)
		if resolve != nil {
			// inside an expanded helper method the receiver is the helper's own parameter: what was passed for it
			for k := 0; k < 3; k++ {
				r2 := resolve(root)
				if r2 == root {
					break
				}
				var more []string
				root, more = fieldPath(r2)
				names = append(more, names...)
			}
		}
		if len(names) == 1 && (root == recv || strip(root) == recv) {
			return names[0], true
		}
		return "", false
	}
	isBuf := func(v ssa.Value) bool {
		if v == buf {
			return true
		}
		return resolve != nil && resolve(v) == buf
	}
	cfg := &PathCfg{Inline: func(g *ssa.Function) bool { return fnPkg(g) == fnPkg(fn) }, BranchV: func(ifi *ssa.If, cond ssa.Value, taken bool, res func(ssa.Value) ssa.Value) []string {
		resolve = res
		cnd, neg := negStrip(cond)
		val := taken != neg
		tf := map[bool]string{true: "T", false: "F"}
		switch x := cnd.(type) {
		case *ssa.BinOp:
			// r.notRe != nil ; r.re != nil ; len(r.not) > 0
			if cst, ok := x.Y.(*ssa.Const); ok && cst.IsNil() {
				if f, ok := rwField(x.X); ok {
					if x.Op == token.EQL {
						val = !val
					}
					return []string{"E:" + f + "=" + tf[val]}
				}
			}
			if call, ok := x.X.(*ssa.Call); ok {
				if b, ok := call.Call.Value.(*ssa.Builtin); ok && b.Name() == "len" {
					if f, ok := rwField(call.Call.Args[0]); ok {
						if k, ok := constInt(x.Y); ok && k == 0 {
							switch x.Op {
							case token.GTR, token.NEQ:
							case token.EQL, token.LEQ:
								val = !val
							default:
								return []string{"?"}
							}
							return []string{"E:" + f + "=" + tf[val]}
						}
					}
				}
			}
		case *ssa.Call:
			switch calleeName(x.Common()) {
			case "(*regexp.Regexp).Match":
				if f, ok := rwField(x.Call.Args[0]); ok && isBuf(x.Call.Args[1]) {
					return []string{"P:" + f + "=" + tf[val]}
				}
			case "bytes.Contains":
				if f, ok := rwField(x.Call.Args[1]); ok && isBuf(x.Call.Args[0]) {
					return []string{"P:" + f + "=" + tf[val]}
				}
			}
		}
		return []string{"?"}
	}}
	paths, _ := EnumPaths(fn, nil, cfg)
	var probs []string
	kinds := map[string]int{}
	for i := range paths {
		pa := &paths[i]
		if pa.Has("?") || pa.End != "return" || len(pa.RetV) != 1 {
			probs = append(probs, "unrecognised decision: "+pa.String())
			continue
		}
		a := map[string]bool{}
		known := map[string]bool{}
		infeasible := false
		for _, e := range pa.Events {
			k := e.Class[:len(e.Class)-2]
			v := strings.HasSuffix(e.Class, "=T")
			// the rewriter is not modified by Do: the same test cannot come out both ways on one path
			if known[k] && a[k] != v {
				infeasible = true
			}
			a[k] = v
			known[k] = true
		}
		if infeasible {
			continue
		}
		// what is returned
		kind := "?"
		rv := pa.RetV[0]
		switch x := rv.(type) {
		case *ssa.Parameter:
			if x == fn.Params[1] {
				kind = "unchanged"
			}
		case *ssa.Call:
			switch calleeName(x.Common()) {
			case "(*regexp.Regexp).ReplaceAll":
				f0, ok0 := rwField(x.Call.Args[0])
				f2, ok2 := rwField(x.Call.Args[2])
				if ok0 && ok2 && f0 == "re" && f2 == "new" && x.Call.Args[1] == buf {
					kind = "regex"
				}
			case "bytes.Replace":
				f1, ok1 := rwField(x.Call.Args[1])
				f2, ok2 := rwField(x.Call.Args[2])
				f3, ok3 := rwField(x.Call.Args[3])
				if ok1 && ok2 && ok3 && f1 == "old" && f2 == "new" && f3 == "Max" && x.Call.Args[0] == buf {
					kind = "literal"
				}
			}
		}
		kinds[kind]++
		// expected
		skip := -1
		switch {
		case known["E:notRe"] && a["E:notRe"]:
			if known["P:notRe"] {
				skip = b2i(a["P:notRe"])
			}
		case known["E:notRe"] && !a["E:notRe"]:
			switch {
			case known["E:not"] && !a["E:not"]:
				skip = 0
			case known["E:not"] && a["E:not"] && known["P:not"]:
				skip = b2i(a["P:not"])
			}
		}
		want := "?"
		switch {
		case skip == 1:
			want = "unchanged"
		case skip == 0 && known["E:re"] && a["E:re"]:
			want = "regex"
		case skip == 0 && known["E:re"] && !a["E:re"]:
			want = "literal"
		}
		if want != kind {
			probs = append(probs, fmt.Sprintf("returns %q where the documented rule gives %q: %s", kind, want, pa.String()))
		}
	}
	if kinds["unchanged"] == 0 || kinds["regex"] == 0 || kinds["literal"] == 0 {
		probs = append(probs, fmt.Sprintf("model incomplete: %v", kinds))
	}
	if len(probs) > 6 {
		probs = probs[:6]
	}
	if len(probs) > 0 {
		c.ViolateW("rewriter.RW.Do decision table", c.AtFn(fn), probs[0], probs)
	} else {
		c.Hold("rewriter.RW.Do decision table", c.AtFn(fn), fmt.Sprintf("%d paths: %v", len(paths), kinds))
	}
}

func b2i(b bool) int {
	if b {
		return 1
	}
	return 0
}

func c04r7(c *Check) {
	fn := c.P.Func("rewriter", "", "New")
	lit := literalFields(fn, "rewriter.RW")
	if len(lit) == 0 {
		anchorFail("rewriter.New: RW literal not found")
	}
	par := map[string]*ssa.Parameter{}
	for _, p := range fn.Params {
		par[p.Name()] = p
	}
	for _, n := range []string{"old", "new", "not", "max"} {
		if par[n] == nil {
			anchorFail("rewriter.New: parameter %s not found", n)
		}
	}
	direct := map[string]string{"Old": "old", "New": "new", "Not": "not", "Max": "max"}
	for f, p := range direct {
		c.Judge(lit[f] == ssa.Value(par[p]), "rewriter.New RW."+f+" = "+p, c.AtFn(fn), "the parameter itself", "RW."+f+" is not the "+p+" argument")
	}
	for _, f := range []string{"old", "new", "not"} {
		cv, ok := lit[f].(*ssa.Convert)
		c.Judge(ok && cv.X == ssa.Value(par[f]), "rewriter.New RW."+f+" = []byte("+f+")", c.AtFn(fn), "byte form of the parameter", "the bytes the rule searches for / inserts / excludes on (RW."+f+") are not the "+f+" argument: the configured rule and the applied rule differ")
	}
	for f, p := range map[string]string{"re": "old", "notRe": "not"} {
		v := lit[f]
		// leaves of the value through phis
		var compile *ssa.Call
		bad := ""
		seen := map[ssa.Value]bool{}
		type leaf struct {
			v    ssa.Value
			pred *ssa.BasicBlock
		}
		var leaves []leaf
		var walk func(v ssa.Value, pred *ssa.BasicBlock)
		walk = func(v ssa.Value, pred *ssa.BasicBlock) {
			if phi, ok := v.(*ssa.Phi); ok {
				if seen[v] {
					return
				}
				seen[v] = true
				for i, e := range phi.Edges {
					walk(e, phi.Block().Preds[i])
				}
				return
			}
			leaves = append(leaves, leaf{v, pred})
		}
		walk(v, nil)
		// a helper that compiles the specification when it is enclosed in slashes (compileIfRegexp(spec)):
		// its result leaves take the place of the call, with the helper's parameter as the specification
		base := ssa.Value(par[p])
		for pass := 0; pass < 2; pass++ {
			var expanded []leaf
			changed := false
			for _, l := range leaves {
				ex, ok := l.v.(*ssa.Extract)
				if ok && ex.Index == 0 {
					if hc, ok := ex.Tuple.(*ssa.Call); ok {
						argIdx := -1
						for ai, a := range hc.Call.Args {
							if a == base {
								argIdx = ai
							}
						}
						if h := hc.Call.StaticCallee(); h != nil && h.Blocks != nil && fnPkg(h) == fnPkg(fn) && argIdx >= 0 && argIdx < len(h.Params) {
							base = h.Params[argIdx]
							allInstrs(h, func(in ssa.Instruction) {
								if ret, ok := in.(*ssa.Return); ok && len(ret.Results) == 2 {
									var sub []leaf
									var w2 func(v ssa.Value, pred *ssa.BasicBlock)
									w2 = func(v ssa.Value, pred *ssa.BasicBlock) {
										if phi, ok := v.(*ssa.Phi); ok {
											for i, e := range phi.Edges {
												w2(e, phi.Block().Preds[i])
											}
											return
										}
										sub = append(sub, leaf{v, nil})
									}
									w2(ret.Results[0], nil)
									expanded = append(expanded, sub...)
								}
							})
							changed = true
							continue
						}
					}
				}
				expanded = append(expanded, l)
			}
			if !changed {
				break
			}
			leaves = expanded
		}
		for _, l := range leaves {
			if k, ok := l.v.(*ssa.Const); ok && k.IsNil() {
				continue
			}
			ex, ok := l.v.(*ssa.Extract)
			if !ok || ex.Index != 0 {
				bad = "RW." + f + " can be something other than nil or the compiled expression"
				continue
			}
			call, ok := ex.Tuple.(*ssa.Call)
			if !ok || calleeName(call.Common()) != "regexp.Compile" {
				bad = "RW." + f + " does not come from regexp.Compile"
				continue
			}
			okSl := isInnerOfSpec(call.Call.Args[0], base) || innerOfSpecByHelper(call, base)
			if !okSl {
				bad = "the expression compiled for RW." + f + " is not " + p + " without its enclosing slashes"
			}
			compile = call
		}
		if compile == nil && bad == "" {
			bad = "RW." + f + " is never the compiled expression"
		}
		if compile != nil && bad == "" {
			for _, l := range leaves {
				if k, ok := l.v.(*ssa.Const); ok && k.IsNil() && l.pred != nil && compile.Parent() == l.pred.Parent() && compile.Block().Dominates(l.pred) {
					bad = "RW." + f + " is reset to nil after the expression was compiled: a /regex/ rule is silently applied as a literal rule (no anchors, no ${n} expansion)"
				}
			}
		}
		c.Judge(bad == "", "rewriter.New RW."+f+" = nil | Compile("+p+"[1:len-1])", c.AtFn(fn), "nil for literal rules, the compiled inner expression for /…/ rules", bad)
	}
}

// isInnerOfSpec: v is base[1 : len(base)-1] — the specification without its first and last byte.
func isInnerOfSpec(v, base ssa.Value) bool {
	sl, ok := v.(*ssa.Slice)
	if !ok || sl.X != base || sl.Max != nil {
		return false
	}
	if lo, ok := constInt(sl.Low); !ok || lo != 1 {
		return false
	}
	bo, ok := sl.High.(*ssa.BinOp)
	if !ok || bo.Op != token.SUB || !isLenOf(bo.X, base) {
		return false
	}
	k, ok := constInt(bo.Y)
	return ok && k == 1
}

// innerOfSpecByHelper: the expression handed to regexp.Compile is result i of a helper of the same package applied to
// the specification (regexSpec(old) (expr, ok)) that returns, on every path, either (param[1:len-1], …, true) or a
// constant together with false, and the Compile call runs only on the true edge of a test of that boolean result — so
// whatever is compiled is the specification without its first and last byte, exactly as in the inline form.
func innerOfSpecByHelper(compile *ssa.Call, base ssa.Value) bool {
	ex, ok := compile.Call.Args[0].(*ssa.Extract)
	if !ok {
		return false
	}
	hc, ok := ex.Tuple.(*ssa.Call)
	if !ok {
		return false
	}
	h := hc.Call.StaticCallee()
	if h == nil || h.Blocks == nil || fnPkg(h) != fnPkg(compile.Parent()) || hc.Call.IsInvoke() {
		return false
	}
	argIdx := -1
	for ai, a := range hc.Call.Args {
		if a == base {
			argIdx = ai
		}
	}
	if argIdx < 0 || argIdx >= len(h.Params) {
		return false
	}
	hp := ssa.Value(h.Params[argIdx])
	res := h.Signature.Results()
	okIdx := -1
	for i := 0; i < res.Len(); i++ {
		if b, isB := res.At(i).Type().Underlying().(*types.Basic); isB && b.Kind() == types.Bool && i != ex.Index {
			if okIdx >= 0 {
				return false
			}
			okIdx = i
		}
	}
	if okIdx < 0 {
		return false
	}
	// every return of the helper: (inner, true) or (constant, false); phis are resolved per predecessor pair-wise
	nRet, good := 0, true
	allInstrs(h, func(in ssa.Instruction) {
		ret, isRet := in.(*ssa.Return)
		if !isRet {
			return
		}
		nRet++
		type pair struct{ e, b ssa.Value }
		work := []pair{{ret.Results[ex.Index], ret.Results[okIdx]}}
		for steps := 0; len(work) > 0 && steps < 64; steps++ {
			p := work[0]
			work = work[1:]
			pe, isPe := p.e.(*ssa.Phi)
			pb, isPb := p.b.(*ssa.Phi)
			switch {
			case isPe && isPb && pe.Block() == pb.Block():
				for i := range pe.Edges {
					work = append(work, pair{pe.Edges[i], pb.Edges[i]})
				}
				continue
			case isPe && !isPb:
				for i := range pe.Edges {
					work = append(work, pair{pe.Edges[i], p.b})
				}
				continue
			case isPb && !isPe:
				for i := range pb.Edges {
					work = append(work, pair{p.e, pb.Edges[i]})
				}
				continue
			case isPe && isPb:
				good = false
				continue
			}
			bv, isK := constBool(p.b)
			if !isK {
				good = false
				continue
			}
			if bv {
				if !isInnerOfSpec(p.e, hp) {
					good = false
				}
			} else if _, isC := p.e.(*ssa.Const); !isC {
				good = false
			}
		}
		if len(work) > 0 {
			good = false
		}
	})
	if nRet == 0 || !good {
		return false
	}
	// the Compile call is reached only over the true edge of a test of the helper's boolean result
	for _, r := range *hc.Referrers() {
		bx, isEx := r.(*ssa.Extract)
		if !isEx || bx.Index != okIdx {
			continue
		}
		for _, rr := range *bx.Referrers() {
			if iff, isIf := rr.(*ssa.If); isIf && len(iff.Block().Succs) == 2 {
				if edgeDominates(iff.Block(), iff.Block().Succs[0], compile.Block()) {
					return true
				}
			}
		}
	}
	return false
}
