package main

import (
	"fmt"
	"go/token"
	"go/types"
	"strings"

	"golang.org/x/tools/go/ssa"
)

func init() {
	register(&PropDef{
		ID:    "C19",
		Title: "Order validation accepts a point only if it is newer than all accepted before",
		Decided: "R1 the process-wide per-name table and the shared hash object are only touched while the package mutex is held; " +
			"R2 reading the previous timestamp, comparing and updating happen in one critical section (a single Lock, no Unlock between lookup and update), and the hash object is used and reset inside it; " +
			"R3 the accepting edge is `ts > previous` (strict), it stores exactly ts under the key that was looked up and returns nil; the rejecting edge stores nothing and returns the error; " +
			"R4 in the Dispatcher implementation Ordered is called with the validated key and timestamp of ValidatePacket, after the validation gate and before blacklist/rewrite/aggregation/routing, only when the snapshot's Validate_order is set; its error edge reports, counts out-of-order once and returns.",
		NotDecided: "hash collisions between names (64-bit FNV-1a is not injective); the schedules themselves (R1+R2 give the single-lock argument, no schedule is executed).",
		Rules: []RuleDef{
			{ID: "C19.R1", Min: 2, Doc: "lockset: every access to package variables validate.m and validate.h outside init happens with validate.lock held", Run: c19r1},
			{ID: "C19.R2", Min: 2, Doc: "atomic check-and-set: in Ordered one Lock dominates lookup and update and no explicit Unlock can run between them; the same holds for hash Write → Sum64 → Reset", Run: c19r2},
			{ID: "C19.R3", Min: 3, Doc: "strictness by path enumeration of Ordered: update only on the true edge of ts > old (normalised), stored value = ts parameter, update key = lookup key, nil result; other paths: no update, non-nil error", Run: c19r3},
			{ID: "C19.R5", Min: 1, Doc: "the validate_order setting survives table changes: no TableConfig value is assembled field by field with fields left out (a copy helper that forgets Validate_order silently switches the order check off after the next runtime change)", Run: c19r5},
			{ID: "C19.R4", Min: 3, Doc: "gate placement by path enumeration of the Dispatcher implementation + argument provenance of the Ordered call", Run: c19r4},
		},
	})
}

func globalAccesses(fn *ssa.Function, g *ssa.Global) []ssa.Instruction {
	var out []ssa.Instruction
	allInstrs(fn, func(in ssa.Instruction) {
		var ops []*ssa.Value
		for _, op := range in.Operands(ops) {
			if *op == g {
				out = append(out, in)
				return
			}
		}
	})
	return out
}

func c19r1(c *Check) {
	lock := c.P.Global("validate", "lock")
	c.P.Global("validate", "m")
	for _, gname := range []string{"m", "h"} {
		g := c.P.GlobalOpt("validate", gname)
		if g == nil {
			// the shared hash object is an implementation choice: a per-call hasher needs no lock
			c.Hold("validate."+gname+" not shared", "-", "no package-level variable of that name")
			continue
		}
		for _, fn := range c.P.Funcs {
			if strings.HasPrefix(fn.Name(), "init") || fn.Synthetic != "" {
				continue
			}
			acc := globalAccesses(fn, g)
			if len(acc) == 0 {
				continue
			}
			ops := mutexOps(fn)
			same := func(m mutexOp) bool { return m.global == lock }
			bad := 0
			var at ssa.Instruction
			for _, a := range acc {
				if _, held := heldExclusiveAt(ops, same, a); !held {
					bad++
					at = a
				}
			}
			// a helper that is only ever called with the lock held (hashKey / checkNewer style)
			if bad > 0 && len(ops) == 0 && calledUnderLock(c.P, fn, lock, 0) {
				c.Hold(fmt.Sprintf("%s accesses validate.%s", FuncName(fn), gname), c.At(acc[0]), fmt.Sprintf("%d accesses in a helper whose every call site holds validate.lock", len(acc)))
				continue
			}
			key := fmt.Sprintf("%s accesses validate.%s", FuncName(fn), gname)
			if bad > 0 {
				c.Violate(key, c.At(at), fmt.Sprintf("%d of %d accesses without validate.lock: concurrent input connections corrupt the shared hash state / map (two names hash to each other's key, or a concurrent map write crashes)", bad, len(acc)))
			} else {
				c.Hold(key, c.At(acc[0]), fmt.Sprintf("%d accesses, all under validate.lock", len(acc)))
			}
		}
	}
}

func c19r2(c *Check) {
	fn := c.P.Func("validate", "", "Ordered")
	lock := c.P.Global("validate", "lock")
	m := c.P.Global("validate", "m")
	ops := mutexOps(fn)
	var lookups, updates, hashOps []ssa.Instruction
	nLock := 0
	for _, o := range ops {
		if o.global == lock && o.op == "Lock" {
			nLock++
		}
	}
	// operations in helpers of the package count at the call site in Ordered (helpers take no lock themselves)
	helperLocks := false
	var collect func(f *ssa.Function, site ssa.Instruction, depth int)
	collect = func(f *ssa.Function, site ssa.Instruction, depth int) {
		at := func(in ssa.Instruction) ssa.Instruction {
			if site != nil {
				return site
			}
			return in
		}
		if f != fn {
			for _, o := range mutexOps(f) {
				if o.global == lock {
					helperLocks = true
				}
			}
		}
		allInstrs(f, func(in ssa.Instruction) {
			switch x := in.(type) {
			case *ssa.Lookup:
				if u, ok := x.X.(*ssa.UnOp); ok && u.X == m {
					lookups = append(lookups, at(in))
				}
			case *ssa.MapUpdate:
				if u, ok := x.Map.(*ssa.UnOp); ok && u.X == m {
					updates = append(updates, at(in))
				}
			case *ssa.Call:
				if x.Call.IsInvoke() && (x.Call.Method.Name() == "Write" || x.Call.Method.Name() == "Sum64" || x.Call.Method.Name() == "Reset") {
					hashOps = append(hashOps, at(in))
				} else if g := x.Call.StaticCallee(); g != nil && g.Blocks != nil && fnPkg(g) == fnPkg(fn) && g != fn && depth < 2 {
					collect(g, at(in), depth+1)
				}
			}
		})
	}
	collect(fn, nil, 0)
	if len(lookups) == 0 || len(updates) == 0 {
		anchorFail("validate.Ordered: map lookup/update not found")
	}
	between := func(a, b ssa.Instruction) bool {
		for _, o := range ops {
			if o.global == lock && (o.op == "Unlock" || o.op == "Lock") && !o.deferd {
				if instrReachAvoiding(a, o.in, nil) && instrReachAvoiding(o.in, b, nil) {
					return true
				}
			}
		}
		return false
	}
	bad := nLock != 1 || helperLocks
	for _, l := range lookups {
		for _, u := range updates {
			if between(l, u) {
				bad = true
			}
		}
	}
	c.Judge(!bad, "validate.Ordered lookup→update in one critical section", c.At(lookups[0]), "single Lock; no Lock/Unlock between reading the previous timestamp and storing the new one", "the previous timestamp is read and the new one stored in different critical sections: two connections sending the same name can both pass the check, so a timestamp is accepted twice or the stored value goes backwards")
	badH := false
	for i := 0; i+1 < len(hashOps); i++ {
		if between(hashOps[i], hashOps[i+1]) {
			badH = true
		}
	}
	if len(hashOps) > 0 {
		c.Judge(!badH, "validate.Ordered hash use in one critical section", c.At(hashOps[0]), fmt.Sprintf("%d hash operations without a lock boundary between them", len(hashOps)), "the shared hash object is written and summed in different critical sections")
	} else {
		c.Hold("validate.Ordered hash use in one critical section", c.AtFn(fn), "no shared hash object operations")
	}
	// the shared hasher is empty whenever a key is written into it: on every path either a Reset
	// precedes the first Write (enter-clean), or a Reset follows the last Write before the function
	// returns (leave-clean) — consistently for all paths
	if len(hashOps) > 0 {
		isShared := func(in ssa.Instruction) bool {
			call := in.(*ssa.Call)
			if !call.Call.IsInvoke() {
				// a helper's call site that stands for its hash operations on the package-level hasher
				return c.P.GlobalOpt("validate", "h") != nil
			}
			u, ok := call.Call.Value.(*ssa.UnOp)
			if !ok {
				return false
			}
			_, isG := u.X.(*ssa.Global)
			return isG
		}
		shared := false
		for _, h := range hashOps {
			if isShared(h) {
				shared = true
			}
		}
		if shared {
			cfg := &PathCfg{Inline: func(g *ssa.Function) bool { return fnPkg(g) == fnPkg(fn) }, Classify: func(in ssa.Instruction) []string {
				call, ok := in.(*ssa.Call)
				if !ok || !call.Call.IsInvoke() {
					return nil
				}
				switch call.Call.Method.Name() {
				case "Write", "Sum64", "Reset":
					if isShared(in) {
						return []string{"h." + call.Call.Method.Name()}
					}
				}
				return nil
			}}
			paths, trunc := EnumPaths(fn, nil, cfg)
			enterClean, leaveClean := true, true
			var w1, w2 string
			for i := range paths {
				pa := &paths[i]
				if pa.End != "return" || !pa.Has("h.Write") {
					continue
				}
				firstW, lastW, firstR, lastR := -1, -1, -1, -1
				for j, e := range pa.Events {
					switch e.Class {
					case "h.Write":
						if firstW < 0 {
							firstW = j
						}
						lastW = j
					case "h.Reset":
						if firstR < 0 {
							firstR = j
						}
						lastR = j
					}
				}
				if !(firstR >= 0 && firstR < firstW) {
					enterClean = false
					w1 = pa.String()
				}
				if !(lastR > lastW) {
					leaveClean = false
					w2 = pa.String()
				}
			}
			okH := !trunc && (enterClean || leaveClean)
			det := "some path returns with the key's bytes still in the shared hasher (" + w2 + ") and some path writes without resetting first (" + w1 + "): the next name is hashed together with the leftover bytes, lands under a key that was never seen and is accepted unchecked, while the real register is not updated"
			c.Judge(okH, "validate.Ordered leaves the shared hasher empty", c.AtFn(fn), fmt.Sprintf("%d paths: Reset on every path", len(paths)), det)
		}
	}
}

func c19r3(c *Check) {
	fn := c.P.Func("validate", "", "Ordered")
	m := c.P.Global("validate", "m")
	tsPar := fn.Params[1]
	var lookup *ssa.Lookup
	for _, f := range samePkgCallees(c.P, fn) {
		allInstrs(f, func(in ssa.Instruction) {
			if x, ok := in.(*ssa.Lookup); ok {
				if u, ok := x.X.(*ssa.UnOp); ok && u.X == m {
					lookup = x
				}
			}
		})
	}
	if lookup == nil {
		anchorFail("validate.Ordered: lookup not found")
	}
	// a value seen inside a helper of the package, traced back to Ordered: a helper's parameter is what its
	// (single) call site passes, a helper's result is what its (single) return returns
	trace := func(v ssa.Value) ssa.Value {
		for k := 0; k < 6; k++ {
			switch x := v.(type) {
			case *ssa.Parameter:
				if x.Parent() == fn {
					return v
				}
				args, ok := c.P.paramArgs(x)
				if !ok || len(args) != 1 {
					return v
				}
				v = args[0]
			case *ssa.Call:
				g := x.Call.StaticCallee()
				if g == nil || g.Blocks == nil || fnPkg(g) != fnPkg(fn) {
					return v
				}
				var rets []ssa.Value
				allInstrs(g, func(in ssa.Instruction) {
					if r, ok := in.(*ssa.Return); ok && len(r.Results) == 1 {
						rets = append(rets, r.Results[0])
					}
				})
				if len(rets) != 1 {
					return v
				}
				v = rets[0]
			default:
				return v
			}
		}
		return v
	}
	isTs := func(v ssa.Value) bool { return v == ssa.Value(tsPar) || trace(v) == ssa.Value(tsPar) }
	isOld := func(v ssa.Value) bool {
		if v == lookup {
			return true
		}
		if ex, ok := v.(*ssa.Extract); ok && ex.Tuple == lookup && ex.Index == 0 {
			return true
		}
		return false
	}
	cfg := &PathCfg{
		Inline: func(g *ssa.Function) bool { return fnPkg(g) == fnPkg(fn) },
		Classify: func(in ssa.Instruction) []string {
			if mu, ok := in.(*ssa.MapUpdate); ok {
				if u, ok := mu.Map.(*ssa.UnOp); ok && u.X == m {
					cls := "update"
					if !isTs(mu.Value) {
						cls += ":wrongvalue"
					}
					if mu.Key != lookup.Index {
						cls += ":wrongkey"
					}
					return []string{cls}
				}
			}
			return nil
		},
		Branch: func(ifi *ssa.If, cond ssa.Value, taken bool) []string {
			cond, neg := negStrip(cond)
			bo, ok := cond.(*ssa.BinOp)
			if !ok {
				return nil
			}
			// normalise to a relation "ts REL old"
			var rel token.Token
			switch {
			case isTs(bo.X) && isOld(bo.Y):
				rel = bo.Op
			case isTs(bo.Y) && isOld(bo.X):
				rel = flipRel(bo.Op)
			default:
				return nil
			}
			val := taken != neg
			if !val {
				rel = negRel(rel)
			}
			return []string{"ts" + rel.String() + "old"}
		},
	}
	paths, trunc := EnumPaths(fn, nil, cfg)
	var probs []string
	nAccept := 0
	for i := range paths {
		pa := &paths[i]
		upd := countPrefix(pa, "update")
		isNil := len(pa.Ret) == 1 && isNilConst(pa.Ret[0])
		switch {
		case pa.Has("ts>old"):
			nAccept++
			if upd != 1 || !pa.Has("update") {
				probs = append(probs, "accepting path does not store exactly ts under the looked-up key: "+pa.String())
			}
			if !isNil {
				probs = append(probs, "a strictly newer point is rejected: "+pa.String())
			}
		case pa.Has("ts<=old"):
			if upd != 0 {
				probs = append(probs, "a point that is not newer updates the table: "+pa.String())
			}
			if isNil || len(pa.Ret) != 1 {
				probs = append(probs, "a point that is not newer is accepted: "+pa.String())
			}
		default:
			probs = append(probs, "path without the strict comparison ts > previous: "+pa.String())
		}
	}
	if trunc || nAccept == 0 {
		probs = append(probs, "no accepting path `ts > previous` found")
	}
	if len(probs) > 0 {
		c.ViolateW("validate.Ordered strict comparison", c.AtFn(fn), probs[0], probs)
	} else {
		c.Hold("validate.Ordered strict comparison", c.AtFn(fn), fmt.Sprintf("%d paths: update only on ts > previous, with value ts and the looked-up key", len(paths)))
	}
	// key provenance: lookup key derives from hashing the key parameter
	keyPar := fn.Params[0]
	wrote := false
	for _, f := range samePkgCallees(c.P, fn) {
		allInstrs(f, func(in ssa.Instruction) {
			if call, ok := in.(*ssa.Call); ok && call.Call.IsInvoke() && call.Call.Method.Name() == "Write" && len(call.Call.Args) == 1 && trace(call.Call.Args[0]) == ssa.Value(keyPar) {
				wrote = true
			}
		})
	}
	sum := false
	if call, ok := trace(lookup.Index).(*ssa.Call); ok && call.Call.IsInvoke() && call.Call.Method.Name() == "Sum64" {
		sum = true
	}
	// or no hasher object at all: the key is an inline 64-bit FNV loop over the bytes of the name parameter
	// (in Ordered or in a helper of the package)
	inline := false
	if src, bits, ok := inlineFNV(lookup.Index); ok && bits == 64 && trace(src) == ssa.Value(keyPar) {
		inline = true
	}
	c.Judge((wrote && sum) || inline, "validate.Ordered key = hash(name parameter)", c.At(lookup), "the table key is Sum64 of a hash fed with the name parameter (or an inline 64-bit FNV over its bytes)", "the per-name table is not keyed by the hash of the name parameter")
	c.Hold("validate.Ordered paths enumerated", c.AtFn(fn), fmt.Sprintf("%d", len(paths)))
}

func flipRel(op token.Token) token.Token {
	switch op {
	case token.LSS:
		return token.GTR
	case token.GTR:
		return token.LSS
	case token.LEQ:
		return token.GEQ
	case token.GEQ:
		return token.LEQ
	}
	return op
}

func negRel(op token.Token) token.Token {
	switch op {
	case token.LSS:
		return token.GEQ
	case token.GTR:
		return token.LEQ
	case token.LEQ:
		return token.GTR
	case token.GEQ:
		return token.LSS
	case token.EQL:
		return token.NEQ
	case token.NEQ:
		return token.EQL
	}
	return op
}

func c19r4(c *Check) {
	for _, fn := range dispatcherImpls(c.P) {
		name := FuncName(fn)
		paths, trunc := EnumPaths(fn, nil, tableDispatchCfg())
		var probs []string
		nOn, nOOO := 0, 0
		for i := range paths {
			pa := &paths[i]
			oi := pa.Index("ordered")
			if pa.Has("ordercheck:on") {
				nOn++
				if pa.Count("ordered") != 1 {
					probs = append(probs, "order validation enabled but Ordered not called exactly once: "+pa.String())
					continue
				}
			}
			if pa.Has("ordercheck:off") && oi >= 0 {
				probs = append(probs, "Ordered is consulted although validate_order is off: "+pa.String())
			}
			if oi >= 0 {
				if !pa.Has("ordercheck:on") {
					probs = append(probs, "Ordered is not controlled by the snapshot's Validate_order: "+pa.String())
				}
				vi := pa.Index("valid")
				if vi < 0 || vi > oi {
					probs = append(probs, "Ordered runs before the validation gate: "+pa.String())
				}
				for j, e := range pa.Events {
					switch e.Class {
					case "matcher.match", "rw.Do", "addmaybe", "route.match", "route.dispatch":
						if j < oi {
							probs = append(probs, e.Class+" happens before the order check: "+pa.String())
						}
					}
				}
			}
			if pa.Has("outoforder") {
				nOOO++
				if pa.Count("inc:numOutOfOrder") != 1 || pa.Count("bad.Add") != 1 || pa.End != "return" {
					probs = append(probs, "out-of-order point must be counted once, reported once and dropped: "+pa.String())
				}
				for _, e := range eventsAfter(pa, "outoforder") {
					switch e.Class {
					case "addmaybe", "route.dispatch", "send", "route.match", "matcher.match":
						probs = append(probs, "out-of-order point is processed further ("+e.Class+"): "+pa.String())
					}
				}
			}
		}
		if trunc || nOn == 0 || nOOO == 0 {
			probs = append(probs, "no path with order validation enabled / rejecting found")
		}
		if len(probs) > 8 {
			probs = probs[:8]
		}
		if len(probs) > 0 {
			c.ViolateW(name+" order gate", c.AtFn(fn), probs[0], probs)
		} else {
			c.Hold(name+" order gate", c.AtFn(fn), fmt.Sprintf("%d paths, %d with the check on, %d rejecting", len(paths), nOn, nOOO))
		}
		allInstrs(fn, func(in ssa.Instruction) {
			call, ok := in.(*ssa.Call)
			if !ok || calleeName(call.Common()) != nOrdered {
				return
			}
			a0, ok0 := call.Call.Args[0].(*ssa.Extract)
			a1, ok1 := call.Call.Args[1].(*ssa.Extract)
			okA := ok0 && ok1 && a0.Index == 0 && a1.Index == 2
			if okA {
				_, k0 := callOf(a0, nValidatePacket)
				_, k1 := callOf(a1, nValidatePacket)
				okA = k0 && k1
			}
			c.Judge(okA, name+" Ordered(validated key, validated ts)", c.At(call), "arguments are ValidatePacket's key and timestamp", "Ordered is not given the canonical key and timestamp returned by ValidatePacket (e.g. the raw first field keeps a leading dot, so `.foo` and `foo` are tracked as different names)")
			// err reported with the key
		})
		for _, ba := range badAddSites(c.P, fn) {
			if _, isOrd := callOf(ba.args[2], nOrdered); isOrd {
				ex, _ := ba.args[0].(*ssa.Extract)
				_, okKey := callOf(ba.args[0], nValidatePacket)
				c.Judge(okKey && ex != nil && ex.Index == 0, name+" out-of-order reported under its name", c.At(ba.at), "bad.Add(key, line, err)", "the out-of-order point is not reported under its validated name")
			}
		}
	}
}

func c19r5(c *Check) { checkTableConfigLiterals(c) }

// checkTableConfigLiterals: every TableConfig built as a composite literal sets all of its fields.
func checkTableConfigLiterals(c *Check) {
	named := c.P.Named("table", "TableConfig")
	bad := incompleteLiterals(c.P, named)
	n := 0
	for _, fn := range c.P.Funcs {
		allInstrs(fn, func(in ssa.Instruction) {
			al, ok := in.(*ssa.Alloc)
			if !ok || al.Comment != "complit" {
				return
			}
			if pt, ok := al.Type().(*types.Pointer); !ok || !types.Identical(pt.Elem(), named) {
				return
			}
			nStores := 0
			for _, r := range *al.Referrers() {
				if fa, ok := r.(*ssa.FieldAddr); ok {
					nStores += len(*fa.Referrers())
				}
			}
			if nStores == 0 {
				return // TableConfig{} returned next to an error
			}
			n++
			key := FuncName(fn) + " TableConfig literal sets every field"
			if miss, isBad := bad[in]; isBad {
				c.Violate(key, c.At(in), "a table configuration is assembled without the fields "+strings.Join(miss, ", ")+": a copy made this way silently resets those settings (e.g. validate_order off, validation levels back to their zero value) at the next runtime change")
			} else {
				c.Hold(key, c.At(in), "all fields set")
			}
		})
	}
	if n == 0 {
		anchorFail("no TableConfig composite literal found")
	}
}

// calledUnderLock: every call site of fn (static calls only, at least one) lies in a region where
// the caller holds the package-level mutex `lock`, or in a helper for which the same holds.
func calledUnderLock(p *Prog, fn *ssa.Function, lock *ssa.Global, depth int) bool {
	if depth > 2 {
		return false
	}
	ins := p.CG().In[fn]
	if len(ins) == 0 {
		return false
	}
	for _, e := range ins {
		if e.Kind != EdgeCall || e.Dyn {
			return false
		}
		ops := mutexOps(e.Caller)
		same := func(m mutexOp) bool { return m.global == lock }
		if _, held := heldAt(ops, same, e.Site); held {
			continue
		}
		if len(ops) == 0 && calledUnderLock(p, e.Caller, lock, depth+1) {
			continue
		}
		return false
	}
	return true
}
