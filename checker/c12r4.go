package main

import (
	"go/types"

	"golang.org/x/tools/go/ssa"
)

// c12r4: the io.Reader wrappers of package input (TimeoutConn between the socket and the handlers) hand the
// underlying Read's count through. io.Reader allows n > 0 together with an error (EOF, deadline exceeded) and
// bufio.Scanner processes those bytes; a wrapper that answers (0, err) on the error path throws the end of the
// stream away. Matched by shape: a function of package input that takes a []byte, returns (int, error) and
// forwards that very buffer to a Read method (or to another such forwarder of the package); on every return the
// forwarding call can reach, result #0 is the count that call returned (through phis: on every edge that comes
// after the call).
func c12r4(c *Check) {
	pkg := c.P.Pkg("input").Types
	memo := map[*ssa.Function][]ssa.CallInstruction{}
	isCountErr := func(sig *types.Signature) bool {
		r := sig.Results()
		return r.Len() == 2 && types.Identical(r.At(0).Type(), types.Typ[types.Int]) && r.At(1).Type().String() == "error"
	}
	var forwards func(f *ssa.Function, depth int) []ssa.CallInstruction
	forwards = func(f *ssa.Function, depth int) []ssa.CallInstruction {
		if r, ok := memo[f]; ok {
			return r
		}
		memo[f] = nil
		if depth > 4 || !isCountErr(f.Signature) {
			return nil
		}
		var bufs []ssa.Value
		for _, p := range f.Params {
			if sl, ok := p.Type().Underlying().(*types.Slice); ok && types.Identical(sl.Elem(), types.Typ[types.Byte]) {
				bufs = append(bufs, p)
			}
		}
		if len(bufs) == 0 {
			return nil
		}
		var res []ssa.CallInstruction
		allInstrs(f, func(in ssa.Instruction) {
			call, ok := in.(*ssa.Call)
			if !ok || !isCountErr(call.Call.Signature()) {
				return
			}
			passes := false
			for _, a := range call.Call.Args {
				for _, b := range bufs {
					if strip(a) == b {
						passes = true
					}
				}
			}
			if !passes {
				return
			}
			cc := call.Common()
			switch {
			case cc.IsInvoke() && cc.Method.Name() == "Read":
				res = append(res, call)
			case cc.StaticCallee() != nil && cc.StaticCallee().Name() == "Read":
				res = append(res, call)
			case cc.StaticCallee() != nil && fnPkg(cc.StaticCallee()) == pkg && len(forwards(cc.StaticCallee(), depth+1)) > 0:
				res = append(res, call)
			}
		})
		memo[f] = res
		return res
	}
	n := 0
	for _, f := range c.P.Funcs {
		if fnPkg(f) != pkg || f.Synthetic != "" {
			continue
		}
		calls := forwards(f, 0)
		if len(calls) == 0 {
			continue
		}
		n++
		// blocks (and within the call's own block: instructions) that execute after a forwarding call
		after := map[*ssa.BasicBlock]bool{}
		callIn := map[*ssa.BasicBlock]ssa.CallInstruction{}
		for _, k := range calls {
			if _, ok := callIn[k.Block()]; !ok {
				callIn[k.Block()] = k // the first one of the block
			}
			for _, s := range k.Block().Succs {
				for b := range reachable(s, nil, nil) {
					after[b] = true // includes the call's own block when it lies on a cycle
				}
			}
		}
		follows := func(in ssa.Instruction) bool {
			if after[in.Block()] {
				return true
			}
			if k, ok := callIn[in.Block()]; ok {
				return ssa.Instruction(k) != in && instrDominates(k, in)
			}
			return false
		}
		seen := map[ssa.Value]bool{}
		var isCount func(v ssa.Value) bool
		isCount = func(v ssa.Value) bool {
			switch x := strip(v).(type) {
			case *ssa.Extract:
				if x.Index != 0 {
					return false
				}
				for _, k := range calls {
					if x.Tuple == k.Value() {
						return true
					}
				}
			case *ssa.Phi:
				if seen[x] {
					return true
				}
				seen[x] = true
				for i, e := range x.Edges {
					pred := x.Block().Preds[i]
					if !follows(pred.Instrs[len(pred.Instrs)-1]) {
						continue // this edge is taken before any underlying Read
					}
					if !isCount(e) {
						return false
					}
				}
				return true
			}
			return false
		}
		bad := ""
		allInstrs(f, func(in ssa.Instruction) {
			ret, ok := in.(*ssa.Return)
			if !ok || len(ret.Results) != 2 || !follows(ret) {
				return
			}
			seen = map[ssa.Value]bool{}
			if !isCount(ret.Results[0]) {
				bad = "the return at " + c.At(ret) + " reports " + ret.Results[0].String() + " instead of the count the underlying Read returned"
			}
		})
		c.Judge(bad == "", "input reader wrapper "+FuncName(f)+" passes the underlying Read's count through", c.AtFn(f), "every return after the underlying Read reports its n", bad+": bytes delivered together with an error (EOF, read deadline) are thrown away, so the last lines of a stream are lost or a line is processed as a fragment")
	}
	if n == 0 {
		anchorFail("package input: no io.Reader wrapper (a function forwarding its buffer to an underlying Read) found")
	}
}
