package main

// C10.R8 — the percentile processor interpolates between two NEIGHBOURING order
// statistics with a weight in [0, 1).
//
// Every percentile definition of the Hyndman–Fan family (the documented one is
// R6 / "third variant") yields a value between two adjacent samples of the
// sorted list; a weight outside [0, 1) extrapolates beyond them. The rule is a
// small sign/interval argument over the shape of the expression, not an
// evaluation:
//
//	result = a + w·(b − a)         a = s[i], b = s[i+1] of the same slice
//	w      = X − float(L)          L the integer part of the same X
//
// and w ∈ [0, 1) needs L = ⌊X⌋. `int(X)` truncates toward zero, which is the
// floor only for X ≥ 0, so either L comes from math.Floor, or an edge that
// dominates the expression establishes X ≥ 0 (a comparison of X with a constant,
// or L ≥ 1 — L ≥ 0 only gives X > −1). A clamped integer part (a phi, a
// math.Max inside the conversion) is not the integer part of the X the fraction
// is taken of. What X is (the rank formula) is arithmetic and stays undecided.

import (
	"fmt"
	"go/constant"
	"go/token"
	"go/types"

	"golang.org/x/tools/go/ssa"
)

// linear form  base + k  of an integer SSA value (k from +/- constants)
func linForm(v ssa.Value) (ssa.Value, int64) {
	var k int64
	for i := 0; i < 20; i++ {
		v = stripNoConv(v)
		bo, ok := v.(*ssa.BinOp)
		if !ok {
			break
		}
		if c, ok := constInt(bo.Y); ok && (bo.Op == token.ADD || bo.Op == token.SUB) {
			if bo.Op == token.ADD {
				k += c
			} else {
				k -= c
			}
			v = bo.X
			continue
		}
		if c, ok := constInt(bo.X); ok && bo.Op == token.ADD {
			k += c
			v = bo.Y
			continue
		}
		break
	}
	return v, k
}

func isFloat(t types.Type) bool {
	b, ok := t.Underlying().(*types.Basic)
	return ok && b.Info()&types.IsFloat != 0
}

// indexLoad: v = s[i] read from a slice of floats
func indexLoad(v ssa.Value) (slice, idx ssa.Value, ok bool) {
	u, isU := stripNoConv(v).(*ssa.UnOp)
	if !isU || u.Op != token.MUL {
		return nil, nil, false
	}
	ia, isIA := u.X.(*ssa.IndexAddr)
	if !isIA {
		return nil, nil, false
	}
	return ia.X, ia.Index, true
}

func sameSlice(a, b ssa.Value) bool {
	a, b = stripNoConv(a), stripNoConv(b)
	return a == b || sameLoc(a, b)
}

func floatConst(v ssa.Value) (float64, bool) {
	c, ok := v.(*ssa.Const)
	if !ok || c.Value == nil {
		return 0, false
	}
	switch c.Value.Kind() {
	case constant.Int, constant.Float:
		f, _ := constant.Float64Val(constant.ToFloat(c.Value))
		return f, true
	}
	return 0, false
}

// nonNegAt: an edge dominating `at` establishes x >= 0 for the float x, directly or through
// its truncation l (l >= 1). Returns the guarding instruction.
func nonNegAt(fn *ssa.Function, at ssa.Instruction, x ssa.Value, l ssa.Value) (ssa.Instruction, bool) {
	for _, b := range fn.Blocks {
		if len(b.Instrs) == 0 {
			continue
		}
		ifi, ok := b.Instrs[len(b.Instrs)-1].(*ssa.If)
		if !ok {
			continue
		}
		cond, neg := negStrip(ifi.Cond)
		bo, ok := cond.(*ssa.BinOp)
		if !ok {
			continue
		}
		for k, succ := range b.Succs {
			taken := (k == 0) != neg
			if !edgeDominates(b, succ, at.Block()) || succ == b {
				continue
			}
			// float comparison on x
			for side := 0; side < 2; side++ {
				val, cst := bo.X, bo.Y
				if side == 1 {
					val, cst = bo.Y, bo.X
				}
				op := bo.Op
				if side == 1 {
					op = flipRel(op)
				}
				if !taken {
					op = negRel(op)
				}
				if stripNoConv(val) == stripNoConv(x) {
					if f, ok := floatConst(cst); ok {
						// x op f holds
						if (op == token.GEQ || op == token.GTR || op == token.EQL) && f >= 0 {
							return ifi, true
						}
					}
				}
				if l != nil && stripNoConv(val) == stripNoConv(l) {
					if ci, ok := constInt(cst); ok {
						// l op ci holds; need l >= 1  (then x >= 1)
						if (op == token.GEQ && ci >= 1) || (op == token.GTR && ci >= 0) || (op == token.EQL && ci >= 1) {
							return ifi, true
						}
					}
				}
			}
		}
	}
	return nil, false
}

func c10r8(c *Check) {
	flush := c.P.Func("aggregator", "*Percentiles", "Flush")
	var fns []*ssa.Function
	for _, f := range samePkgCallees(c.P, flush) {
		fns = append(fns, withAnons(f)...)
	}
	c.Stat("C10.R8 functions searched", len(fns))
	found := 0
	for _, fn := range fns {
		allInstrs(fn, func(in ssa.Instruction) {
			mul, ok := in.(*ssa.BinOp)
			if !ok || mul.Op != token.MUL || !isFloat(mul.Type()) {
				return
			}
			// one operand is (b − a) of two element reads
			var diff *ssa.BinOp
			var w ssa.Value
			for side := 0; side < 2; side++ {
				d, o := mul.X, mul.Y
				if side == 1 {
					d, o = mul.Y, mul.X
				}
				if s, ok := stripNoConv(d).(*ssa.BinOp); ok && s.Op == token.SUB {
					if _, _, ok1 := indexLoad(s.X); ok1 {
						if _, _, ok2 := indexLoad(s.Y); ok2 {
							diff, w = s, o
						}
					}
				}
			}
			if diff == nil {
				return
			}
			found++
			key := fmt.Sprintf("%s interpolation weight", stableFuncName(fn))
			sb, ib, _ := indexLoad(diff.X)
			sa, ia, _ := indexLoad(diff.Y)
			baseA, kA := linForm(ia)
			baseB, kB := linForm(ib)
			if !sameSlice(sa, sb) || stripNoConv(baseA) != stripNoConv(baseB) || kB != kA+1 {
				c.Violate(key, c.At(mul), fmt.Sprintf("the two samples of the interpolation are not neighbours s[i], s[i+1] of one list (indices %s%+d and %s%+d)", describeVal(baseA), kA, describeVal(baseB), kB))
				return
			}
			// the sum: a + w·(b − a) with the same a
			okSum := false
			for _, r := range *mul.Referrers() {
				if add, ok := r.(*ssa.BinOp); ok && add.Op == token.ADD {
					other := add.X
					if stripNoConv(other) == ssa.Value(mul) {
						other = add.Y
					}
					if s2, i2, ok := indexLoad(other); ok && sameSlice(s2, sa) {
						b2, k2 := linForm(i2)
						if stripNoConv(b2) == stripNoConv(baseA) && k2 == kA {
							okSum = true
						}
					}
				}
			}
			if !okSum {
				c.Violate(key, c.At(mul), "w·(s[i+1] − s[i]) is not added to the lower sample s[i]")
				return
			}
			// w = X − float(L)
			ws, ok := stripNoConv(w).(*ssa.BinOp)
			if !ok || ws.Op != token.SUB {
				c.Undecided(key, c.At(mul), "the weight is not written as <rank> − <its integer part>: "+describeVal(w))
				return
			}
			x := stripNoConv(ws.X)
			var l ssa.Value // the integer part as an int value (nil when math.Floor is used)
			viaFloor := false
			switch y := stripNoConv(ws.Y).(type) {
			case *ssa.Convert:
				if isFloat(y.Type()) {
					lb, kl := linForm(y.X)
					if kl != 0 {
						c.Violate(key, c.At(mul), fmt.Sprintf("the weight subtracts int part %+d, not the integer part of the rank", kl))
						return
					}
					l = stripNoConv(lb)
				}
			case *ssa.Call:
				if calleeName(&y.Call) == "math.Floor" && len(y.Call.Args) == 1 && stripNoConv(y.Call.Args[0]) == x {
					viaFloor = true
				}
			}
			if !viaFloor {
				cv, isConv := l.(*ssa.Convert)
				if l == nil || !isConv {
					c.Violate(key, c.At(mul), "the integer part subtracted from the rank is not the truncation of that rank (clamped or merged value: "+describeVal(ws.Y)+"), so the weight can leave [0, 1)")
					return
				}
				inner := stripNoConv(cv.X)
				if call, ok := inner.(*ssa.Call); ok && calleeName(&call.Call) == "math.Floor" && len(call.Call.Args) == 1 && stripNoConv(call.Call.Args[0]) == x {
					viaFloor = true
				} else if inner != x {
					c.Violate(key, c.At(mul), "the integer part is taken of "+describeVal(inner)+", the fraction of "+describeVal(x)+": the weight is not the fractional part of one rank")
					return
				}
				// the lower index is derived from the same integer part
				if stripNoConv(baseA) != l {
					c.Violate(key, c.At(mul), "the lower sample's index is not derived from the integer part of the rank the weight is taken of")
					return
				}
			}
			if viaFloor {
				c.Hold(key, c.At(mul), "weight = rank − math.Floor(rank) ∈ [0,1); neighbouring samples")
				return
			}
			if g, ok := nonNegAt(fn, mul, x, l); ok {
				c.Hold(key, c.At(mul), "weight = rank − float(int(rank)) with rank ≥ 0 established at "+c.At(g)+"; neighbouring samples s[i], s[i+1]")
				return
			}
			c.Violate(key, c.At(mul), "int() truncates toward zero: nothing on the way to the interpolation establishes rank ≥ 0 (a test `int part ≥ 0` only gives rank > −1), so for a rank below the first sample the weight is negative and the result lies outside the two samples")
		})
	}
	if found == 0 {
		c.Undecided("(*Percentiles).Flush interpolation expression", c.AtFn(flush), "no expression of the form s[i] + w·(s[i+1] − s[i]) reachable from Flush in package aggregator: the percentile computation has a shape this rule does not know")
	}
}
