package main

// Byte-layout evaluation of a function that assembles a message in freshly allocated buffers.
//
// The content of every bytes.Buffer / []byte / [k]byte the function creates itself is kept as a
// sequence of segments — k zero bytes, a fixed-width integer in a byte order holding a symbolic
// value, the output of one Encoder.Encode call, the bytes of an opaque slice — whichever API puts
// them there: binary.Write, ByteOrder.PutUintNN / AppendUintNN, Buffer.Write, copy, append, an
// encoder that was handed the buffer.  Lengths are linear expressions over the (unknown) lengths
// of the variable-size segments, so `uint32(dataBuf.Len())`, `uint32(len(data))` and
// `uint32(len(message)-4)` all evaluate to "length of that encoder output" when — and only when —
// they are taken after the encoder has run.  Anything the evaluation does not model (a buffer that
// is not created here, a write under a condition, a slice taken before the buffer grew, an unknown
// callee receiving a tracked object) makes the layout unknown, which the rules report as undecided.

import (
	"fmt"
	"go/token"
	"go/types"
	"sort"
	"strings"

	"golang.org/x/tools/go/ssa"
)

// lenExpr: c + Σ coefficient·atom; an atom is the unknown, non-negative length of something.
type lenExpr struct {
	c int64
	t map[interface{}]int64
}

func lenConst(k int64) lenExpr { return lenExpr{c: k} }
func lenAtom(a interface{}) lenExpr {
	return lenExpr{t: map[interface{}]int64{a: 1}}
}
func (a lenExpr) add(b lenExpr, sign int64) lenExpr {
	r := lenExpr{c: a.c + sign*b.c, t: map[interface{}]int64{}}
	for k, v := range a.t {
		r.t[k] += v
	}
	for k, v := range b.t {
		r.t[k] += sign * v
	}
	for k, v := range r.t {
		if v == 0 {
			delete(r.t, k)
		}
	}
	return r
}
func (a lenExpr) isZero() bool { return a.c == 0 && len(a.t) == 0 }
func (a lenExpr) eq(b lenExpr) bool { return a.add(b, -1).isZero() }

// leq: a ≤ b for every non-negative valuation of the atoms
func (a lenExpr) leq(b lenExpr) bool {
	d := b.add(a, -1)
	if d.c < 0 {
		return false
	}
	for _, v := range d.t {
		if v < 0 {
			return false
		}
	}
	return true
}

type blSeg struct {
	kind  byte // 'Z' zero bytes, 'H' fixed-width integer, 'E' encoder output, 'D' bytes of an opaque slice
	n     lenExpr
	val   lenExpr // 'H': the encoded value
	be    bool    // 'H': big endian
	label string
}

type blLayout struct {
	segs    []blSeg
	gen     int    // advanced whenever the owning buffer may have re-allocated
	unknown string // why the content is not known
}

func (l *blLayout) total() lenExpr {
	t := lenConst(0)
	for _, s := range l.segs {
		t = t.add(s.n, 1)
	}
	return t
}

func (l *blLayout) String() string {
	if l.unknown != "" {
		return "unknown (" + l.unknown + ")"
	}
	var parts []string
	for _, s := range l.segs {
		parts = append(parts, "["+s.label+"]")
	}
	return strings.Join(parts, "")
}

type blView struct {
	l        *blLayout
	off, end lenExpr
	gen      int
}
type blEncoder struct{ l *blLayout }

type blState struct {
	fn        *ssa.Function
	abs       map[ssa.Value]interface{} // *blLayout (buffer), blView, lenExpr, blEncoder
	nEnc      int
	retBlock  *ssa.BasicBlock
	Ret       []interface{} // abstract values of the (single) return's results
	RetInstr  *ssa.Return
	Problem   string
	isEncoder func(name string) (newEnc, encode bool)
}

func (s *blState) evalInt(v ssa.Value) (lenExpr, bool) {
	if k, ok := constInt(v); ok {
		return lenConst(k), true
	}
	if a, ok := s.abs[v].(lenExpr); ok {
		return a, true
	}
	if b, ok := v.Type().Underlying().(*types.Basic); ok && b.Info()&types.IsInteger != 0 {
		return lenAtom(v), true
	}
	return lenExpr{}, false
}

// content of a slice operand: segments of a tracked view, or one opaque segment
func (s *blState) content(v ssa.Value) ([]blSeg, lenExpr, bool) {
	if c, ok := v.(*ssa.Const); ok && c.IsNil() {
		return nil, lenConst(0), true
	}
	if vw, ok := s.abs[v].(blView); ok {
		if vw.l.unknown != "" || vw.gen != vw.l.gen {
			return nil, lenExpr{}, false
		}
		segs, ok := sliceSegs(vw.l.segs, vw.off, vw.end)
		return segs, vw.end.add(vw.off, -1), ok
	}
	if _, tracked := s.abs[v]; tracked {
		return nil, lenExpr{}, false
	}
	n := lenAtom(v)
	return []blSeg{{kind: 'D', n: n, label: "bytes of " + describeVal(v)}}, n, true
}

// sliceSegs: the segments between two positions; a position inside a segment is only possible
// for filler (zero bytes), which is split
func sliceSegs(segs []blSeg, off, end lenExpr) ([]blSeg, bool) {
	pos := lenConst(0)
	var out []blSeg
	for _, sg := range segs {
		next := pos.add(sg.n, 1)
		p := pos
		pos = next
		switch {
		case sg.n.isZero() || next.leq(off) || end.leq(p):
			continue
		case off.leq(p) && next.leq(end):
			out = append(out, sg)
			continue
		}
		if sg.kind != 'Z' {
			return nil, false
		}
		lo, hi := p, next
		if p.leq(off) {
			lo = off
		} else if !off.leq(p) {
			return nil, false
		}
		if end.leq(next) {
			hi = end
		} else if !next.leq(end) {
			return nil, false
		}
		out = append(out, blSeg{kind: 'Z', n: hi.add(lo, -1), label: sg.label})
	}
	if !end.leq(pos) {
		return nil, false
	}
	return out, true
}

// overwrite the bytes [off, off+w) of l with segs
func (l *blLayout) overwrite(off, w lenExpr, segs []blSeg) bool {
	if w.isZero() {
		return true
	}
	pos := lenConst(0)
	for i, sg := range l.segs {
		next := pos.add(sg.n, 1)
		if !sg.n.isZero() && pos.leq(off) && off.add(w, 1).leq(next) {
			var repl []blSeg
			before := off.add(pos, -1)
			after := next.add(off.add(w, 1), -1)
			if !before.isZero() || !after.isZero() {
				if sg.kind != 'Z' {
					return false // part of something that is not plain filler
				}
			}
			if !before.isZero() {
				repl = append(repl, blSeg{kind: 'Z', n: before, label: "zero bytes"})
			}
			repl = append(repl, segs...)
			if !after.isZero() {
				repl = append(repl, blSeg{kind: 'Z', n: after, label: "zero bytes"})
			}
			l.segs = append(append(append([]blSeg{}, l.segs[:i]...), repl...), l.segs[i+1:]...)
			return true
		}
		pos = next
	}
	return false
}

func intSeg(width int64, be bool, val lenExpr, what string) blSeg {
	order := "little-endian"
	if be {
		order = "big-endian"
	}
	return blSeg{kind: 'H', n: lenConst(width), val: val, be: be, label: fmt.Sprintf("%d-byte %s %s", width, order, what)}
}

// byteOrderOf: the encoding/binary byte order a value denotes (BigEndian / LittleEndian, possibly boxed)
func byteOrderOf(v ssa.Value) (be, ok bool) {
	if mi, isMI := v.(*ssa.MakeInterface); isMI {
		v = mi.X
	}
	if u, isU := v.(*ssa.UnOp); isU && u.Op == token.MUL {
		if g, isG := u.X.(*ssa.Global); isG && g.Pkg != nil && g.Pkg.Pkg.Path() == "encoding/binary" {
			switch g.Name() {
			case "BigEndian":
				return true, true
			case "LittleEndian":
				return false, true
			}
		}
	}
	switch v.Type().String() {
	case "encoding/binary.bigEndian":
		return true, true
	case "encoding/binary.littleEndian":
		return false, true
	}
	return false, false
}

// byteOrderMethod: "(encoding/binary.bigEndian).PutUint32" → ("PutUint", 4, be)
func byteOrderMethod(name string) (op string, width int64, be, ok bool) {
	var rest string
	switch {
	case strings.HasPrefix(name, "(encoding/binary.bigEndian)."):
		be, rest = true, strings.TrimPrefix(name, "(encoding/binary.bigEndian).")
	case strings.HasPrefix(name, "(encoding/binary.littleEndian)."):
		rest = strings.TrimPrefix(name, "(encoding/binary.littleEndian).")
	case strings.HasPrefix(name, "(encoding/binary.ByteOrder)."):
		return "", 0, false, false
	default:
		return "", 0, false, false
	}
	for _, o := range []string{"PutUint", "AppendUint", "Uint"} {
		if strings.HasPrefix(rest, o) {
			switch strings.TrimPrefix(rest, o) {
			case "16":
				return o, 2, be, true
			case "32":
				return o, 4, be, true
			case "64":
				return o, 8, be, true
			}
		}
	}
	return "", 0, false, false
}

func fixedWidth(t types.Type) int64 {
	if p, ok := t.(*types.Pointer); ok {
		t = p.Elem()
	}
	if b, ok := t.Underlying().(*types.Basic); ok {
		switch b.Kind() {
		case types.Int8, types.Uint8, types.Bool:
			return 1
		case types.Int16, types.Uint16:
			return 2
		case types.Int32, types.Uint32, types.Float32:
			return 4
		case types.Int64, types.Uint64, types.Float64:
			return 8
		}
	}
	return 0
}

func isByteBuffer(t types.Type) bool {
	if p, ok := t.(*types.Pointer); ok {
		t = p.Elem()
	}
	return t.String() == "bytes.Buffer"
}

// evalByteLayout runs the evaluation over fn. isEncoder classifies callee names: the constructor
// that binds an encoder to an io.Writer argument, and the call that makes it emit one output.
func evalByteLayout(fn *ssa.Function, isEncoder func(name string) (newEnc, encode bool)) *blState {
	s := &blState{fn: fn, abs: map[ssa.Value]interface{}{}, isEncoder: isEncoder}
	for _, b := range fn.Blocks {
		if r, ok := b.Instrs[len(b.Instrs)-1].(*ssa.Return); ok {
			if s.RetInstr != nil {
				s.Problem = "more than one return"
				return s
			}
			s.RetInstr, s.retBlock = r, b
		}
	}
	if s.RetInstr == nil {
		s.Problem = "no return"
		return s
	}
	for _, b := range fn.DomPreorder() {
		uncond := b == s.retBlock || b.Dominates(s.retBlock)
		for _, in := range b.Instrs {
			s.step(in, uncond)
		}
	}
	for _, r := range s.RetInstr.Results {
		s.Ret = append(s.Ret, s.abs[r])
	}
	return s
}

func (s *blState) layoutsOf(v ssa.Value) *blLayout {
	switch a := s.abs[v].(type) {
	case *blLayout:
		return a
	case blView:
		return a.l
	case blEncoder:
		return a.l
	}
	return nil
}

func (s *blState) step(in ssa.Instruction, uncond bool) {
	mutate := func(l *blLayout, what string) bool {
		if !uncond && l.unknown == "" {
			l.unknown = what + " happens only under a condition"
		}
		return l.unknown == ""
	}
	spoilOperands := func(why string) {
		for _, op := range in.Operands(nil) {
			if *op == nil {
				continue
			}
			if l := s.layoutsOf(*op); l != nil && l.unknown == "" {
				l.unknown = why
			}
		}
	}
	switch x := in.(type) {
	case *ssa.DebugRef:
		return
	case *ssa.Alloc:
		et := x.Type().(*types.Pointer).Elem()
		if isByteBuffer(et) {
			s.abs[x] = &blLayout{}
		} else if arr, ok := et.Underlying().(*types.Array); ok {
			if b, ok := arr.Elem().Underlying().(*types.Basic); ok && b.Kind() == types.Uint8 {
				n := lenConst(arr.Len())
				s.abs[x] = blView{l: &blLayout{segs: []blSeg{{kind: 'Z', n: n, label: "zero bytes"}}}, end: n}
			}
		}
		return
	case *ssa.MakeSlice:
		if sl, ok := x.Type().Underlying().(*types.Slice); ok {
			if b, ok := sl.Elem().Underlying().(*types.Basic); ok && b.Kind() == types.Uint8 {
				if n, ok := s.evalInt(x.Len); ok {
					l := &blLayout{}
					if !n.isZero() {
						l.segs = []blSeg{{kind: 'Z', n: n, label: "zero bytes"}}
					}
					s.abs[x] = blView{l: l, end: n}
				}
			}
		}
		return
	case *ssa.MakeInterface:
		if a, ok := s.abs[x.X]; ok {
			s.abs[x] = a
		}
		return
	case *ssa.ChangeType:
		if a, ok := s.abs[x.X]; ok {
			s.abs[x] = a
		}
		return
	case *ssa.Convert:
		if a, ok := s.evalInt(x.X); ok {
			if _, isInt := s.evalInt(x); isInt {
				s.abs[x] = a
				return
			}
		}
	case *ssa.BinOp:
		a, oka := s.evalInt(x.X)
		b, okb := s.evalInt(x.Y)
		if oka && okb {
			switch x.Op {
			case token.ADD:
				s.abs[x] = a.add(b, 1)
			case token.SUB:
				s.abs[x] = a.add(b, -1)
			}
		}
		return
	case *ssa.Slice:
		vw, ok := s.abs[x.X].(blView)
		if !ok {
			break
		}
		nv := blView{l: vw.l, off: vw.off, end: vw.end, gen: vw.gen}
		if x.Low != nil {
			lo, ok := s.evalInt(x.Low)
			if !ok {
				break
			}
			nv.off = vw.off.add(lo, 1)
		}
		if x.High != nil {
			hi, ok := s.evalInt(x.High)
			if !ok {
				break
			}
			nv.end = vw.off.add(hi, 1)
		}
		s.abs[x] = nv
		return
	case *ssa.Return:
		return
	case *ssa.Call:
		if s.call(x, mutate) {
			return
		}
	}
	spoilOperands("used by an operation the layout evaluation does not model: " + strings.TrimSpace(in.String()))
}

func (s *blState) call(call *ssa.Call, mutate func(*blLayout, string) bool) bool {
	cc := call.Common()
	name := calleeName(cc)
	args := cc.Args
	buf := func(i int) *blLayout {
		if i < len(args) {
			if l, ok := s.abs[args[i]].(*blLayout); ok {
				return l
			}
		}
		return nil
	}
	appendTo := func(l *blLayout, segs []blSeg, what string) {
		if mutate(l, what) {
			l.segs = append(l.segs, segs...)
			l.gen++
		}
	}
	writeInto := func(dst blView, w lenExpr, segs []blSeg, what string) {
		l := dst.l
		if !mutate(l, what) {
			return
		}
		switch {
		case dst.gen != l.gen:
			l.unknown = what + " goes through a slice that was taken before the buffer grew (it may no longer share the buffer's memory)"
		case !dst.off.add(w, 1).leq(dst.end):
			l.unknown = what + " does not fit the destination slice"
		case !l.overwrite(dst.off, w, segs):
			l.unknown = what + " overwrites part of earlier content"
		}
	}
	switch name {
	case "builtin.len":
		if vw, ok := s.abs[args[0]].(blView); ok {
			s.abs[call] = vw.end.add(vw.off, -1)
			return true
		}
		if _, tracked := s.abs[args[0]]; !tracked {
			s.abs[call] = lenAtom(args[0])
			return true
		}
		return false
	case "builtin.copy":
		dst, ok := s.abs[args[0]].(blView)
		if !ok {
			return s.layoutsOf(args[0]) == nil // copying out of a tracked slice only reads it
		}
		segs, n, ok := s.content(args[1])
		if !ok {
			dst.l.unknown = "copy of content that is not known"
			return true
		}
		if !n.leq(dst.end.add(dst.off, -1)) {
			dst.l.unknown = "copy may be cut short by the destination's length"
			return true
		}
		writeInto(dst, n, segs, "copy")
		s.abs[call] = n
		return true
	case "builtin.append":
		a, _, oka := s.content(args[0])
		b, _, okb := s.content(args[1])
		nl := &blLayout{}
		if !oka || !okb {
			nl.unknown = "append of content that is not known"
		}
		nl.segs = append(append([]blSeg{}, a...), b...)
		s.abs[call] = blView{l: nl, end: nl.total()}
		return true
	case "bytes.NewBuffer":
		if c, ok := args[0].(*ssa.Const); ok && c.IsNil() {
			s.abs[call] = &blLayout{}
			return true
		}
		if vw, ok := s.abs[args[0]].(blView); ok {
			if vw.off.isZero() && vw.end.eq(vw.l.total()) {
				s.abs[call] = vw.l
				return true
			}
			// a shorter slice of a larger allocation (make with a capacity): the buffer starts with
			// that content; once it grows it no longer shares the memory, so later writes through
			// the original slice are not writes to the buffer
			if segs, _, ok := s.content(args[0]); ok {
				s.abs[call] = &blLayout{segs: append([]blSeg{}, segs...)}
				return true
			}
		}
		return false
	case "(*bytes.Buffer).Len":
		if l := buf(0); l != nil {
			s.abs[call] = l.total()
			return true
		}
	case "(*bytes.Buffer).Bytes":
		if l := buf(0); l != nil {
			s.abs[call] = blView{l: l, end: l.total(), gen: l.gen}
			return true
		}
	case "(*bytes.Buffer).Grow":
		if l := buf(0); l != nil {
			l.gen++
			return true
		}
	case "(*bytes.Buffer).Reset":
		if l := buf(0); l != nil {
			if mutate(l, "Reset") {
				l.segs = nil
				l.gen++
			}
			return true
		}
	case "(*bytes.Buffer).Write":
		if l := buf(0); l != nil {
			segs, _, ok := s.content(args[1])
			if !ok {
				l.unknown = "Write of content that is not known"
				return true
			}
			appendTo(l, segs, "Buffer.Write")
			return true
		}
	case "encoding/binary.Write":
		if l := buf(0); l != nil {
			be, okOrder := byteOrderOf(args[1])
			var w int64
			var val lenExpr
			okVal := false
			if mi, ok := args[2].(*ssa.MakeInterface); ok {
				w = fixedWidth(mi.X.Type())
				val, okVal = s.evalInt(mi.X)
			}
			if !okOrder || w == 0 || !okVal {
				l.unknown = "binary.Write of a value or byte order that is not known"
				return true
			}
			appendTo(l, []blSeg{intSeg(w, be, val, "integer")}, "binary.Write")
			return true
		}
	}
	if op, w, be, ok := byteOrderMethod(name); ok && len(args) >= 2 {
		switch op {
		case "PutUint":
			if dst, isV := s.abs[args[1]].(blView); isV {
				val, okVal := s.evalInt(args[2])
				if !okVal {
					dst.l.unknown = "PutUint of a value that is not known"
					return true
				}
				writeInto(dst, lenConst(w), []blSeg{intSeg(w, be, val, "integer")}, "PutUint")
				return true
			}
		case "AppendUint":
			a, _, oka := s.content(args[1])
			val, okVal := s.evalInt(args[2])
			nl := &blLayout{}
			if !oka || !okVal {
				nl.unknown = "AppendUint to content that is not known"
			}
			nl.segs = append(append([]blSeg{}, a...), intSeg(w, be, val, "integer"))
			s.abs[call] = blView{l: nl, end: nl.total()}
			return true
		}
	}
	if s.isEncoder != nil && name != "" {
		newEnc, encode := s.isEncoder(name)
		if newEnc && len(args) >= 1 {
			if l, ok := s.abs[args[0]].(*blLayout); ok {
				s.abs[call] = blEncoder{l: l}
				return true
			}
		}
		if encode && len(args) >= 1 {
			if e, ok := s.abs[args[0]].(blEncoder); ok {
				s.nEnc++
				atom := fmt.Sprintf("encoder output %d", s.nEnc)
				if mutate(e.l, "Encode") {
					e.l.segs = append(e.l.segs, blSeg{kind: 'E', n: lenAtom(atom), label: atom})
					e.l.gen++
				}
				return true
			}
		}
	}
	// a call that receives no tracked object is of no concern
	for _, a := range args {
		if s.layoutsOf(a) != nil {
			return false
		}
	}
	return true
}

// describeLen renders a length expression for messages
func describeLen(e lenExpr) string {
	var parts []string
	for k, v := range e.t {
		nm := ""
		switch a := k.(type) {
		case string:
			nm = "len(" + a + ")"
		case ssa.Value:
			nm = describeVal(a)
		default:
			nm = fmt.Sprint(a)
		}
		if v != 1 {
			nm = fmt.Sprintf("%d·%s", v, nm)
		}
		parts = append(parts, nm)
	}
	sort.Strings(parts)
	if e.c != 0 || len(parts) == 0 {
		parts = append(parts, fmt.Sprint(e.c))
	}
	return strings.Join(parts, " + ")
}
