package main

import (
	"go/types"
	"strings"

	"golang.org/x/tools/go/ssa"
)

// c09r10: whether the I/O loop reads the next record is decided by the cursors, never by the message.
//
// A record that has been read ahead and not yet handed over is "pending"; the loop must not call readOne again
// while one is pending (it would step the read-ahead cursor a second time and overwrite the pending message).
// Messages of any size are legal, the empty one included, so neither the length nor the nil-ness nor the content
// of the message buffer says whether a read-ahead is pending. Necessary condition: no branch condition that
// controls a call of readOne (in its function, or — for a helper — at the helper's call sites up to ioLoop)
// depends on the message value. The message value is what readOne returns as result #0 and what is sent on
// readChan, followed through phis, local cells and pointer parameters, []byte fields, helper parameters and
// helper results. Comparisons of the cursor fields and boolean flags assigned from constants remain free.
func c09r10(c *Check) {
	pkg := c.P.Pkg("nsqd").Types
	io := c.P.Func("nsqd", "*DiskQueue", "ioLoop")
	readChan := dqField(c, "readChan")
	var fns []*ssa.Function
	for _, f := range c.P.Funcs {
		if fnPkg(f) == pkg {
			fns = append(fns, f)
		}
	}
	isBytes := func(t types.Type) bool {
		sl, ok := t.Underlying().(*types.Slice)
		return ok && types.Identical(sl.Elem(), types.Typ[types.Byte])
	}
	isBytesPtr := func(t types.Type) bool {
		p, ok := t.Underlying().(*types.Pointer)
		return ok && isBytes(p.Elem())
	}
	// ---- the message values (M) and the cells that hold one
	M := map[ssa.Value]bool{}
	cellV := map[ssa.Value]bool{}  // Alloc / *[]byte parameter / free variable holding a message
	cellF := map[*types.Var]bool{} // struct fields holding a message
	changed := true
	addM := func(v ssa.Value) {
		if v == nil || M[v] || !isBytes(v.Type()) {
			return
		}
		if k, ok := v.(*ssa.Const); ok && k.IsNil() {
			return
		}
		M[v] = true
		changed = true
	}
	addCell := func(a ssa.Value) {
		switch x := a.(type) {
		case *ssa.FieldAddr:
			if f := fieldOfAddr(x); !cellF[f] {
				cellF[f] = true
				changed = true
			}
		default:
			if isBytesPtr(a.Type()) && !cellV[a] {
				cellV[a] = true
				changed = true
			}
		}
	}
	isCell := func(a ssa.Value) bool {
		if fa, ok := a.(*ssa.FieldAddr); ok {
			return cellF[fieldOfAddr(fa)]
		}
		return cellV[a]
	}
	nRoots := 0
	for _, f := range fns {
		allInstrs(f, func(in ssa.Instruction) {
			switch x := in.(type) {
			case *ssa.Extract:
				if call, ok := x.Tuple.(*ssa.Call); ok && x.Index == 0 && calleeName(call.Common()) == nsqdDQ+"readOne" {
					addM(x)
					nRoots++
				}
			case *ssa.Select:
				for _, st := range x.States {
					if st.Dir != types.SendOnly {
						continue
					}
					for _, leaf := range valueLeaves(st.Chan, 6) {
						if isFieldLoad(leaf, readChan) {
							addM(st.Send)
						}
					}
				}
			case *ssa.Send:
				for _, leaf := range valueLeaves(x.Chan, 6) {
					if isFieldLoad(leaf, readChan) {
						addM(x.X)
					}
				}
			}
		})
	}
	if nRoots == 0 {
		anchorFail("package nsqd: no call of readOne whose message result is used")
	}
	for iter := 0; changed && iter < 30; iter++ {
		changed = false
		for _, f := range fns {
			// free variables of closures are bound to the cells of the enclosing function
			allInstrs(f, func(in ssa.Instruction) {
				switch x := in.(type) {
				case *ssa.Phi:
					any := M[x]
					for _, e := range x.Edges {
						if M[e] {
							any = true
						}
					}
					if any && isBytes(x.Type()) {
						addM(x)
						for _, e := range x.Edges {
							addM(e)
						}
					}
				case *ssa.Slice:
					if M[x.X] {
						addM(x)
					}
				case *ssa.ChangeType:
					if M[x.X] {
						addM(x)
					}
				case *ssa.Store:
					if M[x.Val] {
						addCell(x.Addr)
					}
				case *ssa.UnOp:
					if x.Op.String() == "*" && isCell(x.X) {
						addM(x)
					}
				case *ssa.MakeClosure:
					if fn, ok := x.Fn.(*ssa.Function); ok {
						for i, b := range x.Bindings {
							if i < len(fn.FreeVars) && (cellV[b] != cellV[fn.FreeVars[i]]) {
								addCell(b)
								addCell(fn.FreeVars[i])
							}
						}
					}
				case *ssa.Return:
					for i, r := range x.Results {
						if !M[r] {
							continue
						}
						// the helper's result #i at every static call site
						for _, e := range c.P.CG().In[f] {
							call, ok := e.Site.(*ssa.Call)
							if !ok || call.Common().StaticCallee() != f {
								continue
							}
							if len(x.Results) == 1 {
								addM(call)
								continue
							}
							for _, ref := range *call.Referrers() {
								if ex, ok := ref.(*ssa.Extract); ok && ex.Index == i {
									addM(ex)
								}
							}
						}
					}
				}
				if cc := callCommon(in); cc != nil {
					if g := cc.StaticCallee(); g != nil && fnPkg(g) == pkg && len(g.Params) == len(cc.Args) {
						for i, a := range cc.Args {
							if M[a] {
								addM(g.Params[i])
							}
							if M[g.Params[i]] {
								addM(a)
							}
							if cellV[a] != cellV[g.Params[i]] && isBytesPtr(a.Type()) {
								addCell(a)
								addCell(g.Params[i])
							}
						}
					}
				}
			})
		}
	}
	// ---- does a (scalar) value depend on a message value?
	var dep func(v ssa.Value, depth int, seen map[ssa.Value]bool) string
	dep = func(v ssa.Value, depth int, seen map[ssa.Value]bool) string {
		if v == nil || seen[v] || depth > 12 {
			return ""
		}
		seen[v] = true
		if M[v] {
			return "the message buffer " + v.Name() + " (" + c.P.Pos(v.Pos()) + ")"
		}
		switch x := v.(type) {
		case *ssa.BinOp:
			if w := dep(x.X, depth+1, seen); w != "" {
				return w
			}
			return dep(x.Y, depth+1, seen)
		case *ssa.UnOp:
			if x.Op.String() != "*" {
				return dep(x.X, depth+1, seen)
			}
			if isCell(x.X) {
				return "the message buffer held in " + x.X.Name()
			}
			switch a := x.X.(type) {
			case *ssa.IndexAddr:
				return dep(a.X, depth+1, seen)
			case *ssa.Alloc, *ssa.FreeVar:
				// a local flag / counter: what is stored into it
				for _, f := range withAnons(outermost(x.Parent())) {
					w := ""
					allInstrs(f, func(in ssa.Instruction) {
						if st, ok := in.(*ssa.Store); ok && sameCell(st.Addr, a) && w == "" {
							w = dep(st.Val, depth+1, seen)
						}
					})
					if w != "" {
						return w
					}
				}
			case *ssa.FieldAddr:
				// a boolean flag kept in the queue: what is stored into it anywhere in the package
				if b, ok := x.Type().Underlying().(*types.Basic); ok && b.Kind() == types.Bool {
					fld := fieldOfAddr(a)
					for _, f := range fns {
						w := ""
						allInstrs(f, func(in ssa.Instruction) {
							if st, ok := in.(*ssa.Store); ok && w == "" {
								if fa, ok := st.Addr.(*ssa.FieldAddr); ok && fieldOfAddr(fa) == fld {
									w = dep(st.Val, depth+1, seen)
								}
							}
						})
						if w != "" {
							return w
						}
					}
				}
			}
		case *ssa.Phi:
			for _, e := range x.Edges {
				if w := dep(e, depth+1, seen); w != "" {
					return w
				}
			}
		case *ssa.Convert:
			return dep(x.X, depth+1, seen)
		case *ssa.ChangeType:
			return dep(x.X, depth+1, seen)
		case *ssa.Slice:
			return dep(x.X, depth+1, seen)
		case *ssa.Index:
			return dep(x.X, depth+1, seen)
		case *ssa.Lookup:
			return dep(x.X, depth+1, seen)
		case *ssa.Extract:
			if call, ok := x.Tuple.(*ssa.Call); ok {
				return depCall(c, call, x.Index, depth, seen, dep, pkg, M)
			}
		case *ssa.Call:
			return depCall(c, x, 0, depth, seen, dep, pkg, M)
		case *ssa.Parameter:
			if args, ok := c.P.paramArgs(x); ok {
				for _, a := range args {
					if w := dep(a, depth+1, seen); w != "" {
						return w
					}
				}
			}
		}
		return ""
	}
	// ---- the conditions that control a call of readOne
	type site struct {
		in    ssa.Instruction
		depth int
	}
	var work []site
	for _, f := range fns {
		allInstrs(f, func(in ssa.Instruction) {
			if isCallNamed(in, nsqdDQ+"readOne") {
				work = append(work, site{in, 0})
			}
		})
	}
	if len(work) == 0 {
		anchorFail("package nsqd: no call of readOne")
	}
	doneFn := map[*ssa.Function]bool{}
	n := 0
	for len(work) > 0 {
		s := work[0]
		work = work[1:]
		f := s.in.Parent()
		bad := ""
		for _, b := range f.Blocks {
			ifi, ok := b.Instrs[len(b.Instrs)-1].(*ssa.If)
			if !ok || len(b.Succs) != 2 {
				continue
			}
			stop := map[*ssa.BasicBlock]bool{b: true}
			r0 := b.Succs[0] != b && reachable(b.Succs[0], nil, stop)[s.in.Block()]
			r1 := b.Succs[1] != b && reachable(b.Succs[1], nil, stop)[s.in.Block()]
			if r0 == r1 {
				continue // not a decision about this call
			}
			if w := dep(ifi.Cond, 0, map[ssa.Value]bool{}); w != "" {
				bad = "the test at " + c.At(ifi) + " depends on " + w
			}
		}
		n++
		what := "the call of readOne in " + FuncName(f)
		if s.depth > 0 {
			what = "the call of " + short(calleeName(callCommon(s.in))) + " (which reads ahead) in " + FuncName(f)
		}
		c.Judge(bad == "", "nsqd read-ahead decision in "+FuncName(f)+" is taken on the cursors", c.At(s.in), "no condition controlling "+what+" depends on the message buffer", bad+" and decides whether "+what+" is executed: a zero-length message that is pending looks like no message, so the next record is read over it — the empty message is lost and the read-ahead cursor is stepped twice")
		// a helper: the decision may be taken by its callers
		if f != io && !doneFn[f] && s.depth < 3 {
			doneFn[f] = true
			for _, e := range c.P.CG().In[f] {
				if e.Kind == EdgeCall && e.Site != nil && fnPkg(e.Caller) == pkg && !strings.HasSuffix(e.Caller.Name(), "$bound") {
					work = append(work, site{e.Site, s.depth + 1})
				}
			}
		}
	}
}

// depCall: dependence of result #idx of a call on a message value: through the arguments of a builtin or a foreign
// function (len, cap, bytes.Equal, string conversions), through the returned values of a helper of the package.
func depCall(c *Check, call *ssa.Call, idx, depth int, seen map[ssa.Value]bool, dep func(ssa.Value, int, map[ssa.Value]bool) string, pkg *types.Package, M map[ssa.Value]bool) string {
	cc := call.Common()
	if calleeName(cc) == nsqdDQ+"readOne" {
		return "" // result #1 is the error; #0 is a message value and was recognised before
	}
	g := cc.StaticCallee()
	if g != nil && fnPkg(g) == pkg && len(g.Blocks) > 0 {
		w := ""
		allInstrs(g, func(in ssa.Instruction) {
			if ret, ok := in.(*ssa.Return); ok && idx < len(ret.Results) && w == "" {
				w = dep(ret.Results[idx], depth+1, seen)
			}
		})
		return w
	}
	if _, isSel := call.Call.Value.(*ssa.Builtin); isSel || g != nil || cc.IsInvoke() {
		for _, a := range cc.Args {
			if M[a] {
				return "the message buffer " + a.Name() + " (" + short(calleeName(cc)) + ")"
			}
			if _, ok := call.Call.Value.(*ssa.Builtin); ok {
				if w := dep(a, depth+1, seen); w != "" {
					return w
				}
			}
		}
	}
	return ""
}

func outermost(f *ssa.Function) *ssa.Function {
	for f.Parent() != nil {
		f = f.Parent()
	}
	return f
}

// sameCell: the address a store writes is the local cell `cell` (an Alloc, or the free variable bound to it).
func sameCell(addr ssa.Value, cell ssa.Value) bool {
	if addr == cell {
		return true
	}
	resolve := func(v ssa.Value) ssa.Value {
		if fv, ok := v.(*ssa.FreeVar); ok {
			fn := fv.Parent()
			for i, x := range fn.FreeVars {
				if x != fv {
					continue
				}
				if p := fn.Parent(); p != nil {
					for _, b := range p.Blocks {
						for _, in := range b.Instrs {
							if mc, ok := in.(*ssa.MakeClosure); ok && mc.Fn == ssa.Value(fn) && i < len(mc.Bindings) {
								return mc.Bindings[i]
							}
						}
					}
				}
			}
		}
		return v
	}
	return resolve(addr) == resolve(cell)
}
