package main

import (
	"fmt"
	"go/token"
	"go/types"
	"sort"
	"strings"

	"golang.org/x/tools/go/ssa"
)

func init() {
	register(&PropDef{
		ID:    "C08",
		Title: "The disk spool queue recovers consistently from a crash at any point",
		Decided: "the durability protocol, not recovery behaviour: R1 sync() fsyncs the data file before it persists metadata and a failed data sync persists nothing; " +
			"R2 metadata is replaced atomically: the only path to rename(tmp → final) passes create(tmp) → formatted write → fsync → close, rename's arguments are (name+\".tmp\", name), and nothing opens the final metadata name for writing; " +
			"R3 on segment rollover the write position is advanced to the new segment before the forced sync, the reader's change of segment requests a sync, and the I/O loop performs a requested sync before the next read or select; " +
			"R4 every filesystem-mutating call reachable from the queue's loop, constructor and Close is one of the reviewed crash points; a new or moved site fails until reviewed; " +
			"R5 writer and reader reopen a segment at the persisted position (Seek to writePos / readPos); " +
			"R6 after a read error the reader's look-ahead position is re-established from the already advanced read position (next file, offset 0).",
		NotDecided: "what a reopened queue actually delivers from each intermediate on-disk state (needs execution or a model of the file system); torn writes inside a record.",
		Rules: []RuleDef{
			{ID: "C08.R1", Min: 1, Doc: "data before metadata: path enumeration of (*DiskQueue).sync", Run: c08r1},
			{ID: "C08.R2", Min: 3, Doc: "atomic metadata replace: path enumeration of persistMetaData; provenance of the Rename arguments; write-mode opens of the metadata name", Run: c08r2},
			{ID: "C08.R3", Min: 4, Doc: "rollover / reader file change are synced: ordering of position stores and sync() in writeOne's rollover branch; needSync set in moveForward's file-change branch and in handleReadError; ioLoop runs sync() under needSync before reading/selecting", Run: c08r3},
			{ID: "C08.R4", Min: 8, Doc: "crash-point inventory: filesystem-mutating calls reachable from ioLoop, NewDiskQueue, Close, Delete compared with the reviewed list", Run: c08r4},
			{ID: "C08.R5", Min: 2, Doc: "resume at persisted position: Seek(writePos/readPos, 0) follows the open of the segment under `pos > 0`", Run: c08r5},
			{ID: "C08.R6", Min: 2, Doc: "handleReadError: nextReadFileNum is loaded from readFileNum after its increment; nextReadPos is 0 or loaded from readPos after it was set to 0", Run: c08r6},
			{ID: "C08.R7", Min: 3, Doc: "metadata content: persistMetaData writes, and retrieveMetaData reads back, depth, readFileNum, readPos, writeFileNum, writePos in this order with the same format string; the consumer cursor (not the read-ahead cursor nextRead*) is what is persisted, and the read-ahead cursor is re-derived from it on load", Run: c08r7},
		},
	})
}

func c08r7(c *Check) {
	want := []string{"depth", "readFileNum", "readPos", "writeFileNum", "writePos"}
	pm := c.P.Func("nsqd", "*DiskQueue", "persistMetaData")
	rm := c.P.Func("nsqd", "*DiskQueue", "retrieveMetaData")
	// writer
	var wfmt, rfmt string
	var wnames, rnames []string
	var wcall, rcall ssa.Instruction
	allInstrs(pm, func(in ssa.Instruction) {
		call, ok := in.(*ssa.Call)
		if !ok || calleeName(call.Common()) != "fmt.Fprintf" {
			return
		}
		wcall = in
		wfmt, _ = constString(call.Call.Args[1])
		elems, ok := variadicElems(call.Call.Args[2])
		if !ok {
			return
		}
		for _, e := range elems {
			name := "?"
			if cl, ok := e.(*ssa.Call); ok && calleeName(cl.Common()) == "sync/atomic.LoadInt64" {
				if fa, ok := cl.Call.Args[0].(*ssa.FieldAddr); ok {
					name = fieldOfAddr(fa).Name()
				}
			} else if _, f, ok := fieldLoad(e); ok {
				name = f.Name()
			}
			wnames = append(wnames, name)
		}
	})
	if wcall == nil {
		anchorFail("persistMetaData: no fmt.Fprintf call")
	}
	c.Judge(strings.Join(wnames, ",") == strings.Join(want, ","), "nsqd.persistMetaData persists depth and the consumer/writer cursors", c.At(wcall), "writes "+strings.Join(want, ", "), fmt.Sprintf("the metadata file is written from %v instead of %v: after a restart the queue resumes at a position that is not the first undelivered message / the end of the written data", wnames, want))
	// reader
	depthVia := ""
	allInstrs(rm, func(in ssa.Instruction) {
		call, ok := in.(*ssa.Call)
		if !ok || calleeName(call.Common()) != "fmt.Fscanf" {
			return
		}
		rcall = in
		rfmt, _ = constString(call.Call.Args[1])
		elems, ok := variadicElems(call.Call.Args[2])
		if !ok {
			return
		}
		for _, e := range elems {
			name := "?"
			switch a := e.(type) {
			case *ssa.FieldAddr:
				name = fieldOfAddr(a).Name()
			case *ssa.Alloc:
				// a local that is afterwards stored into a field (atomic.StoreInt64(&d.depth, depth))
				for _, r := range *a.Referrers() {
					ld, ok := r.(*ssa.UnOp)
					if !ok {
						continue
					}
					for _, rr := range *ld.Referrers() {
						if cl, ok := rr.(*ssa.Call); ok && calleeName(cl.Common()) == "sync/atomic.StoreInt64" && cl.Call.Args[1] == ssa.Value(ld) {
							if fa, ok := cl.Call.Args[0].(*ssa.FieldAddr); ok {
								name = fieldOfAddr(fa).Name()
								depthVia = "atomic.StoreInt64"
							}
						}
						if st, ok := rr.(*ssa.Store); ok && st.Val == ssa.Value(ld) {
							if fa, ok := st.Addr.(*ssa.FieldAddr); ok {
								name = fieldOfAddr(fa).Name()
							}
						}
					}
				}
			}
			rnames = append(rnames, name)
		}
	})
	_ = depthVia
	if rcall == nil {
		anchorFail("retrieveMetaData: no fmt.Fscanf call")
	}
	c.Judge(strings.Join(rnames, ",") == strings.Join(want, ","), "nsqd.retrieveMetaData restores depth and the consumer/writer cursors", c.At(rcall), "reads into "+strings.Join(want, ", "), fmt.Sprintf("the metadata file is read into %v instead of %v", rnames, want))
	c.Judge(wfmt == rfmt && wfmt != "", "nsqd metadata format agrees between writer and reader", c.At(wcall), fmt.Sprintf("%q", wfmt), fmt.Sprintf("persistMetaData writes %q but retrieveMetaData parses %q", wfmt, rfmt))
	// read-ahead cursor re-derived from the consumer cursor
	derived := map[string]string{}
	allInstrs(rm, func(in ssa.Instruction) {
		st, ok := in.(*ssa.Store)
		if !ok {
			return
		}
		fa, ok := st.Addr.(*ssa.FieldAddr)
		if !ok {
			return
		}
		if _, f, ok := fieldLoad(st.Val); ok && instrDominates(rcall, in) {
			derived[fieldOfAddr(fa).Name()] = f.Name()
		}
	})
	c.Judge(derived["nextReadFileNum"] == "readFileNum" && derived["nextReadPos"] == "readPos", "nsqd.retrieveMetaData read-ahead cursor starts at the consumer cursor", c.AtFn(rm), "nextReadFileNum = readFileNum; nextReadPos = readPos after the metadata was parsed", fmt.Sprintf("after loading the metadata the read-ahead cursor is set from %v: the first message read after a restart is not the first undelivered one", derived))
}

const nsqdDQ = "(*" + modPath + "/nsqd.DiskQueue)."

func dqField(c *Check, name string) *types.Var { return c.P.Field("nsqd", "DiskQueue", name) }

func c08r1(c *Check) {
	fn := c.P.Func("nsqd", "*DiskQueue", "sync")
	wf := dqField(c, "writeFile")
	cfg := &PathCfg{
		Classify: func(in ssa.Instruction) []string {
			cc := callCommon(in)
			if cc == nil {
				return nil
			}
			switch calleeName(cc) {
			case "(*os.File).Sync":
				if isFieldLoad(cc.Args[0], wf) {
					return []string{"data.fsync"}
				}
			case nsqdDQ + "persistMetaData":
				return []string{"persist"}
			}
			return nil
		},
		Branch: func(ifi *ssa.If, cond ssa.Value, taken bool) []string {
			if e, errEdge, ok := errTest(cond); ok {
				if _, isSync := callOf(e, "(*os.File).Sync"); isSync {
					if taken == errEdge {
						return []string{"fsync:failed"}
					}
					return []string{"fsync:ok"}
				}
				if isFieldLoad(e, wf) {
					if taken == errEdge {
						return []string{"file:open"}
					}
					return []string{"file:none"}
				}
			}
			return nil
		},
	}
	paths, _ := EnumPaths(fn, nil, cfg)
	var probs []string
	nPersist := 0
	for i := range paths {
		pa := &paths[i]
		if pa.Has("persist") {
			nPersist++
			if pa.Has("file:open") && (pa.Index("data.fsync") < 0 || pa.Index("data.fsync") > pa.Index("persist")) {
				probs = append(probs, "metadata is persisted before (or without) fsyncing the open data file: after a crash the metadata points past data that never reached the disk: "+pa.String())
			}
			if pa.Has("fsync:failed") {
				probs = append(probs, "metadata is persisted although the data fsync failed: "+pa.String())
			}
		}
		if !pa.Has("file:open") && !pa.Has("file:none") {
			probs = append(probs, "sync does not distinguish an open data file: "+pa.String())
		}
	}
	if nPersist == 0 {
		probs = append(probs, "sync never persists metadata")
	}
	if len(probs) > 0 {
		c.ViolateW("nsqd.DiskQueue.sync data before metadata", c.AtFn(fn), probs[0], probs)
	} else {
		c.Hold("nsqd.DiskQueue.sync data before metadata", c.AtFn(fn), fmt.Sprintf("%d paths", len(paths)))
	}
}

func c08r2(c *Check) {
	fn := c.P.Func("nsqd", "*DiskQueue", "persistMetaData")
	var rename *ssa.Call
	cfg := &PathCfg{Classify: func(in ssa.Instruction) []string {
		cc := callCommon(in)
		if cc == nil {
			return nil
		}
		switch calleeName(cc) {
		case "os.OpenFile":
			return []string{"open"}
		case "fmt.Fprintf":
			return []string{"write"}
		case "(*os.File).Sync":
			return []string{"fsync"}
		case "(*os.File).Close":
			return []string{"close"}
		case "os.Rename":
			return []string{"rename"}
		}
		return nil
	}}
	allInstrs(fn, func(in ssa.Instruction) {
		if call, ok := in.(*ssa.Call); ok && calleeName(call.Common()) == "os.Rename" {
			rename = call
		}
	})
	paths, _ := EnumPaths(fn, nil, cfg)
	bad := ""
	nRen := 0
	for i := range paths {
		pa := &paths[i]
		if !pa.Has("rename") {
			continue
		}
		nRen++
		var seq []string
		for _, e := range pa.Events {
			seq = append(seq, e.Class)
		}
		if strings.Join(seq, ",") != "open,write,fsync,close,rename" {
			bad = "the metadata file is renamed into place after [" + strings.Join(seq, ",") + "] instead of open,write,fsync,close,rename: " + pa.String()
		}
	}
	c.Judge(bad == "" && nRen > 0, "nsqd.persistMetaData tmp → fsync → close → rename", c.AtFn(fn), fmt.Sprintf("%d renaming paths", nRen), bad+" — a crash can then leave a truncated or stale metadata file under the final name")
	if rename == nil {
		c.Violate("nsqd.persistMetaData rename(tmp, final)", c.AtFn(fn), "no os.Rename: the metadata file is written in place")
		return
	}
	// args: (fileName + ".tmp", fileName), fileName = metaDataFileName()
	okArgs := false
	if bo, ok := rename.Call.Args[0].(*ssa.BinOp); ok && bo.Op == token.ADD {
		if s, ok := constString(bo.Y); ok && s == ".tmp" && bo.X == rename.Call.Args[1] {
			if call, ok := bo.X.(*ssa.Call); ok && calleeName(call.Common()) == nsqdDQ+"metaDataFileName" {
				okArgs = true
			}
		}
	}
	// the opened file is the tmp name
	okOpen := false
	allInstrs(fn, func(in ssa.Instruction) {
		if call, ok := in.(*ssa.Call); ok && calleeName(call.Common()) == "os.OpenFile" && call.Call.Args[0] == rename.Call.Args[0] {
			okOpen = true
		}
	})
	c.Judge(okArgs && okOpen, "nsqd.persistMetaData rename(name+\".tmp\", name)", c.At(rename), "the temporary file written is the one renamed over the metadata file", "rename arguments are not (metadata name + \".tmp\", metadata name) of the file just written")
	// nobody else opens the metadata name for writing
	nOpen := 0
	badOpen := ""
	for _, f := range c.P.Funcs {
		if pk := fnPkg(f); pk == nil || pk.Path() != modPath+"/nsqd" {
			continue
		}
		allInstrs(f, func(in ssa.Instruction) {
			call, ok := in.(*ssa.Call)
			if !ok || calleeName(call.Common()) != "os.OpenFile" {
				return
			}
			nOpen++
			flags, _ := constInt(call.Call.Args[1])
			writable := flags&3 != 0 || flags&0x40 != 0 // O_WRONLY|O_RDWR, O_CREATE
			if nm, ok := call.Call.Args[0].(*ssa.Call); ok && calleeName(nm.Common()) == nsqdDQ+"metaDataFileName" && writable {
				badOpen = FuncName(f) + " at " + c.At(call)
			}
		})
	}
	c.Judge(badOpen == "" && nOpen >= 3, "nsqd: the final metadata name is never opened for writing", c.AtFn(fn), fmt.Sprintf("%d OpenFile calls inspected", nOpen), "the metadata file is opened for writing in place at "+badOpen)
}

func c08r3(c *Check) {
	wo := c.P.Func("nsqd", "*DiskQueue", "writeOne")
	wfn, wpos, maxB, needSync := dqField(c, "writeFileNum"), dqField(c, "writePos"), dqField(c, "maxBytesPerFile"), dqField(c, "needSync")
	// rollover branch: If (writePos > maxBytesPerFile)
	var rollIf *ssa.If
	allInstrs(wo, func(in ssa.Instruction) {
		if ifi, ok := in.(*ssa.If); ok {
			if bo, ok := ifi.Cond.(*ssa.BinOp); ok && isFieldLoad(bo.X, wpos) && isFieldLoad(bo.Y, maxB) {
				rollIf = ifi
			}
		}
	})
	if rollIf == nil {
		anchorFail("writeOne: rollover test not found")
	}
	var syncCall ssa.Instruction
	var stores []ssa.Instruction
	region := reachable(rollIf.Block().Succs[0], nil, nil)
	for b := range region {
		if !rollIf.Block().Succs[0].Dominates(b) {
			continue
		}
		for _, in := range b.Instrs {
			if isCallNamed(in, nsqdDQ+"sync") {
				syncCall = in
			}
			if st, ok := in.(*ssa.Store); ok {
				if fa, ok := st.Addr.(*ssa.FieldAddr); ok && (fieldOfAddr(fa) == wfn || fieldOfAddr(fa) == wpos) {
					stores = append(stores, st)
				}
			}
		}
	}
	okOrder := syncCall != nil && len(stores) == 2
	for _, st := range stores {
		if syncCall == nil || !instrDominates(st, syncCall) {
			okOrder = false
		}
	}
	c.Judge(okOrder, "nsqd.writeOne rollover: advance to the new segment, then sync", c.At(rollIf), "writeFileNum++ and writePos = 0 precede the forced sync()", "on rollover the forced sync persists the old segment number with a position beyond the segment limit (or no sync happens): after a crash the reader fails on the missing record and the queue hangs in its error loop")
	// moveForward: file change sets needSync
	mf := c.P.Func("nsqd", "*DiskQueue", "moveForward")
	okNS := false
	allInstrs(mf, func(in ssa.Instruction) {
		ifi, ok := in.(*ssa.If)
		if !ok {
			return
		}
		bo, ok := ifi.Cond.(*ssa.BinOp)
		if !ok || bo.Op != token.NEQ {
			return
		}
		for _, x := range ifi.Block().Succs[0].Instrs {
			if st, ok := x.(*ssa.Store); ok {
				if fa, ok := st.Addr.(*ssa.FieldAddr); ok && fieldOfAddr(fa) == needSync {
					if v, ok := constBool(st.Val); ok && v {
						okNS = true
					}
				}
			}
		}
	})
	c.Judge(okNS, "nsqd.moveForward requests a sync when the reader changes segment", c.AtFn(mf), "needSync = true in the file-change branch (the old segment is removed there)", "the consumed segment is removed without requesting a metadata sync: after a crash the persisted read position names a file that no longer exists")
	hre := c.P.Func("nsqd", "*DiskQueue", "handleReadError")
	okH := false
	allInstrs(hre, func(in ssa.Instruction) {
		if st, ok := in.(*ssa.Store); ok {
			if fa, ok := st.Addr.(*ssa.FieldAddr); ok && fieldOfAddr(fa) == needSync {
				if v, ok := constBool(st.Val); ok && v {
					okH = true
				}
			}
		}
	})
	c.Judge(okH, "nsqd.handleReadError requests a sync", c.AtFn(hre), "needSync = true", "skipping a bad segment is not followed by a metadata sync")
	// ioLoop: if needSync { sync() } before read and select
	io := c.P.Func("nsqd", "*DiskQueue", "ioLoop")
	var sel *ssa.Select
	var syncInLoop ssa.Instruction
	allInstrs(io, func(in ssa.Instruction) {
		if s, ok := in.(*ssa.Select); ok {
			sel = s
		}
		if isCallNamed(in, nsqdDQ+"sync") {
			syncInLoop = in
		}
	})
	okLoop := false
	if sel != nil && syncInLoop != nil {
		// the sync call is guarded by needSync and every path from the loop header to the select passes the test
		for _, b := range io.Blocks {
			if ifi, ok := b.Instrs[len(b.Instrs)-1].(*ssa.If); ok && isFieldLoad(ifi.Cond, needSync) {
				if edgeDominates(b, b.Succs[0], syncInLoop.Block()) && b.Dominates(sel.Block()) {
					okLoop = true
				}
			}
		}
		// and readOne is called after it
		allInstrs(io, func(in ssa.Instruction) {
			if isCallNamed(in, nsqdDQ+"readOne") && !(syncInLoop.Block().Dominates(in.Block()) || instrReachAvoiding(syncInLoop, in, nil)) {
				okLoop = false
			}
		})
	}
	c.Judge(okLoop, "nsqd.ioLoop performs a requested sync before reading/selecting", c.AtFn(io), "`if needSync { sync() }` dominates the select", "a requested sync is not executed at the top of the I/O loop")
}

// fsMutations lists filesystem-mutating calls in fn.
func fsMutation(in ssa.Instruction) (string, bool) {
	cc := callCommon(in)
	if cc == nil {
		return "", false
	}
	n := calleeName(cc)
	switch n {
	case "os.OpenFile":
		flags, ok := constInt(cc.Args[1])
		if ok && flags&0x40 == 0 {
			return "", false // no O_CREATE
		}
		return "os.OpenFile(create)", true
	case "(*os.File).Write", "(*os.File).Sync", "os.Rename", "os.Remove", "os.MkdirAll", "(*os.File).Truncate", "os.Create", "os.RemoveAll", "os.WriteFile", "io/ioutil.WriteFile":
		return n, true
	case "fmt.Fprintf", "fmt.Fprintln", "fmt.Fprint":
		if mi, ok := cc.Args[0].(*ssa.MakeInterface); ok && mi.X.Type().String() == "*os.File" {
			return n + "(file)", true
		}
	}
	return "", false
}

// reviewed crash points: function → ordered list of mutating calls
var reviewedCrashPoints = map[string][]string{
	"(*nsqd.DiskQueue).writeOne":         {"os.OpenFile(create)", "(*os.File).Write"},
	"(*nsqd.DiskQueue).sync":             {"(*os.File).Sync"},
	"(*nsqd.DiskQueue).persistMetaData":  {"os.OpenFile(create)", "fmt.Fprintf(file)", "(*os.File).Sync", "os.Rename"},
	"(*nsqd.DiskQueue).moveForward":      {"os.Remove"},
	"(*nsqd.DiskQueue).handleReadError":  {"os.Rename"},
	"(*nsqd.DiskQueue).skipToNextRWFile": {"os.Remove"},
	"(*nsqd.DiskQueue).deleteAllFiles":   {"os.Remove"},
	"nsqd.NewDiskQueue":                  {"os.MkdirAll"},
}

func c08r4(c *Check) {
	cg := c.P.CG()
	roots := []*ssa.Function{c.P.Func("nsqd", "*DiskQueue", "ioLoop"), c.P.Func("nsqd", "", "NewDiskQueue"), c.P.Func("nsqd", "*DiskQueue", "Close"), c.P.Func("nsqd", "*DiskQueue", "Delete")}
	via := cg.Reach(roots, syncKinds, nil)
	var fns []*ssa.Function
	for f := range via {
		fns = append(fns, f)
	}
	sort.Slice(fns, func(i, j int) bool { return fns[i].String() < fns[j].String() })
	for _, f := range fns {
		var got []string
		var first ssa.Instruction
		allInstrs(f, func(in ssa.Instruction) {
			if n, ok := fsMutation(in); ok {
				got = append(got, n)
				if first == nil {
					first = in
				}
			}
		})
		if len(got) == 0 {
			continue
		}
		want := reviewedCrashPoints[FuncName(f)]
		key := "crash points of " + FuncName(f)
		c.Judge(strings.Join(got, ",") == strings.Join(want, ","), key, c.At(first), strings.Join(got, ", "), fmt.Sprintf("filesystem mutations [%s] differ from the reviewed crash points [%s]: a new or moved crash point must be covered by the ordering rules before this check can pass", strings.Join(got, ", "), strings.Join(want, ", ")))
		for range got {
			c.Stat("crash_points", 1)
		}
	}
	for name := range reviewedCrashPoints {
		found := false
		for _, f := range fns {
			if FuncName(f) == name {
				found = true
			}
		}
		if !found {
			c.Undecided("reviewed crash-point function "+name, "-", "function no longer reachable from the queue's entry points")
		}
	}
}

func c08r5(c *Check) {
	for _, x := range []struct{ fn, pos, file string }{{"writeOne", "writePos", "writeFile"}, {"readOne", "readPos", "readFile"}} {
		fn := c.P.Func("nsqd", "*DiskQueue", x.fn)
		posF, fileF := dqField(c, x.pos), dqField(c, x.file)
		var open, seek *ssa.Call
		allInstrs(fn, func(in ssa.Instruction) {
			if call, ok := in.(*ssa.Call); ok {
				switch calleeName(call.Common()) {
				case "os.OpenFile":
					open = call
				case "(*os.File).Seek":
					seek = call
				}
			}
		})
		ok := open != nil && seek != nil && instrDominates(open, seek) && isFieldLoad(seek.Call.Args[0], fileF) && isFieldLoad(seek.Call.Args[1], posF)
		if ok {
			if k, okc := constInt(seek.Call.Args[2]); !okc || k != 0 {
				ok = false
			}
			// guarded by pos > 0
			guarded := false
			for _, b := range fn.Blocks {
				if ifi, isIf := b.Instrs[len(b.Instrs)-1].(*ssa.If); isIf {
					if bo, isBo := ifi.Cond.(*ssa.BinOp); isBo && bo.Op == token.GTR && isFieldLoad(bo.X, posF) && edgeDominates(b, b.Succs[0], seek.Block()) {
						guarded = true
					}
				}
			}
			ok = ok && guarded
		}
		pos := c.AtFn(fn)
		if seek != nil {
			pos = c.At(seek)
		}
		c.Judge(ok, "nsqd."+x.fn+" resumes at the persisted "+x.pos, pos, "open, then Seek("+x.pos+", 0) when "+x.pos+" > 0", "a reopened segment is not positioned at the persisted "+x.pos+": after a restart the writer overwrites (or the reader re-reads) the start of the segment")
	}
}

func c08r6(c *Check) {
	fn := c.P.Func("nsqd", "*DiskQueue", "handleReadError")
	rfn, rpos, nrfn, nrpos := dqField(c, "readFileNum"), dqField(c, "readPos"), dqField(c, "nextReadFileNum"), dqField(c, "nextReadPos")
	storesTo := func(f *types.Var) []*ssa.Store {
		var out []*ssa.Store
		allInstrs(fn, func(in ssa.Instruction) {
			if st, ok := in.(*ssa.Store); ok {
				if fa, ok := st.Addr.(*ssa.FieldAddr); ok && fieldOfAddr(fa) == f {
					out = append(out, st)
				}
			}
		})
		return out
	}
	// readFileNum is incremented, readPos set to 0
	var inc, zero *ssa.Store
	for _, st := range storesTo(rfn) {
		if bo, ok := st.Val.(*ssa.BinOp); ok && bo.Op == token.ADD && isFieldLoad(bo.X, rfn) {
			inc = st
		}
	}
	for _, st := range storesTo(rpos) {
		if k, ok := constInt(st.Val); ok && k == 0 {
			zero = st
		}
	}
	if inc == nil || zero == nil {
		c.Violate("nsqd.handleReadError advances the read position", c.AtFn(fn), "readFileNum++ / readPos = 0 not found: a bad segment is not skipped")
		return
	}
	c.Hold("nsqd.handleReadError advances the read position", c.At(inc), "readFileNum++ and readPos = 0")
	okF := false
	for _, st := range storesTo(nrfn) {
		if ld, ok := st.Val.(*ssa.UnOp); ok && isFieldLoad(ld, rfn) && instrDominates(inc, ld) {
			okF = true
		}
	}
	okP := false
	for _, st := range storesTo(nrpos) {
		if k, ok := constInt(st.Val); ok && k == 0 {
			okP = true
		}
		if ld, ok := st.Val.(*ssa.UnOp); ok && isFieldLoad(ld, rpos) && instrDominates(zero, ld) {
			okP = true
		}
	}
	c.Judge(okF && okP, "nsqd.handleReadError re-establishes the look-ahead position", c.AtFn(fn), "nextReadFileNum = readFileNum (after ++), nextReadPos = 0", "after skipping a bad segment the look-ahead position keeps a stale offset or file number: the next read starts in the middle of a record and hands garbage (or skips records) to the consumer")
}
