package main

import (
	"fmt"
	"go/token"
	"go/types"
	"sort"
	"strings"

	"golang.org/x/tools/go/ssa"
)

func init() {
	register(&PropDef{
		ID:    "C08",
		Title: "The disk spool queue recovers consistently from a crash at any point",
		Decided: "the durability protocol, not recovery behaviour: R1 sync() fsyncs the data file before it persists metadata and a failed data sync persists nothing; " +
			"R2 metadata is replaced atomically: the only path to rename(tmp → final) passes create(tmp) → formatted write → fsync → close, rename's arguments are (name+\".tmp\", name), and nothing opens the final metadata name for writing; " +
			"R3 on segment rollover the write position is advanced to the new segment before the forced sync, the reader's change of segment requests a sync, and the I/O loop performs a requested sync before the next read or select; " +
			"R4 every filesystem-mutating call reachable from the queue's loop, constructor and Close is one of the reviewed crash points; a new or moved site fails until reviewed; " +
			"R5 writer and reader reopen a segment at the persisted position (Seek to writePos / readPos); " +
			"R6 after a read error the reader's look-ahead position is re-established from the already advanced read position (next file, offset 0); " +
			"R9 the constructor cuts the write segment back to the persisted write position before the I/O loop starts (the reader is buffered, so anything a crash left behind writePos could otherwise be cached and delivered in place of later messages).",
		NotDecided: "what a reopened queue actually delivers from each intermediate on-disk state (needs execution or a model of the file system); torn writes inside a record.",
		Rules: []RuleDef{
			{ID: "C08.R1", Min: 1, Doc: "data before metadata: path enumeration of (*DiskQueue).sync", Run: c08r1},
			{ID: "C08.R2", Min: 3, Doc: "atomic metadata replace: path enumeration of persistMetaData; provenance of the Rename arguments; write-mode opens of the metadata name", Run: c08r2},
			{ID: "C08.R3", Min: 4, Doc: "rollover / reader file change are synced: ordering of position stores and sync() in writeOne's rollover branch; needSync set in moveForward's file-change branch and in handleReadError; ioLoop runs sync() under needSync before reading/selecting", Run: c08r3},
			{ID: "C08.R4", Min: 8, Doc: "crash-point inventory: filesystem-mutating calls reachable from ioLoop, NewDiskQueue, Close, Delete compared with the reviewed list", Run: c08r4},
			{ID: "C08.R5", Min: 2, Doc: "resume at persisted position: Seek(writePos/readPos, 0) follows the open of the segment under `pos > 0`", Run: c08r5},
			{ID: "C08.R6", Min: 2, Doc: "handleReadError: nextReadFileNum is loaded from readFileNum after its increment; nextReadPos is 0 or loaded from readPos after it was set to 0", Run: c08r6},
			{ID: "C08.R8", Min: 5, Doc: "what recovery reads back is what was written: reader and writer agree on the record format, the roll condition and the accepted record lengths, and re-opening the queue removes or renames no segment ; a segment is only removed after its last record was delivered, and it is the finished segment that is removed (rules C09.R5, C09.R8 and C09.R2 evaluated for this property as well)", Run: func(c *Check) { c09r5(c); c09r8(c); c09r2(c) }},
			{ID: "C08.R9", Min: 1, Doc: "nothing behind the persisted write position survives a reopen: readOne reads through a read-ahead buffer, so NewDiskQueue truncates fileName(writeFileNum) to writePos after retrieveMetaData and before `go ioLoop`, on every path except `the file cannot be examined` and `it is not longer than writePos` — otherwise records a crash left behind writePos are cached by the reader, overwritten in the file by the writer and delivered instead of what was enqueued after the restart", Run: c08r9},
			{ID: "C08.R7", Min: 3, Doc: "metadata content: persistMetaData writes, and retrieveMetaData reads back, depth, readFileNum, readPos, writeFileNum, writePos in this order with the same format string; the consumer cursor (not the read-ahead cursor nextRead*) is what is persisted, and the read-ahead cursor is re-derived from it on load", Run: c08r7},
		},
	})
}

func c08r7(c *Check) {
	want := []string{"depth", "readFileNum", "readPos", "writeFileNum", "writePos"}
	pkg := c.P.Pkg("nsqd").Types
	// the queue field behind a field of an intermediate record (a metadata struct filled from / copied
	// into the queue's fields): record field -> queue field, separately for the two directions
	toRec, fromRec := map[*types.Var]string{}, map[*types.Var]string{}
	queueFieldOfAddr := func(v ssa.Value) string {
		if fa, ok := v.(*ssa.FieldAddr); ok {
			return dqFieldName(fa)
		}
		return ""
	}
	queueFieldOfValue := func(v ssa.Value) string {
		if cl, ok := v.(*ssa.Call); ok && calleeName(cl.Common()) == "sync/atomic.LoadInt64" {
			return queueFieldOfAddr(cl.Call.Args[0])
		}
		if u, ok := v.(*ssa.UnOp); ok && u.Op == token.MUL {
			return queueFieldOfAddr(u.X)
		}
		return ""
	}
	recFieldOfValue := func(v ssa.Value) *types.Var {
		switch x := v.(type) {
		case *ssa.UnOp:
			if fa, ok := x.X.(*ssa.FieldAddr); ok && x.Op == token.MUL && dqFieldName(fa) == "" {
				return fieldOfAddr(fa)
			}
		case *ssa.Field:
			if st, ok := x.X.Type().Underlying().(*types.Struct); ok {
				return st.Field(x.Field)
			}
		}
		return nil
	}
	var pkgFuncs []*ssa.Function
	for _, fn := range c.P.Funcs {
		if fnPkg(fn) == pkg {
			pkgFuncs = append(pkgFuncs, fn)
		}
	}
	for _, fn := range pkgFuncs {
		allInstrs(fn, func(in ssa.Instruction) {
			switch x := in.(type) {
			case *ssa.Store:
				if fa, ok := x.Addr.(*ssa.FieldAddr); ok {
					if dqFieldName(fa) == "" {
						if q := queueFieldOfValue(x.Val); q != "" {
							toRec[fieldOfAddr(fa)] = q
						}
					} else if rf := recFieldOfValue(x.Val); rf != nil {
						fromRec[rf] = dqFieldName(fa)
					}
				}
			case *ssa.Call:
				if calleeName(x.Common()) == "sync/atomic.StoreInt64" {
					if q := queueFieldOfAddr(x.Call.Args[0]); q != "" {
						if rf := recFieldOfValue(x.Call.Args[1]); rf != nil {
							fromRec[rf] = q
						}
					}
				}
			}
		})
	}
	// writer(s) and reader(s) of the metadata record, wherever they live in the package
	var wfmt, rfmt string
	var wnames, rnames []string
	var wcall, rcall ssa.Instruction
	nW, nR := 0, 0
	fmtOf := func(v ssa.Value) string {
		s, _ := constString(v)
		return s
	}
	for _, fn := range pkgFuncs {
		allInstrs(fn, func(in ssa.Instruction) {
			call, ok := in.(*ssa.Call)
			if !ok {
				return
			}
			switch calleeName(call.Common()) {
			case "fmt.Fprintf":
				if mi, ok := writerArg(call.Call.Args[0]).(*ssa.MakeInterface); !ok || mi.X.Type().String() != "*os.File" {
					return
				}
				nW++
				wcall = in
				wfmt = fmtOf(call.Call.Args[1])
				elems, ok := variadicElems(call.Call.Args[2])
				if !ok {
					return
				}
				wnames = nil
				for _, e := range elems {
					name := "?"
					if q := queueFieldOfValue(e); q != "" {
						name = q
					} else if rf := recFieldOfValue(e); rf != nil && toRec[rf] != "" {
						name = toRec[rf]
					}
					wnames = append(wnames, name)
				}
			case "fmt.Fscanf":
				nR++
				rcall = in
				rfmt = fmtOf(call.Call.Args[1])
				elems, ok := variadicElems(call.Call.Args[2])
				if !ok {
					return
				}
				rnames = nil
				for _, e := range elems {
					name := "?"
					switch a := e.(type) {
					case *ssa.FieldAddr:
						if q := dqFieldName(a); q != "" {
							name = q
						} else if fromRec[fieldOfAddr(a)] != "" {
							name = fromRec[fieldOfAddr(a)]
						}
					case *ssa.Alloc:
						// a local that is afterwards stored into a field (atomic.StoreInt64(&d.depth, depth))
						for _, r := range *a.Referrers() {
							ld, ok := r.(*ssa.UnOp)
							if !ok {
								continue
							}
							for _, rr := range *ld.Referrers() {
								if cl, ok := rr.(*ssa.Call); ok && calleeName(cl.Common()) == "sync/atomic.StoreInt64" && cl.Call.Args[1] == ssa.Value(ld) {
									if q := queueFieldOfAddr(cl.Call.Args[0]); q != "" {
										name = q
									}
								}
								if st, ok := rr.(*ssa.Store); ok && st.Val == ssa.Value(ld) {
									if q := queueFieldOfAddr(st.Addr); q != "" {
										name = q
									}
								}
							}
						}
					}
					rnames = append(rnames, name)
				}
			}
		})
	}
	if wcall == nil || nW != 1 {
		anchorFail("package nsqd: expected exactly one fmt.Fprintf to a file (the metadata writer), found %d", nW)
	}
	if rcall == nil || nR != 1 {
		anchorFail("package nsqd: expected exactly one fmt.Fscanf (the metadata reader), found %d", nR)
	}
	c.Judge(strings.Join(wnames, ",") == strings.Join(want, ","), "nsqd.persistMetaData persists depth and the consumer/writer cursors", c.At(wcall), "writes "+strings.Join(want, ", "), fmt.Sprintf("the metadata file is written from %v instead of %v: after a restart the queue resumes at a position that is not the first undelivered message / the end of the written data", wnames, want))
	c.Judge(strings.Join(rnames, ",") == strings.Join(want, ","), "nsqd.retrieveMetaData restores depth and the consumer/writer cursors", c.At(rcall), "reads into "+strings.Join(want, ", "), fmt.Sprintf("the metadata file is read into %v instead of %v", rnames, want))
	c.Judge(wfmt == rfmt && wfmt != "", "nsqd metadata format agrees between writer and reader", c.At(wcall), fmt.Sprintf("%q", wfmt), fmt.Sprintf("persistMetaData writes %q but retrieveMetaData parses %q", wfmt, rfmt))
	// read-ahead cursor re-derived from the consumer cursor (rule C09.R9 (a) for the load path)
	rm := c.P.Func("nsqd", "*DiskQueue", "retrieveMetaData")
	keyOf, dep := c09keyOf, c09dependsOnField
	bad := ""
	reachRM := c.P.CG().Reach([]*ssa.Function{rm}, syncKinds, nil)
	for f, next := range map[string]string{"readPos": "nextReadPos", "readFileNum": "nextReadFileNum"} {
		// the function that receives the parsed values into the queue's field
		for _, fn := range pkgFuncs {
			touches := false
			allInstrs(fn, func(in ssa.Instruction) {
				if fa, ok := in.(*ssa.FieldAddr); ok && dqFieldName(fa) == f && (fn == rm || reachRM[fn] != nil) {
					for _, r := range *fa.Referrers() {
						switch x := r.(type) {
						case *ssa.Store:
							if x.Addr == ssa.Value(fa) && !dep(x.Val, next) {
								touches = true
							}
						case *ssa.MakeInterface, *ssa.Call:
							touches = true
						}
					}
				}
			})
			if touches {
				if b := seedAfter(c, fn, f, next, keyOf, dep, 0); b != "" {
					bad = b
				}
			}
		}
	}
	c.Judge(bad == "", "nsqd.retrieveMetaData read-ahead cursor starts at the consumer cursor", c.AtFn(rm), "nextReadFileNum = readFileNum; nextReadPos = readPos after the metadata was parsed", "after loading the metadata the read-ahead cursor is not set from the consumer cursor: the first message read after a restart is not the first undelivered one — "+bad)
}

const nsqdDQ = "(*" + modPath + "/nsqd.DiskQueue)."

func dqField(c *Check, name string) *types.Var { return c.P.Field("nsqd", "DiskQueue", name) }

func c08r1(c *Check) {
	fn := c.P.Func("nsqd", "*DiskQueue", "sync")
	wf := dqField(c, "writeFile")
	cfg := &PathCfg{
		Classify: func(in ssa.Instruction) []string {
			cc := callCommon(in)
			if cc == nil {
				return nil
			}
			switch calleeName(cc) {
			case "(*os.File).Sync":
				if isFieldLoad(cc.Args[0], wf) {
					return []string{"data.fsync"}
				}
			case nsqdDQ + "persistMetaData":
				return []string{"persist"}
			}
			return nil
		},
		Branch: func(ifi *ssa.If, cond ssa.Value, taken bool) []string {
			if e, errEdge, ok := errTest(cond); ok {
				if _, isSync := callOf(e, "(*os.File).Sync"); isSync {
					if taken == errEdge {
						return []string{"fsync:failed"}
					}
					return []string{"fsync:ok"}
				}
				if isFieldLoad(e, wf) {
					if taken == errEdge {
						return []string{"file:open"}
					}
					return []string{"file:none"}
				}
			}
			return nil
		},
	}
	paths, _ := EnumPaths(fn, nil, cfg)
	var probs []string
	nPersist := 0
	for i := range paths {
		pa := &paths[i]
		if pa.Has("persist") {
			nPersist++
			if pa.Has("file:open") && (pa.Index("data.fsync") < 0 || pa.Index("data.fsync") > pa.Index("persist")) {
				probs = append(probs, "metadata is persisted before (or without) fsyncing the open data file: after a crash the metadata points past data that never reached the disk: "+pa.String())
			}
			if pa.Has("fsync:failed") {
				probs = append(probs, "metadata is persisted although the data fsync failed: "+pa.String())
			}
		}
		if !pa.Has("file:open") && !pa.Has("file:none") {
			probs = append(probs, "sync does not distinguish an open data file: "+pa.String())
		}
	}
	if nPersist == 0 {
		probs = append(probs, "sync never persists metadata")
	}
	if len(probs) > 0 {
		c.ViolateW("nsqd.DiskQueue.sync data before metadata", c.AtFn(fn), probs[0], probs)
	} else {
		c.Hold("nsqd.DiskQueue.sync data before metadata", c.AtFn(fn), fmt.Sprintf("%d paths", len(paths)))
	}
}

func c08r2(c *Check) {
	fn := c.P.Func("nsqd", "*DiskQueue", "persistMetaData")
	var rename *ssa.Call
	writes := func(g *ssa.Function) bool {
		found := false
		allInstrs(g, func(in ssa.Instruction) {
			if cc := callCommon(in); cc != nil {
				switch calleeName(cc) {
				case "fmt.Fprintf", "fmt.Fprint", "fmt.Fprintln", "(*os.File).Write", "(*os.File).WriteString", "(io.Writer).Write", "(*os.File).Sync", "(*os.File).Close", "os.Rename", "os.OpenFile":
					found = true
				}
			}
		})
		return found
	}
	cfg := &PathCfg{
		// the encoding of the record may live in a helper (m.encode(f)): expanded in place
		Inline: func(g *ssa.Function) bool { return fnPkg(g) == fnPkg(fn) && g != fn && writes(g) },
		Classify: func(in ssa.Instruction) []string {
			cc := callCommon(in)
			if cc == nil {
				return nil
			}
			switch calleeName(cc) {
			case "os.OpenFile":
				return []string{"open"}
			case "fmt.Fprintf", "fmt.Fprint", "fmt.Fprintln", "(*os.File).Write", "(*os.File).WriteString", "(io.Writer).Write":
				return []string{"write"}
			case "(*os.File).Sync":
				return []string{"fsync"}
			case "(*os.File).Close":
				return []string{"close"}
			case "os.Rename":
				return []string{"rename"}
			}
			return nil
		}}
	allInstrs(fn, func(in ssa.Instruction) {
		if call, ok := in.(*ssa.Call); ok && calleeName(call.Common()) == "os.Rename" {
			rename = call
		}
	})
	paths, _ := EnumPaths(fn, nil, cfg)
	bad := ""
	nRen := 0
	for i := range paths {
		pa := &paths[i]
		if !pa.Has("rename") {
			continue
		}
		nRen++
		var seq []string
		for _, e := range pa.Events {
			seq = append(seq, e.Class)
		}
		if strings.Join(seq, ",") != "open,write,fsync,close,rename" {
			bad = "the metadata file is renamed into place after [" + strings.Join(seq, ",") + "] instead of open,write,fsync,close,rename: " + pa.String()
		}
	}
	c.Judge(bad == "" && nRen > 0, "nsqd.persistMetaData tmp → fsync → close → rename", c.AtFn(fn), fmt.Sprintf("%d renaming paths", nRen), bad+" — a crash can then leave a truncated or stale metadata file under the final name")
	if rename == nil {
		c.Violate("nsqd.persistMetaData rename(tmp, final)", c.AtFn(fn), "no os.Rename: the metadata file is written in place")
		return
	}
	// args: (fileName + ".tmp", fileName), fileName = metaDataFileName()
	okArgs := false
	if bo, ok := rename.Call.Args[0].(*ssa.BinOp); ok && bo.Op == token.ADD {
		if s, ok := constString(bo.Y); ok && s == ".tmp" && bo.X == rename.Call.Args[1] {
			if call, ok := bo.X.(*ssa.Call); ok && calleeName(call.Common()) == nsqdDQ+"metaDataFileName" {
				okArgs = true
			}
		}
	}
	// the opened file is the tmp name
	okOpen := false
	allInstrs(fn, func(in ssa.Instruction) {
		if call, ok := in.(*ssa.Call); ok && calleeName(call.Common()) == "os.OpenFile" && call.Call.Args[0] == rename.Call.Args[0] {
			okOpen = true
		}
	})
	c.Judge(okArgs && okOpen, "nsqd.persistMetaData rename(name+\".tmp\", name)", c.At(rename), "the temporary file written is the one renamed over the metadata file", "rename arguments are not (metadata name + \".tmp\", metadata name) of the file just written")
	// nobody else opens the metadata name for writing
	nOpen := 0
	badOpen := ""
	for _, f := range c.P.Funcs {
		if pk := fnPkg(f); pk == nil || pk.Path() != modPath+"/nsqd" {
			continue
		}
		allInstrs(f, func(in ssa.Instruction) {
			call, ok := in.(*ssa.Call)
			if !ok || calleeName(call.Common()) != "os.OpenFile" {
				return
			}
			nOpen++
			flags, _ := constInt(call.Call.Args[1])
			writable := flags&3 != 0 || flags&0x40 != 0 // O_WRONLY|O_RDWR, O_CREATE
			if nm, ok := call.Call.Args[0].(*ssa.Call); ok && calleeName(nm.Common()) == nsqdDQ+"metaDataFileName" && writable {
				badOpen = FuncName(f) + " at " + c.At(call)
			}
		})
	}
	c.Judge(badOpen == "" && nOpen >= 3, "nsqd: the final metadata name is never opened for writing", c.AtFn(fn), fmt.Sprintf("%d OpenFile calls inspected", nOpen), "the metadata file is opened for writing in place at "+badOpen)
}

func c08r3(c *Check) {
	wo := c.P.Func("nsqd", "*DiskQueue", "writeOne")
	wfn, wpos, maxB, needSync := dqField(c, "writeFileNum"), dqField(c, "writePos"), dqField(c, "maxBytesPerFile"), dqField(c, "needSync")
	// rollover: on every path of writeOne (helper methods of the queue expanded, sync() as an event)
	// that takes the `writePos > maxBytesPerFile` edge, writeFileNum++ and writePos = 0 precede the forced sync()
	isRollTest := func(cond ssa.Value) (bool, bool) { // (is the roll test, polarity: true edge = roll)
		cnd, neg := negStrip(cond)
		bo, ok := cnd.(*ssa.BinOp)
		if !ok {
			return false, false
		}
		op := bo.Op
		switch {
		case isFieldLoad(bo.X, wpos) && isFieldLoad(bo.Y, maxB):
		case isFieldLoad(bo.Y, wpos) && isFieldLoad(bo.X, maxB):
			op = flipRel(op)
		default:
			return false, false
		}
		if neg {
			op = negRel(op)
		}
		return true, op == token.GTR || op == token.GEQ
	}
	sameRecv := inlineSameRecv(wo)
	var rollAt ssa.Instruction
	cfgRoll := &PathCfg{
		Inline: func(g *ssa.Function) bool {
			return sameRecv(g) && g.Name() != "sync" && g.Name() != "persistMetaData"
		},
		Classify: func(in ssa.Instruction) []string {
			if isCallNamed(in, nsqdDQ+"sync") {
				return []string{"sync"}
			}
			if st, ok := in.(*ssa.Store); ok {
				if fa, ok := st.Addr.(*ssa.FieldAddr); ok {
					switch fieldOfAddr(fa) {
					case wfn:
						return []string{"st:writeFileNum"}
					case wpos:
						if k, ok := constInt(st.Val); ok && k == 0 {
							return []string{"st:writePos=0"}
						}
						return []string{"st:writePos"}
					}
				}
			}
			return nil
		},
		Branch: func(ifi *ssa.If, cond ssa.Value, taken bool) []string {
			if is, pol := isRollTest(cond); is {
				rollAt = ifi
				if taken == pol {
					return []string{"roll"}
				}
				return []string{"noroll"}
			}
			return nil
		},
	}
	rpaths, rtrunc := EnumPaths(wo, nil, cfgRoll)
	badRoll, nRoll := "", 0
	for i := range rpaths {
		pa := &rpaths[i]
		k := pa.Index("roll")
		if k < 0 {
			continue
		}
		nRoll++
		seenNum, seenPos, synced := false, false, false
		for _, e := range pa.Events[k+1:] {
			switch e.Class {
			case "st:writeFileNum":
				seenNum = true
			case "st:writePos=0":
				seenPos = true
			case "sync":
				if !synced && !(seenNum && seenPos) {
					badRoll = "the forced sync runs before the cursor was moved to the new segment: " + pa.String()
				}
				synced = true
			}
		}
		if !synced && pa.End == "return" {
			badRoll = "a rollover path does not sync: " + pa.String()
		}
	}
	if rollAt == nil {
		anchorFail("writeOne: rollover test not found")
	}
	if rtrunc || nRoll == 0 {
		c.Undecided("nsqd.writeOne rollover: advance to the new segment, then sync", c.At(rollAt), "no rollover path enumerated")
	} else {
		c.Judge(badRoll == "", "nsqd.writeOne rollover: advance to the new segment, then sync", c.At(rollAt), fmt.Sprintf("%d rollover paths: writeFileNum++ and writePos = 0 precede the forced sync()", nRoll), "on rollover the forced sync persists the old segment number with a position beyond the segment limit (or no sync happens): after a crash the reader fails on the missing record and the queue hangs in its error loop — "+badRoll)
	}
	// moveForward: file change sets needSync
	mf := c.P.Func("nsqd", "*DiskQueue", "moveForward")
	okNS := false
	allInstrs(mf, func(in ssa.Instruction) {
		ifi, ok := in.(*ssa.If)
		if !ok {
			return
		}
		bo, ok := ifi.Cond.(*ssa.BinOp)
		if !ok || bo.Op != token.NEQ {
			return
		}
		for _, x := range ifi.Block().Succs[0].Instrs {
			if st, ok := x.(*ssa.Store); ok {
				if fa, ok := st.Addr.(*ssa.FieldAddr); ok && fieldOfAddr(fa) == needSync {
					if v, ok := constBool(st.Val); ok && v {
						okNS = true
					}
				}
			}
		}
	})
	c.Judge(okNS, "nsqd.moveForward requests a sync when the reader changes segment", c.AtFn(mf), "needSync = true in the file-change branch (the old segment is removed there)", "the consumed segment is removed without requesting a metadata sync: after a crash the persisted read position names a file that no longer exists")
	hre := c.P.Func("nsqd", "*DiskQueue", "handleReadError")
	okH := false
	allInstrs(hre, func(in ssa.Instruction) {
		if st, ok := in.(*ssa.Store); ok {
			if fa, ok := st.Addr.(*ssa.FieldAddr); ok && fieldOfAddr(fa) == needSync {
				if v, ok := constBool(st.Val); ok && v {
					okH = true
				}
			}
		}
	})
	c.Judge(okH, "nsqd.handleReadError requests a sync", c.AtFn(hre), "needSync = true", "skipping a bad segment is not followed by a metadata sync")
	// ioLoop: on every path from the loop header to the select (helper methods expanded), a pending
	// needSync leads to sync() before readOne and before the select
	io := c.P.Func("nsqd", "*DiskQueue", "ioLoop")
	var sel *ssa.Select
	allInstrs(io, func(in ssa.Instruction) {
		if s, ok := in.(*ssa.Select); ok && s.Blocking {
			sel = s
		}
	})
	if sel == nil {
		anchorFail("ioLoop: select not found")
	}
	ioLoops := loopsOf(io)
	var ioLoop *Loop
	for _, l := range ioLoops {
		if l.Body[sel.Block()] && (ioLoop == nil || len(l.Body) > len(ioLoop.Body)) {
			ioLoop = l
		}
	}
	if ioLoop == nil {
		anchorFail("ioLoop: loop around the select not found")
	}
	stop := map[*ssa.BasicBlock]bool{}
	for _, su := range sel.Block().Succs {
		stop[su] = true
	}
	sameRecvIO := inlineSameRecv(io)
	cfgIO := &PathCfg{
		Stop: func(b *ssa.BasicBlock) bool { return stop[b] },
		Inline: func(g *ssa.Function) bool {
			switch g.Name() {
			case "sync", "readOne", "handleReadError", "persistMetaData":
				return false
			}
			return sameRecvIO(g)
		},
		ConsistentFields: map[*types.Var]bool{needSync: true},
		Classify: func(in ssa.Instruction) []string {
			switch {
			case isCallNamed(in, nsqdDQ+"sync"):
				return []string{"sync"}
			case isCallNamed(in, nsqdDQ+"readOne"):
				return []string{"readOne"}
			}
			if _, ok := in.(*ssa.Select); ok {
				return []string{"select"}
			}
			if st, ok := in.(*ssa.Store); ok {
				if fa, ok := st.Addr.(*ssa.FieldAddr); ok && fieldOfAddr(fa) == needSync {
					if v, ok := constBool(st.Val); ok && v {
						return []string{"needSync=true"}
					}
				}
			}
			return nil
		},
		Branch: func(ifi *ssa.If, cond ssa.Value, taken bool) []string {
			cnd, neg := negStrip(cond)
			if isFieldLoad(cnd, needSync) {
				if taken != neg {
					return []string{"pending"}
				}
				return []string{"notpending"}
			}
			return nil
		},
	}
	ipaths, itrunc := EnumPaths(io, ioLoop.Header, cfgIO)
	badIO, nPending, nTested := "", 0, 0
	for i := range ipaths {
		pa := &ipaths[i]
		if pa.End != "stop" {
			continue
		}
		if pa.Has("pending") || pa.Has("notpending") {
			nTested++
		} else {
			badIO = "a path reaches the select without looking at needSync: " + pa.String()
		}
		if k := pa.Index("pending"); k >= 0 {
			nPending++
			ks := -1
			for j, e := range pa.Events[k+1:] {
				if e.Class == "sync" && ks < 0 {
					ks = k + 1 + j
				}
			}
			kr, ksel := pa.Index("readOne"), pa.Index("select")
			if ks < 0 || (kr >= 0 && kr < ks) || (ksel >= 0 && ksel < ks) {
				badIO = "a requested sync is not executed before reading/selecting: " + pa.String()
			}
		}
	}
	if itrunc || nPending == 0 {
		c.Undecided("nsqd.ioLoop performs a requested sync before reading/selecting", c.AtFn(io), "no loop-head path with a pending sync enumerated")
	} else {
		c.Judge(badIO == "", "nsqd.ioLoop performs a requested sync before reading/selecting", c.AtFn(io), fmt.Sprintf("%d loop-head paths, %d with a pending sync: sync() first", len(ipaths), nPending), "a requested sync is not executed at the top of the I/O loop — "+badIO)
	}
}

// fsMutations lists filesystem-mutating calls in fn.
func fsMutation(in ssa.Instruction) (string, bool) {
	cc := callCommon(in)
	if cc == nil {
		return "", false
	}
	n := calleeName(cc)
	switch n {
	case "os.OpenFile":
		flags, ok := constInt(cc.Args[1])
		if ok && flags&0x40 == 0 {
			return "", false // no O_CREATE
		}
		return "os.OpenFile(create)", true
	case "(*os.File).Write", "(*os.File).Sync", "os.Rename", "os.Remove", "os.MkdirAll", "(*os.File).Truncate", "os.Truncate", "os.Create", "os.RemoveAll", "os.WriteFile", "io/ioutil.WriteFile":
		return n, true
	case "fmt.Fprintf", "fmt.Fprintln", "fmt.Fprint":
		if mi, ok := writerArg(cc.Args[0]).(*ssa.MakeInterface); ok && mi.X.Type().String() == "*os.File" {
			return n + "(file)", true
		}
	}
	return "", false
}

// writerArg: the io.Writer a formatting call writes to; for a parameter of an encoding helper, the
// writer every call site of the helper passes (when they agree in kind).
func writerArg(v ssa.Value) ssa.Value {
	for depth := 0; depth < 3; depth++ {
		par, ok := v.(*ssa.Parameter)
		if !ok || par.Parent() == nil {
			return v
		}
		cg := cgOf(par.Parent())
		if cg.P == nil {
			return v
		}
		args, ok := cg.P.paramArgs(par)
		if !ok || len(args) == 0 {
			return v
		}
		v = args[0]
		for _, a := range args[1:] {
			if a.Type().String() != v.Type().String() {
				return par
			}
			am, ok1 := a.(*ssa.MakeInterface)
			vm, ok2 := v.(*ssa.MakeInterface)
			if ok1 != ok2 || (ok1 && am.X.Type().String() != vm.X.Type().String()) {
				return par
			}
		}
	}
	return v
}

// pathOrigin: which name-producing function of package nsqd a path argument comes from.
func pathOrigin(v ssa.Value, depth int) string {
	if depth > 8 || v == nil {
		return "other"
	}
	switch x := v.(type) {
	case *ssa.Call:
		if g := x.Call.StaticCallee(); g != nil && ModuleFunc(g) {
			return g.Name()
		}
		for _, a := range x.Call.Args {
			if o := pathOrigin(a, depth+1); o != "other" {
				return o
			}
		}
	case *ssa.BinOp:
		if o := pathOrigin(x.X, depth+1); o != "other" {
			return o
		}
		return pathOrigin(x.Y, depth+1)
	case *ssa.Phi:
		for _, e := range x.Edges {
			if o := pathOrigin(e, depth+1); o != "other" {
				return o
			}
		}
	case *ssa.UnOp:
		if al, ok := x.X.(*ssa.Alloc); ok {
			if s := cellValue(al); s != nil {
				return pathOrigin(s, depth+1)
			}
		}
		if _, f, ok := fieldLoad(x); ok {
			return "field " + f.Name()
		}
	case *ssa.Slice:
		return pathOrigin(x.X, depth+1)
	case *ssa.MakeInterface:
		return pathOrigin(x.X, depth+1)
	}
	return "other"
}

// crashPointSig: a filesystem mutation described independently of the function it sits in:
// the operation and what it operates on.
func crashPointSig(in ssa.Instruction) (string, bool) {
	n, ok := fsMutation(in)
	if !ok {
		return "", false
	}
	cc := callCommon(in)
	target := "other"
	switch {
	case strings.HasPrefix(n, "(*os.File)."):
		if _, f, ok := fieldLoad(cc.Args[0]); ok {
			target = "field " + f.Name()
		} else {
			target = "local file"
		}
	case strings.HasPrefix(n, "fmt."):
		target = "local file"
		if mi, ok := writerArg(cc.Args[0]).(*ssa.MakeInterface); ok {
			if _, f, ok := fieldLoad(mi.X); ok {
				target = "field " + f.Name()
			}
		}
	default:
		if len(cc.Args) > 0 {
			target = pathOrigin(cc.Args[0], 0)
		}
	}
	return n + " on " + target, true
}

// reviewed crash points of the disk queue: every filesystem mutation reachable from ioLoop,
// NewDiskQueue, Close and Delete, as (operation, object) with its multiplicity. The inventory is
// independent of how the code is split into functions; each entry is covered by the ordering
// rules R1–R3, R5–R7 or is idempotent/harmless at a crash (reason per line).
var reviewedCrashPoints = map[string]struct {
	n   int
	why string
}{
	"os.OpenFile(create) on fileName":         {1, "writeOne creates the write segment; an empty segment beyond the persisted writePos is ignored on restart (R5 seeks to the persisted position)"},
	"(*os.File).Write on field writeFile":     {1, "record append; persisted only by sync() before the metadata (R1)"},
	"(*os.File).Sync on field writeFile":      {1, "data fsync that precedes persistMetaData (R1)"},
	"os.OpenFile(create) on metaDataFileName": {1, "temporary metadata file (R2)"},
	"fmt.Fprintf(file) on local file":         {1, "metadata content into the temporary file (R2, R7)"},
	"(*os.File).Sync on local file":           {1, "fsync of the temporary metadata file before the rename (R2)"},
	"os.Rename on metaDataFileName":           {1, "atomic replace of the metadata (R2)"},
	"os.Remove on fileName":                   {2, "moveForward removes a fully consumed segment after needSync was set (R3); skipToNextRWFile removes segments on Empty"},
	"os.Rename on fileName":                   {1, "handleReadError sets a corrupt segment aside (.bad) and schedules a sync (R3, R6)"},
	"os.Remove on metaDataFileName":           {1, "deleteAllFiles removes the metadata on Empty/Delete"},
	"os.Truncate on fileName":                 {1, "NewDiskQueue cuts the write segment back to the persisted writePos before the I/O loop starts (R9); idempotent, removes nothing below the persisted position"},
	"os.MkdirAll on field dataPath":           {1, "NewDiskQueue creates the data directory; idempotent"},
}

func c08r4(c *Check) {
	cg := c.P.CG()
	roots := []*ssa.Function{c.P.Func("nsqd", "*DiskQueue", "ioLoop"), c.P.Func("nsqd", "", "NewDiskQueue"), c.P.Func("nsqd", "*DiskQueue", "Close"), c.P.Func("nsqd", "*DiskQueue", "Delete")}
	via := cg.Reach(roots, syncKinds, nil)
	var fns []*ssa.Function
	for f := range via {
		fns = append(fns, f)
	}
	sort.Slice(fns, func(i, j int) bool { return fns[i].String() < fns[j].String() })
	got := map[string]int{}
	where := map[string][]string{}
	first := map[string]ssa.Instruction{}
	for _, f := range fns {
		allInstrs(f, func(in ssa.Instruction) {
			if sig, ok := crashPointSig(in); ok {
				got[sig]++
				where[sig] = append(where[sig], FuncName(f)+" at "+c.At(in))
				if first[sig] == nil {
					first[sig] = in
				}
				c.Stat("crash_points", 1)
			}
		})
	}
	var sigs []string
	for s := range got {
		sigs = append(sigs, s)
	}
	for s := range reviewedCrashPoints {
		if _, ok := got[s]; !ok {
			sigs = append(sigs, s)
		}
	}
	sort.Strings(sigs)
	for _, sig := range sigs {
		want := reviewedCrashPoints[sig]
		key := "crash point " + sig
		pos := "-"
		if first[sig] != nil {
			pos = c.At(first[sig])
		}
		switch {
		case got[sig] == want.n:
			c.Hold(key, pos, fmt.Sprintf("%d site(s): %s", want.n, want.why))
		case got[sig] > want.n:
			c.ViolateW(key, pos, fmt.Sprintf("%d site(s) of this filesystem mutation are reachable from the queue's entry points, %d were reviewed: a new crash point (a new way the on-disk state can be left) must be covered by the ordering rules before this check can pass", got[sig], want.n), where[sig])
		default:
			c.Undecided(key, pos, fmt.Sprintf("%d site(s) found, %d reviewed: the reviewed inventory no longer matches the code and must be re-confirmed", got[sig], want.n))
		}
	}
}

func c08r5(c *Check) {
	for _, x := range []struct{ fn, pos, file string }{{"writeOne", "writePos", "writeFile"}, {"readOne", "readPos", "readFile"}} {
		fn := c.P.Func("nsqd", "*DiskQueue", x.fn)
		posF, fileF := dqField(c, x.pos), dqField(c, x.file)
		var open, seek *ssa.Call
		// the open-and-position step may have been moved into a helper method of the queue
		for _, g := range workerFuncs(c.P, fn) {
			var o, sk *ssa.Call
			allInstrs(g, func(in ssa.Instruction) {
				if call, ok := in.(*ssa.Call); ok {
					switch calleeName(call.Common()) {
					case "os.OpenFile":
						o = call
					case "(*os.File).Seek":
						sk = call
					}
				}
			})
			if o != nil && sk != nil {
				open, seek = o, sk
			}
		}
		ok := open != nil && seek != nil && open.Parent() == seek.Parent() && instrDominates(open, seek) && isFieldLoad(seek.Call.Args[0], fileF) && isFieldLoad(seek.Call.Args[1], posF)
		if ok {
			if k, okc := constInt(seek.Call.Args[2]); !okc || k != 0 {
				ok = false
			}
			// guarded by pos > 0
			guarded := false
			for _, b := range seek.Parent().Blocks {
				if ifi, isIf := b.Instrs[len(b.Instrs)-1].(*ssa.If); isIf {
					if bo, isBo := ifi.Cond.(*ssa.BinOp); isBo && bo.Op == token.GTR && isFieldLoad(bo.X, posF) && edgeDominates(b, b.Succs[0], seek.Block()) {
						guarded = true
					}
				}
			}
			ok = ok && guarded
		}
		pos := c.AtFn(fn)
		if seek != nil {
			pos = c.At(seek)
		}
		c.Judge(ok, "nsqd."+x.fn+" resumes at the persisted "+x.pos, pos, "open, then Seek("+x.pos+", 0) when "+x.pos+" > 0", "a reopened segment is not positioned at the persisted "+x.pos+": after a restart the writer overwrites (or the reader re-reads) the start of the segment")
	}
}

func c08r6(c *Check) {
	fn := c.P.Func("nsqd", "*DiskQueue", "handleReadError")
	rfn, rpos, nrfn, nrpos := dqField(c, "readFileNum"), dqField(c, "readPos"), dqField(c, "nextReadFileNum"), dqField(c, "nextReadPos")
	storesTo := func(f *types.Var) []*ssa.Store {
		var out []*ssa.Store
		allInstrs(fn, func(in ssa.Instruction) {
			if st, ok := in.(*ssa.Store); ok {
				if fa, ok := st.Addr.(*ssa.FieldAddr); ok && fieldOfAddr(fa) == f {
					out = append(out, st)
				}
			}
		})
		return out
	}
	// readFileNum is incremented, readPos set to 0
	var inc, zero *ssa.Store
	for _, st := range storesTo(rfn) {
		if bo, ok := st.Val.(*ssa.BinOp); ok && bo.Op == token.ADD && isFieldLoad(bo.X, rfn) {
			inc = st
		}
	}
	for _, st := range storesTo(rpos) {
		if k, ok := constInt(st.Val); ok && k == 0 {
			zero = st
		}
	}
	if inc == nil || zero == nil {
		c.Violate("nsqd.handleReadError advances the read position", c.AtFn(fn), "readFileNum++ / readPos = 0 not found: a bad segment is not skipped")
		return
	}
	c.Hold("nsqd.handleReadError advances the read position", c.At(inc), "readFileNum++ and readPos = 0")
	okF := false
	for _, st := range storesTo(nrfn) {
		if ld, ok := st.Val.(*ssa.UnOp); ok && isFieldLoad(ld, rfn) && instrDominates(inc, ld) {
			okF = true
		}
	}
	okP := false
	for _, st := range storesTo(nrpos) {
		if k, ok := constInt(st.Val); ok && k == 0 {
			okP = true
		}
		if ld, ok := st.Val.(*ssa.UnOp); ok && isFieldLoad(ld, rpos) && instrDominates(zero, ld) {
			okP = true
		}
	}
	c.Judge(okF && okP, "nsqd.handleReadError re-establishes the look-ahead position", c.AtFn(fn), "nextReadFileNum = readFileNum (after ++), nextReadPos = 0", "after skipping a bad segment the look-ahead position keeps a stale offset or file number: the next read starts in the middle of a record and hands garbage (or skips records) to the consumer")
}
