package main

// Program model: the module's packages type-checked from /repo's working tree
// (dependencies from export data), SSA for every module function, lookup
// helpers that resolve anchors through type information.

import (
	"fmt"
	"go/ast"
	"go/token"
	"go/types"
	"os"
	"path/filepath"
	"sort"
	"strings"

	"golang.org/x/tools/go/packages"
	"golang.org/x/tools/go/ssa"
	"golang.org/x/tools/go/ssa/ssautil"
)

const modPath = "github.com/grafana/carbon-relay-ng"

type Prog struct {
	Dir      string
	Fset     *token.FileSet
	Pkgs     []*packages.Package
	SSA      *ssa.Program
	byPath   map[string]*packages.Package
	ssaPkg   map[string]*ssa.Package
	Funcs    []*ssa.Function // every module function with a body, incl. anonymous ones; sorted by position
	CGFuncs  []*ssa.Function // Funcs plus synthetic wrappers (bound methods, promoted-method wrappers, thunks)
	fnOfDecl map[*ast.FuncDecl]*ssa.Function
	cg       *CallGraph
}

// anchorError is raised (via panic) when a rule cannot find a program entity it
// is anchored on. It is reported as an undecided obligation, which fails the check.
type anchorError struct{ msg string }

func (e anchorError) Error() string { return e.msg }

func anchorFail(format string, args ...interface{}) {
	panic(anchorError{fmt.Sprintf(format, args...)})
}

// LoadProg loads ./... of dir. overlay maps absolute file names to replacement contents.
func LoadProg(dir string, overlay map[string][]byte) (*Prog, error) {
	env := append(os.Environ(), "GOFLAGS=-mod=mod", "GOPROXY=off", "GOSUMDB=off", "GOWORK=off", "GOTOOLCHAIN=local")
	cfg := &packages.Config{
		Mode:    packages.LoadSyntax,
		Dir:     dir,
		Tests:   false,
		Env:     env,
		Overlay: overlay,
	}
	pkgs, err := packages.Load(cfg, "./...")
	if err != nil {
		return nil, fmt.Errorf("packages.Load: %v", err)
	}
	if len(pkgs) == 0 {
		return nil, fmt.Errorf("no packages loaded from %s", dir)
	}
	var errs []string
	packages.Visit(pkgs, nil, func(p *packages.Package) {
		for _, e := range p.Errors {
			errs = append(errs, e.Error())
		}
	})
	if len(errs) > 0 {
		if len(errs) > 10 {
			errs = errs[:10]
		}
		return nil, fmt.Errorf("load/type errors: %s", strings.Join(errs, "; "))
	}
	p := &Prog{Dir: dir, Pkgs: pkgs, byPath: map[string]*packages.Package{}, ssaPkg: map[string]*ssa.Package{}, fnOfDecl: map[*ast.FuncDecl]*ssa.Function{}}
	p.Fset = pkgs[0].Fset
	prog, spkgs := ssautil.Packages(pkgs, ssa.InstantiateGenerics)
	prog.Build()
	p.SSA = prog
	for i, pkg := range pkgs {
		if !strings.HasPrefix(pkg.PkgPath, modPath) {
			return nil, fmt.Errorf("unexpected package %s outside module", pkg.PkgPath)
		}
		p.byPath[pkg.PkgPath] = pkg
		if spkgs[i] == nil {
			return nil, fmt.Errorf("no SSA for %s", pkg.PkgPath)
		}
		p.ssaPkg[pkg.PkgPath] = spkgs[i]
	}
	for fn := range ssautil.AllFunctions(prog) {
		if fn.Blocks == nil || fn.Pkg == nil && fn.Parent() == nil {
			continue
		}
		if pk := fnPkg(fn); pk == nil || !strings.HasPrefix(pk.Path(), modPath) {
			continue
		}
		p.CGFuncs = append(p.CGFuncs, fn)
		if fn.Synthetic != "" && fn.Parent() == nil && !strings.HasPrefix(fn.Synthetic, "package initializer") {
			// wrappers, bound-method closures, thunks: analysed through their target
			continue
		}
		p.Funcs = append(p.Funcs, fn)
		if d, ok := fn.Syntax().(*ast.FuncDecl); ok {
			p.fnOfDecl[d] = fn
		}
	}
	sort.Slice(p.CGFuncs, func(i, j int) bool { return p.CGFuncs[i].String() < p.CGFuncs[j].String() })
	sort.Slice(p.Funcs, func(i, j int) bool {
		pi, pj := p.Fset.Position(p.Funcs[i].Pos()), p.Fset.Position(p.Funcs[j].Pos())
		if pi.Filename != pj.Filename {
			return pi.Filename < pj.Filename
		}
		if pi.Offset != pj.Offset {
			return pi.Offset < pj.Offset
		}
		return p.Funcs[i].String() < p.Funcs[j].String()
	})
	return p, nil
}

func fnPkg(fn *ssa.Function) *types.Package {
	for f := fn; f != nil; f = f.Parent() {
		if f.Pkg != nil {
			return f.Pkg.Pkg
		}
	}
	if fn.Object() != nil {
		return fn.Object().Pkg()
	}
	return nil
}

func full(rel string) string {
	if rel == "" || rel == "." {
		return modPath
	}
	return modPath + "/" + rel
}

// Pkg returns the module package with the given module-relative path.
func (p *Prog) Pkg(rel string) *packages.Package {
	pkg := p.byPath[full(rel)]
	if pkg == nil {
		anchorFail("package %s not found", rel)
	}
	return pkg
}

func (p *Prog) SSAPkg(rel string) *ssa.Package {
	sp := p.ssaPkg[full(rel)]
	if sp == nil {
		anchorFail("package %s not found", rel)
	}
	return sp
}

// Named returns the named type pkg.name.
func (p *Prog) Named(rel, name string) *types.Named {
	obj := p.Pkg(rel).Types.Scope().Lookup(name)
	tn, ok := obj.(*types.TypeName)
	if !ok {
		anchorFail("type %s.%s not found", rel, name)
	}
	n, ok := tn.Type().(*types.Named)
	if !ok {
		anchorFail("%s.%s is not a named type", rel, name)
	}
	return n
}

// Field returns the field object of struct type pkg.typ (embedded fields are searched one level).
func (p *Prog) Field(rel, typ, field string) *types.Var {
	n := p.Named(rel, typ)
	st, ok := n.Underlying().(*types.Struct)
	if !ok {
		anchorFail("%s.%s is not a struct", rel, typ)
	}
	for i := 0; i < st.NumFields(); i++ {
		if st.Field(i).Name() == field {
			return st.Field(i)
		}
	}
	anchorFail("field %s.%s.%s not found", rel, typ, field)
	return nil
}

// Func returns the package-level function or method. recv is "" for functions,
// "T" or "*T" for methods (both resolve to the declared method).
func (p *Prog) Func(rel, recv, name string) *ssa.Function {
	fn := p.FuncOpt(rel, recv, name)
	if fn == nil {
		anchorFail("function %s.%s%s not found", rel, recvDot(recv), name)
	}
	return fn
}

func recvDot(recv string) string {
	if recv == "" {
		return ""
	}
	return "(" + recv + ")."
}

func (p *Prog) FuncOpt(rel, recv, name string) *ssa.Function {
	sp := p.ssaPkg[full(rel)]
	if sp == nil {
		return nil
	}
	if recv == "" {
		return sp.Func(name)
	}
	tname := strings.TrimPrefix(recv, "*")
	obj := sp.Pkg.Scope().Lookup(tname)
	tn, ok := obj.(*types.TypeName)
	if !ok {
		return nil
	}
	named, ok := tn.Type().(*types.Named)
	if !ok {
		return nil
	}
	for i := 0; i < named.NumMethods(); i++ {
		m := named.Method(i)
		if m.Name() == name {
			return p.SSA.FuncValue(m)
		}
	}
	return nil
}

// Var returns the package-level variable.
func (p *Prog) Global(rel, name string) *ssa.Global {
	sp := p.SSAPkg(rel)
	g, ok := sp.Members[name].(*ssa.Global)
	if !ok {
		anchorFail("package variable %s.%s not found", rel, name)
	}
	return g
}

// GlobalOpt returns the package-level variable or nil.
func (p *Prog) GlobalOpt(rel, name string) *ssa.Global {
	sp := p.ssaPkg[full(rel)]
	if sp == nil {
		return nil
	}
	g, _ := sp.Members[name].(*ssa.Global)
	return g
}

// Anons returns the anonymous functions declared (transitively) inside fn, in source order.
func Anons(fn *ssa.Function) []*ssa.Function {
	var out []*ssa.Function
	var rec func(f *ssa.Function)
	rec = func(f *ssa.Function) {
		for _, a := range f.AnonFuncs {
			out = append(out, a)
			rec(a)
		}
	}
	rec(fn)
	return out
}

func (p *Prog) Pos(pos token.Pos) string {
	if !pos.IsValid() {
		return "-"
	}
	po := p.Fset.Position(pos)
	rel, err := filepath.Rel(p.Dir, po.Filename)
	if err != nil {
		rel = po.Filename
	}
	return fmt.Sprintf("%s:%d", rel, po.Line)
}

func (p *Prog) InstrPos(in ssa.Instruction) string {
	pos := in.Pos()
	if !pos.IsValid() {
		// fall back to the nearest positioned instruction in the block, then the function
		if b := in.Block(); b != nil {
			for _, x := range b.Instrs {
				if x.Pos().IsValid() {
					pos = x.Pos()
					break
				}
			}
		}
		if !pos.IsValid() && in.Parent() != nil {
			pos = in.Parent().Pos()
		}
	}
	return p.Pos(pos)
}

// FuncName gives a stable, readable name: pkg.(*T).m or pkg.f or pkg.f$1.
func FuncName(fn *ssa.Function) string {
	if fn == nil {
		return "<nil>"
	}
	s := fn.String()
	s = strings.ReplaceAll(s, modPath+"/", "")
	s = strings.ReplaceAll(s, modPath, "crng")
	return s
}

// ModuleFunc reports whether fn belongs to the analysed module.
func ModuleFunc(fn *ssa.Function) bool {
	pk := fnPkg(fn)
	return pk != nil && strings.HasPrefix(pk.Path(), modPath)
}

// EnclosingDecl returns the outermost (declared) function containing fn.
func EnclosingDecl(fn *ssa.Function) *ssa.Function {
	for fn.Parent() != nil {
		fn = fn.Parent()
	}
	return fn
}

// SourceOf returns the source text of the file containing pos (from the working tree or overlay).
func (p *Prog) FileOf(pos token.Pos) string {
	return p.Fset.Position(pos).Filename
}
