package main

import (
	"fmt"
	"go/token"
	"go/types"
	"strings"

	"golang.org/x/tools/go/ssa"
)

func init() {
	register(&PropDef{
		ID:    "C16",
		Title: "Re-encoding a line for pickle, grafana.net or Kafka preserves the datapoint",
		Decided: "R1 a line that cannot be represented is skipped, never emitted: in Conn.Write (pickle mode) the error edge of ParseDataPoint counts bad_pickle once and reaches no write; in the grafanaNet and kafkaMdm workers the error edge of parseMetric reaches no append to the batch; parseMetric returns the error of MetricData.Validate; " +
			"R2 field wiring: MetricData{Name ← text before the first ';', Tags ← the sorted remainder, Value ← parsed float, Time ← parsed integer, OrgId ← the parameter, Interval ← Retentions[0].SecondsPerPoint() of the schema matched on name;sorted-tags}; the tags are sorted before the lookup string is built; Datapoint{Name, Val, Time} are the three fields in order; the timestamp is parsed with a bit size that matches the 32-bit type it is narrowed to; " +
			"R3 first rule wins: WhisperSchemas.Match returns at the first matching element in slice order, the schemas are sorted after reading, Less orders by descending priority and the priority encodes the file position (priority<<32 − index).",
		NotDecided: "byte-level validity of the pickle (og-rek), float spelling, which strings a schema pattern matches (reading shows parseMetric matches \"name;\" even for untagged series, so '$'-anchored patterns never match — a value-level issue recorded in DESIGN.md, not claimed).",
		Rules: []RuleDef{
			{ID: "C16.R1", Min: 4, Doc: "skip, never corrupt: path enumeration of Conn.Write, GrafanaNet.run (ingest closure) and KafkaMdm.run; parseMetric's Validate error is returned", Run: c16r1},
			{ID: "C16.R2", Min: 8, Doc: "field wiring of parseMetric's MetricData literal and ParseDataPoint's Datapoint; ordering sort.Strings(tags) → lookup string; ParseUint bit sizes", Run: c16r2},
			{ID: "C16.R4", Min: 2, Doc: "pickle layout: [(string(Name), (Time, Val))] encoded before the big-endian length prefix is computed from the encoded payload (rule C05.R4 evaluated for this property as well)", Run: c05r4},
			{ID: "C16.R3", Min: 3, Doc: "first rule wins: return inside the range loop of Match; sort.Sort(schemas) in ReadWhisperSchemas; Less = Priority >=; Priority = p<<32 − i", Run: c16r3},
		},
	})
}

func c16r1(c *Check) {
	// Conn.Write pickle mode
	cw := c.P.Func("destination", "*Conn", "Write")
	nW := "(*" + modPath + "/destination.Writer).Write"
	cfg := &PathCfg{
		Inline: inlineConnMethods,
		Classify: func(in ssa.Instruction) []string {
			if isCallNamed(in, nW) {
				return []string{"write"}
			}
			if f, ok := counterField(in); ok && f == "numDropBadPickle" {
				return []string{"bad_pickle"}
			}
			return nil
		},
		Branch: func(ifi *ssa.If, cond ssa.Value, taken bool) []string {
			if e, errEdge, ok := errTest(cond); ok {
				if _, isP := callOf(e, modPath+"/destination.ParseDataPoint"); isP {
					if taken == errEdge {
						return []string{"parse:failed"}
					}
					return []string{"parse:ok"}
				}
			}
			return nil
		},
	}
	paths, _ := EnumPaths(cw, nil, cfg)
	bad := ""
	nFail := 0
	for i := range paths {
		pa := &paths[i]
		if pa.Has("parse:failed") {
			nFail++
			if pa.Has("write") || pa.Count("bad_pickle") != 1 {
				bad = "an unrepresentable line is written (or not counted as bad_pickle exactly once): " + pa.String()
			}
		} else if pa.Has("bad_pickle") {
			bad = "bad_pickle counted for a line that parsed: " + pa.String()
		}
	}
	c.Judge(bad == "" && nFail > 0, "destination.Conn.Write skips lines that cannot be pickled", c.AtFn(cw), fmt.Sprintf("%d paths, %d on the parse-error edge: counted once, nothing written", len(paths), nFail), bad)
	// workers
	nPM := modPath + "/route.parseMetric"
	for _, w := range [][2]string{{"*GrafanaNet", "run"}, {"*KafkaMdm", "run"}} {
		fn := c.P.Func("route", w[0], w[1])
		n, badW := 0, ""
		for _, f := range workerFuncs(c.P, fn) {
			var pm *ssa.Call
			allInstrs(f, func(in ssa.Instruction) {
				if call, ok := in.(*ssa.Call); ok && calleeName(call.Common()) == nPM {
					pm = call
				}
			})
			if pm == nil {
				continue
			}
			n++
			// every append whose element is the parsed metric must be dominated by the no-error edge
			allInstrs(f, func(in ssa.Instruction) {
				cc, ok := isBuiltinCall(in, "append")
				if !ok {
					return
				}
				uses := false
				for _, a := range cc.Args[1:] {
					if derivedFrom(a, pm, map[ssa.Value]bool{}) {
						uses = true
					}
				}
				// variadic append(metrics, md): md stored into a one-element array
				if sl, ok := cc.Args[1].(*ssa.Slice); ok {
					if al, ok := sl.X.(*ssa.Alloc); ok {
						for _, r := range *al.Referrers() {
							if ia, ok := r.(*ssa.IndexAddr); ok {
								for _, rr := range *ia.Referrers() {
									if st, ok := rr.(*ssa.Store); ok && derivedFrom(st.Val, pm, map[ssa.Value]bool{}) {
										uses = true
									}
								}
							}
						}
					}
				}
				if !uses {
					return
				}
				guarded := false
				for _, b := range f.Blocks {
					ifi, ok := b.Instrs[len(b.Instrs)-1].(*ssa.If)
					if !ok {
						continue
					}
					e, errEdge, ok := errTest(ifi.Cond)
					if !ok {
						continue
					}
					if ex, ok := e.(*ssa.Extract); !ok || ex.Tuple != ssa.Value(pm) {
						continue
					}
					si := 1
					if !errEdge {
						si = 0
					}
					if edgeDominates(b, b.Succs[si], in.Block()) {
						guarded = true
					}
				}
				if !guarded {
					badW = "a metric is appended to the batch without passing the no-error edge of parseMetric at " + c.At(in)
				}
			})
		}
		c.Judge(n > 0 && badW == "", FuncName(fn)+" batches only metrics that parsed", c.AtFn(fn), "append is dominated by parseMetric's no-error edge", badW+": a nil or partially filled record is sent")
	}
	// parseMetric returns Validate's error
	pm := c.P.Func("route", "", "parseMetric")
	okV := false
	allInstrs(pm, func(in ssa.Instruction) {
		call, ok := in.(*ssa.Call)
		if !ok || !strings.HasSuffix(calleeName(call.Common()), "schema.MetricData).Validate") {
			return
		}
		for _, b := range pm.Blocks {
			ifi, ok := b.Instrs[len(b.Instrs)-1].(*ssa.If)
			if !ok {
				continue
			}
			e, errEdge, ok := errTest(ifi.Cond)
			if !ok || e != ssa.Value(call) {
				continue
			}
			si := 0
			if !errEdge {
				si = 1
			}
			for _, x := range b.Succs[si].Instrs {
				if r, ok := x.(*ssa.Return); ok && len(r.Results) == 2 && r.Results[1] == ssa.Value(call) {
					if cst, ok := r.Results[0].(*ssa.Const); ok && cst.IsNil() {
						okV = true
					}
				}
			}
		}
	})
	c.Judge(okV, "route.parseMetric rejects records that fail MetricData.Validate", c.AtFn(pm), "returns (nil, err) on the Validate error edge", "a record that fails validation (invalid name or tags) is still returned to the worker")
}

// literalFields: stores into the fields of a local struct of the named type: field -> stored value.
func literalFields(fn *ssa.Function, typeSuffix string) map[string]ssa.Value {
	out := map[string]ssa.Value{}
	allInstrs(fn, func(in ssa.Instruction) {
		st, ok := in.(*ssa.Store)
		if !ok {
			return
		}
		fa, ok := st.Addr.(*ssa.FieldAddr)
		if !ok || !strings.HasSuffix(fa.X.Type().String(), typeSuffix) {
			return
		}
		out[fieldOfAddr(fa).Name()] = st.Val
	})
	return out
}

func c16r2(c *Check) {
	pm := c.P.Func("route", "", "parseMetric")
	lit := literalFields(pm, "schema.MetricData")
	if len(lit) == 0 {
		anchorFail("parseMetric: MetricData literal not found")
	}
	// helpers to recognise provenance
	var parseFloat, parseUint, split, sortCall, sprintf, match *ssa.Call
	allInstrs(pm, func(in ssa.Instruction) {
		if call, ok := in.(*ssa.Call); ok {
			switch n := calleeName(call.Common()); {
			case n == "strconv.ParseFloat":
				parseFloat = call
			case n == "strconv.ParseUint" || n == "strconv.ParseInt":
				parseUint = call
			case n == "strings.Split":
				split = call
			case n == "sort.Strings":
				sortCall = call
			case n == "fmt.Sprintf":
				if f, _ := constString(call.Call.Args[0]); f == "%s;%s" {
					sprintf = call
				}
			case strings.HasSuffix(n, "WhisperSchemas).Match"):
				match = call
			}
		}
	})
	fromCall := func(v ssa.Value, call *ssa.Call, idx int) bool {
		v = stripConv(v)
		ex, ok := v.(*ssa.Extract)
		return ok && call != nil && ex.Tuple == ssa.Value(call) && ex.Index == idx
	}
	elem := func(v ssa.Value, k int64) (ssa.Value, bool) {
		u, ok := v.(*ssa.UnOp)
		if !ok {
			return nil, false
		}
		ia, ok := u.X.(*ssa.IndexAddr)
		if !ok {
			return nil, false
		}
		if kk, ok := constInt(ia.Index); !ok || kk != k {
			return nil, false
		}
		return ia.X, true
	}
	check := func(field string, ok bool, good, bad string) {
		c.Judge(ok, "route.parseMetric MetricData."+field, c.AtFn(pm), good, bad)
	}
	// Name = strings.Split(elements[0], ";")[0]
	okName := false
	if x, ok := elem(lit["Name"], 0); ok && split != nil && x == ssa.Value(split) {
		if s, _ := constString(split.Call.Args[1]); s == ";" {
			if _, ok := elem(split.Call.Args[0], 0); ok {
				okName = true
			}
		}
	}
	check("Name", okName, "text before the first ';' of the first field", "the record's Name is not the part of the first field before the first ';'")
	// Tags = elements[1:] of the split, sorted
	okTags := false
	if sl, ok := lit["Tags"].(*ssa.Slice); ok && split != nil && sl.X == ssa.Value(split) {
		if k, ok := constInt(sl.Low); ok && k == 1 && sl.High == nil {
			if sortCall != nil && sortCall.Call.Args[0] == lit["Tags"] {
				okTags = true
			}
		}
	}
	check("Tags", okTags, "the ';'-separated remainder, sorted with sort.Strings", "the record's Tags are not the sorted remainder of the first field")
	check("Value", fromCall(lit["Value"], parseFloat, 0) && parseFloat != nil && isElemOf(parseFloat.Call.Args[0], 1), "ParseFloat of the second field", "the record's Value is not the parsed second field")
	check("Time", fromCall(lit["Time"], parseUint, 0) && parseUint != nil && isElemOf(parseUint.Call.Args[0], 2), "parsed third field", "the record's Time is not the parsed third field")
	check("OrgId", lit["OrgId"] == ssa.Value(pm.Params[2]), "the orgId parameter", "the record's OrgId is not the configured organisation id")
	// Interval = s.Retentions[0].SecondsPerPoint() of Match(nameWithTags)
	okInt := false
	if call, ok := lit["Interval"].(*ssa.Call); ok && strings.HasSuffix(calleeName(call.Common()), "Retention).SecondsPerPoint") {
		if x, ok := elem(call.Call.Args[0], 0); ok {
			if _, names := fieldPath(x); len(names) > 0 && names[len(names)-1] == "Retentions" {
				root, _ := fieldPath(x)
				if fromCall(root, match, 0) {
					okInt = true
				}
			}
		}
	}
	check("Interval", okInt, "SecondsPerPoint of the first retention of the matched schema", "the record's Interval is not taken from the first retention of the schema that matched")
	// lookup string: Sprintf("%s;%s", name, strings.Join(tags, ";")) built AFTER sort.Strings(tags)
	// (Sprintf("%s;%s", name, Join) or name + ";" + Join: any concatenation that contains the Join of the sorted slice)
	_ = sprintf
	var join *ssa.Call
	allInstrs(pm, func(in ssa.Instruction) {
		if call, ok := in.(*ssa.Call); ok && calleeName(call.Common()) == "strings.Join" && sortCall != nil && call.Call.Args[0] == sortCall.Call.Args[0] {
			if sep, _ := constString(call.Call.Args[1]); sep == ";" {
				join = call
			}
		}
	})
	okLookup := match != nil && join != nil && instrDominates(sortCall, join)
	// the lookup key per path: the name alone for a series without tags, name;sorted-tags otherwise
	keyProblem := ""
	if match != nil && split != nil {
		isTags := func(v ssa.Value) bool {
			sl, ok := v.(*ssa.Slice)
			if !ok || sl.X != ssa.Value(split) {
				return false
			}
			k, ok := constInt(sl.Low)
			return ok && k == 1 && sl.High == nil
		}
		isName := func(v ssa.Value) bool {
			x, ok := elem(v, 0)
			return ok && x == ssa.Value(split)
		}
		kcfg := &PathCfg{
			BranchV: func(ifi *ssa.If, cond ssa.Value, taken bool, resolve func(ssa.Value) ssa.Value) []string {
				cnd, neg := negStrip(cond)
				bo, ok := cnd.(*ssa.BinOp)
				if !ok {
					return nil
				}
				for _, sd := range [][2]ssa.Value{{bo.X, bo.Y}, {bo.Y, bo.X}} {
					call, ok := sd[0].(*ssa.Call)
					if !ok {
						continue
					}
					b, ok := call.Call.Value.(*ssa.Builtin)
					if !ok || b.Name() != "len" {
						continue
					}
					arg := call.Call.Args[0]
					base := int64(0)
					if arg == ssa.Value(split) {
						base = 1 // len(elements): one more than the number of tags
					} else if !isTags(arg) {
						continue
					}
					k, ok := constInt(sd[1])
					if !ok {
						continue
					}
					op := bo.Op
					if sd[0] == bo.Y {
						op = flipRel(op)
					}
					val := taken != neg
					r0, ok0 := evalRel(op, base, k)
					r1, ok1 := evalRel(op, base+1, k)
					if ok0 && ok1 && r0 != r1 {
						if r0 == val {
							return []string{"tags:empty"}
						}
						return []string{"tags:nonempty"}
					}
				}
				return nil
			},
			ClassifyV: func(in ssa.Instruction, resolve func(ssa.Value) ssa.Value) []string {
				if in != ssa.Instruction(match) {
					return nil
				}
				v := resolve(match.Call.Args[1])
				if isName(v) {
					return []string{"key:name"}
				}
				if jc, ok := v.(*ssa.Call); ok && calleeName(jc.Common()) == "strings.Join" && jc.Call.Args[0] == ssa.Value(split) {
					if sep, _ := constString(jc.Call.Args[1]); sep == ";" {
						return []string{"key:join-all"}
					}
				}
				f, ops, ok := textTemplate(v, 0)
				if ok && f == "%s;%s" && len(ops) == 2 && isName(ops[0]) && ops[1] == ssa.Value(join) {
					return []string{"key:name;tags"}
				}
				return []string{"key:other(" + f + ")"}
			},
		}
		kpaths, ktrunc := EnumPaths(pm, nil, kcfg)
		nKey := 0
		for i := range kpaths {
			pa := &kpaths[i]
			var key string
			for _, e := range pa.Events {
				if strings.HasPrefix(e.Class, "key:") {
					key = strings.TrimPrefix(e.Class, "key:")
				}
			}
			if key == "" {
				continue
			}
			nKey++
			switch {
			case key == "join-all":
			case pa.Has("tags:empty") && key != "name":
				keyProblem = "a series without tags is looked up as " + key + " instead of its plain name"
			case pa.Has("tags:nonempty") && key != "name;tags":
				keyProblem = "a tagged series is looked up as " + key + " instead of name;sorted-tags"
			case !pa.Has("tags:empty") && !pa.Has("tags:nonempty") && key == "name;tags":
				keyProblem = "the lookup string is name + \";\" + tags whether or not there are tags: a series without tags is looked up with a trailing ';', so a '$'-anchored storage-schemas pattern never matches it and it gets the interval of a later rule"
			case !pa.Has("tags:empty") && !pa.Has("tags:nonempty") && key != "name;tags":
				keyProblem = "the lookup string is " + key
			}
		}
		if ktrunc || nKey == 0 {
			keyProblem = "no path to the schema lookup enumerated"
		}
	}
	c.Judge(keyProblem == "", "route.parseMetric looks the series up under the name graphite presents", c.AtFn(pm), "plain name without tags, name;sorted-tags with tags", keyProblem)
	c.Judge(okLookup, "route.parseMetric matches schemas on name;sorted-tags", c.AtFn(pm), "sort.Strings(tags) precedes the construction of the lookup string", "the storage-schemas rule is selected on the tags in the order the sender wrote them (the lookup string is built before the tags are sorted): the Interval depends on tag order instead of Graphite's canonical form")
	// bit sizes
	for _, x := range []struct {
		pkg, fn string
	}{{"route", "parseMetric"}, {"destination", "ParseDataPoint"}} {
		fn := c.P.Func(x.pkg, "", x.fn)
		allInstrs(fn, func(in ssa.Instruction) {
			call, ok := in.(*ssa.Call)
			if !ok || (calleeName(call.Common()) != "strconv.ParseUint" && calleeName(call.Common()) != "strconv.ParseInt") {
				return
			}
			bits, _ := constInt(call.Call.Args[2])
			base, _ := constInt(call.Call.Args[1])
			// narrowed to?
			narrow := int64(64)
			for _, r := range *call.Referrers() {
				if ex, ok := r.(*ssa.Extract); ok && ex.Index == 0 {
					for _, rr := range *ex.Referrers() {
						if cv, ok := rr.(*ssa.Convert); ok {
							if b, ok := cv.Type().Underlying().(*types.Basic); ok {
								switch b.Kind() {
								case types.Uint32, types.Int32:
									narrow = 32
								}
							}
						}
					}
				}
			}
			okBits := base == 10 && bits > 0 && bits <= 32
			_ = narrow
			c.Judge(okBits, x.pkg+"."+x.fn+" timestamp parsed as a 32-bit decimal", c.At(call), fmt.Sprintf("ParseUint(_, %d, %d)", base, bits), fmt.Sprintf("the timestamp is parsed with base %d and bit size %d: values beyond 32 bits are no longer rejected and wrap when the record's 32-bit time is built (a corrupted datapoint is emitted instead of being skipped)", base, bits))
		})
	}
	// Datapoint{name, val, uint32(timestamp)}
	pdp := c.P.Func("destination", "", "ParseDataPoint")
	dl := literalFields(pdp, "destination.Datapoint")
	okDP := len(dl) == 3 && isElemOf(dl["Name"], 0)
	var pf, pu *ssa.Call
	allInstrs(pdp, func(in ssa.Instruction) {
		if call, ok := in.(*ssa.Call); ok {
			switch calleeName(call.Common()) {
			case "strconv.ParseFloat":
				pf = call
			case "strconv.ParseUint":
				pu = call
			}
		}
	})
	okDP = okDP && fromCall(dl["Val"], pf, 0) && fromCall(dl["Time"], pu, 0) && pf != nil && pu != nil && isElemOf(pf.Call.Args[0], 1) && isElemOf(pu.Call.Args[0], 2)
	c.Judge(okDP, "destination.ParseDataPoint Datapoint{Name, Val, Time} = fields 0, 1, 2", c.AtFn(pdp), "name, parsed value, parsed timestamp", "the Datapoint is not built from the three fields in order")
}

// isElemOf: v is elements[k] of some slice.
func isElemOf(v ssa.Value, k int64) bool {
	u, ok := v.(*ssa.UnOp)
	if !ok {
		return false
	}
	ia, ok := u.X.(*ssa.IndexAddr)
	if !ok {
		return false
	}
	kk, ok := constInt(ia.Index)
	return ok && kk == k
}

func c16r3(c *Check) {
	m := c.P.Func("persister", "WhisperSchemas", "Match")
	loops := loopsOf(m)
	okFirst := false
	if len(loops) == 1 {
		sl, idx, ok := rangeLoopOver(loops[0])
		if ok && sl == ssa.Value(m.Params[0]) {
			// a return with ok=true inside the iteration, guarded by MatchString on the loop element's Pattern
			allInstrs(m, func(in ssa.Instruction) {
				r, isRet := in.(*ssa.Return)
				if !isRet || len(r.Results) != 2 {
					return
				}
				if v, isC := constBool(r.Results[1]); isC && v {
					if enclosingLoop(loops, r.Block()) == loops[0] {
						okFirst = true
					}
				}
			})
			_ = idx
		}
	}
	// each section's priority is its own: nothing carried over from the previous section
	rws := c.P.Func("persister", "", "ReadWhisperSchemas")
	prioF := c.P.Field("persister", "Schema", "Priority")
	var prioStore *ssa.Store
	var prioFn *ssa.Function
	for _, f := range samePkgCallees(c.P, rws) {
		f := f
		allInstrs(f, func(in ssa.Instruction) {
			if st, ok := in.(*ssa.Store); ok {
				if fa, ok := st.Addr.(*ssa.FieldAddr); ok && fieldOfAddr(fa) == prioF {
					prioStore, prioFn = st, f
				}
			}
		})
	}
	if prioStore == nil {
		anchorFail("ReadWhisperSchemas: store into Schema.Priority not found")
	}
	if prioFn == rws {
		if l := innermostLoop(loopsOf(rws), prioStore.Block()); l == nil {
			c.Violate("persister.ReadWhisperSchemas priority per section", c.At(prioStore), "Schema.Priority is not assigned inside the loop over the sections")
		} else {
			why := loopCarried(c.P, prioStore.Val, l, prioStore)
			c.Judge(why == "", "persister.ReadWhisperSchemas priority per section", c.At(prioStore), "computed from this section's `priority` setting (default 0) and its position only", "a section's priority depends on an earlier section: "+why+" — a section without `priority` inherits the last one given, so the rule order (first match wins) is not the documented one")
		}
	} else {
		// the section is parsed by a helper called once per section: what it is given is this section's own
		why, nSites := "", 0
		for _, e := range c.P.CG().In[prioFn] {
			if e.Caller != rws || e.Kind != EdgeCall {
				continue
			}
			nSites++
			l := innermostLoop(loopsOf(rws), e.Site.Block())
			if l == nil {
				why = "the helper that sets Schema.Priority is not called inside the loop over the sections"
				continue
			}
			for _, a := range callCommon(e.Site).Args {
				if w := loopCarried(c.P, a, l, e.Site); w != "" {
					why = w
				}
			}
		}
		// inside the helper the value may not come from package state
		allInstrs(prioFn, func(in ssa.Instruction) {
			if u, ok := in.(*ssa.UnOp); ok {
				if _, isG := u.X.(*ssa.Global); isG && derivedFromAny(prioStore.Val, u) {
					why = "the priority is computed from a package variable (" + c.At(in) + ")"
				}
			}
		})
		c.Judge(why == "" && nSites > 0, "persister.ReadWhisperSchemas priority per section", c.At(prioStore), "computed by "+prioFn.Name()+" from this section's settings and its position only", "a section's priority depends on an earlier section: "+why+" — a section without `priority` inherits the last one given, so the rule order (first match wins) is not the documented one")
	}
	// ini values are taken as written: the key/value split is applied to the very line that the
	// comment and section tests looked at (nothing is cut out of it first)
	pif := c.P.Func("persister", "", "parseIniFile")
	var splitArg ssa.Value
	var splitAt ssa.Instruction
	lineVals := map[ssa.Value]bool{}
	for _, f := range samePkgCallees(c.P, pif) {
		allInstrs(f, func(in ssa.Instruction) {
			// the key/value split: strings.SplitN(line, "=", n) or its two-result form strings.Cut(line, "=")
			if call, ok := in.(*ssa.Call); ok && (calleeName(call.Common()) == "strings.SplitN" || calleeName(call.Common()) == "strings.Cut") {
				if sep, _ := constString(call.Call.Args[1]); sep == "=" {
					splitArg, splitAt = call.Call.Args[0], in
				}
			}
		})
	}
	allInstrs(pif, func(in ssa.Instruction) {
		// operands of first-byte tests: line[0] == ';' etc.
		switch x := in.(type) {
		case *ssa.Index:
			if k, ok := constInt(x.Index); ok && k == 0 {
				lineVals[x.X] = true
			}
		case *ssa.Lookup:
			if k, ok := constInt(x.Index); ok && k == 0 {
				lineVals[x.X] = true
			}
		case *ssa.Call:
			// a helper that is handed the line's first byte / the line
			for _, a := range x.Call.Args {
				if ix, ok := a.(*ssa.Index); ok {
					if k, ok := constInt(ix.Index); ok && k == 0 {
						lineVals[ix.X] = true
					}
				}
			}
		}
	})
	if splitAt == nil {
		anchorFail("parseIniFile: key = value split not found")
	}
	// ... and what is stored as the setting's value is the text after the '=', with nothing but
	// surrounding white space and quotes removed
	var valueProblem string
	nVal := 0
	var trimmedOnly func(v ssa.Value, depth int) bool
	trimmedOnly = func(v ssa.Value, depth int) bool {
		if depth > 8 {
			return false
		}
		switch x := v.(type) {
		case *ssa.Call:
			switch calleeName(x.Common()) {
			case "strings.TrimSpace":
				return trimmedOnly(x.Call.Args[0], depth+1)
			case "strings.Trim", "strings.TrimLeft", "strings.TrimRight":
				if cut, ok := constString(x.Call.Args[1]); ok && strings.Trim(cut, "\"' \t") == "" {
					return trimmedOnly(x.Call.Args[0], depth+1)
				}
				return false
			}
			// a helper of the package: its result must be its argument, trimmed in the same way
			if g := x.Call.StaticCallee(); g != nil && g.Blocks != nil && fnPkg(g) == fnPkg(pif) && len(g.Params) == 1 && len(x.Call.Args) == 1 {
				okAll, nRet := true, 0
				allInstrs(g, func(in ssa.Instruction) {
					if r, ok := in.(*ssa.Return); ok && len(r.Results) == 1 {
						nRet++
						if !trimmedOnly(r.Results[0], depth+1) {
							okAll = false
						}
					}
				})
				return okAll && nRet > 0 && trimmedOnly(x.Call.Args[0], depth+1)
			}
			return false
		case *ssa.Parameter:
			return x.Parent() != pif
		case *ssa.UnOp:
			// element of the key/value split
			if ia, ok := x.X.(*ssa.IndexAddr); ok {
				if k, ok := constInt(ia.Index); ok && k == 1 {
					if call, ok := ia.X.(*ssa.Call); ok && call == splitAt {
						return true
					}
				}
			}
			return false
		case *ssa.Phi:
			for _, e := range x.Edges {
				if !trimmedOnly(e, depth+1) {
					return false
				}
			}
			return len(x.Edges) > 0
		case *ssa.Extract:
			// strings.Cut(line, "=") style
			if call, ok := x.Tuple.(*ssa.Call); ok && (calleeName(call.Common()) == "strings.Cut") {
				return x.Index == 1 && ssa.Instruction(call) == splitAt
			}
			// one of several results of a helper of the package (key, value, err := parseKeyValue(line))
			if call, ok := x.Tuple.(*ssa.Call); ok {
				if g := call.Call.StaticCallee(); g != nil && g.Blocks != nil && fnPkg(g) == fnPkg(pif) {
					okAll, nRet := true, 0
					allInstrs(g, func(in ssa.Instruction) {
						r, ok := in.(*ssa.Return)
						if !ok || x.Index >= len(r.Results) {
							return
						}
						// error returns carry the zero value
						if k, ok := r.Results[x.Index].(*ssa.Const); ok {
							if sv, ok := constString(k); ok && sv == "" {
								return
							}
						}
						nRet++
						if !trimmedOnly(r.Results[x.Index], depth+1) {
							okAll = false
						}
					})
					return okAll && nRet > 0
				}
			}
		}
		return false
	}
	for _, f := range samePkgCallees(c.P, pif) {
		allInstrs(f, func(in ssa.Instruction) {
			mu, ok := in.(*ssa.MapUpdate)
			if !ok {
				return
			}
			if _, isConstKey := mu.Key.(*ssa.Const); isConstKey {
				return // section["name"] = ...
			}
			nVal++
			if !trimmedOnly(mu.Value, 0) {
				valueProblem = "the value stored for a setting (" + c.At(mu) + ") is not just the text after '=' with surrounding white space and quotes removed"
			}
		})
	}
	c.Judge(valueProblem == "" && nVal > 0, "persister.parseIniFile stores values as written", c.At(splitAt), "value = Trim(TrimSpace(kv[1]), quotes)", valueProblem+": something is cut out of the value (e.g. a trailing `;…` / `#…`), so a storage-schemas pattern that contains ';' (tag matching) or '#' is silently truncated and matches series it should not")
	okSplitArg := lineVals[splitArg]
	if par, ok := splitArg.(*ssa.Parameter); ok && !okSplitArg {
		// the split lives in a helper that is handed the line
		if args, ok := c.P.paramArgs(par); ok && len(args) > 0 {
			okSplitArg = true
			for _, a := range args {
				if !lineVals[a] {
					okSplitArg = false
				}
			}
		}
	}
	c.Judge(okSplitArg, "persister.parseIniFile takes values as written", c.At(splitAt), "SplitN(line, \"=\", 2) on the trimmed line itself", "the line is edited before it is split into key and value (e.g. a trailing `;…` / `#…` is cut off): a storage-schemas pattern that contains ';' (tag matching) or '#' is silently truncated and matches series it should not")
	// ... and a rule is passed over only because its pattern does not match: every decision inside the loop
	// is the outcome of Pattern.MatchString on the loop element
	skipProblem := ""
	if len(loops) == 1 {
		for b := range loops[0].Body {
			ifi, ok := b.Instrs[len(b.Instrs)-1].(*ssa.If)
			if !ok || b == loops[0].Header {
				continue
			}
			cnd, _ := negStrip(ifi.Cond)
			call, isCall := cnd.(*ssa.Call)
			if isCall && strings.HasSuffix(calleeName(call.Common()), "regexp.Regexp).MatchString") {
				if _, names := fieldPath(call.Call.Args[0]); len(names) > 0 && names[len(names)-1] == "Pattern" {
					continue
				}
			}
			skipProblem = "a storage-schemas rule is skipped or chosen on a condition other than its pattern (" + c.At(ifi) + ")"
		}
	}
	c.Judge(skipProblem == "", "persister.WhisperSchemas.Match decides on the pattern only", c.AtFn(m), "the only test inside the loop is Pattern.MatchString(metric)", skipProblem+": a shortcut in front of the regular expression (a literal prefix, a cached verdict) changes which rule is the first to match, e.g. for unanchored patterns")
	c.Judge(okFirst, "persister.WhisperSchemas.Match returns at the first matching schema", c.AtFn(m), "return inside the range loop over the (sorted) schemas", "Match does not stop at the first matching rule in slice order (e.g. it keeps scanning and returns the last match)")
	rs := c.P.Func("persister", "", "ReadWhisperSchemas")
	sorted := false
	prio := false
	for _, rsf := range samePkgCallees(c.P, rs) {
		allInstrs(rsf, func(in ssa.Instruction) {
			if call, ok := in.(*ssa.Call); ok && rsf == rs && (calleeName(call.Common()) == "sort.Sort" || calleeName(call.Common()) == "sort.Stable") {
				sorted = true
			}
			// Priority = p<<32 - i
			if st, ok := in.(*ssa.Store); ok {
				if fa, ok := st.Addr.(*ssa.FieldAddr); ok && fieldOfAddr(fa).Name() == "Priority" {
					if sub, ok := st.Val.(*ssa.BinOp); ok && sub.Op == token.SUB {
						if shl, ok := sub.X.(*ssa.BinOp); ok && shl.Op == token.SHL {
							if k, ok := constInt(shl.Y); ok && k == 32 {
								prio = true
							}
						}
					}
				}
			}
		})
	}
	c.Judge(sorted && prio, "persister.ReadWhisperSchemas sorts by priority, ties by file position", c.AtFn(rs), "Priority = priority<<32 − index; sort.Sort(schemas)", "schemas are not ordered by (priority, position in file) after reading")
	less := c.P.Func("persister", "WhisperSchemas", "Less")
	okLess := false
	allInstrs(less, func(in ssa.Instruction) {
		if bo, ok := in.(*ssa.BinOp); ok && (bo.Op == token.GEQ || bo.Op == token.GTR) {
			_, n1 := fieldPath(bo.X)
			_, n2 := fieldPath(bo.Y)
			if len(n1) > 0 && len(n2) > 0 && n1[len(n1)-1] == "Priority" && n2[len(n2)-1] == "Priority" && indexParam(bo.X, less) == 1 && indexParam(bo.Y, less) == 2 {
				okLess = true
			}
		}
	})
	c.Judge(okLess, "persister.WhisperSchemas.Less orders by descending priority", c.AtFn(less), "s[i].Priority >= s[j].Priority", "Less does not put higher priorities (and earlier file positions) first")
}

// stringBuiltFrom: the string v is a concatenation (+, fmt.Sprintf) that contains part.
func stringBuiltFrom(v ssa.Value, part ssa.Value, depth int) bool {
	if v == part {
		return true
	}
	if depth > 8 {
		return false
	}
	switch x := v.(type) {
	case *ssa.BinOp:
		return x.Op == token.ADD && (stringBuiltFrom(x.X, part, depth+1) || stringBuiltFrom(x.Y, part, depth+1))
	case *ssa.MakeInterface:
		return stringBuiltFrom(x.X, part, depth+1)
	case *ssa.ChangeType:
		return stringBuiltFrom(x.X, part, depth+1)
	case *ssa.Phi:
		for _, e := range x.Edges {
			if !stringBuiltFrom(e, part, depth+1) {
				return false
			}
		}
		return len(x.Edges) > 0
	case *ssa.Call:
		if calleeName(x.Common()) == "fmt.Sprintf" && len(x.Call.Args) == 2 {
			if elems, ok := variadicElems(x.Call.Args[1]); ok {
				for _, e := range elems {
					if stringBuiltFrom(e, part, depth+1) {
						return true
					}
				}
			}
		}
	}
	return false
}

// inlineConnMethods: helpers of destination.Conn (e.g. an extracted encode step) are expanded in place.
func inlineConnMethods(g *ssa.Function) bool {
	return g.Signature.Recv() != nil && strings.HasSuffix(g.Signature.Recv().Type().String(), "destination.Conn")
}

// derivedFromAny: v is computed (arithmetic, conversions, phis) from w.
func derivedFromAny(v, w ssa.Value) bool {
	seen := map[ssa.Value]bool{}
	var walk func(x ssa.Value, d int) bool
	walk = func(x ssa.Value, d int) bool {
		if x == w {
			return true
		}
		if d > 12 || seen[x] {
			return false
		}
		seen[x] = true
		in, ok := x.(ssa.Instruction)
		if !ok {
			return false
		}
		for _, op := range in.Operands(nil) {
			if *op != nil && walk(*op, d+1) {
				return true
			}
		}
		return false
	}
	return walk(v, 0)
}
