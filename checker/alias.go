package main

// Per-iteration identity: a pointer that a callee keeps must not be the address of a
// variable that the enclosing loop overwrites on its next iteration. (With the pre-1.22
// loop-variable semantics the module declares, `for _, m := range xs { keep(&m) }` makes
// every kept pointer refer to the last element.)

import (
	"fmt"

	"golang.org/x/tools/go/ssa"
)

// retainsParam: may the callee keep argument idx (store it, send it, capture it in a stored
// closure, hand it to a callee that keeps it) beyond the call?
func retainsParam(p *Prog, fn *ssa.Function, idx int, depth int, seen map[string]bool) bool {
	if fn == nil || len(fn.Blocks) == 0 || idx >= len(fn.Params) {
		return false
	}
	return retainsValue(p, fn, fn.Params[idx], depth, seen)
}

func retainsValue(p *Prog, fn *ssa.Function, root ssa.Value, depth int, seen map[string]bool) bool {
	key := fmt.Sprintf("%p/%s", fn, root.Name())
	if seen[key] || depth > 5 {
		return false
	}
	seen[key] = true
	tracked := map[ssa.Value]bool{root: true}
	work := []ssa.Value{root}
	for len(work) > 0 {
		v := work[len(work)-1]
		work = work[:len(work)-1]
		refs := v.Referrers()
		if refs == nil {
			continue
		}
		for _, r := range *refs {
			switch r := r.(type) {
			case *ssa.Store:
				if r.Val == v {
					return true
				}
			case *ssa.Send:
				if r.X == v {
					return true
				}
			case *ssa.MapUpdate:
				if r.Value == v || r.Key == v {
					return true
				}
			case *ssa.Phi, *ssa.ChangeType, *ssa.MakeInterface, *ssa.ChangeInterface, *ssa.TypeAssert, *ssa.Convert:
				if val, ok := r.(ssa.Value); ok && !tracked[val] {
					tracked[val] = true
					work = append(work, val)
				}
			case *ssa.MakeClosure:
				cl := r.Fn.(*ssa.Function)
				for i, b := range r.Bindings {
					if b == v && i < len(cl.FreeVars) {
						if retainsValue(p, cl, cl.FreeVars[i], depth+1, seen) {
							return true
						}
					}
				}
			case ssa.CallInstruction:
				cc := r.Common()
				if _, isGo := r.(*ssa.Go); isGo {
					return true
				}
				args := cc.Args
				off := 0
				if cc.IsInvoke() {
					off = 1
					if cc.Value == v {
						continue
					}
				} else if cc.Value == v {
					continue
				}
				for i, a := range args {
					if a != v {
						continue
					}
					if cc.IsInvoke() {
						for _, e := range p.CG().Out[fn] {
							if e.Site == r.(ssa.Instruction) && e.Callee != nil && retainsParam(p, e.Callee, i+off, depth+1, seen) {
								return true
							}
						}
						continue
					}
					callee := cc.StaticCallee()
					if callee == nil {
						// a function value: unknown callee
						return true
					}
					if len(callee.Blocks) == 0 {
						continue // external (standard library) callee: formatting, comparison...
					}
					if retainsParam(p, callee, i, depth+1, seen) {
						return true
					}
				}
			}
		}
	}
	return false
}

// loopAliasCheck reports, in every module function, the address of a variable declared outside
// a loop that is overwritten inside the loop and handed, inside the same loop, to something
// that keeps it. Returns the number of (loop, kept pointer) sites examined.
func loopAliasCheck(c *Check, rule string) int {
	n := 0
	for _, fn := range c.P.Funcs {
		if len(fn.Blocks) == 0 {
			continue
		}
		loops := loopsOf(fn)
		if len(loops) == 0 {
			continue
		}
		for _, b := range fn.Blocks {
			for _, in := range b.Instrs {
				al, ok := in.(*ssa.Alloc)
				if !ok || !al.Heap || al.Referrers() == nil {
					continue
				}
				for _, l := range loops {
					if l.Body[al.Block()] {
						continue
					}
					written := false
					for _, r := range *al.Referrers() {
						if st, ok := r.(*ssa.Store); ok && st.Addr == al && l.Body[st.Block()] {
							written = true
						}
					}
					if !written {
						continue
					}
					// uses of the address itself inside the loop
					for _, r := range *al.Referrers() {
						if !l.Body[r.Block()] {
							continue
						}
						kept := ""
						switch r := r.(type) {
						case *ssa.Store:
							if r.Val == al {
								kept = "stored"
							}
						case *ssa.Send:
							if r.X == al {
								kept = "sent on a channel"
							}
						case *ssa.MapUpdate:
							if r.Value == al {
								kept = "stored in a map"
							}
						case ssa.CallInstruction:
							cc := r.Common()
							isArg := false
							for _, a := range cc.Args {
								if a == al {
									isArg = true
								}
							}
							if !isArg {
								continue
							}
							n++
							if retainsValueAtCall(c.P, fn, r, al) {
								kept = "handed to " + short(calleeName(cc)) + ", which keeps it"
							} else {
								c.Hold(fmt.Sprintf("%s %s &%s → %s", rule, FuncName(fn), al.Comment, short(calleeName(cc))), c.At(r), "the callee does not keep the pointer beyond the call")
							}
						}
						if kept != "" {
							if _, isCall := r.(ssa.CallInstruction); !isCall {
								n++
							}
							c.Violate(fmt.Sprintf("%s %s &%s", rule, FuncName(fn), al.Comment), c.At(r),
								fmt.Sprintf("the address of variable %q is %s inside a loop that overwrites the same variable on every iteration (it is declared outside the loop body; the module's Go version gives range variables one instance per loop): every kept pointer ends up referring to the last value, so all earlier entries are lost", al.Comment, kept))
						}
					}
				}
			}
		}
	}
	return n
}

func retainsValueAtCall(p *Prog, fn *ssa.Function, call ssa.CallInstruction, v ssa.Value) bool {
	cc := call.Common()
	if _, isGo := call.(*ssa.Go); isGo {
		return true
	}
	seen := map[string]bool{}
	for i, a := range cc.Args {
		if a != v {
			continue
		}
		if cc.IsInvoke() {
			for _, e := range p.CG().Out[fn] {
				if e.Site == call.(ssa.Instruction) && e.Callee != nil && retainsParam(p, e.Callee, i+1, 0, seen) {
					return true
				}
			}
			continue
		}
		callee := cc.StaticCallee()
		if callee == nil {
			return true
		}
		if len(callee.Blocks) == 0 {
			continue
		}
		off := 0
		if callee.Signature.Recv() != nil {
			off = 0 // receiver is Args[0] for static method calls already
		}
		if retainsParam(p, callee, i+off, 0, seen) {
			return true
		}
	}
	return false
}
