package main

// Value-level helpers over go/ssa: stripping trivial wrappers, recognising
// field loads, resolving callees through type information.

import (
	"go/constant"
	"go/token"
	"go/types"
	"strings"

	"golang.org/x/tools/go/ssa"
)

// cellValue resolves a load from a local cell (*ssa.Alloc) that has exactly one
// store in the whole function tree (the shape go/ssa gives to variables captured
// by closures or whose address is taken but never reassigned).
func cellValue(a *ssa.Alloc) ssa.Value {
	var stored ssa.Value
	n := 0
	var visitRefs func(v ssa.Value)
	visitRefs = func(v ssa.Value) {
		refs := v.Referrers()
		if refs == nil {
			return
		}
		for _, r := range *refs {
			switch r := r.(type) {
			case *ssa.Store:
				if r.Addr == v {
					n++
					stored = r.Val
				}
			case *ssa.MakeClosure:
				// the cell is captured: look at stores through the free variable
				fn := r.Fn.(*ssa.Function)
				for i, b := range r.Bindings {
					if b == v && i < len(fn.FreeVars) {
						visitRefs(fn.FreeVars[i])
					}
				}
			}
		}
	}
	visitRefs(a)
	if n == 1 {
		return stored
	}
	return nil
}

// freeVarCell maps a closure's free variable back to the value bound at the
// (single) MakeClosure site of that closure.
func freeVarBinding(fv *ssa.FreeVar) ssa.Value {
	fn := fv.Parent()
	idx := -1
	for i, f := range fn.FreeVars {
		if f == fv {
			idx = i
		}
	}
	if idx < 0 || fn.Parent() == nil {
		return nil
	}
	var found ssa.Value
	n := 0
	var scan func(f *ssa.Function)
	scan = func(f *ssa.Function) {
		for _, b := range f.Blocks {
			for _, in := range b.Instrs {
				if mc, ok := in.(*ssa.MakeClosure); ok && mc.Fn == fn {
					n++
					found = mc.Bindings[idx]
				}
			}
		}
	}
	scan(fn.Parent())
	if n == 1 {
		return found
	}
	return nil
}

// strip removes value-preserving wrappers: type changes, interface boxing,
// loads of single-assignment cells and free variables bound to such cells.
func strip(v ssa.Value) ssa.Value {
	for i := 0; i < 50; i++ {
		switch x := v.(type) {
		case *ssa.ChangeType:
			v = x.X
		case *ssa.MakeInterface:
			v = x.X
		case *ssa.ChangeInterface:
			v = x.X
		case *ssa.Convert:
			// conversions between types with identical underlying type, or []byte<->string views
			v = x.X
		case *ssa.UnOp:
			if x.Op != token.MUL {
				return v
			}
			switch a := x.X.(type) {
			case *ssa.Alloc:
				if s := cellValue(a); s != nil {
					v = s
					continue
				}
				return v
			case *ssa.FreeVar:
				if b := freeVarBinding(a); b != nil {
					if al, ok := b.(*ssa.Alloc); ok {
						if s := cellValue(al); s != nil {
							v = s
							continue
						}
					}
				}
				return v
			default:
				return v
			}
		default:
			return v
		}
	}
	return v
}

// stripNoConv is strip without looking through Convert.
func stripNoConv(v ssa.Value) ssa.Value {
	for {
		if c, ok := v.(*ssa.Convert); ok {
			_ = c
			return v
		}
		w := strip1(v)
		if w == v {
			return v
		}
		v = w
	}
}

func strip1(v ssa.Value) ssa.Value {
	switch x := v.(type) {
	case *ssa.ChangeType:
		return x.X
	case *ssa.MakeInterface:
		return x.X
	case *ssa.ChangeInterface:
		return x.X
	case *ssa.UnOp:
		if x.Op == token.MUL {
			if a, ok := x.X.(*ssa.Alloc); ok {
				if s := cellValue(a); s != nil {
					return s
				}
			}
			if fv, ok := x.X.(*ssa.FreeVar); ok {
				if b := freeVarBinding(fv); b != nil {
					if al, ok := b.(*ssa.Alloc); ok {
						if s := cellValue(al); s != nil {
							return s
						}
					}
				}
			}
		}
	}
	return v
}

// fieldLoad recognises "x.f" read as a value: *(&x.f) or Field(x, f).
func fieldLoad(v ssa.Value) (base ssa.Value, field *types.Var, ok bool) {
	v = strip(v)
	switch x := v.(type) {
	case *ssa.UnOp:
		if x.Op == token.MUL {
			if fa, ok := x.X.(*ssa.FieldAddr); ok {
				return fa.X, fieldOfAddr(fa), true
			}
		}
	case *ssa.Field:
		st := x.X.Type().Underlying().(*types.Struct)
		return x.X, st.Field(x.Field), true
	}
	return nil, nil, false
}

func fieldOfAddr(fa *ssa.FieldAddr) *types.Var {
	pt := fa.X.Type().Underlying().(*types.Pointer)
	st := pt.Elem().Underlying().(*types.Struct)
	return st.Field(fa.Field)
}

// isFieldLoad reports whether v is a read of the given field (of any base).
func isFieldLoad(v ssa.Value, f *types.Var) bool {
	_, g, ok := fieldLoad(v)
	return ok && g == f
}

// addrField: v is &x.f (possibly through a promoted embedded path) — returns f.
func addrField(v ssa.Value) (*ssa.FieldAddr, *types.Var, bool) {
	if fa, ok := v.(*ssa.FieldAddr); ok {
		return fa, fieldOfAddr(fa), true
	}
	return nil, nil, false
}

// calleeName returns a canonical name for the function or interface method a
// call refers to: "pkgpath.Func", "(*pkgpath.T).Method", "(pkgpath.I).Method".
// Empty when the call is through a function value.
func calleeName(cc *ssa.CallCommon) string {
	if cc.IsInvoke() {
		return cc.Method.FullName()
	}
	if fn := cc.StaticCallee(); fn != nil {
		if fn.Object() != nil {
			return fn.Object().(*types.Func).FullName()
		}
		return fn.String()
	}
	if b, ok := cc.Value.(*ssa.Builtin); ok {
		return "builtin." + b.Name()
	}
	return ""
}

func short(name string) string {
	name = strings.ReplaceAll(name, modPath+"/", "")
	return strings.ReplaceAll(name, modPath, "crng")
}

// callCommon returns the CallCommon of a Call, Go or Defer instruction.
func callCommon(in ssa.Instruction) *ssa.CallCommon {
	if ci, ok := in.(ssa.CallInstruction); ok {
		return ci.Common()
	}
	return nil
}

// isCallNamed: in is a call/go/defer whose callee has one of the canonical names.
func isCallNamed(in ssa.Instruction, names ...string) bool {
	cc := callCommon(in)
	if cc == nil {
		return false
	}
	n := calleeName(cc)
	if n == "" {
		return false
	}
	for _, want := range names {
		if n == want {
			return true
		}
	}
	return false
}

// recvOf returns the receiver operand of a method call (invoke or static).
func recvOf(cc *ssa.CallCommon) ssa.Value {
	if cc.IsInvoke() {
		return cc.Value
	}
	if fn := cc.StaticCallee(); fn != nil && fn.Signature.Recv() != nil && len(cc.Args) > 0 {
		return cc.Args[0]
	}
	return nil
}

// argsOf returns the non-receiver arguments.
func argsOf(cc *ssa.CallCommon) []ssa.Value {
	if cc.IsInvoke() {
		return cc.Args
	}
	if fn := cc.StaticCallee(); fn != nil && fn.Signature.Recv() != nil && len(cc.Args) > 0 {
		return cc.Args[1:]
	}
	return cc.Args
}

// constInt returns the integer value of a constant operand.
func constInt(v ssa.Value) (int64, bool) {
	c, ok := strip(v).(*ssa.Const)
	if !ok || c.Value == nil {
		return 0, false
	}
	if c.Value.Kind() != constant.Int {
		if c.Value.Kind() == constant.Float {
			f, _ := constant.Float64Val(c.Value)
			if f == float64(int64(f)) {
				return int64(f), true
			}
		}
		return 0, false
	}
	i, exact := constant.Int64Val(c.Value)
	return i, exact
}

func constString(v ssa.Value) (string, bool) {
	c, ok := strip(v).(*ssa.Const)
	if !ok || c.Value == nil || c.Value.Kind() != constant.String {
		return "", false
	}
	return constant.StringVal(c.Value), true
}

func constBool(v ssa.Value) (bool, bool) {
	c, ok := v.(*ssa.Const)
	if !ok || c.Value == nil || c.Value.Kind() != constant.Bool {
		return false, false
	}
	return constant.BoolVal(c.Value), true
}

// allInstrs iterates over every instruction of fn (not of nested closures).
func allInstrs(fn *ssa.Function, f func(in ssa.Instruction)) {
	for _, b := range fn.Blocks {
		for _, in := range b.Instrs {
			f(in)
		}
	}
}

// withAnons iterates over fn and all nested anonymous functions.
func withAnons(fn *ssa.Function) []*ssa.Function {
	return append([]*ssa.Function{fn}, Anons(fn)...)
}

// isChanField: v is a read of a channel-typed struct field; returns the field.
func chanField(v ssa.Value) (*types.Var, bool) {
	_, f, ok := fieldLoad(v)
	if !ok {
		return nil, false
	}
	if _, isChan := f.Type().Underlying().(*types.Chan); !isChan {
		return nil, false
	}
	return f, true
}

// derivedFrom reports whether v is computed from root through value-preserving
// or sub-value operations (slice, index, field, conversions, phi, extract).
func derivedFrom(v, root ssa.Value, seen map[ssa.Value]bool) bool {
	if v == root {
		return true
	}
	if seen[v] {
		return false
	}
	seen[v] = true
	switch x := v.(type) {
	case *ssa.ChangeType:
		return derivedFrom(x.X, root, seen)
	case *ssa.Convert:
		return derivedFrom(x.X, root, seen)
	case *ssa.MakeInterface:
		return derivedFrom(x.X, root, seen)
	case *ssa.ChangeInterface:
		return derivedFrom(x.X, root, seen)
	case *ssa.Slice:
		return derivedFrom(x.X, root, seen)
	case *ssa.TypeAssert:
		return derivedFrom(x.X, root, seen)
	case *ssa.Extract:
		return derivedFrom(x.Tuple, root, seen)
	case *ssa.Field:
		return derivedFrom(x.X, root, seen)
	case *ssa.FieldAddr:
		return derivedFrom(x.X, root, seen)
	case *ssa.IndexAddr:
		return derivedFrom(x.X, root, seen)
	case *ssa.Index:
		return derivedFrom(x.X, root, seen)
	case *ssa.Lookup:
		return derivedFrom(x.X, root, seen)
	case *ssa.UnOp:
		if x.Op == token.MUL || x.Op == token.ARROW {
			if a, ok := x.X.(*ssa.Alloc); ok {
				if s := cellValue(a); s != nil {
					return derivedFrom(s, root, seen)
				}
			}
			return derivedFrom(x.X, root, seen)
		}
		return derivedFrom(x.X, root, seen)
	case *ssa.Phi:
		for _, e := range x.Edges {
			if derivedFrom(e, root, seen) {
				return true
			}
		}
	case *ssa.Next:
		return derivedFrom(x.Iter, root, seen)
	case *ssa.Range:
		return derivedFrom(x.X, root, seen)
	}
	return false
}

// fieldPath decomposes x.a.b.c (through loads, field addresses and single-store
// local struct variables) into its root value and the field names from the root.
func fieldPath(v ssa.Value) (ssa.Value, []string) {
	var names []string
	for i := 0; i < 40; i++ {
		switch x := v.(type) {
		case *ssa.UnOp:
			if x.Op != token.MUL {
				return v, names
			}
			v = x.X
		case *ssa.FieldAddr:
			names = append([]string{fieldOfAddr(x).Name()}, names...)
			v = x.X
		case *ssa.Field:
			st := x.X.Type().Underlying().(*types.Struct)
			names = append([]string{st.Field(x.Field).Name()}, names...)
			v = x.X
		case *ssa.Alloc:
			// whole-struct stores into the local
			var whole ssa.Value
			n := 0
			for _, r := range *x.Referrers() {
				if st, ok := r.(*ssa.Store); ok && st.Addr == x {
					n++
					whole = st.Val
				}
			}
			if n == 1 {
				v = whole
				continue
			}
			return v, names
		case *ssa.ChangeType:
			v = x.X
		case *ssa.MakeInterface:
			v = x.X
		default:
			return v, names
		}
	}
	return v, names
}

// isSnapshotLoad: v is x.(T) of an (*atomic.Value).Load() result.
func isSnapshotLoad(v ssa.Value) bool {
	ta, ok := v.(*ssa.TypeAssert)
	if !ok {
		return false
	}
	call, ok := ta.X.(*ssa.Call)
	return ok && calleeName(call.Common()) == "(*sync/atomic.Value).Load"
}

// paramArgs returns, for a parameter of a module function, the argument bound to it at every
// call site of the function in the module (static calls, and interface invocations resolved by
// the call graph). ok is false when the function has no call site, or can be reached through a
// function value (then not every caller is known).
func (p *Prog) paramArgs(par *ssa.Parameter) ([]ssa.Value, bool) {
	fn := par.Parent()
	if fn == nil || !ModuleFunc(fn) {
		return nil, false
	}
	idx := -1
	for i, q := range fn.Params {
		if q == par {
			idx = i
		}
	}
	if idx < 0 {
		return nil, false
	}
	g := p.CG()
	for _, f := range g.addrTaken {
		if f == fn {
			return nil, false
		}
	}
	var out []ssa.Value
	for _, e := range g.In[fn] {
		if e.Kind == EdgeRef {
			return nil, false
		}
		cc := callCommon(e.Site)
		if cc == nil {
			return nil, false
		}
		i := idx
		if cc.IsInvoke() {
			if i == 0 {
				out = append(out, cc.Value)
				continue
			}
			i--
		} else if cc.StaticCallee() != fn {
			return nil, false
		}
		if i >= len(cc.Args) {
			return nil, false
		}
		out = append(out, cc.Args[i])
	}
	return out, len(out) > 0
}

// variadicElems: the values stored into the implicit array of a variadic argument `v`
// (a Slice of a local array Alloc), in index order, with interface boxing removed.
func variadicElems(v ssa.Value) ([]ssa.Value, bool) {
	sl, ok := v.(*ssa.Slice)
	if !ok {
		return nil, false
	}
	al, ok := sl.X.(*ssa.Alloc)
	if !ok {
		return nil, false
	}
	arr, ok := al.Type().(*types.Pointer).Elem().(*types.Array)
	if !ok {
		return nil, false
	}
	out := make([]ssa.Value, arr.Len())
	for _, r := range *al.Referrers() {
		ia, ok := r.(*ssa.IndexAddr)
		if !ok {
			continue
		}
		k, ok := constInt(ia.Index)
		if !ok || k < 0 || k >= arr.Len() {
			return nil, false
		}
		for _, rr := range *ia.Referrers() {
			if st, ok := rr.(*ssa.Store); ok {
				if out[k] != nil {
					return nil, false
				}
				x := st.Val
				if mi, ok := x.(*ssa.MakeInterface); ok {
					x = mi.X
				}
				out[k] = x
			}
		}
	}
	for _, x := range out {
		if x == nil {
			return nil, false
		}
	}
	return out, true
}

// loopCarried reports whether the value v, used inside loop l, can depend on a value computed
// in an earlier iteration of l (other than the loop's own index / iterator): a phi in the loop
// header with a back-edge operand, or a variable declared outside the loop that is assigned
// inside it and read before it is assigned in the current iteration.
// It returns a description of the carrier ("" when v is iteration-local).
func loopCarried(p *Prog, v ssa.Value, l *Loop, use ssa.Instruction) string {
	seen := map[ssa.Value]bool{}
	var walk func(v ssa.Value, depth int) string
	inLoop := func(in ssa.Instruction) bool { return in != nil && in.Block() != nil && l.Body[in.Block()] }
	isIndexPhi := func(phi *ssa.Phi) bool {
		if phi.Comment == "rangeindex" || phi.Comment == "rangeiter" {
			return true
		}
		for _, e := range phi.Edges {
			if bo, ok := e.(*ssa.BinOp); ok && (bo.Op == token.ADD || bo.Op == token.SUB) && bo.X == ssa.Value(phi) {
				if _, isC := bo.Y.(*ssa.Const); isC {
					continue
				}
			}
			if _, isC := e.(*ssa.Const); isC {
				continue
			}
			if in, ok := e.(ssa.Instruction); ok && inLoop(in) {
				return false
			}
		}
		return true
	}
	walk = func(v ssa.Value, depth int) string {
		if v == nil || depth > 40 || seen[v] {
			return ""
		}
		seen[v] = true
		var ops []ssa.Value
		switch x := v.(type) {
		case *ssa.Phi:
			if x.Block() == l.Header && !isIndexPhi(x) {
				for i, e := range x.Edges {
					pred := x.Block().Preds[i]
					if l.Body[pred] {
						if _, isC := e.(*ssa.Const); !isC {
							return "variable " + x.Comment + " keeps its value from the previous iteration (" + p.InstrPos(x) + ")"
						}
					}
				}
			}
			ops = x.Edges
		case *ssa.UnOp:
			if al, ok := x.X.(*ssa.Alloc); ok && x.Op == token.MUL {
				declaredOutside := !inLoop(al)
				var storesIn []*ssa.Store
				for _, r := range *al.Referrers() {
					if st, ok := r.(*ssa.Store); ok && st.Addr == ssa.Value(al) {
						if inLoop(st) {
							storesIn = append(storesIn, st)
						}
						ops = append(ops, st.Val)
					}
				}
				if declaredOutside && len(storesIn) > 0 {
					covered := false
					for _, st := range storesIn {
						if instrDominates(st, x) {
							covered = true
						}
					}
					if !covered {
						return "variable " + al.Comment + " is declared outside the loop, assigned inside it and read before this iteration assigns it (" + p.InstrPos(x) + ")"
					}
				}
			} else {
				ops = append(ops, x.X)
			}
		case *ssa.BinOp:
			ops = []ssa.Value{x.X, x.Y}
		case *ssa.Convert:
			ops = []ssa.Value{x.X}
		case *ssa.ChangeType:
			ops = []ssa.Value{x.X}
		case *ssa.MakeInterface:
			ops = []ssa.Value{x.X}
		case *ssa.Extract:
			ops = []ssa.Value{x.Tuple}
		case *ssa.Call:
			ops = append(ops, x.Call.Args...)
		case *ssa.Slice:
			ops = []ssa.Value{x.X}
		case *ssa.Field:
			ops = []ssa.Value{x.X}
		case *ssa.FieldAddr:
			ops = []ssa.Value{x.X}
		case *ssa.Lookup:
			ops = []ssa.Value{x.X, x.Index}
		case *ssa.Index:
			ops = []ssa.Value{x.X, x.Index}
		case *ssa.IndexAddr:
			ops = []ssa.Value{x.X, x.Index}
		}
		for _, o := range ops {
			if in, ok := o.(ssa.Instruction); ok && !inLoop(in) {
				continue // computed before the loop: the same in every iteration
			}
			if s := walk(o, depth+1); s != "" {
				return s
			}
		}
		return ""
	}
	return walk(v, 0)
}

// workerFuncs: fn, its closures, and the methods of the same receiver type (with their closures)
// that fn reaches through static calls — the functions that together make up one worker loop when
// parts of it were extracted into helpers.
func workerFuncs(p *Prog, fn *ssa.Function) []*ssa.Function {
	var out []*ssa.Function
	seen := map[*ssa.Function]bool{}
	var add func(f *ssa.Function)
	add = func(f *ssa.Function) {
		if seen[f] {
			return
		}
		seen[f] = true
		out = append(out, f)
		for _, a := range Anons(f) {
			add(a)
		}
		for _, e := range p.CG().Out[f] {
			g := e.Callee
			if g == nil || e.Dyn || (e.Kind != EdgeCall && e.Kind != EdgeDefer) || g.Blocks == nil || fnPkg(g) != fnPkg(fn) {
				continue
			}
			if g.Signature.Recv() == nil || fn.Signature.Recv() == nil || !types.Identical(g.Signature.Recv().Type(), fn.Signature.Recv().Type()) {
				continue
			}
			add(g)
		}
	}
	add(fn)
	return out
}

// inlineSameRecv: expand local closures and helper methods of fn's own receiver type.
func inlineSameRecv(fn *ssa.Function) func(*ssa.Function) bool {
	return func(g *ssa.Function) bool {
		if g.Parent() != nil {
			return true
		}
		// method value `f := x.method`: the synthetic wrapper that calls the method with its bound receiver
		if strings.HasPrefix(g.Synthetic, "bound method wrapper") {
			return true
		}
		return g != fn && g.Signature.Recv() != nil && fn.Signature.Recv() != nil && types.Identical(g.Signature.Recv().Type(), fn.Signature.Recv().Type())
	}
}

// valueLeaves: the values that can flow into v through phis, single-assignment locals and the
// results of module helpers (their return operands), up to a small depth.
func valueLeaves(v ssa.Value, depth int) []ssa.Value {
	seen := map[ssa.Value]bool{}
	var out []ssa.Value
	var walk func(v ssa.Value, d int)
	walk = func(v ssa.Value, d int) {
		if v == nil || seen[v] {
			return
		}
		seen[v] = true
		if d > depth {
			out = append(out, v)
			return
		}
		switch x := v.(type) {
		case *ssa.Phi:
			for _, e := range x.Edges {
				walk(e, d+1)
			}
			return
		case *ssa.UnOp:
			if al, ok := x.X.(*ssa.Alloc); ok && x.Op == token.MUL {
				n := 0
				for _, r := range *al.Referrers() {
					if st, ok := r.(*ssa.Store); ok && st.Addr == ssa.Value(al) {
						n++
						walk(st.Val, d+1)
					}
				}
				if n > 0 {
					return
				}
			}
		case *ssa.Extract, *ssa.Call:
			if call, idx, ok := helperResult(v); ok {
				g := call.Call.StaticCallee()
				n := 0
				allInstrs(g, func(in ssa.Instruction) {
					if r, ok := in.(*ssa.Return); ok && idx < len(r.Results) {
						n++
						walk(r.Results[idx], d+1)
					}
				})
				if n > 0 {
					return
				}
			}
		}
		out = append(out, v)
	}
	walk(v, 0)
	return out
}

// incompleteLiterals finds composite literals of the named struct type (a local struct variable
// that is built field by field, without first being assigned a whole value) that do not set every
// field of the struct. It returns, per literal, the missing field names.
func incompleteLiterals(p *Prog, named *types.Named) map[ssa.Instruction][]string {
	out := map[ssa.Instruction][]string{}
	st, ok := named.Underlying().(*types.Struct)
	if !ok {
		return out
	}
	for _, fn := range p.Funcs {
		allInstrs(fn, func(in ssa.Instruction) {
			al, ok := in.(*ssa.Alloc)
			if !ok {
				return
			}
			pt, ok := al.Type().(*types.Pointer)
			if !ok || !types.Identical(pt.Elem(), named) {
				return
			}
			set := map[int]bool{}
			whole := false
			nField := 0
			for _, r := range *al.Referrers() {
				switch x := r.(type) {
				case *ssa.Store:
					if x.Addr == ssa.Value(al) {
						whole = true
					}
				case *ssa.FieldAddr:
					for _, rr := range *x.Referrers() {
						if s, ok := rr.(*ssa.Store); ok && s.Addr == ssa.Value(x) {
							set[x.Field] = true
							nField++
						}
					}
				}
			}
			// a literal: built from field stores only (a zero value that is never filled is not a config copy)
			if whole || nField == 0 || al.Comment != "complit" {
				return
			}
			var missing []string
			for i := 0; i < st.NumFields(); i++ {
				if !set[i] {
					missing = append(missing, st.Field(i).Name())
				}
			}
			if len(missing) > 0 {
				out[in] = missing
			}
		})
	}
	return out
}

// funcCalling: entry itself when it calls the named function, otherwise the one function among
// entry's closures and the same-package functions they call (statically) that does — the body of an
// entry point may have been moved into a helper or a closure handed to a publishing helper.
func funcCalling(p *Prog, entry *ssa.Function, callee string) *ssa.Function {
	has := func(f *ssa.Function) bool {
		found := false
		allInstrs(f, func(in ssa.Instruction) {
			if cc := callCommon(in); cc != nil && calleeName(cc) == callee {
				found = true
			}
		})
		return found
	}
	if has(entry) {
		return entry
	}
	var hits []*ssa.Function
	seen := map[*ssa.Function]bool{}
	for _, a := range withAnons(entry) {
		for _, f := range samePkgCallees(p, a) {
			for _, g := range withAnons(f) {
				if !seen[g] && has(g) {
					seen[g] = true
					hits = append(hits, g)
				}
			}
		}
	}
	if len(hits) == 1 {
		return hits[0]
	}
	return entry
}
