package main

import (
	"fmt"
	"go/token"
	"go/types"
	"strings"

	"golang.org/x/tools/go/ssa"
)

func init() {
	register(&PropDef{
		ID:    "C11",
		Title: "Aggregation output bypasses the pipeline, cannot loop; drop-raw is exact",
		Decided: "R1 nothing reachable over the call graph from the consumer of Table.In (DispatchAggregate and every Route.Dispatch/Match below it) validates, order-checks, consults the blacklist / rewriter / aggregator lists of the snapshot, calls AddMaybe or RW.Do, or sends on an aggregator inbox or on Table.In — so aggregate output cannot re-enter an aggregation; " +
			"R2 the only senders on an aggregator's out channel are in Flush, every construction site passes the table's In channel as out, and the only receiver of Table.In is the goroutine that calls DispatchAggregate; " +
			"R3 AddMaybe returns true only on paths that passed PreMatch, the confirmed regex-stage match and the send to the worker, and returns false whenever drop-raw is off; matchWithCache returns the cached verdict (not the presence of a cache entry); Table.Dispatch stops at the first true result; " +
			"R4 the filters that decide consumption and the routing of aggregates are the configured ones: besides the evaluation order and truth tables of C03.R1–R4, the regex-derived prefix shortcut cannot reject a name the regex matches (C03.R7), the tested byte fields mirror the options (C03.R8), half-built filters are never installed (C03.R5) and runtime updates keep the unnamed options (C03.R6).",
		NotDecided: "that the filter stages compute the documented predicate (C03); aggregator timing.",
		Rules: []RuleDef{
			{ID: "C11.R1", Min: 8, Doc: "bypass and loop freedom: forbidden effects (ValidatePacket, validate.Ordered, RW.Do, AddMaybe, reads of snapshot fields blacklist/rewriters/aggregators, sends on Aggregator.in or Table.In) are unreachable from table.DispatchAggregate over call+defer+go edges", Run: c11r1},
			{ID: "C11.R2", Min: 5, Doc: "wiring: send sites on Aggregator.out ⊆ Flush; every aggregator.New call passes Table.In (GetIn()/field In) as out; receive sites on Table.In = the table.New goroutine, whose loop body calls DispatchAggregate with the received value", Run: c11r2},
			{ID: "C11.R4", Min: 59, Doc: "aggregate routing and consumption use the real filters: DispatchAggregate fans out like Dispatch and evaluates route filters on the NAME prefix of the aggregate line; what an aggregation consumes is decided by PreMatch and MatchRegexAndExpand, which together compute the documented conjunction ; the match cache is transparent — keyed by the name itself, entries are the filter's own verdict; the filter objects themselves are the configured ones — the static prefix derived from the regex is implied by every match of that regex, the byte fields Match/PreMatch test mirror the options, only completely built filters are installed and a runtime update changes only the named options (rules C01.R1, C03.R1, C03.R2, C03.R3, C03.R4, C03.R5, C03.R6, C03.R7 and C03.R8 evaluated for this property as well)", Run: func(c *Check) {
				c01r1(c)
				c03r1(c)
				c03r2(c)
				c03r3(c)
				c03r4(c)
				c03r5(c)
				c03r6(c)
				c03r7(c)
				c03r8(c)
			}},
			{ID: "C11.R3", Min: 3, Doc: "drop-raw exactness: path enumeration of AddMaybe with DropRaw as a path-consistent boolean; matchWithCache's cache-hit return value is the entry's match field; the Dispatcher returns right after AddMaybe == true", Run: c11r3},
		},
	})
}

func c11r1(c *Check) {
	cg := c.P.CG()
	root := c.P.Func("table", "*Table", "DispatchAggregate")
	via := cg.Reach([]*ssa.Function{root}, map[EdgeKind]bool{EdgeCall: true, EdgeDefer: true, EdgeGo: true}, nil)
	c.Stat("functions_reachable_from_DispatchAggregate", len(via))
	forbiddenCalls := map[string]string{
		nValidatePacket: "validation", nOrdered: "order validation", nRWDo: "rewriting", nAddMaybe: "aggregation",
		"(*" + modPath + "/table.Table).Dispatch": "the full input pipeline",
	}
	aggIn := c.P.Field("aggregator", "Aggregator", "in")
	tableIn := c.P.Field("table", "Table", "In")
	found := map[string][]string{}
	var witness = map[string]ssa.Instruction{}
	for fn := range via {
		fn := fn
		allInstrs(fn, func(in ssa.Instruction) {
			if cc := callCommon(in); cc != nil {
				if what, ok := forbiddenCalls[calleeName(cc)]; ok {
					found[what] = cg.Chain(via, fn)
					witness[what] = in
				}
			}
			chk := func(ch ssa.Value) {
				if isFieldLoad(ch, aggIn) {
					found["send to an aggregator inbox"] = cg.Chain(via, fn)
					witness["send to an aggregator inbox"] = in
				}
				if isFieldLoad(ch, tableIn) {
					found["send to Table.In"] = cg.Chain(via, fn)
					witness["send to Table.In"] = in
				}
			}
			switch x := in.(type) {
			case *ssa.Send:
				chk(x.Chan)
			case *ssa.Select:
				for _, st := range x.States {
					if st.Dir == types.SendOnly {
						chk(st.Chan)
					}
				}
			case *ssa.FieldAddr:
				n := fieldOfAddr(x).Name()
				if (n == "blacklist" || n == "rewriters" || n == "aggregators") && isTableConfig(x.X.Type()) {
					found["snapshot."+n] = cg.Chain(via, fn)
					witness["snapshot."+n] = in
				}
			case *ssa.Field:
				st := x.X.Type().Underlying().(*types.Struct)
				n := st.Field(x.Field).Name()
				if (n == "blacklist" || n == "rewriters" || n == "aggregators") && isTableConfig(x.X.Type()) {
					found["snapshot."+n] = cg.Chain(via, fn)
					witness["snapshot."+n] = in
				}
			}
		})
	}
	for _, what := range []string{"validation", "order validation", "rewriting", "aggregation", "the full input pipeline", "send to an aggregator inbox", "send to Table.In", "snapshot.blacklist", "snapshot.rewriters", "snapshot.aggregators"} {
		key := "aggregate path reaches " + what
		if chain, ok := found[what]; ok {
			c.ViolateW(key, c.At(witness[what]), "aggregation output is subjected to "+what+": it must only be routed (a rule whose output matches its own filter would loop or amplify; blacklist/rewriters would alter aggregate names)", chain)
		} else {
			c.Hold(key, c.AtFn(root), "unreachable from DispatchAggregate")
		}
	}
}

// ownHelpers: root and the helper methods of root's receiver type that run only as part of root —
// every call-graph edge into such a helper is a synchronous call (or defer) from root or from
// another such helper, and the helper never escapes as a function value. What these functions do
// is done by root and by nobody else.
func ownHelpers(p *Prog, root *ssa.Function) map[*ssa.Function]bool {
	g := p.CG()
	own := map[*ssa.Function]bool{}
	for _, f := range workerFuncs(p, root) {
		own[EnclosingDecl(f)] = true
	}
	taken := map[*ssa.Function]bool{}
	for _, f := range g.addrTaken {
		taken[f] = true
	}
	for changed := true; changed; {
		changed = false
		for f := range own {
			if f == root {
				continue
			}
			ok := !taken[f] && len(g.In[f]) > 0
			for _, e := range g.In[f] {
				if (e.Kind != EdgeCall && e.Kind != EdgeDefer) || e.Dyn || e.Caller == nil || !own[EnclosingDecl(e.Caller)] {
					ok = false
				}
			}
			if !ok {
				delete(own, f)
				changed = true
			}
		}
	}
	return own
}

func isTableConfig(t types.Type) bool {
	if p, ok := t.Underlying().(*types.Pointer); ok {
		t = p.Elem()
	}
	n, ok := t.(*types.Named)
	return ok && n.Obj().Name() == "TableConfig"
}

func c11r2(c *Check) {
	outF := c.P.Field("aggregator", "Aggregator", "out")
	tableIn := c.P.Field("table", "Table", "In")
	flush := c.P.Func("aggregator", "*Aggregator", "Flush")
	flushOwn := ownHelpers(c.P, flush)
	nSend := 0
	for _, fn := range c.P.Funcs {
		for _, s := range sendsOn(fn, outF) {
			nSend++
			c.Judge(flushOwn[EnclosingDecl(fn)], FuncName(fn)+" sends on Aggregator.out", c.At(s), "aggregate points are emitted by Flush only (or by a helper method that only Flush runs)", "a function other than Flush emits on the aggregator's output channel")
		}
	}
	if nSend == 0 {
		anchorFail("no send on Aggregator.out")
	}
	// construction sites
	nNew := 0
	for _, fn := range c.P.Funcs {
		allInstrs(fn, func(in ssa.Instruction) {
			call, ok := in.(*ssa.Call)
			if !ok || calleeName(call.Common()) != modPath+"/aggregator.New" {
				return
			}
			nNew++
			out := call.Call.Args[len(call.Call.Args)-1]
			okOut := false
			if isFieldLoad(out, tableIn) {
				okOut = true
			}
			if oc, ok := out.(*ssa.Call); ok && strings.HasSuffix(calleeName(oc.Common()), ".GetIn") {
				okOut = true
			}
			c.Judge(okOut, FuncName(fn)+" aggregator.New(out = table In)", c.At(call), "the aggregator emits into the table's aggregate inlet", "an aggregator is wired to a channel other than Table.In: its output would skip routing or enter the raw pipeline")
		})
	}
	if nNew < 3 {
		c.Undecided("aggregator.New call sites", "-", fmt.Sprintf("found %d construction sites, expected 3 (imperatives, cfg, ui/web)", nNew))
	}
	getIn := c.P.Func("table", "*Table", "GetIn")
	okGet := false
	allInstrs(getIn, func(in ssa.Instruction) {
		if r, ok := in.(*ssa.Return); ok && len(r.Results) == 1 && isFieldLoad(r.Results[0], tableIn) {
			okGet = true
		}
	})
	c.Judge(okGet, "table.GetIn returns Table.In", c.AtFn(getIn), "GetIn() is the aggregate inlet", "GetIn does not return Table.In")
	// receivers of Table.In
	nRecv := 0
	for _, fn := range c.P.Funcs {
		allInstrs(fn, func(in ssa.Instruction) {
			var ch ssa.Value
			switch x := in.(type) {
			case *ssa.UnOp:
				if x.Op == token.ARROW {
					ch = x.X
				}
			case *ssa.Select:
				for _, st := range x.States {
					if st.Dir == types.RecvOnly && isFieldLoad(st.Chan, tableIn) {
						ch = st.Chan
					}
				}
			}
			if ch == nil || !isFieldLoad(ch, tableIn) {
				return
			}
			nRecv++
			isNewGoroutine := fn.Parent() != nil && fn.Parent().Name() == "New" && fnPkg(fn).Path() == modPath+"/table"
			// the received value goes to DispatchAggregate
			toDA := false
			if u, ok := in.(*ssa.UnOp); ok {
				for _, r := range *u.Referrers() {
					if call, ok := r.(*ssa.Call); ok && calleeName(call.Common()) == "(*"+modPath+"/table.Table).DispatchAggregate" {
						toDA = true
					}
					if ex, ok := r.(*ssa.Extract); ok {
						for _, rr := range *ex.Referrers() {
							if call, ok := rr.(*ssa.Call); ok && calleeName(call.Common()) == "(*"+modPath+"/table.Table).DispatchAggregate" {
								toDA = true
							}
						}
					}
				}
			}
			c.Judge(isNewGoroutine && toDA, FuncName(fn)+" receives Table.In", c.At(in), "the table's own goroutine hands aggregate output to DispatchAggregate", "Table.In is consumed somewhere other than the goroutine feeding DispatchAggregate")
		})
	}
	if nRecv == 0 {
		anchorFail("no receiver of Table.In")
	}
}

func c11r3(c *Check) {
	agg := "(*" + modPath + "/aggregator.Aggregator)."
	addMaybe := c.P.Func("aggregator", "*Aggregator", "AddMaybe")
	inField := c.P.Field("aggregator", "Aggregator", "in")
	dropRaw := c.P.Field("aggregator", "Aggregator", "DropRaw")
	cfg := &PathCfg{
		ConsistentFields: map[*types.Var]bool{dropRaw: true},
		Classify: func(in ssa.Instruction) []string {
			if s, ok := in.(*ssa.Send); ok && isFieldLoad(s.Chan, inField) {
				return []string{"send"}
			}
			return nil
		},
		Branch: func(ifi *ssa.If, cond ssa.Value, taken bool) []string {
			cnd, neg := negStrip(cond)
			val := taken != neg
			suffix := ":false"
			if val {
				suffix = ":true"
			}
			if call, ok := cnd.(*ssa.Call); ok && calleeName(call.Common()) == pMatcher+"PreMatch" {
				return []string{"prematch" + suffix}
			}
			if ex, ok := cnd.(*ssa.Extract); ok && ex.Index == 1 {
				if call, ok := ex.Tuple.(*ssa.Call); ok && calleeName(call.Common()) == agg+"matchWithCache" {
					return []string{"match" + suffix}
				}
			}
			if _, f, ok := fieldLoad(cnd); ok && f == dropRaw {
				return []string{"dropraw" + suffix}
			}
			// any other condition: the verdict would depend on something besides the filter stages
			return []string{"other@" + c.P.InstrPos(ifi)}
		},
	}
	paths, trunc := EnumPaths(addMaybe, nil, cfg)
	var probs []string
	nTrue := 0
	for i := range paths {
		pa := &paths[i]
		if pa.End != "return" || len(pa.Ret) != 1 || pa.Ret[0] == nil {
			probs = append(probs, "result not determined on path (drop-raw decision depends on something other than the DropRaw flag and the match stages): "+pa.String())
			continue
		}
		if oe, has := hasPrefixEvent(pa, "other@"); has {
			probs = append(probs, "whether the aggregation takes (and with drop-raw: withholds) a metric depends on a condition that is not one of its filter stages ("+strings.TrimPrefix(oe, "other@")+"): the decision must depend on the metric name only, not on value, timestamp or time: "+pa.String())
			continue
		}
		res := pa.Ret[0].String() == "true"
		if res {
			nTrue++
			if !pa.Has("prematch:true") || !pa.Has("match:true") || !pa.Has("send") || !pa.Has("dropraw:true") {
				probs = append(probs, "a raw metric is withheld from routes although the aggregation did not completely match and consume it: "+pa.String())
			}
		} else if pa.Has("dropraw:true") && pa.Has("send") {
			probs = append(probs, "drop-raw aggregation consumed the metric but reports it as not dropped (it is routed as well): "+pa.String())
		}
	}
	if trunc || nTrue == 0 {
		probs = append(probs, "no path returning true found")
	}
	if len(probs) > 0 {
		c.ViolateW("aggregator.AddMaybe drop-raw exactness", c.AtFn(addMaybe), probs[0], probs)
	} else {
		c.Hold("aggregator.AddMaybe drop-raw exactness", c.AtFn(addMaybe), fmt.Sprintf("%d paths, %d returning true, all after PreMatch, confirmed match and hand-off", len(paths), nTrue))
	}
	// matchWithCache: on a cache hit the verdict returned is entry.match
	outer := c.P.Func("aggregator", "*Aggregator", "matchWithCache")
	mwc, _ := cacheLookupFunc(c)
	cacheF := c.P.Field("aggregator", "Aggregator", "reCache")
	var lookup *ssa.Lookup
	allInstrs(mwc, func(in ssa.Instruction) {
		if l, ok := in.(*ssa.Lookup); ok {
			if _, f, ok := fieldLoad(l.X); ok && f == cacheF {
				lookup = l
			}
		}
	})
	if lookup == nil {
		anchorFail("matchWithCache: cache lookup not found")
	}
	// find the return in the block dominated by the `found` edge
	okHit, nHit := true, 0
	allInstrs(mwc, func(in ssa.Instruction) {
		r, ok := in.(*ssa.Return)
		if !ok || (len(r.Results) != 2 && mwc == outer) || len(r.Results) == 0 {
			return
		}
		// is this return under the lookup-ok edge?
		var okEx ssa.Value
		for _, rr := range *lookup.Referrers() {
			if ex, ok := rr.(*ssa.Extract); ok && ex.Index == 1 {
				okEx = ex
			}
		}
		under := false
		for _, b := range mwc.Blocks {
			if ifi, ok := b.Instrs[len(b.Instrs)-1].(*ssa.If); ok && ifi.Cond == okEx && edgeDominates(b, b.Succs[0], r.Block()) {
				under = true
			}
		}
		if !under {
			return
		}
		nHit++
		if mwc != outer {
			// the lookup lives in a helper that hands back the whole entry: on a hit it returns the entry it
			// looked up, and matchWithCache returns that entry's key and match
			root, names := fieldPath(r.Results[0])
			if ex, ok := root.(*ssa.Extract); !ok || ex.Tuple != lookup || ex.Index != 0 || len(names) != 0 {
				okHit = false
			}
			allInstrs(outer, func(in2 ssa.Instruction) {
				r2, ok := in2.(*ssa.Return)
				if !ok || len(r2.Results) != 2 {
					return
				}
				if k, ok := r2.Results[1].(*ssa.Const); ok && k.Value != nil {
					return // the cache-off path returns MatchRegexAndExpand's results, or constants
				}
				rootK, namesK := fieldPath(r2.Results[0])
				rootM, namesM := fieldPath(r2.Results[1])
				cK, okK := rootK.(*ssa.Call)
				cM, okM := rootM.(*ssa.Call)
				if okK && okM && cK.Call.StaticCallee() == mwc && cM == cK {
					if !(len(namesK) == 1 && namesK[0] == "key" && len(namesM) == 1 && namesM[0] == "match") {
						okHit = false
					}
				}
			})
			return
		}
		root, names := fieldPath(r.Results[1])
		isEntry := false
		if ex, ok := root.(*ssa.Extract); ok && ex.Tuple == lookup && ex.Index == 0 {
			isEntry = true
		}
		if !(isEntry && len(names) == 1 && names[0] == "match") {
			okHit = false
		}
		root0, names0 := fieldPath(r.Results[0])
		if ex, ok := root0.(*ssa.Extract); !ok || ex.Tuple != lookup || len(names0) != 1 || names0[0] != "key" {
			okHit = false
		}
	})
	c.Judge(okHit && nHit == 1, "aggregator.matchWithCache cache hit returns (entry.key, entry.match)", c.At(lookup), "the cached verdict is returned", "on a cache hit the function does not return the cached verdict (e.g. it reports the presence of the entry): a cached non-match turns into a match on the second lookup and drop-raw swallows metrics it never aggregates")
	// Dispatcher: return right after AddMaybe true
	for _, fn := range dispatcherImpls(c.P) {
		paths, _ := EnumPaths(fn, nil, tableDispatchCfg())
		bad := ""
		n := 0
		for i := range paths {
			pa := &paths[i]
			if !pa.Has("dropraw:true") {
				continue
			}
			n++
			for _, e := range eventsAfter(pa, "dropraw:true") {
				switch e.Class {
				case "addmaybe", "route.match", "route.dispatch", "send", "inc:numUnroutable":
					bad = "after a drop-raw aggregation consumed the metric, " + e.Class + " still happens: " + pa.String()
				}
			}
		}
		c.Judge(bad == "" && n > 0, FuncName(fn)+" stops after drop-raw", c.AtFn(fn), fmt.Sprintf("%d consuming paths return immediately", n), bad)
	}
}
