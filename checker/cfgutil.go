package main

// Control-flow helpers on go/ssa functions: reachability with removed edges
// (edge dominance), natural loops, and a bounded path enumerator with constant
// propagation through phis, select-choice tracking, defers and call inlining.

import (
	"fmt"
	"go/constant"
	"go/token"
	"go/types"

	"golang.org/x/tools/go/ssa"
)

// reachableWithout computes the blocks reachable from `from` when the CFG edges
// in `cut` (pairs pred->succ) are removed.
type edge struct{ from, to *ssa.BasicBlock }

func reachable(from *ssa.BasicBlock, cut map[edge]bool, stopAt map[*ssa.BasicBlock]bool) map[*ssa.BasicBlock]bool {
	seen := map[*ssa.BasicBlock]bool{from: true}
	work := []*ssa.BasicBlock{from}
	for len(work) > 0 {
		b := work[len(work)-1]
		work = work[:len(work)-1]
		if stopAt[b] && b != from {
			continue
		}
		for _, s := range b.Succs {
			if cut[edge{b, s}] || seen[s] {
				continue
			}
			seen[s] = true
			work = append(work, s)
		}
	}
	return seen
}

// edgeDominates: every path from the function entry to target passes through the CFG edge from->to.
func edgeDominates(from, to, target *ssa.BasicBlock) bool {
	fn := from.Parent()
	if len(fn.Blocks) == 0 {
		return false
	}
	r := reachable(fn.Blocks[0], map[edge]bool{{from, to}: true}, nil)
	return !r[target] || (target == fn.Blocks[0] && false)
}

// instrDominates: a is executed before b on every path reaching b.
func instrDominates(a, b ssa.Instruction) bool {
	ba, bb := a.Block(), b.Block()
	if ba == bb {
		for _, in := range ba.Instrs {
			if in == a {
				return true
			}
			if in == b {
				return false
			}
		}
		return false
	}
	return ba.Dominates(bb)
}

// Loop is a natural loop.
type Loop struct {
	Header *ssa.BasicBlock
	Body   map[*ssa.BasicBlock]bool // includes header
	Latch  []*ssa.BasicBlock        // sources of back edges
}

func loopsOf(fn *ssa.Function) []*Loop {
	byHeader := map[*ssa.BasicBlock]*Loop{}
	var order []*ssa.BasicBlock
	for _, b := range fn.Blocks {
		for _, s := range b.Succs {
			if s.Dominates(b) { // back edge b->s
				l := byHeader[s]
				if l == nil {
					l = &Loop{Header: s, Body: map[*ssa.BasicBlock]bool{s: true}}
					byHeader[s] = l
					order = append(order, s)
				}
				l.Latch = append(l.Latch, b)
				// walk predecessors from the latch up to the header
				work := []*ssa.BasicBlock{b}
				for len(work) > 0 {
					x := work[len(work)-1]
					work = work[:len(work)-1]
					if l.Body[x] {
						continue
					}
					l.Body[x] = true
					work = append(work, x.Preds...)
				}
			}
		}
	}
	var out []*Loop
	for _, h := range order {
		out = append(out, byHeader[h])
	}
	return out
}

// enclosingLoop returns the smallest loop whose iteration b belongs to, counting
// blocks that leave the loop (break/return) as part of the iteration: the header
// dominates b and b is not dominated by a normal exit target of the header.
func enclosingLoop(loops []*Loop, b *ssa.BasicBlock) *Loop {
	var best *Loop
	for _, l := range loops {
		in := l.Body[b]
		if !in {
			// loops whose header decides between "next iteration" and "done" (range / conditional loops):
			// the iteration is everything dominated by the body entry.
			var bodyEntry *ssa.BasicBlock
			hasExit := false
			for _, s := range l.Header.Succs {
				if l.Body[s] {
					bodyEntry = s
				} else {
					hasExit = true
				}
			}
			if hasExit && bodyEntry != nil && bodyEntry != l.Header && bodyEntry.Dominates(b) {
				in = true
			}
		}
		if in && (best == nil || len(l.Body) < len(best.Body)) {
			best = l
		}
	}
	return best
}

// innermostLoop returns the smallest loop containing b, or nil.
func innermostLoop(loops []*Loop, b *ssa.BasicBlock) *Loop {
	var best *Loop
	for _, l := range loops {
		if l.Body[b] && (best == nil || len(l.Body) < len(best.Body)) {
			best = l
		}
	}
	return best
}

// Exits returns the edges leaving the loop.
func (l *Loop) Exits() []edge {
	var out []edge
	for b := range l.Body {
		for _, s := range b.Succs {
			if !l.Body[s] {
				out = append(out, edge{b, s})
			}
		}
	}
	return out
}

// rangeLoopOver: if l is a `for i, x := range slice` loop (go/ssa rangeindex form),
// returns the ranged slice value; ok=false otherwise.
//
//	header: phi index ; cmp index+1 < len(slice) ; if -> body else done
func rangeLoopOver(l *Loop) (ssa.Value, *ssa.Phi, bool) {
	h := l.Header
	var idxPhi *ssa.Phi
	for _, in := range h.Instrs {
		if p, ok := in.(*ssa.Phi); ok && p.Comment == "rangeindex" {
			idxPhi = p
		}
	}
	if idxPhi == nil {
		// counted loop `for i := 0; i < len(s); i++`: i is a phi of 0 and i+1 only
		for _, in := range h.Instrs {
			p, ok := in.(*ssa.Phi)
			if !ok || len(p.Edges) != 2 {
				continue
			}
			zero, inc := false, false
			for _, e := range p.Edges {
				if k, ok := constInt(e); ok && k == 0 {
					zero = true
				}
				if bo, ok := e.(*ssa.BinOp); ok && bo.Op == token.ADD && bo.X == ssa.Value(p) {
					if k, ok := constInt(bo.Y); ok && k == 1 {
						inc = true
					}
				}
			}
			if zero && inc {
				idxPhi = p
			}
		}
		if idxPhi == nil {
			return nil, nil, false
		}
		ifi, ok := h.Instrs[len(h.Instrs)-1].(*ssa.If)
		if !ok {
			return nil, nil, false
		}
		cmp, ok := ifi.Cond.(*ssa.BinOp)
		if !ok || cmp.Op != token.LSS || cmp.X != ssa.Value(idxPhi) {
			return nil, nil, false
		}
		if call, ok := cmp.Y.(*ssa.Call); ok {
			if b, ok := call.Call.Value.(*ssa.Builtin); ok && b.Name() == "len" {
				sl := call.Call.Args[0]
				// the slice must not change inside the loop
				if in, isInstr := sl.(ssa.Instruction); isInstr && in.Block() != nil && (l.Body[in.Block()] || in.Block() == h) {
					return nil, nil, false
				}
				return sl, idxPhi, true
			}
		}
		return nil, nil, false
	}
	ifi, ok := h.Instrs[len(h.Instrs)-1].(*ssa.If)
	if !ok {
		return nil, nil, false
	}
	cmp, ok := ifi.Cond.(*ssa.BinOp)
	if !ok || cmp.Op != token.LSS {
		return nil, nil, false
	}
	// the length operand is len(slice), computed in the preheader
	if call, ok := cmp.Y.(*ssa.Call); ok {
		if b, ok := call.Call.Value.(*ssa.Builtin); ok && b.Name() == "len" {
			return call.Call.Args[0], idxPhi, true
		}
	}
	return nil, nil, false
}

// rangeElem reports whether v is the element `slice[index]` of the range loop.
func rangeElem(v ssa.Value, slice ssa.Value, idx *ssa.Phi) bool {
	v = strip(v)
	u, ok := v.(*ssa.UnOp)
	if !ok || u.Op != token.MUL {
		return false
	}
	ia, ok := u.X.(*ssa.IndexAddr)
	if !ok || ia.X != slice {
		return false
	}
	// index operand is idx+1 (rangeindex increments before use)
	if bo, ok := ia.Index.(*ssa.BinOp); ok && bo.Op == token.ADD && bo.X == idx {
		return true
	}
	return ia.Index == idx
}

// ---------------------------------------------------------------------------
// path enumeration

type Event struct {
	Class string
	In    ssa.Instruction
	Note  string
}

type Path struct {
	Events []Event
	End    string // "return", "panic", "stop", "exit"
	Ret    []constant.Value
	RetV   []ssa.Value // returned values with phis resolved along the path
	Blocks []*ssa.BasicBlock
	Last   ssa.Instruction
}

func (p *Path) Count(class string) int {
	n := 0
	for _, e := range p.Events {
		if e.Class == class {
			n++
		}
	}
	return n
}

func (p *Path) Has(class string) bool { return p.Count(class) > 0 }

func (p *Path) Index(class string) int {
	for i, e := range p.Events {
		if e.Class == class {
			return i
		}
	}
	return -1
}

func (p *Path) String() string {
	s := ""
	for i, e := range p.Events {
		if i > 0 {
			s += " → "
		}
		s += e.Class
	}
	return s + " ⇒ " + p.End
}

type PathCfg struct {
	// Classify returns the event classes of an instruction (may be nil).
	Classify func(in ssa.Instruction) []string
	// ClassifyV is like Classify, with a resolver that maps a value to what flowed into it along
	// the current path (phis, parameters and results of expanded callees).
	ClassifyV func(in ssa.Instruction, resolve func(ssa.Value) ssa.Value) []string
	// SelectEvent returns the event classes of choosing state k of sel (k = -1: default).
	SelectEvent func(sel *ssa.Select, k int) []string
	// Branch returns event classes for taking (taken=true: first successor) a conditional branch.
	// cond is the branch condition with phis resolved along the path taken so far.
	Branch func(ifi *ssa.If, cond ssa.Value, taken bool) []string
	// BranchV is like Branch with a resolver for other values (what flowed into them along the path).
	BranchV func(ifi *ssa.If, cond ssa.Value, taken bool, resolve func(ssa.Value) ssa.Value) []string
	// Inline decides whether a call to a module function is expanded.
	Inline func(callee *ssa.Function) bool
	// HigherOrder: canonical callee name -> index (among non-receiver args) of a
	// function argument that the callee invokes exactly once, synchronously.
	HigherOrder map[string]int
	// ConsistentFields: boolean struct fields whose value is assumed not to change along one path.
	ConsistentFields map[*types.Var]bool
	// Stop: blocks at which a path ends with End="stop" (not entered).
	Stop func(b *ssa.BasicBlock) bool
	// EmitCut: also report the paths that were cut at the back-edge bound (End "cut").
	EmitCut bool
	// Arith: evaluate integer +, - on known constants (loop counters become concrete per iteration).
	Arith bool
	// Eval is set by the enumerator while it calls Classify*/Branch*: the constant a value is known to
	// have on the current path (nil when unknown).
	Eval        func(v ssa.Value) constant.Value
	BackEdgeMax int // times a back edge may be taken per path (default 1)
	MaxPaths    int
	MaxDepth    int
}

type penv struct {
	consts  map[ssa.Value]constant.Value
	fields  map[string]constant.Value
	chosen  map[*ssa.Select]int
	exclude map[*ssa.Select]map[int]bool
	back    map[edge]int
	defers  []*ssa.Defer
	phiIn   map[*ssa.Phi]ssa.Value
	rel     map[[2]ssa.Value]bool     // known (in)equality between two non-constant values
	notNil  map[ssa.Value]bool        // values known to differ from nil
	vals    map[ssa.Value]ssa.Value   // parameters of expanded callees -> argument; expanded single-result calls -> returned value
	tuples  map[*ssa.Call][]ssa.Value // expanded multi-result calls -> returned values
}

func (e *penv) clone() *penv {
	n := &penv{consts: map[ssa.Value]constant.Value{}, fields: map[string]constant.Value{}, chosen: map[*ssa.Select]int{}, exclude: map[*ssa.Select]map[int]bool{}, back: map[edge]int{}, phiIn: map[*ssa.Phi]ssa.Value{}}
	for k, v := range e.phiIn {
		n.phiIn[k] = v
	}
	if len(e.vals) > 0 {
		n.vals = map[ssa.Value]ssa.Value{}
		for k, v := range e.vals {
			n.vals[k] = v
		}
	}
	if len(e.tuples) > 0 {
		n.tuples = map[*ssa.Call][]ssa.Value{}
		for k, v := range e.tuples {
			n.tuples[k] = v
		}
	}
	if len(e.notNil) > 0 {
		n.notNil = map[ssa.Value]bool{}
		for k, v := range e.notNil {
			n.notNil[k] = v
		}
	}
	if len(e.rel) > 0 {
		n.rel = map[[2]ssa.Value]bool{}
		for k, v := range e.rel {
			n.rel[k] = v
		}
	}
	for k, v := range e.consts {
		n.consts[k] = v
	}
	for k, v := range e.fields {
		n.fields[k] = v
	}
	for k, v := range e.chosen {
		n.chosen[k] = v
	}
	for k, v := range e.exclude {
		m := map[int]bool{}
		for a, b := range v {
			m[a] = b
		}
		n.exclude[k] = m
	}
	for k, v := range e.back {
		n.back[k] = v
	}
	n.defers = append([]*ssa.Defer(nil), e.defers...)
	return n
}

type enumerator struct {
	cfg       *PathCfg
	paths     []Path
	truncated bool
}

// EnumPaths enumerates the paths of fn from its entry (or from start when non-nil).
func EnumPaths(fn *ssa.Function, start *ssa.BasicBlock, cfg *PathCfg) ([]Path, bool) {
	if cfg.BackEdgeMax == 0 {
		cfg.BackEdgeMax = 1
	}
	if cfg.MaxPaths == 0 {
		cfg.MaxPaths = 100000
	}
	if cfg.MaxDepth == 0 {
		cfg.MaxDepth = 4
	}
	en := &enumerator{cfg: cfg}
	if start == nil {
		start = fn.Blocks[0]
	}
	env := &penv{consts: map[ssa.Value]constant.Value{}, fields: map[string]constant.Value{}, chosen: map[*ssa.Select]int{}, exclude: map[*ssa.Select]map[int]bool{}, back: map[edge]int{}, phiIn: map[*ssa.Phi]ssa.Value{}}
	en.walk(fn, start, nil, 0, env, nil, nil, 0, func(p Path, _ *penv) {
		if len(en.paths) >= cfg.MaxPaths {
			en.truncated = true
			return
		}
		en.paths = append(en.paths, p)
	})
	return en.paths, en.truncated
}

// nilConst is the abstract value of a nil constant of any nilable type.
var nilConst = constant.MakeString("\x00nil")

func isNilConst(c constant.Value) bool {
	return c != nil && c.Kind() == constant.String && constant.StringVal(c) == "\x00nil"
}

func (en *enumerator) evalConst(v ssa.Value, env *penv) constant.Value {
	if c, ok := v.(*ssa.Const); ok {
		if c.Value != nil && (c.Value.Kind() == constant.Bool || c.Value.Kind() == constant.Int) {
			return c.Value
		}
		if c.IsNil() {
			return nilConst
		}
		return nil
	}
	if cv, ok := env.consts[v]; ok {
		return cv
	}
	switch x := v.(type) {
	case *ssa.UnOp:
		if x.Op == token.MUL {
			if a, ok := x.X.(*ssa.Alloc); ok {
				if cv, ok := env.consts[a]; ok {
					return cv
				}
			}
		}
		if x.Op == token.NOT {
			if c := en.evalConst(x.X, env); c != nil && c.Kind() == constant.Bool {
				return constant.MakeBool(!constant.BoolVal(c))
			}
		}
		if x.Op == token.MUL {
			if fa, ok := x.X.(*ssa.FieldAddr); ok && en.cfg.ConsistentFields[fieldOfAddr(fa)] {
				if c, ok := env.fields[fieldKey(fa, env)]; ok {
					return c
				}
			}
			if a, ok := x.X.(*ssa.Alloc); ok {
				if s := cellValue(a); s != nil {
					return en.evalConst(s, env)
				}
			}
		}
	case *ssa.BinOp:
		if x.Op == token.EQL || x.Op == token.NEQ {
			if cy, ok := x.Y.(*ssa.Const); ok && cy.IsNil() && (env.notNil[resolvePhi(x.X, env)] || certainlyNonNil(resolvePhi(x.X, env))) {
				return constant.MakeBool(x.Op == token.NEQ)
			}
			rx, ry := resolvePhi(x.X, env), resolvePhi(x.Y, env)
			if eq, ok := env.rel[[2]ssa.Value{rx, ry}]; ok {
				return constant.MakeBool(eq == (x.Op == token.EQL))
			}
			if eq, ok := env.rel[[2]ssa.Value{ry, rx}]; ok {
				return constant.MakeBool(eq == (x.Op == token.EQL))
			}
		}
		a, b := en.evalConst(x.X, env), en.evalConst(x.Y, env)
		if en.cfg.Arith && a != nil && b != nil && a.Kind() == constant.Int && b.Kind() == constant.Int && (x.Op == token.ADD || x.Op == token.SUB) {
			return constant.BinaryOp(a, x.Op, b)
		}
		if a != nil && b != nil && a.Kind() == b.Kind() {
			switch x.Op {
			case token.EQL, token.NEQ, token.LSS, token.LEQ, token.GTR, token.GEQ:
				if a.Kind() == constant.Bool {
					if x.Op == token.EQL {
						return constant.MakeBool(constant.BoolVal(a) == constant.BoolVal(b))
					}
					if x.Op == token.NEQ {
						return constant.MakeBool(constant.BoolVal(a) != constant.BoolVal(b))
					}
					return nil
				}
				return constant.MakeBool(constant.Compare(a, x.Op, b))
			}
		}
	case *ssa.ChangeType:
		return en.evalConst(x.X, env)
	}
	return nil
}

// resolvePhi follows phis to the value that flowed in along the current path.
func resolvePhi(v ssa.Value, env *penv) ssa.Value {
	for i := 0; i < 40; i++ {
		switch x := v.(type) {
		case *ssa.Phi:
			in, ok := env.phiIn[x]
			if !ok || in == nil {
				return v
			}
			v = in
		case *ssa.Parameter:
			a, ok := env.vals[x]
			if !ok {
				return v
			}
			v = a
		case *ssa.Call:
			a, ok := env.vals[x]
			if !ok {
				return v
			}
			v = a
		case *ssa.FreeVar:
			a, ok := env.vals[x]
			if !ok {
				return v
			}
			v = a
		case *ssa.UnOp:
			// the value of a captured variable that is assigned exactly once (a parameter of the
			// enclosing function that a closure uses): what was stored into its cell
			if x.Op != token.MUL {
				return v
			}
			fv, ok := x.X.(*ssa.FreeVar)
			if !ok {
				return v
			}
			cell, ok := env.vals[fv]
			if !ok {
				return v
			}
			al, ok := cell.(*ssa.Alloc)
			if !ok {
				return v
			}
			cvv := cellValue(al)
			if cvv == nil {
				return v
			}
			v = cvv
		case *ssa.Extract:
			call, ok := x.Tuple.(*ssa.Call)
			if !ok {
				return v
			}
			t, ok := env.tuples[call]
			if !ok || x.Index >= len(t) || t[x.Index] == nil {
				return v
			}
			v = t[x.Index]
		default:
			return v
		}
	}
	return v
}

func fieldKey(fa *ssa.FieldAddr, env *penv) string {
	return fmt.Sprintf("%p.%d", strip(resolvePhi(strip(fa.X), env)), fa.Field)
}

// selectIndexTest recognises `extract(sel,#0) == k`.
func selectIndexTest(cond ssa.Value) (*ssa.Select, int, bool) {
	bo, ok := cond.(*ssa.BinOp)
	if !ok || bo.Op != token.EQL {
		return nil, 0, false
	}
	ex, ok := bo.X.(*ssa.Extract)
	if !ok || ex.Index != 0 {
		return nil, 0, false
	}
	sel, ok := ex.Tuple.(*ssa.Select)
	if !ok {
		return nil, 0, false
	}
	k, ok := constInt(bo.Y)
	if !ok {
		return nil, 0, false
	}
	return sel, int(k), true
}

// resolveFuncValue finds the function a function-typed value denotes, if unique.
func resolveFuncValue(v ssa.Value) *ssa.Function {
	v = strip(v)
	switch x := v.(type) {
	case *ssa.Function:
		return x
	case *ssa.MakeClosure:
		return x.Fn.(*ssa.Function)
	}
	return nil
}

// walk explores from block b, instruction index idx.
func (en *enumerator) walk(fn *ssa.Function, b *ssa.BasicBlock, pred *ssa.BasicBlock, idx int, env *penv, events []Event, blocks []*ssa.BasicBlock, depth int, emit func(Path, *penv)) {
	if en.truncated {
		return
	}
	if idx == 0 {
		if en.cfg.Stop != nil && pred != nil && en.cfg.Stop(b) {
			emit(Path{Events: append([]Event(nil), events...), End: "stop", Blocks: append(blocks, b)}, env)
			return
		}
		blocks = append(append([]*ssa.BasicBlock(nil), blocks...), b)
		// values defined in this block are recomputed: forget what an earlier visit learned
		for _, in := range b.Instrs {
			if v, ok := in.(ssa.Value); ok {
				if _, isPhi := in.(*ssa.Phi); !isPhi {
					delete(env.consts, v)
				}
			}
		}
		// phis: evaluate by predecessor
		if pred != nil {
			pi := -1
			for i, p := range b.Preds {
				if p == pred {
					pi = i
				}
			}
			newc := map[ssa.Value]constant.Value{}
			for _, in := range b.Instrs {
				phi, ok := in.(*ssa.Phi)
				if !ok {
					break
				}
				if pi >= 0 {
					env.phiIn[phi] = resolvePhi(phi.Edges[pi], env)
					if c := en.evalConst(phi.Edges[pi], env); c != nil {
						newc[phi] = c
						continue
					}
				}
				newc[phi] = nil
			}
			for k, v := range newc {
				if v == nil {
					delete(env.consts, k)
				} else {
					env.consts[k] = v
				}
			}
		}
	}
	setEval := func(e *penv) { en.cfg.Eval = func(v ssa.Value) constant.Value { return en.evalConst(v, e) } }
	for i := idx; i < len(b.Instrs); i++ {
		in := b.Instrs[i]
		setEval(env)
		if en.cfg.Classify != nil {
			for _, cl := range en.cfg.Classify(in) {
				events = append(events, Event{Class: cl, In: in})
			}
		}
		if en.cfg.ClassifyV != nil {
			for _, cl := range en.cfg.ClassifyV(in, func(v ssa.Value) ssa.Value { return resolvePhi(v, env) }) {
				events = append(events, Event{Class: cl, In: in})
			}
		}
		switch x := in.(type) {
		case *ssa.Select:
			// a new execution of the select: forget the choice of an earlier iteration
			delete(env.chosen, x)
			delete(env.exclude, x)
		case *ssa.Store:
			if a, ok := x.Addr.(*ssa.Alloc); ok {
				if cv := en.evalConst(x.Val, env); cv != nil {
					env.consts[a] = cv
				} else {
					delete(env.consts, a)
				}
			}
		case *ssa.Defer:
			env.defers = append(env.defers, x)
		case *ssa.RunDefers:
			// run deferred calls in reverse order (events of inlined callees)
			defs := env.defers
			env.defers = nil
			en.runDefers(defs, len(defs)-1, fn, b, i, env, events, blocks, depth, emit)
			return
		case *ssa.Call:
			callee, args := en.calleeToInline(&x.Call)
			if callee == nil && en.cfg.Inline != nil && !x.Call.IsInvoke() && x.Call.StaticCallee() == nil {
				// a call through a function-typed parameter of an expanded callee: the closure that was passed
				if f := resolveFuncValue(resolvePhi(x.Call.Value, env)); f != nil && f.Blocks != nil && en.cfg.Inline(f) {
					callee, args = f, x.Call.Args
				}
			}
			if callee == nil && en.cfg.Inline != nil && x.Call.IsInvoke() {
				// an interface method called on a value whose concrete type is known along this path
				// (a strategy object handed in by the caller): the method of that type
				rv := resolvePhi(x.Call.Value, env)
				for k := 0; k < 4; k++ {
					if ci, ok := rv.(*ssa.ChangeInterface); ok {
						rv = resolvePhi(ci.X, env)
						continue
					}
					break
				}
				if mi, ok := rv.(*ssa.MakeInterface); ok {
					if f := fn.Prog.LookupMethod(mi.X.Type(), x.Call.Method.Pkg(), x.Call.Method.Name()); f != nil && f.Blocks != nil && ModuleFunc(f) && en.cfg.Inline(f) {
						callee = f
						args = append([]ssa.Value{mi.X}, x.Call.Args...)
					}
				}
			}
			if callee != nil && depth < en.cfg.MaxDepth {
				cenv := env.clone()
				// a new activation of the callee: forget what an earlier activation (previous loop
				// iteration of the caller) established about the callee's own values
				inCallee := func(v ssa.Value) bool {
					if in, ok := v.(ssa.Instruction); ok {
						return in.Parent() == callee
					}
					if p, ok := v.(*ssa.Parameter); ok {
						return p.Parent() == callee
					}
					return false
				}
				for k := range cenv.consts {
					if inCallee(k) {
						delete(cenv.consts, k)
					}
				}
				for k := range cenv.notNil {
					if inCallee(k) {
						delete(cenv.notNil, k)
					}
				}
				for k := range cenv.rel {
					if inCallee(k[0]) || inCallee(k[1]) {
						delete(cenv.rel, k)
					}
				}
				for k := range cenv.vals {
					if inCallee(k) {
						delete(cenv.vals, k)
					}
				}
				for k := range cenv.phiIn {
					if k.Parent() == callee {
						delete(cenv.phiIn, k)
					}
				}
				for k := range cenv.chosen {
					if k.Parent() == callee {
						delete(cenv.chosen, k)
					}
				}
				for k := range cenv.exclude {
					if k.Parent() == callee {
						delete(cenv.exclude, k)
					}
				}
				for pi, p := range callee.Params {
					if pi < len(args) {
						if c := en.evalConst(args[pi], env); c != nil {
							cenv.consts[p] = c
						}
						if cenv.vals == nil {
							cenv.vals = map[ssa.Value]ssa.Value{}
						}
						cenv.vals[p] = resolvePhi(args[pi], env)
					}
				}
				// a closure: its captured variables are the cells (or values) it was created with
				if len(callee.FreeVars) > 0 {
					var mc *ssa.MakeClosure
					cands := []ssa.Value{resolvePhi(x.Call.Value, env)}
					for _, a := range x.Call.Args {
						cands = append(cands, resolvePhi(a, env))
					}
					for _, cv := range cands {
						if m, ok := strip(cv).(*ssa.MakeClosure); ok && m.Fn == ssa.Value(callee) {
							mc = m
						} else if m, ok := cv.(*ssa.MakeClosure); ok && m.Fn == ssa.Value(callee) {
							mc = m
						}
					}
					if mc != nil {
						if cenv.vals == nil {
							cenv.vals = map[ssa.Value]ssa.Value{}
						}
						for fi, fv := range callee.FreeVars {
							if fi < len(mc.Bindings) {
								cenv.vals[fv] = resolvePhi(mc.Bindings[fi], env)
							}
						}
					}
				}
				savedDefers := cenv.defers
				cenv.defers = nil
				bi := i
				en.walk(callee, callee.Blocks[0], nil, 0, cenv, events, blocks, depth+1, func(cp Path, cpe *penv) {
					if cp.End == "panic" || cp.End == "exit" {
						emit(cp, cpe)
						return
					}
					nenv := cpe.clone()
					nenv.defers = savedDefers
					if len(cp.Ret) == 1 && cp.Ret[0] != nil {
						nenv.consts[x] = cp.Ret[0]
					}
					if len(cp.RetV) == 1 && cp.RetV[0] != nil {
						if nenv.vals == nil {
							nenv.vals = map[ssa.Value]ssa.Value{}
						}
						nenv.vals[x] = cp.RetV[0]
					} else if len(cp.RetV) > 1 {
						if nenv.tuples == nil {
							nenv.tuples = map[*ssa.Call][]ssa.Value{}
						}
						nenv.tuples[x] = cp.RetV
						// constant results of a multi-result helper (ok flags) are known to the extracts
						for _, r := range *x.Referrers() {
							if ex, ok := r.(*ssa.Extract); ok && ex.Index < len(cp.Ret) && cp.Ret[ex.Index] != nil {
								nenv.consts[ex] = cp.Ret[ex.Index]
							}
						}
					}
					en.walk(fn, b, nil, bi+1, nenv, cp.Events, cp.Blocks, depth, emit)
				})
				return
			}
		case *ssa.Return:
			var ret []constant.Value
			var retv []ssa.Value
			for _, r := range x.Results {
				ret = append(ret, en.evalConst(r, env))
				retv = append(retv, resolvePhi(r, env))
			}
			emit(Path{Events: append([]Event(nil), events...), End: "return", Ret: ret, RetV: retv, Blocks: blocks, Last: in}, env)
			return
		case *ssa.Panic:
			emit(Path{Events: append([]Event(nil), events...), End: "panic", Blocks: blocks, Last: in}, env)
			return
		case *ssa.Jump:
			en.follow(fn, b, b.Succs[0], env, events, blocks, depth, emit)
			return
		case *ssa.If:
			if sel, k, ok := selectIndexTest(x.Cond); ok {
				// true edge: state k chosen
				if _, done := env.chosen[sel]; !done && !env.exclude[sel][k] {
					e1 := env.clone()
					e1.chosen[sel] = k
					ev := events
					if en.cfg.SelectEvent != nil {
						for _, cl := range en.cfg.SelectEvent(sel, k) {
							ev = append(append([]Event(nil), ev...), Event{Class: cl, In: sel})
						}
					}
					en.follow(fn, b, b.Succs[0], e1, ev, blocks, depth, emit)
				}
				e2 := env.clone()
				if e2.exclude[sel] == nil {
					e2.exclude[sel] = map[int]bool{}
				}
				e2.exclude[sel][k] = true
				ev := events
				if _, done := e2.chosen[sel]; !done && len(e2.exclude[sel]) == len(sel.States) {
					if sel.Blocking {
						return // infeasible: a blocking select always chooses a state
					}
					e2.chosen[sel] = -1
					if en.cfg.SelectEvent != nil {
						for _, cl := range en.cfg.SelectEvent(sel, -1) {
							ev = append(append([]Event(nil), ev...), Event{Class: cl, In: sel})
						}
					}
				}
				en.follow(fn, b, b.Succs[1], e2, ev, blocks, depth, emit)
				return
			}
			brEv := func(taken bool) []Event {
				if en.cfg.Branch == nil && en.cfg.BranchV == nil {
					return events
				}
				ev := events
				setEval(env)
				rc := resolvePhi(x.Cond, env)
				if cn, _ := negStrip(rc); cn != nil {
					if _, isConst := cn.(*ssa.Const); isConst {
						// a flag that is constant on this path (e.g. `excluded := false` merged with
						// computed values): the test decides nothing here
						return events
					}
				}
				if en.cfg.Branch != nil {
					for _, cl := range en.cfg.Branch(x, rc, taken) {
						ev = append(append([]Event(nil), ev...), Event{Class: cl, In: x})
					}
				}
				if en.cfg.BranchV != nil {
					for _, cl := range en.cfg.BranchV(x, rc, taken, func(v ssa.Value) ssa.Value { return resolvePhi(v, env) }) {
						ev = append(append([]Event(nil), ev...), Event{Class: cl, In: x})
					}
				}
				return ev
			}
			c := en.evalConst(x.Cond, env)
			if c != nil && c.Kind() == constant.Bool {
				if constant.BoolVal(c) {
					en.follow(fn, b, b.Succs[0], env, brEv(true), blocks, depth, emit)
				} else {
					en.follow(fn, b, b.Succs[1], env, brEv(false), blocks, depth, emit)
				}
				return
			}
			for si, s := range b.Succs {
				e := env.clone()
				en.assume(x.Cond, si == 0, e)
				en.follow(fn, b, s, e, brEv(si == 0), blocks, depth, emit)
			}
			return
		}
	}
	// block without terminator (should not happen)
	emit(Path{Events: append([]Event(nil), events...), End: "exit", Blocks: blocks}, env)
}

// assume records what taking a branch teaches about values.
func (en *enumerator) assume(cond ssa.Value, val bool, env *penv) {
	env.consts[cond] = constant.MakeBool(val)
	switch x := cond.(type) {
	case *ssa.UnOp:
		if x.Op == token.NOT {
			en.assume(x.X, !val, env)
		}
		if x.Op == token.MUL {
			if fa, ok := x.X.(*ssa.FieldAddr); ok && en.cfg.ConsistentFields[fieldOfAddr(fa)] {
				env.fields[fieldKey(fa, env)] = constant.MakeBool(val)
			}
		}
	case *ssa.BinOp:
		// x == const / x != const teaches x on the matching edge
		if x.Op == token.EQL || x.Op == token.NEQ {
			eq := (x.Op == token.EQL) == val
			if cy, ok := x.Y.(*ssa.Const); ok && cy.IsNil() && !eq {
				if env.notNil == nil {
					env.notNil = map[ssa.Value]bool{}
				}
				env.notNil[resolvePhi(x.X, env)] = true
			}
			if _, c1 := x.X.(*ssa.Const); !c1 {
				if _, c2 := x.Y.(*ssa.Const); !c2 {
					if env.rel == nil {
						env.rel = map[[2]ssa.Value]bool{}
					}
					env.rel[[2]ssa.Value{resolvePhi(x.X, env), resolvePhi(x.Y, env)}] = eq
				}
			}
			if eq {
				if c := en.evalConst(x.Y, env); c != nil {
					env.consts[x.X] = c
				} else if c := en.evalConst(x.X, env); c != nil {
					env.consts[x.Y] = c
				}
			}
		}
	}
}

func (en *enumerator) follow(fn *ssa.Function, from, to *ssa.BasicBlock, env *penv, events []Event, blocks []*ssa.BasicBlock, depth int, emit func(Path, *penv)) {
	if to.Dominates(from) { // back edge
		e := edge{from, to}
		if env.back[e] >= en.cfg.BackEdgeMax {
			if en.cfg.EmitCut && depth == 0 {
				emit(Path{Events: append([]Event(nil), events...), End: "cut", Blocks: blocks}, env)
			}
			return
		}
		env = env.clone()
		env.back[e]++
	}
	en.walk(fn, to, from, 0, env, events, blocks, depth, emit)
}

func (en *enumerator) runDefers(defs []*ssa.Defer, k int, fn *ssa.Function, b *ssa.BasicBlock, i int, env *penv, events []Event, blocks []*ssa.BasicBlock, depth int, emit func(Path, *penv)) {
	if k < 0 {
		en.walk(fn, b, nil, i+1, env, events, blocks, depth, emit)
		return
	}
	d := defs[k]
	// the Defer instruction was classified when it was registered with class prefix
	// "defer:"; its effect happens here.
	if en.cfg.Classify != nil {
		for _, cl := range en.cfg.Classify(deferredCall{d}) {
			events = append(append([]Event(nil), events...), Event{Class: cl, In: d})
		}
	}
	callee, _ := en.calleeToInline(&d.Call)
	if callee != nil && depth < en.cfg.MaxDepth {
		cenv := env.clone()
		cenv.defers = nil
		en.walk(callee, callee.Blocks[0], nil, 0, cenv, events, blocks, depth+1, func(cp Path, cpe *penv) {
			if cp.End == "panic" || cp.End == "exit" {
				emit(cp, cpe)
				return
			}
			nenv := cpe.clone()
			nenv.defers = nil
			en.runDefers(defs, k-1, fn, b, i, nenv, cp.Events, cp.Blocks, depth, emit)
		})
		return
	}
	en.runDefers(defs, k-1, fn, b, i, env, events, blocks, depth, emit)
}

// deferredCall wraps a Defer at the time it runs, so that Classify can tell
// registration (ssa.Defer) from execution.
type deferredCall struct{ *ssa.Defer }

func (en *enumerator) calleeToInline(cc *ssa.CallCommon) (*ssa.Function, []ssa.Value) {
	if en.cfg.Inline == nil {
		return nil, nil
	}
	// higher-order callee (possibly an interface method) invoking its function argument once
	if en.cfg.HigherOrder != nil {
		if ai, ok := en.cfg.HigherOrder[calleeName(cc)]; ok {
			args := argsOf(cc)
			if ai < len(args) {
				if f := resolveFuncValue(args[ai]); f != nil && f.Blocks != nil && en.cfg.Inline(f) {
					return f, nil
				}
			}
			return nil, nil
		}
	}
	if cc.IsInvoke() {
		return nil, nil
	}
	if fn := cc.StaticCallee(); fn != nil {
		if fn.Blocks != nil && ModuleFunc(fn) && en.cfg.Inline(fn) {
			return fn, cc.Args
		}
		return nil, nil
	}
	if f := resolveFuncValue(cc.Value); f != nil && f.Blocks != nil && en.cfg.Inline(f) {
		return f, cc.Args
	}
	return nil, nil
}

// certainlyNonNil: v is an error (or other interface) value that was just constructed.
func certainlyNonNil(v ssa.Value) bool {
	switch x := v.(type) {
	case *ssa.MakeInterface:
		// a concrete non-pointer value boxed into an interface is never nil; a pointer may be
		if _, isPtr := x.X.Type().Underlying().(*types.Pointer); !isPtr {
			return true
		}
		if _, isAlloc := x.X.(*ssa.Alloc); isAlloc {
			return true
		}
	case *ssa.Call:
		switch calleeName(x.Common()) {
		case "fmt.Errorf", "errors.New":
			return true
		}
	}
	return false
}
