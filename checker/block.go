package main

// Engine C: may-block effect analysis. For a function (or a set of blocks of a
// function) computes the potentially blocking operations reachable through
// synchronous calls, each with a witness chain. Spawned goroutines are not
// followed. External callees are classified by reviewed tables; an external
// callee that is neither known blocking nor known non-blocking is reported as
// unclassified (which fails the rule using the engine).

import (
	"fmt"
	"go/token"
	"go/types"
	"sort"
	"strings"

	"golang.org/x/tools/go/ssa"
)

type blockOp struct {
	In    ssa.Instruction
	Why   string
	Chain []string
	Class string // send | recv | select | call | unclassified | lock
	Chan  *types.Var
}

// packages / functions whose calls never block on another goroutine, the network or the disk
var nonBlockingPrefixes = []string{
	"github.com/sirupsen/logrus.", "(*github.com/sirupsen/logrus.", "github.com/Dieterbe/go-metrics.", "(github.com/Dieterbe/go-metrics.", "(*github.com/Dieterbe/go-metrics.",
	"fmt.", "strings.", "(*strings.", "bytes.", "(*bytes.", "strconv.", "sort.", "errors.", "math.", "unicode.", "hash/", "(hash.", "(hash/", "crypto/md5.", "regexp.", "(*regexp.",
	"time.Now", "time.Since", "time.Unix", "(time.Time).", "(time.Duration).", "(*time.Ticker).Stop", "(*time.Timer).Stop", "(*time.Timer).Reset", "time.NewTicker", "time.NewTimer", "time.Duration",
	"sync/atomic.", "(*sync/atomic.", "(*sync.WaitGroup).Add", "(*sync.WaitGroup).Done", "(*sync.Mutex).Unlock", "(*sync.RWMutex).Unlock", "(*sync.RWMutex).RUnlock", "(*sync.Once).Do", "(*sync.Pool).",
	"builtin.", "encoding/binary.", "(encoding/binary.", "github.com/kisielk/og-rek.", "(*github.com/kisielk/og-rek.", "github.com/grafana/metrictank/schema.", "(*github.com/grafana/metrictank/schema.",
	"github.com/metrics20/go-metrics20/carbon20.", "path.", "path/filepath.", "os.Getenv", "os.Hostname", "os.IsNotExist", "(error).Error", "github.com/grafana/metrictank/schema/msg.", "github.com/golang/snappy.", "(*github.com/golang/snappy.",
	"github.com/jpillora/backoff.", "(*github.com/jpillora/backoff.", "net/http.NewRequest", "(net/http.Header).", "io/ioutil.NopCloser", "(*math/big.", "math/big.", "github.com/taylorchu/toki.", "(*github.com/taylorchu/toki.",
	"(*encoding/json.", "encoding/json.", "net.ResolveTCPAddr", "net.ResolveUDPAddr", "(*net.TCPAddr).", "(net.Addr).", "net/url.", "(*net/url.", "github.com/grafana/metrictank/cluster/partitioner.", "(*github.com/grafana/metrictank/cluster/partitioner.",
	"(*text/tabwriter.", "unicode/utf8.", "reflect.", "(reflect.", "runtime.", "(*runtime.", "os.Getpid",
}

// callees that may block
var blockingCallees = map[string]string{
	"time.Sleep": "sleeps", "(*sync.WaitGroup).Wait": "waits for other goroutines", "(*sync.Cond).Wait": "waits for a condition",
	"net.DialTCP": "network dial", "net.Dial": "network dial", "net.DialTimeout": "network dial", "(*net.TCPConn).Read": "socket read", "(*net.TCPConn).Write": "socket write", "(*net.TCPConn).Close": "socket close",
	"(io.Writer).Write": "write to an io.Writer (the socket)", "(io.Reader).Read": "read", "(net.Conn).Read": "socket read", "(net.Conn).Write": "socket write", "(net.Conn).Close": "socket close",
	"(*net/http.Client).Do": "HTTP request", "io/ioutil.ReadAll": "read", "io.ReadFull": "read", "(io.ReadCloser).Read": "read", "(io.ReadCloser).Close": "close",
	"os.OpenFile": "file open", "(*os.File).Write": "file write", "(*os.File).Read": "file read", "(*os.File).Sync": "fsync", "(*os.File).Close": "file close", "(*os.File).Seek": "file seek", "os.Rename": "rename", "os.Remove": "remove", "os.MkdirAll": "mkdir",
	"(*bufio.Reader).Read": "read", "(*bufio.Reader).ReadLine": "read", "(*bufio.Scanner).Scan": "read", "(*bufio.Reader).Peek": "read", "encoding/binary.Read": "read",
	"(github.com/Shopify/sarama.SyncProducer).SendMessages": "kafka produce", "github.com/Shopify/sarama.NewClient": "kafka connect",
	"(*cloud.google.com/go/pubsub.PublishResult).Get": "pubsub publish", "(*github.com/aws/aws-sdk-go/service/cloudwatch.CloudWatch).PutMetricData": "cloudwatch request",
}

type blockAnalysis struct {
	p    *Prog
	cg   *CallGraph
	memo map[*ssa.Function][]blockOp
	busy map[*ssa.Function]bool
	// accepted: canonical callee names accepted as non-blocking for the caller's purpose (with re-checked preconditions elsewhere)
	accepted map[string]string
	// rendezvous channel fields accepted as sends to a loop proven live
	acceptedSend map[*types.Var]bool
	lockMemo     map[string]bool
}

func newBlockAnalysis(p *Prog) *blockAnalysis {
	return &blockAnalysis{p: p, cg: p.CG(), memo: map[*ssa.Function][]blockOp{}, busy: map[*ssa.Function]bool{}, accepted: map[string]string{}, acceptedSend: map[*types.Var]bool{}, lockMemo: map[string]bool{}}
}

func classifyExternal(name string) (blocking bool, why string, known bool) {
	if why, ok := blockingCallees[name]; ok {
		return true, why, true
	}
	// bytes.Buffer / strings.Builder implement io.Writer: calls on concrete types are matched by prefix
	for _, p := range nonBlockingPrefixes {
		if strings.HasPrefix(name, p) {
			return false, "", true
		}
	}
	return false, "", false
}

// opsInInstr: blocking operations of a single instruction (not following calls).
func (a *blockAnalysis) localOp(in ssa.Instruction) *blockOp {
	switch x := in.(type) {
	case *ssa.Send:
		f, _ := chanField(x.Chan)
		if f != nil && a.acceptedSend[f] {
			return nil
		}
		return &blockOp{In: in, Why: "unconditional channel send", Class: "send", Chan: f}
	case *ssa.UnOp:
		if x.Op == token.ARROW {
			f, _ := chanField(x.X)
			return &blockOp{In: in, Why: "unconditional channel receive", Class: "recv", Chan: f}
		}
	case *ssa.Select:
		if x.Blocking {
			return &blockOp{In: in, Why: "select without default", Class: "select"}
		}
	}
	return nil
}

// Ops returns the blocking operations reachable from fn through synchronous calls.
func (a *blockAnalysis) Ops(fn *ssa.Function) []blockOp {
	if r, ok := a.memo[fn]; ok {
		return r
	}
	if a.busy[fn] {
		return nil
	}
	a.busy[fn] = true
	var blocks []*ssa.BasicBlock
	for _, b := range fn.Blocks {
		if b != fn.Recover {
			blocks = append(blocks, b)
		}
	}
	r := a.opsIn(fn, blocks, nil)
	delete(a.busy, fn)
	a.memo[fn] = r
	return r
}

// opsIn: blocking operations of the given blocks of fn; skip(in) excludes instructions.
func (a *blockAnalysis) opsIn(fn *ssa.Function, blocks []*ssa.BasicBlock, skip func(ssa.Instruction) bool) []blockOp {
	var out []blockOp
	for _, b := range blocks {
		for _, in := range b.Instrs {
			if skip != nil && skip(in) {
				continue
			}
			if op := a.localOp(in); op != nil {
				op.Chain = []string{FuncName(fn) + " at " + a.p.InstrPos(in)}
				out = append(out, *op)
				continue
			}
			if _, isGo := in.(*ssa.Go); isGo {
				continue
			}
			cc := callCommon(in)
			if cc == nil {
				continue
			}
			name := calleeName(cc)
			if _, ok := a.accepted[name]; ok {
				continue
			}
			if name == "encoding/binary.Read" || name == "io.ReadFull" {
				// reading from an in-memory reader does not block
				if mi, ok := cc.Args[0].(*ssa.MakeInterface); ok {
					ts := mi.X.Type().String()
					if ts == "*bytes.Reader" || ts == "*bytes.Buffer" || ts == "*strings.Reader" {
						continue
					}
				}
			}
			if name == "(*sync.Mutex).Lock" || name == "(*sync.RWMutex).Lock" || name == "(*sync.RWMutex).RLock" {
				if !a.lockIsShort(cc) {
					out = append(out, blockOp{In: in, Why: "acquires a mutex that is held across blocking operations", Class: "lock", Chain: []string{FuncName(fn) + " at " + a.p.InstrPos(in)}})
				}
				continue
			}
			// module callees
			var targets []*ssa.Function
			external := false
			for _, e := range a.cg.Out[fn] {
				if e.Site != in || e.Kind == EdgeRef || e.Kind == EdgeGo {
					continue
				}
				if e.Callee != nil && e.Callee.Blocks != nil {
					targets = append(targets, e.Callee)
				} else {
					external = true
				}
			}
			// function-typed arguments invoked synchronously by known higher-order externals
			if name == "(github.com/Dieterbe/go-metrics.Timer).Time" || name == "sort.Search" || name == "sort.Slice" {
				for _, arg := range cc.Args {
					if f := resolveFuncValue(arg); f != nil && f.Blocks != nil {
						targets = append(targets, f)
					}
				}
			}
			for _, t := range targets {
				for _, op := range a.Ops(t) {
					op2 := op
					op2.Chain = append([]string{FuncName(fn) + " at " + a.p.InstrPos(in)}, op.Chain...)
					out = append(out, op2)
				}
			}
			if external || len(targets) == 0 {
				if name == "" {
					continue
				}
				blk, why, known := classifyExternal(name)
				switch {
				case blk:
					out = append(out, blockOp{In: in, Why: short(name) + ": " + why, Class: "call", Chain: []string{FuncName(fn) + " at " + a.p.InstrPos(in)}})
				case !known && external:
					out = append(out, blockOp{In: in, Why: "call to " + short(name) + " is not classified as blocking or non-blocking", Class: "unclassified", Chain: []string{FuncName(fn) + " at " + a.p.InstrPos(in)}})
				}
			}
		}
	}
	return out
}

// lockIsShort: every critical section of the mutex named by the call's receiver is free of blocking operations.
func (a *blockAnalysis) lockIsShort(cc *ssa.CallCommon) bool {
	var id string
	var same func(m mutexOp) bool
	switch x := cc.Args[0].(type) {
	case *ssa.FieldAddr:
		f := fieldOfAddr(x)
		id = fmt.Sprintf("f%p", f)
		same = func(m mutexOp) bool { return m.field == f }
	case *ssa.Global:
		id = "g" + x.String()
		same = func(m mutexOp) bool { return m.global == x }
	default:
		return false
	}
	if r, ok := a.lockMemo[id]; ok {
		return r
	}
	a.lockMemo[id] = true // optimistic for recursion
	res := true
	for _, fn := range a.p.Funcs {
		ops := mutexOps(fn)
		var locks []mutexOp
		for _, o := range ops {
			if same(o) && (o.op == "Lock" || o.op == "RLock") && !o.deferd {
				locks = append(locks, o)
			}
		}
		if len(locks) == 0 {
			continue
		}
		for _, l := range locks {
			// instructions that can execute while the lock taken at l is held
			held := func(in ssa.Instruction) bool {
				h, ok := heldAt(ops, func(m mutexOp) bool { return same(m) && m.in == l.in }, in)
				return ok && h == l.in
			}
			var blocks []*ssa.BasicBlock
			for _, b := range fn.Blocks {
				if b != fn.Recover {
					blocks = append(blocks, b)
				}
			}
			bops := a.opsIn(fn, blocks, func(in ssa.Instruction) bool {
				if in == l.in {
					return true
				}
				if cc2 := callCommon(in); cc2 != nil {
					n := calleeName(cc2)
					if strings.HasSuffix(n, ".Lock") || strings.HasSuffix(n, ".RLock") {
						if len(cc2.Args) > 0 {
							switch y := cc2.Args[0].(type) {
							case *ssa.FieldAddr:
								if same(mutexOp{field: fieldOfAddr(y)}) {
									return true
								}
							case *ssa.Global:
								if same(mutexOp{global: y}) {
									return true
								}
							}
						}
					}
				}
				return !held(in)
			})
			if len(bops) > 0 {
				res = false
			}
		}
	}
	a.lockMemo[id] = res
	return res
}

func describeOps(ops []blockOp, max int) []string {
	var out []string
	seen := map[string]bool{}
	for _, o := range ops {
		s := o.Class + ": " + o.Why + " — via " + strings.Join(o.Chain, " → ")
		if seen[s] {
			continue
		}
		seen[s] = true
		out = append(out, s)
	}
	sort.Strings(out)
	if len(out) > max {
		out = out[:max]
	}
	return out
}

// selectCases maps each state index of sel to the entry block of its body (-1: default / fallthrough).
func selectCases(sel *ssa.Select) map[int]*ssa.BasicBlock {
	out := map[int]*ssa.BasicBlock{}
	fn := sel.Parent()
	var lastElse *ssa.BasicBlock
	seen := map[int]bool{}
	for _, b := range fn.Blocks {
		ifi, ok := b.Instrs[len(b.Instrs)-1].(*ssa.If)
		if !ok {
			continue
		}
		s2, k, ok := selectIndexTest(ifi.Cond)
		if !ok || s2 != sel {
			continue
		}
		out[k] = b.Succs[0]
		seen[k] = true
		lastElse = b.Succs[1]
		_ = lastElse
	}
	// the state without an explicit test is reached through the final else
	for k := range sel.States {
		if !seen[k] {
			// find the If with the largest tested index: its else edge
			var best *ssa.BasicBlock
			bestK := -1
			for _, b := range fn.Blocks {
				if ifi, ok := b.Instrs[len(b.Instrs)-1].(*ssa.If); ok {
					if s2, kk, ok := selectIndexTest(ifi.Cond); ok && s2 == sel && kk > bestK {
						bestK, best = kk, b.Succs[1]
					}
				}
			}
			if best != nil {
				out[k] = best
			}
		}
	}
	return out
}

// regionFrom: blocks reachable from start without passing through stop.
func regionFrom(start, stop *ssa.BasicBlock) []*ssa.BasicBlock {
	r := reachable(start, nil, map[*ssa.BasicBlock]bool{stop: true})
	var out []*ssa.BasicBlock
	for b := range r {
		if b != stop {
			out = append(out, b)
		}
	}
	sort.Slice(out, func(i, j int) bool { return out[i].Index < out[j].Index })
	return out
}
