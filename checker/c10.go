package main

import (
	"fmt"
	"go/token"
	"go/types"
	"path/filepath"
	"sort"
	"strings"

	"golang.org/x/tools/go/ssa"
)

func init() {
	register(&PropDef{
		ID:    "C10",
		Title: "Aggregations emit exactly one correct point per bucket, once, in order",
		Decided: "R1 every path of AddOrCreate contributes the point exactly once (adds to the existing processor, or creates and stores a new one, or counts it as too old), and a point for a bucket/key that already exists is added without any age test; " +
			"R2 the test that opens a new bucket (bucket > now − wait) and the test that keeps a bucket from being flushed (bucket > cutoff, with cutoff = tick − wait) are the same strict relation, so no bucket is both still accepting and already flushed, or closed but never flushed; " +
			"R3 in Flush every emission for a bucket precedes the deletion of that bucket within the same iteration, and each processor result produces exactly one send and one flushed-count; " +
			"R4 the bucket key is ts − ts % Interval of the point's timestamp and the emitted timestamp is the bucket key; " +
			"R5 every Processor implementation is returned by exactly one case of the function registry, the case names equal the function table of docs/aggregation.md, and the output lines have the formats `%s %f %d` / `%s.%s %f %d`; R8 the percentile processor interpolates between two neighbouring samples of the sorted list with a weight that is provably in [0, 1) (so a percentile never lies outside the contributed values).",
		NotDecided: "the arithmetic of the ten functions (e.g. the rank formula of the percentiles, the sums and squares of stdev); that a library sort sorts; clock behaviour.",
		Rules: []RuleDef{
			{ID: "C10.R1", Min: 1, Doc: "one contribution per point: path enumeration of AddOrCreate with events proc.Add / constructor+store / numTooOld.Inc and the branch decisions of the two map lookups and the age test", Run: c10r1},
			{ID: "C10.R2", Min: 3, Doc: "one definition of open: normalised comparison operators of the age test in AddOrCreate and the loop-exit test in Flush; the cutoff passed by run is tick − Wait seconds", Run: c10r2},
			{ID: "C10.R3", Min: 3, Doc: "emit then forget: ordering of sends on Aggregator.out and delete(aggregations, ts) inside the tsList loop; send/Inc pairing by path enumeration of one iteration", Run: c10r3},
			{ID: "C10.R4", Min: 2, Doc: "bucket start: value flow of AddOrCreate's `quantized` argument; operands of the two Sprintf calls in Flush", Run: c10r4},
			{ID: "C10.R6", Min: 2, Doc: "bucket list stays sorted: on every path after tsList = append(tsList, q) the function either passes the in-order edge of a comparison of the previous last element with q (or finds the list shorter than two), or calls a library sort on tsList; the only other stores into tsList re-slice it (Flush) — a hand-written insertion is reported, because its correctness is a claim about values this analysis cannot decide", Run: c10r6},
			{ID: "C10.R7", Min: 1, Doc: "ticks carry the current time: the value clock.AlignedTick sends on its channel is time.Now() read after the sleep — run derives the flush cutoff (tick − wait) from it, so a tick that lies in the future flushes buckets that are still open (and lets them be re-created and emitted again)", Run: c10r7},
			{ID: "C10.R8", Min: 1, Doc: "percentile interpolation stays between two neighbouring samples: the result is s[i] + w·(s[i+1] − s[i]) on one sorted list, w = rank − float(int part of the same rank), the lower index derives from that int part, and either the int part is math.Floor or a dominating edge establishes rank ≥ 0 (int() truncates toward zero; `int part ≥ 0` only gives rank > −1) — a sign/interval argument over the expression's shape, no evaluation", Run: c10r8},
			{ID: "C10.R5", Min: 12, Doc: "registry: string cases of GetProcessorConstructor ↔ constructors ↔ Processor implementations ↔ docs/aggregation.md", Run: c10r5},
		},
	})
}

func c10r1(c *Check) {
	fn := c.P.Func("aggregator", "*Aggregator", "AddOrCreate")
	procAdd := "(" + modPath + "/aggregator.Processor).Add"
	constrF := c.P.Field("aggregator", "Aggregator", "procConstr")
	stateF := c.P.Field("aggregator", "aggregation", "state")
	aggsF := c.P.Field("aggregator", "Aggregator", "aggregations")
	quantPar := fn.Params[3]
	cfg := &PathCfg{
		Classify: func(in ssa.Instruction) []string {
			if f, ok := counterField(in); ok && f == "numTooOld" {
				return []string{"tooold"}
			}
			if cc := callCommon(in); cc != nil {
				if cc.IsInvoke() && cc.Method.FullName() == procAdd {
					return []string{"proc.Add"}
				}
				if !cc.IsInvoke() && cc.StaticCallee() == nil {
					if _, f, ok := fieldLoad(cc.Value); ok && f == constrF {
						return []string{"new"}
					}
				}
			}
			if mu, ok := in.(*ssa.MapUpdate); ok {
				if isFieldLoad(mu.Map, stateF) {
					return []string{"state.set"}
				}
				if isFieldLoad(mu.Map, aggsF) {
					return []string{"bucket.set"}
				}
			}
			return nil
		},
		Branch: func(ifi *ssa.If, cond ssa.Value, taken bool) []string {
			cnd, neg := negStrip(cond)
			val := taken != neg
			if ex, ok := cnd.(*ssa.Extract); ok && ex.Index == 1 {
				if lk, ok := ex.Tuple.(*ssa.Lookup); ok {
					name := "?"
					if isFieldLoad(lk.X, aggsF) {
						name = "bucket"
					} else if isFieldLoad(lk.X, stateF) {
						name = "key"
					}
					if val {
						return []string{name + ":found"}
					}
					return []string{name + ":absent"}
				}
			}
			if bo, ok := cnd.(*ssa.BinOp); ok && (bo.X == quantPar || bo.Y == quantPar) {
				return []string{"agetest"}
			}
			return nil
		},
	}
	paths, trunc := EnumPaths(fn, nil, cfg)
	c.Stat("paths", len(paths))
	var probs []string
	seen := map[string]bool{}
	for i := range paths {
		pa := &paths[i]
		n := pa.Count("proc.Add") + pa.Count("new") + pa.Count("tooold")
		if n != 1 {
			probs = append(probs, fmt.Sprintf("a point contributes %d times (add/new/too-old must happen exactly once): %s", n, pa.String()))
		}
		if pa.Has("new") && (pa.Count("state.set") != 1 || pa.Index("state.set") < pa.Index("new")) {
			probs = append(probs, "a newly created processor is not stored under its key: "+pa.String())
		}
		if pa.Has("bucket:found") && pa.Has("key:found") {
			seen["existing"] = true
			if !pa.Has("proc.Add") || pa.Has("agetest") {
				probs = append(probs, "a point for an existing, not yet flushed bucket and key is subjected to the age test (it may be dropped as too old and the emitted value is wrong): "+pa.String())
			}
		} else if pa.Has("proc.Add") {
			probs = append(probs, "proc.Add without both lookups succeeding: "+pa.String())
		}
		if pa.Has("new") || pa.Has("tooold") {
			seen["fresh"] = true
			if !pa.Has("agetest") {
				probs = append(probs, "a new bucket/key is opened (or rejected) without the age test: "+pa.String())
			}
		}
		if pa.Has("bucket:absent") && pa.Count("bucket.set") != 1 {
			probs = append(probs, "an absent bucket is not created exactly once: "+pa.String())
		}
	}
	if trunc || !seen["existing"] || !seen["fresh"] {
		probs = append(probs, "model incomplete (no existing-bucket or no new-bucket path)")
	}
	if len(probs) > 6 {
		probs = probs[:6]
	}
	if len(probs) > 0 {
		c.ViolateW("aggregator.AddOrCreate one contribution per point", c.AtFn(fn), probs[0], probs)
	} else {
		c.Hold("aggregator.AddOrCreate one contribution per point", c.AtFn(fn), fmt.Sprintf("%d paths", len(paths)))
	}
}

func c10r2(c *Check) {
	aoc := c.P.Func("aggregator", "*Aggregator", "AddOrCreate")
	fl := c.P.Func("aggregator", "*Aggregator", "Flush")
	run := c.P.Func("aggregator", "*Aggregator", "run")
	waitF := c.P.Field("aggregator", "Aggregator", "Wait")
	quantPar := aoc.Params[3]
	// acceptance: normalise to "bucket REL bound" on the accepting edge (the one leading to `new`)
	accept := ""
	var at1 ssa.Instruction
	allInstrs(aoc, func(in ssa.Instruction) {
		ifi, ok := in.(*ssa.If)
		if !ok {
			return
		}
		cnd, neg := negStrip(ifi.Cond)
		bo, ok := cnd.(*ssa.BinOp)
		if !ok {
			return
		}
		op := bo.Op
		var bound ssa.Value
		switch {
		case bo.X == quantPar:
			bound = bo.Y
		case bo.Y == quantPar:
			bound = bo.X
			op = flipRel(op)
		default:
			return
		}
		// bound = now().Unix() - a.Wait
		sub, ok := bound.(*ssa.BinOp)
		if !ok || sub.Op != token.SUB || !isFieldLoad(sub.Y, waitF) {
			return // another comparison involving the bucket (the sortedness test)
		}
		// which edge creates the processor?
		createsOnTrue := false
		for _, x := range ifi.Block().Succs[0].Instrs {
			if cc := callCommon(x); cc != nil && !cc.IsInvoke() && cc.StaticCallee() == nil {
				createsOnTrue = true
			}
		}
		if neg == createsOnTrue {
			op = negRel(op)
		}
		accept = "bucket " + op.String() + " now−wait"
		at1 = in
	})
	// flush: loop exits (break) when ts REL cutoff; flushed when !(REL)
	keep := ""
	cutPar := fl.Params[1]
	allInstrs(fl, func(in ssa.Instruction) {
		ifi, ok := in.(*ssa.If)
		if !ok {
			return
		}
		cnd, neg := negStrip(ifi.Cond)
		bo, ok := cnd.(*ssa.BinOp)
		if !ok {
			return
		}
		op := bo.Op
		switch {
		case bo.Y == cutPar:
		case bo.X == cutPar:
			op = flipRel(op)
		default:
			return
		}
		// the edge that leaves the loop without flushing
		loops := loopsOf(fl)
		l := innermostLoop(loops, ifi.Block())
		if l == nil {
			return
		}
		leavesOnTrue := !l.Body[ifi.Block().Succs[0]]
		if neg == leavesOnTrue {
			op = negRel(op)
		}
		keep = "bucket " + op.String() + " cutoff"
	})
	pos := c.AtFn(aoc)
	if at1 != nil {
		pos = c.At(at1)
	}
	c.Judge(accept == "bucket > now−wait", "aggregator.AddOrCreate opens a bucket iff bucket > now − wait", pos, accept, "the age test is "+accept+" instead of the strict `bucket > now − wait`")
	c.Judge(keep == "bucket > cutoff", "aggregator.Flush keeps a bucket iff bucket > cutoff", c.AtFn(fl), keep, "the not-yet-due test is "+keep+" instead of the strict `bucket > cutoff`")
	c.Judge(accept != "" && strings.TrimSuffix(accept, " now−wait") == strings.TrimSuffix(keep, " cutoff"), "aggregator: accepting and keeping use the same relation", pos, "both strict >", fmt.Sprintf("AddOrCreate uses %q, Flush uses %q: a bucket exactly at the boundary is either flushed while it still accepts points (emitted twice) or closed without ever being flushed", accept, keep))
	// run passes tick − Wait
	okCut := false
	// the case bodies of run may live in helper methods of the aggregator (handleTick, flushUntilWaitBefore)
	for _, runf := range workerFuncs(c.P, run) {
		allInstrs(runf, func(in ssa.Instruction) {
			call, ok := in.(*ssa.Call)
			if !ok || !strings.HasSuffix(calleeName(call.Common()), "Aggregator).Flush") {
				return
			}
			// arg = uint(thresh.Unix()), thresh = X.Add(-Duration(Wait)*Second)
			found := false
			var walk func(v ssa.Value, d int)
			walk = func(v ssa.Value, d int) {
				if d > 12 || v == nil {
					return
				}
				if isFieldLoad(v, waitF) {
					found = true
					return
				}
				switch x := v.(type) {
				case *ssa.Convert:
					walk(x.X, d+1)
				case *ssa.BinOp:
					walk(x.X, d+1)
					walk(x.Y, d+1)
				case *ssa.UnOp:
					walk(x.X, d+1)
				case *ssa.Call:
					for _, a := range x.Call.Args {
						walk(a, d+1)
					}
				}
			}
			walk(call.Call.Args[1], 0)
			if found {
				okCut = true
			} else {
				okCut = false
			}
		})
	}
	c.Judge(okCut, "aggregator.run flushes with cutoff = tick − Wait", c.AtFn(run), "the cutoff derives from the Wait field", "the cutoff handed to Flush does not depend on Wait")
}

// c10flushLoop: the functions that make up Flush (Flush, the helper methods only it runs, their
// closures) and the loop over tsList among them.
func c10flushLoop(c *Check) (funcs []*ssa.Function, lf *ssa.Function, outer *Loop) {
	fl := c.P.Func("aggregator", "*Aggregator", "Flush")
	tsF := c.P.Field("aggregator", "Aggregator", "tsList")
	own := ownHelpers(c.P, fl)
	for _, f := range workerFuncs(c.P, fl) {
		if own[EnclosingDecl(f)] {
			funcs = append(funcs, f)
		}
	}
	for _, f := range funcs {
		for _, l := range loopsOf(f) {
			if sl, _, ok := rangeLoopOver(l); ok && isFieldLoad(sl, tsF) {
				lf, outer = f, l
			}
		}
	}
	if outer == nil {
		anchorFail("Flush: range loop over tsList not found")
	}
	return
}

// insideLoop: the functions among funcs (other than lf) whose every call site lies in the body of
// lf's loop l, directly or in another such function.
func insideLoop(p *Prog, funcs []*ssa.Function, lf *ssa.Function, l *Loop) map[*ssa.Function]bool {
	g := p.CG()
	in := map[*ssa.Function]bool{}
	for _, f := range funcs {
		if f != lf {
			in[f] = true
		}
	}
	for changed := true; changed; {
		changed = false
		for f := range in {
			ok := len(g.In[f]) > 0
			for _, e := range g.In[f] {
				if e.Kind == EdgeRef && f.Parent() != nil {
					continue // the closure is created here; its calls are edges of their own
				}
				if !(e.Caller == lf && e.Site != nil && e.Site.Block() != nil && l.Body[e.Site.Block()]) && !in[e.Caller] {
					ok = false
				}
			}
			if !ok {
				delete(in, f)
				changed = true
			}
		}
	}
	return in
}

func c10r3(c *Check) {
	fl := c.P.Func("aggregator", "*Aggregator", "Flush")
	outF := c.P.Field("aggregator", "Aggregator", "out")
	aggsF := c.P.Field("aggregator", "Aggregator", "aggregations")
	// the loop body may be split over helper methods that only Flush runs (emit(key, ts, results), flushBucket(ts))
	funcs, lf, outer := c10flushLoop(c)
	inLoop := insideLoop(c.P, funcs, lf, outer)
	var sends, dels []ssa.Instruction
	okPlace := true
	for _, f := range funcs {
		ss := sendsOn(f, outF)
		var ds []ssa.Instruction
		allInstrs(f, func(in ssa.Instruction) {
			if cc, ok := isBuiltinCall(in, "delete"); ok && isFieldLoad(cc.Args[0], aggsF) {
				ds = append(ds, in)
			}
		})
		for _, in := range append(append([]ssa.Instruction(nil), ss...), ds...) {
			if !(f == lf && outer.Body[in.Block()]) && !inLoop[f] {
				okPlace = false
			}
		}
		sends = append(sends, ss...)
		dels = append(dels, ds...)
	}
	if len(sends) == 0 || len(dels) == 0 {
		c.Violate("aggregator.Flush emits and forgets", c.AtFn(fl), "sends on Aggregator.out or delete(aggregations, ts) not found")
		return
	}
	sl, idx, _ := rangeLoopOver(outer)
	// one iteration of the loop, helpers expanded
	var body *ssa.BasicBlock
	for _, s := range outer.Header.Succs {
		if outer.Body[s] {
			body = s
		}
	}
	cfg := &PathCfg{
		Stop:   func(b *ssa.BasicBlock) bool { return b == outer.Header },
		Inline: inlineSameRecv(lf),
		ClassifyV: func(in ssa.Instruction, resolve func(ssa.Value) ssa.Value) []string {
			switch x := in.(type) {
			case *ssa.Send:
				if isFieldLoad(x.Chan, outF) {
					return []string{"send"}
				}
			case *ssa.Select:
				for _, st := range x.States {
					if st.Dir == types.SendOnly && isFieldLoad(st.Chan, outF) {
						return []string{"send"}
					}
				}
			case *ssa.Lookup:
				if isFieldLoad(x.X, aggsF) {
					if rangeElem(resolve(x.Index), sl, idx) {
						return []string{"lookup"}
					}
					return []string{"lookup:other"}
				}
			}
			if f, ok := counterField(in); ok && f == "numFlushed" {
				return []string{"inc"}
			}
			if cc, ok := isBuiltinCall(in, "delete"); ok && isFieldLoad(cc.Args[0], aggsF) {
				if rangeElem(resolve(cc.Args[1]), sl, idx) {
					return []string{"delete"}
				}
				return []string{"delete:other"}
			}
			return nil
		},
		BackEdgeMax: 1,
	}
	paths, trunc := EnumPaths(lf, body, cfg)
	badOrder, badLookup, badPair := "", "", ""
	nIter := 0
	for i := range paths {
		pa := &paths[i]
		d := pa.Index("delete")
		for k, e := range pa.Events {
			if e.Class == "send" && d >= 0 && k > d {
				badOrder = "a result is sent after the bucket was deleted: " + pa.String()
			}
		}
		if pa.Has("delete:other") {
			badOrder = "an entry other than the one of the listed timestamp is deleted: " + pa.String()
		}
		if pa.Has("send") && !pa.Has("delete") {
			badOrder = "results are sent but the bucket is not deleted: " + pa.String()
		}
		if pa.End == "stop" {
			nIter++
			if pa.Count("delete") != 1 {
				badOrder = "a completed iteration does not delete its bucket exactly once: " + pa.String()
			}
			if !pa.Has("lookup") {
				badLookup = "no lookup of aggregations[ts] in the iteration: " + pa.String()
			}
		}
		if pa.Has("lookup:other") {
			badLookup = "aggregations is read with a key that is not the loop's element: " + pa.String()
		}
		if pa.Count("send") != pa.Count("inc") {
			badPair = "sends and flushed-counter increments do not pair up: " + pa.String()
		}
	}
	if trunc || nIter == 0 {
		badOrder = "path enumeration of one iteration incomplete"
	}
	at := dels[len(dels)-1]
	c.Judge(okPlace && badOrder == "", "aggregator.Flush emits a bucket before deleting it", c.At(at), fmt.Sprintf("%d send sites precede delete(aggregations, ts) in the iteration", len(sends)), "a bucket is deleted before (or without) all of its results having been sent, or the wrong key is deleted: results are lost or the bucket is emitted again on the next tick"+ifs(badOrder != "", " — "+badOrder, " — a send or delete outside the loop over tsList"))
	// bucket looked up with the loop element
	c.Judge(badLookup == "" && nIter > 0, "aggregator.Flush looks the bucket up by the listed timestamp", c.AtFn(fl), "aggregations[ts]", "the bucket flushed is not the one named by the tsList element"+ifs(badLookup != "", " — "+badLookup, ""))
	// send / Inc pairing within one iteration
	c.Judge(badPair == "" && len(paths) > 0, "aggregator.Flush counts every emitted point once", c.AtFn(fl), fmt.Sprintf("%d iteration paths", len(paths)), badPair)
}

func ifs(c bool, a, b string) string {
	if c {
		return a
	}
	return b
}

func c10r4(c *Check) {
	run := c.P.Func("aggregator", "*Aggregator", "run")
	intervalF := c.P.Field("aggregator", "Aggregator", "Interval")
	ok := false
	var at ssa.Instruction
	for _, runf := range workerFuncs(c.P, run) {
		allInstrs(runf, func(in ssa.Instruction) {
			call, isCall := in.(*ssa.Call)
			if !isCall || !strings.HasSuffix(calleeName(call.Common()), "Aggregator).AddOrCreate") {
				return
			}
			at = in
			q := call.Call.Args[3]
			tsArg := call.Call.Args[2] // msg.ts
			// q = t - (t % Interval) with t = uint(msg.ts)
			if sub, isSub := q.(*ssa.BinOp); isSub && sub.Op == token.SUB {
				if rem, isRem := sub.Y.(*ssa.BinOp); isRem && rem.Op == token.REM && rem.X == sub.X && isFieldLoad(rem.Y, intervalF) {
					if cv, isCv := sub.X.(*ssa.Convert); isCv && sameLoc(cv.X, tsArg) {
						ok = true
					}
				}
			}
			if mul, isMul := q.(*ssa.BinOp); isMul && mul.Op == token.MUL {
				if quo, isQuo := mul.X.(*ssa.BinOp); isQuo && quo.Op == token.QUO && isFieldLoad(quo.Y, intervalF) && isFieldLoad(mul.Y, intervalF) {
					ok = true
				}
			}
		})
	}
	pos := c.AtFn(run)
	if at != nil {
		pos = c.At(at)
	}
	c.Judge(ok, "aggregator.run bucket = ts − ts % Interval of the point's own timestamp", pos, "quantized timestamp passed to AddOrCreate", "the bucket key is not the point's timestamp rounded down to the interval")
	// Flush: Sprintf("%s %f %d", key, val, ts) with ts = tsList element; the sends may sit in helper
	// methods that only Flush runs, the timestamp then arrives through their parameters
	fl := c.P.Func("aggregator", "*Aggregator", "Flush")
	var formats []string
	okTs, okFresh := true, true
	funcs, _, outer := c10flushLoop(c)
	sl2, idx, _ := rangeLoopOver(outer)
	var isElem func(v ssa.Value, d int) bool
	isElem = func(v ssa.Value, d int) bool {
		if rangeElem(v, sl2, idx) {
			return true
		}
		par, isPar := strip(v).(*ssa.Parameter)
		if !isPar || d > 4 {
			return false
		}
		args, known := c.P.paramArgs(par)
		if !known || len(args) == 0 {
			return false
		}
		for _, a := range args {
			if !isElem(a, d+1) {
				return false
			}
		}
		return true
	}
	outF := c.P.Field("aggregator", "Aggregator", "out")
	for _, f := range funcs {
		allInstrs(f, func(in ssa.Instruction) {
			snd, isSend := in.(*ssa.Send)
			if !isSend || !isFieldLoad(snd.Chan, outF) {
				return
			}
			// the line, however it is put together (Sprintf, concatenation, strconv, append)
			var bases []ssa.Value
			f, ops, ok := textTemplateB(snd.X, 0, nil, &bases)
			if !ok {
				formats = append(formats, "?")
				return
			}
			formats = append(formats, f)
			// the receiver keeps the slice: a line written by append into a buffer must own that buffer —
			// the buffer is allocated in the iteration that sends it, not once for several sends
			if l := innermostLoop(loopsOf(snd.Parent()), snd.Block()); l != nil {
				for _, b := range bases {
					bi, isInstr := b.(ssa.Instruction)
					if !isInstr || bi.Parent() != snd.Parent() || bi.Block() == nil || !l.Body[bi.Block()] {
						okFresh = false
					}
				}
			}
			// the last operand is the tsList element of the enclosing loop
			if len(ops) == 0 || !isElem(ops[len(ops)-1], 0) {
				okTs = false
			}
		})
	}
	sort.Strings(formats)
	c.Judge(strings.Join(formats, "|") == "%s %f %d|%s.%s %f %d" && okTs && okFresh, "aggregator.Flush output lines `name value bucketstart`", c.AtFn(fl), strings.Join(formats, " | "), fmt.Sprintf("output formats %v (timestamp is the bucket key: %v; each line in a buffer of its own: %v) differ from `%%s %%f %%d` / `%%s.%%s %%f %%d` with the bucket start as timestamp, each line a slice that no later line is written into", formats, okTs, okFresh))
}

func c10r5(c *Check) {
	gp := c.P.Func("aggregator", "", "GetProcessorConstructor")
	par := gp.Params[0]
	cases := map[string]string{}
	for _, b := range gp.Blocks {
		ifi, ok := b.Instrs[len(b.Instrs)-1].(*ssa.If)
		if !ok {
			continue
		}
		bo, ok := ifi.Cond.(*ssa.BinOp)
		if !ok || bo.Op != token.EQL || bo.X != par {
			continue
		}
		s, ok := constString(bo.Y)
		if !ok {
			continue
		}
		for _, in := range b.Succs[0].Instrs {
			if r, ok := in.(*ssa.Return); ok {
				if f := resolveFuncValue(r.Results[0]); f != nil {
					cases[s] = f.Name()
				}
			}
		}
	}
	// the same registry written as a table: `if f, ok := constructors[fun]; ok { return f, nil }`
	c10registryTable(c, gp, par, cases)
	// docs
	rows, err := docFunctionTable(filepath.Join(c.P.Dir, "docs", "aggregation.md"))
	if err != nil {
		c.Undecided("docs/aggregation.md function table", "docs/aggregation.md", err.Error())
		return
	}
	var names []string
	for n := range cases {
		names = append(names, n)
	}
	sort.Strings(names)
	sort.Strings(rows)
	c.Judge(strings.Join(names, ",") == strings.Join(rows, ","), "aggregator functions = docs/aggregation.md", c.AtFn(gp), strings.Join(names, ","), fmt.Sprintf("registered functions %v differ from the documented ones %v", names, rows))
	// each case returns the constructor of the identically named type, which returns that type
	iface := c.P.Named("aggregator", "Processor").Underlying().(*types.Interface)
	usedType := map[string]string{}
	for _, n := range names {
		ctor := cases[n]
		want := "New" + strings.ToUpper(n[:1]) + n[1:]
		c.Judge(ctor == want, "aggregator function \""+n+"\" → "+want, c.AtFn(gp), "case returns the identically named constructor", fmt.Sprintf("function %q is served by %s", n, ctor))
		cf := c.P.FuncOpt("aggregator", "", ctor)
		if cf == nil {
			continue
		}
		allInstrs(cf, func(in ssa.Instruction) {
			if r, ok := in.(*ssa.Return); ok {
				if mi, ok := r.Results[0].(*ssa.MakeInterface); ok {
					if pt, ok := mi.X.Type().(*types.Pointer); ok {
						if nt, ok := pt.Elem().(*types.Named); ok {
							usedType[nt.Obj().Name()] = n
							c.Judge(strings.EqualFold(nt.Obj().Name(), n), "aggregator."+ctor+" constructs "+nt.Obj().Name(), c.AtFn(cf), "constructor builds the processor of the same name", fmt.Sprintf("%s builds a %s: the configured function %q computes something else", ctor, nt.Obj().Name(), n))
						}
					}
				}
			}
		})
	}
	// every implementation is registered
	sc := c.P.Pkg("aggregator").Types.Scope()
	for _, n := range sc.Names() {
		tn, ok := sc.Lookup(n).(*types.TypeName)
		if !ok {
			continue
		}
		if _, isI := tn.Type().Underlying().(*types.Interface); isI {
			continue
		}
		if types.Implements(types.NewPointer(tn.Type()), iface) {
			_, reg := usedType[n]
			c.Judge(reg, "aggregator processor "+n+" is registered", c.AtFn(gp), "returned by a registry case", "Processor implementation "+n+" is not reachable through any configured function name")
		}
	}
}

// c10registryTable: the registry written as a lookup in a package-level table —
// `if f, ok := table[name]; ok { return f }` (or `f := table[name]; if f != nil { return f }`):
// the entries of the table's literal are the cases. The table must be initialised once, from a
// literal with constant keys, and never be written at run time.
func c10registryTable(c *Check, gp *ssa.Function, par ssa.Value, cases map[string]string) {
	allInstrs(gp, func(in ssa.Instruction) {
		lk, ok := in.(*ssa.Lookup)
		if !ok || strip(lk.Index) != par {
			return
		}
		u, ok := lk.X.(*ssa.UnOp)
		if !ok {
			return
		}
		g, ok := u.X.(*ssa.Global)
		if !ok {
			return
		}
		// the looked-up function is returned on the edge that found it
		returned := false
		var val, found ssa.Value = lk, nil
		if lk.CommaOk {
			val = nil
			for _, r := range *lk.Referrers() {
				if ex, ok := r.(*ssa.Extract); ok {
					if ex.Index == 0 {
						val = ex
					} else {
						found = ex
					}
				}
			}
		}
		if val == nil {
			return
		}
		allInstrs(gp, func(in2 ssa.Instruction) {
			r, ok := in2.(*ssa.Return)
			if !ok || len(r.Results) == 0 || r.Results[0] != val {
				return
			}
			for _, b := range gp.Blocks {
				ifi, ok := b.Instrs[len(b.Instrs)-1].(*ssa.If)
				if !ok {
					continue
				}
				cnd, neg := negStrip(ifi.Cond)
				succ := 0
				if found != nil && cnd == found {
					if neg {
						succ = 1
					}
				} else if bo, ok := cnd.(*ssa.BinOp); ok && found == nil && (bo.Op == token.NEQ || bo.Op == token.EQL) && bo.X == val {
					if k, ok := bo.Y.(*ssa.Const); !ok || !k.IsNil() {
						continue
					}
					if (bo.Op == token.EQL) != neg {
						succ = 1
					}
				} else {
					continue
				}
				if edgeDominates(b, b.Succs[succ], r.Block()) {
					returned = true
				}
			}
		})
		if !returned {
			return
		}
		// the literal
		nStores, okAll := 0, true
		ents := map[string]string{}
		for _, fn := range c.P.Funcs {
			fn := fn
			allInstrs(fn, func(in3 ssa.Instruction) {
				switch x := in3.(type) {
				case *ssa.Store:
					if x.Addr != ssa.Value(g) {
						return
					}
					nStores++
					mk, ok := x.Val.(*ssa.MakeMap)
					if !ok || fn.Name() != "init" {
						okAll = false
						return
					}
					for _, r := range *mk.Referrers() {
						mu, ok := r.(*ssa.MapUpdate)
						if !ok {
							continue
						}
						k, ok1 := constString(mu.Key)
						f := resolveFuncValue(mu.Value)
						if _, dup := ents[k]; !ok1 || f == nil || dup {
							okAll = false
							continue
						}
						ents[k] = f.Name()
					}
				case *ssa.MapUpdate:
					if u, ok := x.Map.(*ssa.UnOp); ok && u.X == ssa.Value(g) {
						okAll = false // written at run time
					}
				case *ssa.Call:
					if cc, ok := isBuiltinCall(x, "delete"); ok {
						if u, ok := cc.Args[0].(*ssa.UnOp); ok && u.X == ssa.Value(g) {
							okAll = false
						}
					}
				}
			})
		}
		if !okAll || nStores != 1 {
			c.Undecided("aggregator function table "+g.Name(), c.At(lk), "the registry table is not a literal with constant keys and function values that is initialised once and never written afterwards")
			return
		}
		for k, f := range ents {
			cases[k] = f
		}
	})
}

// docFunctionTable: first column of the table under "## functions".
func docFunctionTable(file string) ([]string, error) {
	rows, err := readMarkdownTable(file, "functions", "function")
	if err != nil {
		return nil, err
	}
	return rows, nil
}

func c10r6(c *Check) {
	tsF := c.P.Field("aggregator", "Aggregator", "tsList")
	pkg := c.P.Pkg("aggregator").Types
	sortFns := map[string]bool{"sort.Sort": true, "sort.Stable": true, "sort.Slice": true, "sort.SliceStable": true, "slices.Sort": true, "slices.SortFunc": true, "slices.SortStableFunc": true}
	nApp, nOther := 0, 0
	for _, fn := range c.P.Funcs {
		if fnPkg(fn) != pkg {
			continue
		}
		fn := fn
		allInstrs(fn, func(in ssa.Instruction) {
			st, ok := in.(*ssa.Store)
			if !ok {
				return
			}
			fa, ok := st.Addr.(*ssa.FieldAddr)
			if !ok || fieldOfAddr(fa) != tsF {
				return
			}
			// element stores go through IndexAddr, not through this store; classify the new list value
			if call, ok := st.Val.(*ssa.Call); ok {
				if b, ok := call.Call.Value.(*ssa.Builtin); ok && b.Name() == "append" && isFieldLoad(call.Call.Args[0], tsF) {
					nApp++
					elems, ok := variadicElems(call.Call.Args[1])
					if !ok || len(elems) != 1 {
						c.Violate(FuncName(fn)+" append to tsList", c.At(in), "tsList grows by something other than a single bucket start")
						return
					}
					c10sortedAfterAppend(c, fn, st, elems[0], tsF, sortFns)
					return
				}
			}
			nOther++
			// re-slice from the front keeps the order; fresh/empty lists are sorted
			okV := false
			switch x := st.Val.(type) {
			case *ssa.Slice:
				okV = isFieldLoad(x.X, tsF) // any sub-slice of a sorted list is sorted
			case *ssa.MakeSlice:
				okV = true
			case *ssa.Const:
				okV = x.IsNil()
			}
			c.Judge(okV, FuncName(fn)+" store into tsList keeps order", c.At(in), "sub-slice of the sorted list (or an empty list)", "tsList is replaced by something that is not a sub-slice of the sorted list")
		})
		// element writes into the list outside a library sort
		allInstrs(fn, func(in ssa.Instruction) {
			st, ok := in.(*ssa.Store)
			if !ok {
				return
			}
			if ia, ok := st.Addr.(*ssa.IndexAddr); ok && isFieldLoad(ia.X, tsF) {
				c.Violate(FuncName(fn)+" element write into tsList", c.At(in), "the bucket list is reordered by hand (element store): Flush stops at the first bucket that is not yet due, so a list that is not fully sorted delays due buckets and emits them out of order — this analysis accepts only library sorts")
			}
		})
	}
	if nApp == 0 {
		anchorFail("aggregator: no append to tsList")
	}
	// every library sort of tsList orders ascending: a sort.Interface whose Less is `p[i] < p[j]`, a
	// less-function `s[i] < s[j]` over the same list, or the natural order of slices.Sort
	nSort := 0
	for _, fn := range c.P.Funcs {
		if fnPkg(fn) != pkg {
			continue
		}
		fn := fn
		allInstrs(fn, func(in ssa.Instruction) {
			cc := callCommon(in)
			if cc == nil || !sortFns[calleeName(cc)] || len(cc.Args) == 0 || !derivedFromField(cc.Args[0], tsF) {
				return
			}
			nSort++
			okLess, what := false, ""
			switch calleeName(cc) {
			case "slices.Sort":
				okLess, what = true, "natural order"
			case "sort.Sort", "sort.Stable":
				// the dynamic type handed to the sort and its Less method
				var less *ssa.Function
				if mi, ok := cc.Args[0].(*ssa.MakeInterface); ok {
					less = c.P.SSA.LookupMethod(mi.X.Type(), pkg, "Less")
				}
				if less == nil {
					what = "the Less method of the sorted value was not found"
					break
				}
				recv := func(v ssa.Value) bool { return len(less.Params) == 3 && v == ssa.Value(less.Params[0]) }
				okLess, what = lessAscending(less, recv, 1, 2), FuncName(less)
			case "sort.Slice", "sort.SliceStable":
				less := resolveFuncValue(cc.Args[1])
				if less == nil {
					what = "the less function is not a known function"
					break
				}
				same := func(v ssa.Value) bool { return sameSliceAs(v, cc.Args[0], cc.Args[1], tsF) }
				okLess, what = len(less.Params) == 2 && lessAscending(less, same, 0, 1), "less function "+FuncName(less)
			default:
				c.Undecided(FuncName(fn)+" sorts tsList ascending", c.At(in), calleeName(cc)+" with a comparison function this rule does not interpret")
				return
			}
			c.Judge(okLess, FuncName(fn)+" sorts tsList ascending", c.At(in), what+": element i < element j", "tsList is not sorted ascending ("+what+"): buckets are flushed newest first and Flush's early exit skips due buckets")
		})
	}
	if nSort == 0 {
		anchorFail("aggregator: no library sort of tsList")
	}
}

// lessAscending: fn's only result is `s[i] < s[j]` (or `s[j] > s[i]`) with i, j its parameters
// number pi, pj and s a slice accepted by isList.
func lessAscending(fn *ssa.Function, isList func(ssa.Value) bool, pi, pj int) bool {
	if len(fn.Params) <= pi || len(fn.Params) <= pj {
		return false
	}
	elem := func(v ssa.Value, k int) bool {
		u, ok := strip(v).(*ssa.UnOp)
		if !ok || u.Op != token.MUL {
			return false
		}
		ia, ok := u.X.(*ssa.IndexAddr)
		return ok && ia.Index == ssa.Value(fn.Params[k]) && isList(ia.X)
	}
	n, okAll := 0, true
	allInstrs(fn, func(in ssa.Instruction) {
		ret, ok := in.(*ssa.Return)
		if !ok {
			return
		}
		n++
		okR := false
		if len(ret.Results) == 1 {
			if bo, ok := ret.Results[0].(*ssa.BinOp); ok {
				switch bo.Op {
				case token.LSS:
					okR = elem(bo.X, pi) && elem(bo.Y, pj)
				case token.GTR:
					okR = elem(bo.X, pj) && elem(bo.Y, pi)
				}
			}
		}
		if !okR {
			okAll = false
		}
	})
	return n > 0 && okAll
}

// sameSliceAs: v, read inside the closure `closure`, is the list that `sorted` (the first argument
// of the sort call) denotes: a read of the same field, or of the captured variable whose value
// was handed to the sort.
func sameSliceAs(v, sorted, closure ssa.Value, f *types.Var) bool {
	if isFieldLoad(v, f) {
		return true
	}
	u, ok := v.(*ssa.UnOp)
	if !ok || u.Op != token.MUL {
		return false
	}
	fv, ok := u.X.(*ssa.FreeVar)
	mc, ok2 := closure.(*ssa.MakeClosure)
	if !ok || !ok2 {
		return false
	}
	for i, b := range mc.Bindings {
		if i < len(fv.Parent().FreeVars) && fv.Parent().FreeVars[i] == fv {
			// the captured cell holds the sorted list
			if al, ok := b.(*ssa.Alloc); ok {
				if s := cellValue(al); s != nil && derivedFromField(s, f) {
					for w := sorted; ; {
						switch x := w.(type) {
						case *ssa.MakeInterface:
							w = x.X
							continue
						case *ssa.UnOp:
							return x.X == ssa.Value(al)
						}
						return false
					}
				}
			}
		}
	}
	return false
}

func c10sortedAfterAppend(c *Check, fn *ssa.Function, app *ssa.Store, q ssa.Value, tsF *types.Var, sortFns map[string]bool) {
	isPrevLast := func(v ssa.Value) bool {
		u, ok := strip(v).(*ssa.UnOp)
		if !ok || u.Op != token.MUL {
			return false
		}
		ia, ok := u.X.(*ssa.IndexAddr)
		if !ok || !isFieldLoad(ia.X, tsF) {
			return false
		}
		bo, ok := ia.Index.(*ssa.BinOp)
		if !ok || bo.Op != token.SUB {
			return false
		}
		k, ok := constInt(bo.Y)
		if !ok || k != 2 {
			return false
		}
		call, ok := bo.X.(*ssa.Call)
		if !ok {
			return false
		}
		b, ok := call.Call.Value.(*ssa.Builtin)
		return ok && b.Name() == "len" && isFieldLoad(call.Call.Args[0], tsF)
	}
	isLenTs := func(v ssa.Value) bool {
		call, ok := v.(*ssa.Call)
		if !ok {
			return false
		}
		b, ok := call.Call.Value.(*ssa.Builtin)
		return ok && b.Name() == "len" && isFieldLoad(call.Call.Args[0], tsF)
	}
	active := false
	cfg := &PathCfg{
		Classify: func(in ssa.Instruction) []string {
			if in == ssa.Instruction(app) {
				return []string{"append"}
			}
			if cc := callCommon(in); cc != nil && sortFns[calleeName(cc)] && len(cc.Args) > 0 {
				if derivedFromField(cc.Args[0], tsF) {
					return []string{"sort"}
				}
			}
			return nil
		},
		Branch: func(ifi *ssa.If, cond ssa.Value, taken bool) []string {
			cnd, neg := negStrip(cond)
			bo, ok := cnd.(*ssa.BinOp)
			if !ok {
				return nil
			}
			val := taken != neg
			op := bo.Op
			switch {
			case isPrevLast(bo.X) && bo.Y == q:
			case isPrevLast(bo.Y) && bo.X == q:
				op = flipRel(op)
			case isLenTs(bo.X):
				// len(tsList) > 1 false / len(tsList) < 2 true: a single element is sorted
				if k, ok := constInt(bo.Y); ok {
					t1, _ := evalRel(bo.Op, 1, k)
					t2, _ := evalRel(bo.Op, 2, k)
					if t1 != t2 && val == t1 {
						return []string{"short"}
					}
				}
				return nil
			default:
				return nil
			}
			if !val {
				op = negRel(op)
			}
			// now: prevLast op q holds on this edge
			if op == token.LEQ || op == token.LSS || op == token.EQL {
				return []string{"inorder"}
			}
			return nil
		},
	}
	_ = active
	paths, trunc := EnumPaths(fn, nil, cfg)
	bad := ""
	n := 0
	for i := range paths {
		pa := &paths[i]
		k := pa.Index("append")
		if k < 0 {
			continue
		}
		n++
		okP := false
		for _, e := range pa.Events[k+1:] {
			if e.Class == "sort" || e.Class == "inorder" || e.Class == "short" {
				okP = true
			}
		}
		if !okP {
			bad = "after a new bucket start is appended the list is neither found in order nor sorted with a library sort: Flush stops at the first bucket that is not yet due, so an unsorted list delays due buckets and emits them out of ascending order: " + pa.String()
		}
	}
	key := FuncName(fn) + " tsList sorted after append"
	if trunc || n == 0 {
		c.Undecided(key, c.At(app), "path enumeration incomplete")
		return
	}
	c.Judge(bad == "", key, c.At(app), fmt.Sprintf("%d paths through the append: in order, or sorted", n), bad)
}

// derivedFromField: v is (a conversion of) a load of the struct field f.
func derivedFromField(v ssa.Value, f *types.Var) bool {
	for i := 0; i < 6; i++ {
		if isFieldLoad(v, f) {
			return true
		}
		switch x := v.(type) {
		case *ssa.MakeInterface:
			v = x.X
		case *ssa.ChangeType:
			v = x.X
		case *ssa.Convert:
			v = x.X
		default:
			return false
		}
	}
	return false
}

func c10r7(c *Check) {
	at := c.P.Func("clock", "", "AlignedTick")
	n := 0
	for _, f := range withAnons(at) {
		f := f
		var sleep ssa.Instruction
		allInstrs(f, func(in ssa.Instruction) {
			if isCallNamed(in, "time.Sleep") {
				sleep = in
			}
		})
		check := func(in ssa.Instruction, v ssa.Value) {
			n++
			call, ok := v.(*ssa.Call)
			okV := ok && calleeName(call.Common()) == "time.Now"
			okAfter := okV && sleep != nil && (instrDominates(sleep, call) || instrReachAvoiding(sleep, call, nil))
			c.Judge(okV && okAfter, "clock.AlignedTick sends time.Now() taken after the sleep", c.At(in), "tick value = time.Now() after time.Sleep", "the tick that is sent is not the current time read after the sleep (a computed / nominal time): the aggregator derives `now − wait` from it, so buckets are flushed before their wait has elapsed or long after")
		}
		allInstrs(f, func(in ssa.Instruction) {
			switch x := in.(type) {
			case *ssa.Send:
				if _, isChan := x.Chan.Type().Underlying().(*types.Chan); isChan && strings.HasSuffix(x.X.Type().String(), "time.Time") {
					check(in, x.X)
				}
			case *ssa.Select:
				for _, st := range x.States {
					if st.Dir == types.SendOnly && st.Send != nil && strings.HasSuffix(st.Send.Type().String(), "time.Time") {
						check(in, st.Send)
					}
				}
			}
		})
	}
	if n == 0 {
		anchorFail("clock.AlignedTick: no send of a tick")
	}
}
