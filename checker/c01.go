package main

import (
	"fmt"
	"go/ast"
	"go/constant"
	"go/token"
	"go/types"
	"os"
	"strings"

	"golang.org/x/tools/go/ssa"
)

func init() {
	register(&PropDef{
		ID:    "C01",
		Title: "Every accepted metric reaches exactly the matching routes and destinations",
		Decided: "R1 in Table.Dispatch and DispatchAggregate, Route.Dispatch is called once per element of the one loaded snapshot's route list, on the element whose Match returned true and on no other, and the loop has no early exit; " +
			"R2 SendAllMatch sends to every destination whose Match is true (no early exit), SendFirstMatch leaves the loop after the first send and sends nothing before a match, ConsistentHashing sends exactly once when a name is found; the command tokens and TOML type strings construct the identically named route type; " +
			"R4 route and destination filters are evaluated on the current rewritten name and the forwarded line is the single-space join of the same fields; " +
			"R3 every path of the Dispatcher implementation increments the inbound counter once and ends in exactly one terminal outcome (invalid, out-of-order, blacklisted, consumed by drop-raw, routed, unroutable) with the matching counters and no forwarding after a rejecting outcome.",
		NotDecided: "that Match computes the documented predicate (C03); that a hand-off to a route or destination arrives (C05–C07); behaviour of the non-carbon route types.",
		Rules: []RuleDef{
			{ID: "C01.R1", Min: 6, Doc: "route fan-out: the Route.Dispatch call site lies in a range loop over the `routes` slice of the single loaded TableConfig, its receiver is the loop element, it is dominated by the true edge of Match on the same element, the loop exits only by exhaustion, and on every path each Match is followed by at most one Dispatch, only after a true result", Run: c01r1},
			{ID: "C01.R2", Min: 9, Doc: "destination fan-out policy per route type (range loop over Dests(), send on the loop element's In guarded by that element's Match; all-match: no early exit; first-match: no path from the send back to the loop header; hashing: one send per call) and registry binding of names to constructors", Run: c01r2},
			{ID: "C01.R4", Min: 10, Doc: "what is matched is what is forwarded: every route/destination filter is evaluated on the current (rewritten) metric name and the line handed to the routes is the single-space join of the same fields and filters are only installed when their construction succeeded and a line is withheld from the routes only when a drop-raw aggregation really consumed it and a runtime filter update feeds every option into the matcher parameter of the same name (rules C03.R1, C04.R2, C03.R5, C11.R3 and C03.R6 evaluated for this property as well)", Run: func(c *Check) { c03r1(c); c04r2(c); c03r5(c); c11r3(c); c03r6(c) }},
			{ID: "C01.R3", Min: 3, Doc: "terminal accounting by path enumeration of the Dispatcher implementation: numIn.Inc exactly once; exactly one terminal class per path; rejecting outcomes are followed by no AddMaybe / Route.Dispatch / send; numUnroutable only on paths without any Route.Dispatch", Run: c01r3},
		},
	})
}

// snapshotRangeLoop checks that l ranges over field `fieldName` of a struct obtained from a published Load.
func snapshotField(v ssa.Value, fieldName string) bool {
	root, names := fieldPath(v)
	return len(names) >= 1 && names[len(names)-1] == fieldName && isSnapshotLoad(root)
}

// snapshotFieldIP: like snapshotField, looking through parameters of helpers (every call site must pass the snapshot's field).
func snapshotFieldIP(p *Prog, v ssa.Value, fieldName string, depth int) bool {
	if snapshotField(v, fieldName) {
		return true
	}
	par, ok := strip(v).(*ssa.Parameter)
	if !ok || depth > 3 {
		return false
	}
	args, ok := p.paramArgs(par)
	if !ok {
		return false
	}
	for _, a := range args {
		if !snapshotFieldIP(p, a, fieldName, depth+1) {
			return false
		}
	}
	return true
}

// samePkgCallees: fn and the functions of its own package it reaches through static calls.
func samePkgCallees(p *Prog, fn *ssa.Function) []*ssa.Function {
	out := []*ssa.Function{fn}
	seen := map[*ssa.Function]bool{fn: true}
	for i := 0; i < len(out); i++ {
		for _, e := range p.CG().Out[out[i]] {
			if e.Callee == nil || e.Dyn || e.Kind != EdgeCall || seen[e.Callee] || fnPkg(e.Callee) != fnPkg(fn) {
				continue
			}
			seen[e.Callee] = true
			out = append(out, e.Callee)
		}
	}
	return out
}

func loopExitsOnlyFromHeader(l *Loop) (bool, *ssa.BasicBlock) {
	for _, e := range l.Exits() {
		if e.from != l.Header {
			return false, e.from
		}
	}
	return true, nil
}

func c01r1(c *Check) {
	for _, name := range []string{"Dispatch", "DispatchAggregate"} {
		fn := c.P.Func("table", "*Table", name)
		// the fan-out loop may live in a helper of package table called from the entry point
		var dispatches []*ssa.Call
		for _, f := range samePkgCallees(c.P, fn) {
			allInstrs(f, func(in ssa.Instruction) {
				if call, ok := in.(*ssa.Call); ok && calleeName(call.Common()) == nRouteDispatch {
					dispatches = append(dispatches, call)
				}
			})
		}
		if len(dispatches) == 0 {
			anchorFail("no Route.Dispatch call in table.%s or the table functions it calls", name)
		}
		for i, d := range dispatches {
			key := fmt.Sprintf("table.%s route-dispatch#%d", name, i)
			loops := loopsOf(d.Parent())
			l := innermostLoop(loops, d.Block())
			if l == nil {
				c.Violate(key+" loop", c.At(d), "Route.Dispatch is not inside a loop over the route list")
				continue
			}
			sl, idx, ok := rangeLoopOver(l)
			if !ok || !snapshotFieldIP(c.P, sl, "routes", 0) {
				c.Violate(key+" loop", c.At(d), "the enclosing loop does not range over the `routes` slice of the loaded table snapshot")
				continue
			}
			c.Hold(key+" loop", c.At(d), "inside a range loop over the routes of the loaded snapshot")
			recv := d.Call.Value
			c.Judge(rangeElem(recv, sl, idx), key+" receiver", c.At(d), "the receiver is the loop element", "Route.Dispatch is invoked on a value that is not the current loop element")
			// guarded by Match on the same element
			guarded := false
			for b := range l.Body {
				ifi, ok := b.Instrs[len(b.Instrs)-1].(*ssa.If)
				if !ok {
					continue
				}
				cond, neg := negStrip(ifi.Cond)
				call, ok := cond.(*ssa.Call)
				if !ok || calleeName(call.Common()) != nRouteMatch || call.Call.Value != recv {
					continue
				}
				si := 0
				if neg {
					si = 1
				}
				if edgeDominates(b, b.Succs[si], d.Block()) {
					guarded = true
				}
			}
			c.Judge(guarded, key+" guard", c.At(d), "dominated by the true edge of Match on the same element", "Route.Dispatch is not controlled by Match() == true of the same route: a route receives metrics its filter rejects (or another route's verdict is used)")
			ok2, from := loopExitsOnlyFromHeader(l)
			pos := c.At(d)
			if from != nil {
				pos = c.P.InstrPos(from.Instrs[len(from.Instrs)-1])
			}
			c.Judge(ok2, key+" no-early-exit", pos, "the route loop ends only by exhaustion", "the route loop can be left early (break/return): later matching routes are skipped")
		}
		// path-level: each match followed by at most one dispatch, only when true
		paths, trunc := EnumPaths(fn, nil, tableDispatchCfg())
		c.Stat("paths", len(paths))
		bad := ""
		for _, pa := range paths {
			state := "" // "", "matched:true", "matched:false", "dispatched"
			for _, e := range pa.Events {
				switch e.Class {
				case "route.match":
					state = "pending"
				case "routematch:true":
					state = "true"
				case "routematch:false":
					state = "false"
				case "route.dispatch":
					if state != "true" {
						bad = "Dispatch without a preceding true Match in the same iteration: " + pa.String()
					}
					state = "dispatched"
				}
			}
		}
		if trunc {
			c.Undecided("table."+name+" paths", c.AtFn(fn), "path enumeration truncated")
		} else {
			c.Judge(bad == "", "table."+name+" one dispatch per match", c.AtFn(fn), fmt.Sprintf("%d paths", len(paths)), bad)
		}
	}
}

// sendsOn returns Send instructions (incl. select send states) on the given channel field in fn.
func sendsOn(fn *ssa.Function, f *types.Var) []ssa.Instruction {
	var out []ssa.Instruction
	allInstrs(fn, func(in ssa.Instruction) {
		switch x := in.(type) {
		case *ssa.Send:
			if isFieldLoad(x.Chan, f) {
				out = append(out, in)
			}
		case *ssa.Select:
			for _, st := range x.States {
				if st.Dir == types.SendOnly && isFieldLoad(st.Chan, f) {
					out = append(out, in)
				}
			}
		}
	})
	return out
}

func c01r2(c *Check) {
	inField := c.P.Field("destination", "Destination", "In")
	destMatch := "(*" + modPath + "/destination.Destination).Match"
	for _, typ := range []string{"SendAllMatch", "SendFirstMatch"} {
		entry := c.P.Func("route", "*"+typ, "Dispatch")
		// the destination loop may live in a helper shared by the route types
		var sends []ssa.Instruction
		for _, f := range samePkgCallees(c.P, entry) {
			sends = append(sends, sendsOn(f, inField)...)
		}
		if len(sends) != 1 {
			c.Violate("route."+typ+" sends", c.AtFn(entry), fmt.Sprintf("expected exactly one send site on Destination.In, found %d", len(sends)))
			continue
		}
		s, isSend := sends[0].(*ssa.Send)
		if !isSend {
			c.Violate("route."+typ+" sends", c.At(sends[0]), "the hand-off to the destination is not a plain send")
			continue
		}
		fn := s.Parent()
		loops := loopsOf(fn)
		l := enclosingLoop(loops, s.Block())
		key := "route." + typ + ".Dispatch"
		if l == nil {
			c.Violate(key+" loop", c.At(s), "the send is not inside a loop over the destinations")
			continue
		}
		sl, idx, ok := rangeLoopOver(l)
		isDests := false
		if ok {
			if call, ok2 := sl.(*ssa.Call); ok2 && strings.HasSuffix(calleeName(call.Common()), ".Dests") {
				isDests = true
			}
		}
		c.Judge(ok && isDests, key+" loop", c.At(s), "range loop over conf.Dests() of the loaded route snapshot", "the loop does not range over the destinations of the loaded snapshot")
		if !ok {
			continue
		}
		base, _, _ := fieldLoad(s.Chan)
		c.Judge(rangeElem(base, sl, idx), key+" target", c.At(s), "sends on the loop element's In", "the send goes to a destination other than the loop element")
		guarded := false
		for b := range l.Body {
			ifi, ok := b.Instrs[len(b.Instrs)-1].(*ssa.If)
			if !ok {
				continue
			}
			cond, neg := negStrip(ifi.Cond)
			call, ok := cond.(*ssa.Call)
			if !ok || calleeName(call.Common()) != destMatch || strip(call.Call.Args[0]) != strip(base) {
				continue
			}
			si := 0
			if neg {
				si = 1
			}
			if edgeDominates(b, b.Succs[si], s.Block()) {
				guarded = true
			}
		}
		c.Judge(guarded, key+" guard", c.At(s), "dominated by the true edge of Match on the same destination", "the send is not controlled by dest.Match() == true of the same destination")
		// policy, by path enumeration from the route type's own Dispatch (helpers expanded, so a
		// policy flag passed as a constant argument selects the branch): what happens after a send
		hdr := l.Header.Instrs[0]
		exits := map[*ssa.BasicBlock]bool{} // blocks entered when the loop is left
		for _, e := range l.Exits() {
			exits[e.to] = true
		}
		cfg := &PathCfg{
			BackEdgeMax: 2,
			Inline:      func(g *ssa.Function) bool { return fnPkg(g) == fnPkg(entry) && g.Name() != "Match" },
			Classify: func(in ssa.Instruction) []string {
				if in == hdr {
					return []string{"header"}
				}
				if in == ssa.Instruction(s) {
					if exits[s.Block()] {
						// the send sits in the block a `break` path runs through: it belongs to the iteration, the loop is left after it
						return []string{"send", "left"}
					}
					return []string{"send"}
				}
				if in.Block() != nil && exits[in.Block()] && in.Block() != s.Block() && in == in.Block().Instrs[0] {
					return []string{"left"}
				}
				return nil
			},
			Branch: func(ifi *ssa.If, cond ssa.Value, taken bool) []string {
				cnd, neg := negStrip(cond)
				if call, ok := cnd.(*ssa.Call); ok && calleeName(call.Common()) == destMatch {
					if taken != neg {
						return []string{"match:T"}
					}
					return []string{"match:F"}
				}
				return nil
			},
		}
		paths, trunc := EnumPaths(entry, nil, cfg)
		bad := ""
		nSendPaths := 0
		for i := range paths {
			pa := &paths[i]
			for j, e := range pa.Events {
				if e.Class != "send" {
					continue
				}
				nSendPaths++
				// what follows the send: the loop header again, or the loop is left
				next := ""
				for _, e2 := range pa.Events[j+1:] {
					if e2.Class == "header" || e2.Class == "left" {
						next = e2.Class
						break
					}
				}
				if typ == "SendAllMatch" && next == "left" {
					bad = "send-all-match must visit every destination: the loop is left right after a send (break/return): " + pa.String()
				}
				if typ == "SendFirstMatch" && next == "header" {
					bad = "send-first-match must stop at the first accepting destination: after the send the loop continues and later matching destinations get a duplicate: " + pa.String()
				}
				// nothing is sent before a match in this iteration
				prev := ""
				for k := j - 1; k >= 0; k-- {
					if cl := pa.Events[k].Class; cl == "match:T" || cl == "match:F" || cl == "header" {
						prev = cl
						break
					}
				}
				if prev != "match:T" {
					bad = "a send that does not follow a positive Match in the same iteration: " + pa.String()
				}
			}
			// the loop is left early only after a send (first-match) or never (all-match)
			for j, e := range pa.Events {
				if e.Class == "left" {
					// the event before it (ignoring match results) must be header (exhausted) or send
					prev := ""
					for k := j - 1; k >= 0; k-- {
						if cl := pa.Events[k].Class; cl == "header" || cl == "send" || cl == "match:T" || cl == "match:F" {
							prev = cl
							break
						}
					}
					if prev == "match:F" || prev == "match:T" || (prev == "send" && typ == "SendAllMatch") {
						if bad == "" {
							bad = "the destination loop is left before all destinations were looked at: " + pa.String()
						}
					}
				}
			}
		}
		policy := map[string]string{"SendAllMatch": "policy all-match", "SendFirstMatch": "policy first-match"}[typ]
		if trunc || nSendPaths == 0 {
			c.Undecided(key+" "+policy, c.At(s), "no sending path enumerated")
		} else {
			c.Judge(bad == "", key+" "+policy, c.At(s), fmt.Sprintf("%d paths with a send: the loop %s", nSendPaths, map[string]string{"SendAllMatch": "continues with the next destination after every send and ends only by exhaustion", "SendFirstMatch": "is left right after the first send"}[typ]), bad)
		}
	}
	// consistent hashing: one send on the found path
	fn := c.P.Func("route", "*ConsistentHashing", "Dispatch")
	paths, _ := EnumPaths(fn, nil, &PathCfg{Classify: func(in ssa.Instruction) []string {
		if s, ok := in.(*ssa.Send); ok && isFieldLoad(s.Chan, inField) {
			return []string{"send"}
		}
		if isCallNamed(in, "(*"+modPath+"/route.ConsistentHasher).GetDestinationIndex") {
			return []string{"hash"}
		}
		return nil
	}})
	bad := ""
	nSend := 0
	for _, pa := range paths {
		if pa.Count("send") > 1 {
			bad = "more than one send: " + pa.String()
		}
		if pa.Has("hash") != pa.Has("send") {
			bad = "hash lookup and send do not go together: " + pa.String()
		}
		if pa.Has("send") {
			nSend++
		}
	}
	c.Judge(bad == "" && nSend > 0, "route.ConsistentHashing.Dispatch one send", c.AtFn(fn), fmt.Sprintf("%d paths, exactly one send on the %d paths that compute a destination", len(paths), nSend), bad)
	loops := loopsOf(fn)
	c.Judge(len(loops) == 0, "route.ConsistentHashing.Dispatch no loop", c.AtFn(fn), "no loop: a single destination per call", "consistent hashing must pick a single destination, but Dispatch contains a loop")

	// registry: tokens -> constructors
	c01registry(c)
}

func c01registry(c *Check) {
	// constructors return their own type
	for _, typ := range []string{"SendAllMatch", "SendFirstMatch", "ConsistentHashing"} {
		fn := c.P.Func("route", "", "New"+typ)
		okT := false
		allInstrs(fn, func(in ssa.Instruction) {
			if r, ok := in.(*ssa.Return); ok && len(r.Results) == 2 {
				if mi, ok := r.Results[0].(*ssa.MakeInterface); ok {
					if pt, ok := mi.X.Type().(*types.Pointer); ok {
						if n, ok := pt.Elem().(*types.Named); ok && n.Obj().Name() == typ {
							okT = true
						}
					}
				}
			}
		})
		c.Judge(okT, "route.New"+typ+" constructs "+typ, c.AtFn(fn), "returns *"+typ, "constructor New"+typ+" returns a different route type: the documented routing policy is not the one applied")
	}
	// imperatives.Apply: token constant -> constructor
	apply := c.P.Func("imperatives", "", "Apply")
	consts := map[int64]string{}
	sc := c.P.Pkg("imperatives").Types.Scope()
	for _, n := range sc.Names() {
		if cst, ok := sc.Lookup(n).(*types.Const); ok && strings.HasSuffix(cst.Type().String(), "toki.Token") {
			if v, ok := constant.Int64Val(cst.Val()); ok {
				consts[v] = n
			}
		}
	}
	want := map[string]string{"addRouteSendAllMatch": "NewSendAllMatch", "addRouteSendFirstMatch": "NewSendFirstMatch"}
	found := map[string]string{}
	allInstrs(apply, func(in ssa.Instruction) {
		call, ok := in.(*ssa.Call)
		if !ok || !strings.HasSuffix(calleeName(call.Common()), "imperatives.readAddRoute") {
			return
		}
		ctor := resolveFuncValue(call.Call.Args[2])
		if ctor == nil {
			return
		}
		// guarding token test
		for _, b := range apply.Blocks {
			ifi, ok := b.Instrs[len(b.Instrs)-1].(*ssa.If)
			if !ok {
				continue
			}
			bo, ok := ifi.Cond.(*ssa.BinOp)
			if !ok || bo.Op != token.EQL {
				continue
			}
			k, ok := constInt(bo.Y)
			if !ok {
				continue
			}
			if edgeDominates(b, b.Succs[0], call.Block()) {
				if n, ok := consts[k]; ok {
					found[n] = ctor.Name()
				}
			}
		}
	})
	for tok, ctor := range want {
		c.Judge(found[tok] == ctor, "imperatives.Apply "+tok+" → route."+ctor, c.AtFn(apply), "command token bound to the identically named constructor", fmt.Sprintf("command %s constructs route.%s instead of route.%s", tok, found[tok], ctor))
	}
	// consistent hashing reader
	rch := c.P.Func("imperatives", "", "readAddRouteConsistentHashing")
	nch := 0
	allInstrs(rch, func(in ssa.Instruction) {
		if isCallNamed(in, modPath+"/route.NewConsistentHashing") {
			nch++
		}
	})
	c.Judge(nch == 1, "imperatives.readAddRouteConsistentHashing → route.NewConsistentHashing", c.AtFn(rch), "constructs a ConsistentHashing route", "the consistentHashing command does not construct a ConsistentHashing route")
	// token patterns: `tokens` table maps ident -> pattern
	patterns := tokenPatterns(c.P)
	for tok, pat := range map[string]string{"addRouteSendAllMatch": "addRoute sendAllMatch", "addRouteSendFirstMatch": "addRoute sendFirstMatch", "addRouteConsistentHashing": "addRoute consistentHashing"} {
		c.Judge(patterns[tok] == pat, "imperatives.tokens "+tok+" pattern", "imperatives/imperatives.go", "pattern \""+pat+"\"", fmt.Sprintf("token %s is recognised by pattern %q instead of %q", tok, patterns[tok], pat))
	}
	// cfg.InitRoutes: type string -> constructor
	ir := c.P.Func("cfg", "", "InitRoutes")
	wantT := map[string]string{"sendAllMatch": "NewSendAllMatch", "sendFirstMatch": "NewSendFirstMatch", "consistentHashing": "NewConsistentHashing"}
	foundT := map[string]string{}
	allInstrs(ir, func(in ssa.Instruction) {
		call, ok := in.(*ssa.Call)
		if !ok {
			return
		}
		n := calleeName(call.Common())
		if !strings.HasPrefix(n, modPath+"/route.New") {
			// the constructor may be handed to a helper as a function value
			n = ""
			for _, a := range call.Call.Args {
				if f := resolveFuncValue(a); f != nil && strings.HasPrefix(funcCanonical(f), modPath+"/route.New") {
					n = funcCanonical(f)
				}
			}
			// ... or be called by a per-type helper of the same package (initRouteSendAllMatch(...)):
			// the one constructor that helper (and the helpers it calls) can reach
			if g := call.Call.StaticCallee(); n == "" && g != nil && fnPkg(g) == fnPkg(ir) && g != ir {
				ctors := map[string]bool{}
				for _, h := range samePkgCallees(c.P, g) {
					allInstrs(h, func(in2 ssa.Instruction) {
						if cc := callCommon(in2); cc != nil && strings.HasPrefix(calleeName(cc), modPath+"/route.New") && !strings.HasSuffix(calleeName(cc), "Config") {
							ctors[calleeName(cc)] = true
						}
					})
				}
				if len(ctors) == 1 {
					for k := range ctors {
						n = k
					}
				}
			}
			if n == "" {
				return
			}
		}
		for _, b := range ir.Blocks {
			ifi, ok := b.Instrs[len(b.Instrs)-1].(*ssa.If)
			if !ok {
				continue
			}
			bo, ok := ifi.Cond.(*ssa.BinOp)
			if !ok || bo.Op != token.EQL {
				continue
			}
			s, ok := constString(bo.Y)
			if !ok {
				continue
			}
			if edgeDominates(b, b.Succs[0], call.Block()) {
				foundT[s] = strings.TrimPrefix(n, modPath+"/route.")
			}
		}
	})
	// a registry table: constructors looked up by the configured type in a package-level map literal
	allInstrs(ir, func(in ssa.Instruction) {
		call, ok := in.(*ssa.Call)
		if !ok || call.Call.IsInvoke() || call.Call.StaticCallee() != nil {
			return
		}
		ents, fld, idx, ok := globalStructMapLookup(c.P, call.Call.Value)
		if !ok {
			return
		}
		if _, path := fieldPath(idx); len(path) == 0 || path[len(path)-1] != "Type" {
			return
		}
		for ty, fields := range ents {
			if f := resolveFuncValue(fields[fld]); f != nil && strings.HasPrefix(funcCanonical(f), modPath+"/route.New") {
				foundT[ty] = strings.TrimPrefix(funcCanonical(f), modPath+"/route.")
			}
		}
	})
	for ty, ctor := range wantT {
		c.Judge(foundT[ty] == ctor, "cfg.InitRoutes type \""+ty+"\" → route."+ctor, c.AtFn(ir), "TOML route type bound to the identically named constructor", fmt.Sprintf("TOML type %q constructs route.%s instead of route.%s", ty, foundT[ty], ctor))
	}
}

// tokenPatterns parses the `tokens` table of package imperatives: token identifier -> pattern.
func tokenPatterns(p *Prog) map[string]string {
	out := map[string]string{}
	pkg := p.Pkg("imperatives")
	for _, f := range pkg.Syntax {
		for _, d := range f.Decls {
			gd, ok := d.(*ast.GenDecl)
			if !ok || gd.Tok != token.VAR {
				continue
			}
			for _, sp := range gd.Specs {
				vs := sp.(*ast.ValueSpec)
				if len(vs.Names) != 1 || vs.Names[0].Name != "tokens" || len(vs.Values) != 1 {
					continue
				}
				cl, ok := vs.Values[0].(*ast.CompositeLit)
				if !ok {
					continue
				}
				for _, e := range cl.Elts {
					el, ok := e.(*ast.CompositeLit)
					if !ok {
						continue
					}
					var tok, pat string
					for _, kv := range el.Elts {
						k, ok := kv.(*ast.KeyValueExpr)
						if !ok {
							continue
						}
						switch k.Key.(*ast.Ident).Name {
						case "Token":
							if id, ok := k.Value.(*ast.Ident); ok {
								tok = id.Name
							}
						case "Pattern":
							if tv, ok := pkg.TypesInfo.Types[k.Value]; ok && tv.Value != nil {
								pat = constant.StringVal(tv.Value)
							}
						}
					}
					if tok != "" {
						out[tok] = pat
					}
				}
			}
		}
	}
	if len(out) == 0 {
		anchorFail("imperatives.tokens table not found")
	}
	return out
}

func c01r3(c *Check) {
	impls := dispatcherImpls(c.P)
	if len(impls) == 0 {
		anchorFail("no implementation of input.Dispatcher")
	}
	for _, fn := range impls {
		name := FuncName(fn)
		paths, trunc := EnumPaths(fn, nil, tableDispatchCfg())
		c.Stat("paths", len(paths))
		if trunc || len(paths) == 0 {
			c.Undecided(name+" paths", c.AtFn(fn), "path enumeration incomplete")
			continue
		}
		var probs []string
		add := func(s string, pa *Path) {
			if len(probs) < 8 {
				probs = append(probs, s+": "+pa.String())
			}
		}
		classes := map[string]int{}
		for i := range paths {
			pa := &paths[i]
			if pa.End != "return" {
				add("path does not return normally", pa)
				continue
			}
			if n := pa.Count("inc:numIn"); n != 1 {
				add(fmt.Sprintf("inbound counter incremented %d times", n), pa)
			}
			var terms []string
			if pa.Has("invalid") {
				terms = append(terms, "invalid")
			}
			if pa.Has("outoforder") {
				terms = append(terms, "outoforder")
			}
			if pa.Has("blacklisted:true") {
				terms = append(terms, "blacklisted")
			}
			if pa.Has("dropraw:true") {
				terms = append(terms, "consumed")
			}
			nd := pa.Count("route.dispatch")
			if len(terms) == 0 {
				if nd > 0 {
					terms = append(terms, "routed")
				} else {
					terms = append(terms, "unroutable")
				}
			}
			if len(terms) != 1 {
				add("more than one terminal outcome "+strings.Join(terms, "+"), pa)
				continue
			}
			t := terms[0]
			classes[t]++
			expect := map[string]int{"inc:numInvalid": 0, "inc:numOutOfOrder": 0, "inc:numBlacklist": 0, "inc:numUnroutable": 0, "bad.Add": 0}
			var after []Event
			switch t {
			case "invalid":
				expect["inc:numInvalid"], expect["bad.Add"] = 1, 1
				after = eventsAfter(pa, "invalid")
			case "outoforder":
				expect["inc:numOutOfOrder"], expect["bad.Add"] = 1, 1
				after = eventsAfter(pa, "outoforder")
			case "blacklisted":
				expect["inc:numBlacklist"] = 1
				after = eventsAfter(pa, "blacklisted:true")
			case "consumed":
				after = eventsAfter(pa, "dropraw:true")
			case "unroutable":
				expect["inc:numUnroutable"] = 1
			}
			for cl, n := range expect {
				if got := pa.Count(cl); got != n {
					add(fmt.Sprintf("outcome %s: %s occurs %d times, expected %d", t, cl, got, n), pa)
				}
			}
			for _, e := range after {
				switch e.Class {
				case "addmaybe", "route.dispatch", "route.match", "send", "go", "rw.Do":
					add(fmt.Sprintf("outcome %s is followed by %s (a rejected or consumed line must be forwarded nowhere)", t, e.Class), pa)
				}
			}
			if t == "blacklisted" || t == "invalid" || t == "outoforder" {
				// nothing forwarded before either
				if pa.Has("addmaybe") || nd > 0 {
					add("forwarding before the rejecting outcome "+t, pa)
				}
			}
		}
		if os.Getenv("CRNG_DEBUG") != "" {
			for i := range paths {
				fmt.Fprintln(os.Stderr, paths[i].String())
			}
		}
		for _, want := range []string{"invalid", "blacklisted", "consumed", "routed", "unroutable"} {
			if classes[want] == 0 {
				probs = append(probs, "no path with outcome "+want+" found (the rule's model of the function no longer matches)")
			}
		}
		key := name + " terminal accounting"
		if len(probs) > 0 {
			c.ViolateW(key, c.AtFn(fn), probs[0], probs)
		} else {
			c.Hold(key, c.AtFn(fn), fmt.Sprintf("%d paths: %v", len(paths), classes))
		}
	}
	// DispatchAggregate: routed | unroutable
	fn := c.P.Func("table", "*Table", "DispatchAggregate")
	paths, _ := EnumPaths(fn, nil, tableDispatchCfg())
	bad := ""
	for i := range paths {
		pa := &paths[i]
		nd, nu := pa.Count("route.dispatch"), pa.Count("inc:numUnroutable")
		if (nd > 0) == (nu > 0) || nu > 1 {
			bad = "aggregate output must be either routed or counted unroutable exactly once: " + pa.String()
		}
	}
	c.Judge(bad == "" && len(paths) > 0, FuncName(fn)+" terminal accounting", c.AtFn(fn), fmt.Sprintf("%d paths: routed xor unroutable", len(paths)), bad)
	// IncNumInvalid
	inc := c.P.Func("table", "*Table", "IncNumInvalid")
	paths, _ = EnumPaths(inc, nil, tableDispatchCfg())
	bad = ""
	for i := range paths {
		pa := &paths[i]
		if pa.Count("inc:numIn") != 1 || pa.Count("inc:numInvalid") != 1 {
			bad = "IncNumInvalid must count one inbound and one invalid: " + pa.String()
		}
	}
	c.Judge(bad == "" && len(paths) > 0, FuncName(inc)+" counts in+invalid once", c.AtFn(inc), "numIn and numInvalid incremented once each", bad)
}
