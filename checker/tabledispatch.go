package main

// Shared path model of the Dispatcher implementation (table.(*Table).Dispatch)
// and of DispatchAggregate: every path as a sequence of classified events.

import (
	"go/token"
	"go/types"
	"strings"

	"golang.org/x/tools/go/ssa"
)

const (
	nValidatePacket = "github.com/metrics20/go-metrics20/carbon20.ValidatePacket"
	nCounterInc     = "(github.com/Dieterbe/go-metrics.Counter).Inc"
	nBadAdd         = "(*" + modPath + "/badmetrics.BadMetrics).Add"
	nOrdered        = modPath + "/validate.Ordered"
	nAddMaybe       = "(*" + modPath + "/aggregator.Aggregator).AddMaybe"
	nRWDo           = "(" + modPath + "/rewriter.RW).Do"
	nRouteDispatch  = "(" + modPath + "/route.Route).Dispatch"
	nRouteMatch     = "(" + modPath + "/route.Route).Match"
	nMatcherMatch   = pMatcher + "Match"
)

// dispatcherImpl returns the functions implementing input.Dispatcher.Dispatch in the module (non-test).
func dispatcherImpls(p *Prog) []*ssa.Function {
	iface := p.Named("input", "Dispatcher").Underlying().(*types.Interface)
	var out []*ssa.Function
	for _, pkg := range p.Pkgs {
		sc := pkg.Types.Scope()
		for _, n := range sc.Names() {
			tn, ok := sc.Lookup(n).(*types.TypeName)
			if !ok || tn.IsAlias() {
				continue
			}
			pt := types.NewPointer(tn.Type())
			if _, isI := tn.Type().Underlying().(*types.Interface); isI {
				continue
			}
			if types.Implements(pt, iface) || types.Implements(tn.Type(), iface) {
				ms := p.SSA.MethodSets.MethodSet(pt)
				if sel := ms.Lookup(tn.Pkg(), "Dispatch"); sel != nil {
					if f := p.SSA.MethodValue(sel); f != nil && f.Blocks != nil {
						out = append(out, f)
					}
				}
			}
		}
	}
	return out
}

// counterField: in is `x.<field>.Inc(n)` on a go-metrics Counter stored in a struct field; returns the field name.
func counterField(in ssa.Instruction) (string, bool) {
	cc := callCommon(in)
	if cc == nil || !cc.IsInvoke() || cc.Method.FullName() != nCounterInc {
		return "", false
	}
	if _, f, ok := fieldLoad(cc.Value); ok {
		return f.Name(), true
	}
	if u, ok := strip(cc.Value).(*ssa.UnOp); ok {
		if g, ok := u.X.(*ssa.Global); ok {
			return g.Name(), true
		}
	}
	return "?", true
}

// negStrip removes logical negations.
func negStrip(cond ssa.Value) (ssa.Value, bool) {
	neg := false
	for {
		u, ok := cond.(*ssa.UnOp)
		if !ok || u.Op != token.NOT {
			return cond, neg
		}
		neg = !neg
		cond = u.X
	}
}

// errTest: cond is `e != nil` / `e == nil`; returns e and whether the true edge means "error present".
func errTest(cond ssa.Value) (ssa.Value, bool, bool) {
	cond, neg := negStrip(cond)
	bo, ok := cond.(*ssa.BinOp)
	if !ok || (bo.Op != token.NEQ && bo.Op != token.EQL) {
		return nil, false, false
	}
	var e ssa.Value
	if c, ok := bo.Y.(*ssa.Const); ok && c.IsNil() {
		e = bo.X
	} else if c, ok := bo.X.(*ssa.Const); ok && c.IsNil() {
		e = bo.Y
	} else {
		return nil, false, false
	}
	return e, (bo.Op == token.NEQ) != neg, true
}

// callOf: v is (an Extract of) a call to the named callee.
func callOf(v ssa.Value, name string) (*ssa.Call, bool) {
	if ex, ok := v.(*ssa.Extract); ok {
		v = ex.Tuple
	}
	call, ok := v.(*ssa.Call)
	if !ok || calleeName(call.Common()) != name {
		return nil, false
	}
	return call, true
}

func tableDispatchCfg() *PathCfg {
	return &PathCfg{
		ClassifyV: func(in ssa.Instruction, resolve func(ssa.Value) ssa.Value) []string {
			if f, ok := counterField(in); ok {
				if f == "?" {
					// a counter handed to a helper (reject(key, buf, err, table.numInvalid)): the field the caller passed
					if cc := callCommon(in); cc != nil {
						if _, fld, ok := fieldLoad(resolve(cc.Value)); ok {
							f = fld.Name()
						}
					}
				}
				return []string{"inc:" + f}
			}
			cc := callCommon(in)
			if cc != nil {
				switch calleeName(cc) {
				case nValidatePacket:
					return []string{"validate"}
				case nBadAdd:
					return []string{"bad.Add"}
				case nOrdered:
					return []string{"ordered"}
				case nAddMaybe:
					return []string{"addmaybe"}
				case nRWDo:
					return []string{"rw.Do"}
				case nRouteDispatch:
					return []string{"route.dispatch"}
				case nRouteMatch:
					return []string{"route.match"}
				case nMatcherMatch:
					return []string{"matcher.match"}
				case "bytes.Join":
					return []string{"join"}
				case "bytes.Fields":
					return []string{"fields"}
				case atomicLoad:
					return []string{"load"}
				}
				if _, isGo := in.(*ssa.Go); isGo {
					return []string{"go"}
				}
			}
			if _, ok := in.(*ssa.Send); ok {
				return []string{"send"}
			}
			return nil
		},
		Branch: func(ifi *ssa.If, cond ssa.Value, taken bool) []string {
			if e, errEdge, ok := errTest(cond); ok {
				if _, ok := callOf(e, nValidatePacket); ok {
					if taken == errEdge {
						return []string{"invalid"}
					}
					return []string{"valid"}
				}
				if _, ok := callOf(e, nOrdered); ok {
					if taken == errEdge {
						return []string{"outoforder"}
					}
					return []string{"inorder"}
				}
			}
			c, neg := negStrip(cond)
			if call, ok := c.(*ssa.Call); ok {
				val := taken != neg
				suffix := ":false"
				if val {
					suffix = ":true"
				}
				switch calleeName(call.Common()) {
				case nMatcherMatch:
					return []string{"blacklisted" + suffix}
				case nRouteMatch:
					return []string{"routematch" + suffix}
				case nAddMaybe:
					return []string{"dropraw" + suffix}
				}
			}
			// conf.Validate_order
			if _, f, ok := fieldLoad(c); ok && f.Name() == "Validate_order" {
				if taken != neg {
					return []string{"ordercheck:on"}
				}
				return []string{"ordercheck:off"}
			}
			return nil
		},
		Inline: func(callee *ssa.Function) bool {
			pk := fnPkg(callee)
			return pk != nil && pk.Path() == modPath+"/table"
		},
	}
}

func pathClasses(pa *Path) []string {
	var s []string
	for _, e := range pa.Events {
		s = append(s, e.Class)
	}
	return s
}

func countPrefix(pa *Path, prefix string) int {
	n := 0
	for _, e := range pa.Events {
		if strings.HasPrefix(e.Class, prefix) {
			n++
		}
	}
	return n
}

// after returns the events after the first occurrence of class.
func eventsAfter(pa *Path, class string) []Event {
	i := pa.Index(class)
	if i < 0 {
		return nil
	}
	return pa.Events[i+1:]
}

func hasAny(evs []Event, classes ...string) (string, bool) {
	for _, e := range evs {
		for _, c := range classes {
			if e.Class == c || strings.HasPrefix(e.Class, c+":") && strings.HasSuffix(c, "!") {
				return e.Class, true
			}
		}
	}
	return "", false
}

var forwardClasses = []string{"addmaybe", "route.dispatch", "send", "go"}

// badAddCall: one execution site of bad.Add as seen from the dispatcher function: the instruction to
// report and the three arguments with helper parameters replaced by what the dispatcher passes.
type badAddCall struct {
	at   ssa.Instruction
	args []ssa.Value
}

// badAddSites: the bad.Add calls of fn, and those of the helper methods of the same type that fn calls
// (reject(key, buf, err, counter)), one entry per call site of the helper in fn.
func badAddSites(p *Prog, fn *ssa.Function) []badAddCall {
	var out []badAddCall
	allInstrs(fn, func(in ssa.Instruction) {
		if isCallNamed(in, nBadAdd) {
			out = append(out, badAddCall{in, argsOf(callCommon(in))})
		}
	})
	for _, g := range workerFuncs(p, fn) {
		if g == fn || g.Parent() != nil {
			continue
		}
		var inner []ssa.Instruction
		allInstrs(g, func(in ssa.Instruction) {
			if isCallNamed(in, nBadAdd) {
				inner = append(inner, in)
			}
		})
		if len(inner) == 0 {
			continue
		}
		allInstrs(fn, func(in ssa.Instruction) {
			call, ok := in.(*ssa.Call)
			if !ok || call.Call.StaticCallee() != g {
				return
			}
			for _, ba := range inner {
				var args []ssa.Value
				for _, a := range argsOf(callCommon(ba)) {
					if par, ok := a.(*ssa.Parameter); ok {
						for i, q := range g.Params {
							if q == par && i < len(call.Call.Args) {
								a = call.Call.Args[i]
							}
						}
					}
					args = append(args, a)
				}
				out = append(out, badAddCall{in, args})
			}
		})
	}
	return out
}
