package main

import (
	"fmt"
	"go/token"
	"go/types"
	"os"
	"sort"
	"strings"

	"golang.org/x/tools/go/ssa"
)

func init() {
	register(&PropDef{
		ID:    "C09",
		Title: "The disk spool queue is an exact persistent FIFO across clean restarts",
		Decided: "R1 the queue's positions, file handles and sync flag are written only by code that runs in the queue's single I/O goroutine, by the constructor before that goroutine starts, or by exit/Close after it has stopped; the depth counter is only touched through sync/atomic; " +
			"R2 the persisted read position advances (moveForward) only in the select case that has just delivered the message to the consumer, and reading ahead writes only the look-ahead position; " +
			"R3 Close stops the I/O goroutine (exit: flag, close(exitChan), wait) and then always syncs; Put and Empty check the exit flag under the read lock before talking to the goroutine; " +
			"R4 depth is incremented exactly on the successful-write path of writeOne and decremented exactly once per moveForward; " +
			"R5 writer and reader agree on the on-disk format and on the segment-roll rule: both roll when their position is strictly greater than maxBytesPerFile, both use a 4-byte big-endian int32 length and count 4 + length bytes; " +
			"R10 whether the I/O loop calls readOne again is decided by comparing the read-ahead cursor with the read cursor (or by a flag assigned from constants), never by the length, nil-ness or content of the message buffer, so a pending zero-length message is not read over.",
		NotDecided: "FIFO exactness, rollover and oversize-message arithmetic as values (positions, lengths); what Depth() reports while operations are in flight.",
		Rules: []RuleDef{
			{ID: "C09.R1", Min: 10, Doc: "ioLoop confinement: for every function storing into the confined fields, every chain of synchronous callers ends in ioLoop, in NewDiskQueue before `go ioLoop`, or in exit/Close/Delete after the wait on exitSyncChan; stores to depth only via sync/atomic", Run: c09r1},
			{ID: "C09.R2", Min: 2, Doc: "ack after delivery: call sites of moveForward lie in the body of the select state that sends on readChan; fields stored by readOne ⊆ {nextReadPos, nextReadFileNum, readFile, reader}", Run: c09r2},
			{ID: "C09.R3", Min: 3, Doc: "close order: path enumeration of Close (exit then sync), shape of exit, exit-flag test in Put/Empty before the channel send", Run: c09r3},
			{ID: "C09.R4", Min: 2, Doc: "depth accounting: path enumeration of writeOne (AddInt64(+1) iff the file write succeeded) and moveForward (AddInt64(-1) once)", Run: c09r4},
			{ID: "C09.R6", Min: 4, Doc: "handle follows segment number: on every path of a function that increments nextReadFileNum (writeFileNum), the cached readFile (writeFile) handle is nil when the function returns — otherwise the next read (write) continues on the old segment's handle while the cursor says new segment, position 0", Run: c09r6},
			{ID: "C09.R7", Min: 3, Doc: "segment and metadata files are never truncated on open: the flag argument of every os.OpenFile in package nsqd is a constant (on every path) without O_TRUNC / O_APPEND / O_EXCL — the writer resumes inside an existing segment at the persisted position after a restart", Run: c09r7},
			{ID: "C09.R8", Min: 2, Doc: "opening and closing never destroy data: no os.Remove / os.Rename / Truncate is reachable (over call and defer edges, not through the started ioLoop goroutine) from NewDiskQueue or from Close — a queue that is reopened finds every segment its metadata refers to", Run: c09r8},
			{ID: "C09.R9", Min: 4, Doc: "read-ahead cursor follows the read cursor: wherever readPos / readFileNum is set from something other than the read-ahead cursor (metadata load, skip past a bad segment, reset), nextReadPos / nextReadFileNum is set to the same value before the function or its caller returns; and a store that steps the read-ahead cursor from its own value is dominated by one that bases it on the read cursor (readOne may run twice for one record)", Run: c09r9},
			{ID: "C09.R10", Min: 1, Doc: "the decision to read ahead is taken on the cursors: no branch condition that controls a call of readOne (in ioLoop, in a helper that contains the call, or at the helper's call sites) depends on the message value — what readOne returned / what is sent on readChan, followed through phis, cells, fields, helper parameters and results; its length, nil-ness or content says nothing about a pending read-ahead because the empty message is a message", Run: c09r10},
			{ID: "C09.R5", Min: 3, Doc: "sibling agreement: normalised roll conditions of readOne/writeOne; length header type and byte order; record size 4+len", Run: c09r5},
		},
	})
}

var confinedDQ = []string{"readPos", "writePos", "readFileNum", "writeFileNum", "nextReadPos", "nextReadFileNum", "readFile", "writeFile", "reader", "needSync"}

func c09r1(c *Check) {
	cg := c.P.CG()
	confined := map[*types.Var]bool{}
	for _, n := range confinedDQ {
		confined[dqField(c, n)] = true
	}
	depthF := dqField(c, "depth")
	ioLoop := c.P.Func("nsqd", "*DiskQueue", "ioLoop")
	ctor := c.P.Func("nsqd", "", "NewDiskQueue")
	exitFn := c.P.Func("nsqd", "*DiskQueue", "exit")
	closeFn := c.P.Func("nsqd", "*DiskQueue", "Close")
	deleteFn := c.P.Func("nsqd", "*DiskQueue", "Delete")
	exitSync := dqField(c, "exitSyncChan")
	// writer functions
	type writer struct {
		fn     *ssa.Function
		stores []ssa.Instruction
	}
	var writers []writer
	for _, fn := range c.P.Funcs {
		if pk := fnPkg(fn); pk == nil || pk.Path() != modPath+"/nsqd" {
			continue
		}
		var sts []ssa.Instruction
		allInstrs(fn, func(in ssa.Instruction) {
			if st, ok := in.(*ssa.Store); ok {
				if fa, ok := st.Addr.(*ssa.FieldAddr); ok && confined[fieldOfAddr(fa)] && !isFreshObject(fa.X) {
					sts = append(sts, st)
				}
				if fa, ok := st.Addr.(*ssa.FieldAddr); ok && fieldOfAddr(fa) == depthF && !isFreshObject(fa.X) {
					c.Violate(FuncName(fn)+" plain store to depth", c.At(st), "depth is read concurrently by Depth(): it must only be modified through sync/atomic")
				}
			}
			// Fscanf(&d.readFileNum ...) in retrieveMetaData: addresses passed to callees count as writes
			if call, ok := in.(*ssa.Call); ok && strings.HasPrefix(calleeName(call.Common()), "fmt.Fscan") {
				sts = append(sts, in)
			}
		})
		if len(sts) > 0 {
			writers = append(writers, writer{fn, sts})
		}
	}
	sort.Slice(writers, func(i, j int) bool { return writers[i].fn.String() < writers[j].fn.String() })
	// the go statement in the constructor
	var goStmt ssa.Instruction
	allInstrs(ctor, func(in ssa.Instruction) {
		if g, ok := in.(*ssa.Go); ok && strings.HasSuffix(calleeName(&g.Call), "DiskQueue).ioLoop") {
			goStmt = in
		}
	})
	if goStmt == nil {
		anchorFail("NewDiskQueue: `go d.ioLoop()` not found")
	}
	// the wait in exit
	var waitExit ssa.Instruction
	allInstrs(exitFn, func(in ssa.Instruction) {
		if u, ok := in.(*ssa.UnOp); ok && u.Op == token.ARROW && isFieldLoad(u.X, exitSync) {
			waitExit = in
		}
	})
	if waitExit == nil {
		anchorFail("exit: wait on exitSyncChan not found")
	}
	for _, w := range writers {
		// walk up synchronous callers; record how each chain terminates
		var bad []string
		seen := map[*ssa.Function]bool{}
		var walk func(f *ssa.Function, at []ssa.Instruction, chain []string)
		walk = func(f *ssa.Function, at []ssa.Instruction, chain []string) {
			chain = append([]string{FuncName(f)}, chain...)
			switch f {
			case ioLoop:
				return
			case ctor:
				for _, in := range at {
					if !instrDominates(in, goStmt) {
						bad = append(bad, "in the constructor after the I/O goroutine was started: "+strings.Join(chain, " → "))
					}
				}
				return
			case exitFn:
				for _, in := range at {
					if !instrDominates(waitExit, in) {
						bad = append(bad, "in exit before the I/O goroutine has stopped: "+strings.Join(chain, " → "))
					}
				}
				return
			case closeFn, deleteFn:
				// must come after the call to exit
				var exitCall ssa.Instruction
				allInstrs(f, func(in ssa.Instruction) {
					if isCallNamed(in, nsqdDQ+"exit") {
						exitCall = in
					}
				})
				for _, in := range at {
					if exitCall == nil || !instrDominates(exitCall, in) {
						bad = append(bad, "in "+f.Name()+" before exit(): "+strings.Join(chain, " → "))
					}
				}
				return
			}
			if seen[f] {
				return
			}
			seen[f] = true
			ins := cg.In[f]
			n := 0
			for _, e := range ins {
				if e.Kind == EdgeGo {
					bad = append(bad, "started as its own goroutine: "+strings.Join(chain, " → "))
					n++
					continue
				}
				if e.Kind == EdgeRef {
					continue
				}
				n++
				walk(e.Caller, []ssa.Instruction{e.Site}, chain)
			}
			if n == 0 {
				bad = append(bad, "reachable from outside the I/O goroutine (exported or uncalled entry): "+strings.Join(chain, " → "))
			}
		}
		walk(w.fn, w.stores, nil)
		key := FuncName(w.fn) + " writes queue state only inside the I/O goroutine"
		if len(bad) > 0 {
			sort.Strings(bad)
			c.ViolateW(key, c.At(w.stores[0]), "the queue's positions / file handles are written from outside its single I/O goroutine: concurrent Put/consumer activity corrupts positions and the persisted metadata", bad)
		} else {
			c.Hold(key, c.At(w.stores[0]), fmt.Sprintf("%d stores; all caller chains end in ioLoop / constructor-before-go / after exit", len(w.stores)))
		}
	}
	// atomic users of depth
	nAtomic := 0
	for _, fn := range c.P.Funcs {
		allInstrs(fn, func(in ssa.Instruction) {
			if cc := callCommon(in); cc != nil && strings.HasPrefix(calleeName(cc), "sync/atomic.") && len(cc.Args) > 0 && isFieldAddrOf(cc.Args[0], depthF) {
				nAtomic++
			}
		})
	}
	c.Judge(nAtomic >= 4, "nsqd depth only through sync/atomic", c.AtFn(ioLoop), fmt.Sprintf("%d atomic operations", nAtomic), "depth is no longer maintained with sync/atomic")
}

func c09r2(c *Check) {
	io := c.P.Func("nsqd", "*DiskQueue", "ioLoop")
	readChan := dqField(c, "readChan")
	var sel *ssa.Select
	allInstrs(io, func(in ssa.Instruction) {
		if s, ok := in.(*ssa.Select); ok {
			sel = s
		}
	})
	if sel == nil {
		anchorFail("ioLoop: select not found")
	}
	cases := selectCases(sel)
	loops := loopsOf(io)
	var sendBody *ssa.BasicBlock
	for i, st := range sel.States {
		if st.Dir == types.SendOnly {
			// r is a local assigned d.readChan or nil
			isRC := false
			for _, leaf := range valueLeaves(st.Chan, 6) {
				if isFieldLoad(leaf, readChan) {
					isRC = true
				}
			}
			if isRC {
				sendBody = cases[i]
			}
		}
	}
	if sendBody == nil || len(loops) == 0 {
		anchorFail("ioLoop: send case on readChan not found")
	}
	region := map[*ssa.BasicBlock]bool{}
	for _, b := range regionFrom(sendBody, loops[0].Header) {
		region[b] = true
	}
	n := 0
	for _, fn := range c.P.Funcs {
		allInstrs(fn, func(in ssa.Instruction) {
			if !isCallNamed(in, nsqdDQ+"moveForward") {
				return
			}
			n++
			c.Judge(fn == io && region[in.Block()], FuncName(fn)+" moveForward after delivery", c.At(in), "called in the body of `case r <- dataRead`", "the read position is advanced (and the consumed segment removed) without the message having been handed to the consumer: a message that was only read ahead is lost on restart")
		})
	}
	if n == 0 {
		anchorFail("no call to moveForward")
	}
	ro := c.P.Func("nsqd", "*DiskQueue", "readOne")
	allowed := map[string]bool{"nextReadPos": true, "nextReadFileNum": true, "readFile": true, "reader": true}
	var bad []string
	allInstrs(ro, func(in ssa.Instruction) {
		if st, ok := in.(*ssa.Store); ok {
			if fa, ok := st.Addr.(*ssa.FieldAddr); ok && fa.X == ssa.Value(ro.Params[0]) && !allowed[fieldOfAddr(fa).Name()] {
				bad = append(bad, fieldOfAddr(fa).Name()+" at "+c.At(st))
			}
		}
	})
	c.Judge(len(bad) == 0, "nsqd.readOne only advances the look-ahead position", c.AtFn(ro), "stores only nextReadPos, nextReadFileNum, readFile, reader", "readOne modifies "+strings.Join(bad, ", ")+": reading ahead already acknowledges the message")
	// reading ahead leaves the files alone: nothing reachable from readOne removes, renames or truncates a file
	via := c.P.CG().Reach([]*ssa.Function{ro}, syncKinds, nil)
	fsBad := ""
	for f := range via {
		if fnPkg(f) != fnPkg(ro) {
			continue
		}
		allInstrs(f, func(in ssa.Instruction) {
			if cc := callCommon(in); cc != nil {
				switch calleeName(cc) {
				case "os.Remove", "os.RemoveAll", "os.Rename", "(*os.File).Truncate", "os.Truncate":
					fsBad = short(calleeName(cc)) + " in " + FuncName(f) + " at " + c.At(in)
				}
			}
		})
	}
	c.Judge(fsBad == "", "nsqd.readOne does not touch the segment files", c.AtFn(ro), fmt.Sprintf("%d functions reachable from readOne: no remove / rename / truncate", len(via)), fsBad+": a segment is removed when its last record has been read ahead, not when it has been handed to the consumer — after a restart the record that was never delivered is gone")
	// the segment that moveForward removes is the one that was just finished: its number is the read cursor's
	// file number from before the cursor was advanced
	mf := c.P.Func("nsqd", "*DiskQueue", "moveForward")
	rfn := dqField(c, "readFileNum")
	var advance *ssa.Store
	allInstrs(mf, func(in ssa.Instruction) {
		if st, ok := in.(*ssa.Store); ok {
			if fa, ok := st.Addr.(*ssa.FieldAddr); ok && fieldOfAddr(fa) == rfn {
				advance = st
			}
		}
	})
	nRem, rmBad := 0, ""
	for _, f := range workerFuncs(c.P, mf) {
		allInstrs(f, func(in ssa.Instruction) {
			call, ok := in.(*ssa.Call)
			if !ok || calleeName(call.Common()) != "os.Remove" {
				return
			}
			nRem++
			// the name: fileName(<number>)
			nameCall, ok := call.Call.Args[0].(*ssa.Call)
			if !ok || !strings.HasSuffix(calleeName(nameCall.Common()), "DiskQueue).fileName") {
				return
			}
			num := nameCall.Call.Args[len(nameCall.Call.Args)-1]
			if ld, ok := num.(*ssa.UnOp); ok && isFieldLoad(ld, rfn) && advance != nil && f == mf && instrDominates(advance, ld) {
				rmBad = "the removed file is named after readFileNum as read at " + c.At(ld) + ", after the cursor was advanced at " + c.At(advance)
			}
		})
	}
	if advance != nil && nRem > 0 {
		c.Judge(rmBad == "", "nsqd.moveForward removes the segment it has just finished", c.AtFn(mf), "the removed file's number is taken before readFileNum is advanced", rmBad+": the segment that is deleted is the next, still unread one, and the consumed one stays behind")
	}
}

func c09r3(c *Check) {
	cl := c.P.Func("nsqd", "*DiskQueue", "Close")
	cfg := &PathCfg{
		Classify: func(in ssa.Instruction) []string {
			if isCallNamed(in, nsqdDQ+"exit") {
				return []string{"exit"}
			}
			if isCallNamed(in, nsqdDQ+"sync") {
				return []string{"sync"}
			}
			return nil
		},
		Branch: func(ifi *ssa.If, cond ssa.Value, taken bool) []string {
			if e, errEdge, ok := errTest(cond); ok {
				if _, isExit := callOf(e, nsqdDQ+"exit"); isExit {
					if taken == errEdge {
						return []string{"exit:failed"}
					}
					return []string{"exit:ok"}
				}
			}
			return nil
		},
	}
	paths, _ := EnumPaths(cl, nil, cfg)
	bad := ""
	for i := range paths {
		pa := &paths[i]
		if pa.Count("exit") != 1 {
			bad = "Close does not stop the I/O goroutine exactly once: " + pa.String()
		}
		if !pa.Has("exit:failed") && (pa.Count("sync") != 1 || pa.Index("sync") < pa.Index("exit")) {
			bad = "Close returns without persisting the final positions (or syncs before the I/O goroutine stopped): " + pa.String()
		}
	}
	c.Judge(bad == "" && len(paths) > 0, "nsqd.DiskQueue.Close = exit, then always sync", c.AtFn(cl), fmt.Sprintf("%d paths", len(paths)), bad+" — after a clean restart puts since the last periodic sync are lost and gets are delivered again")
	// exit shape
	ex := c.P.Func("nsqd", "*DiskQueue", "exit")
	exitFlag, exitChan, exitSync := dqField(c, "exitFlag"), dqField(c, "exitChan"), dqField(c, "exitSyncChan")
	var setFlag, closeCh, wait ssa.Instruction
	allInstrs(ex, func(in ssa.Instruction) {
		if st, ok := in.(*ssa.Store); ok {
			if fa, ok := st.Addr.(*ssa.FieldAddr); ok && fieldOfAddr(fa) == exitFlag {
				setFlag = in
			}
		}
		if cc, ok := isBuiltinCall(in, "close"); ok && isFieldLoad(cc.Args[0], exitChan) {
			closeCh = in
		}
		if u, ok := in.(*ssa.UnOp); ok && u.Op == token.ARROW && isFieldLoad(u.X, exitSync) {
			wait = in
		}
	})
	okEx := setFlag != nil && closeCh != nil && wait != nil && instrDominates(setFlag, closeCh) && instrDominates(closeCh, wait)
	c.Judge(okEx, "nsqd.DiskQueue.exit flag → close(exitChan) → wait", c.AtFn(ex), "exitFlag = 1; close(exitChan); <-exitSyncChan", "exit does not set the flag, signal the I/O goroutine and wait for it in that order")
	// Put / Empty check the flag before sending
	for _, name := range []string{"Put", "Empty"} {
		fn := c.P.Func("nsqd", "*DiskQueue", name)
		var send ssa.Instruction
		allInstrs(fn, func(in ssa.Instruction) {
			if _, ok := in.(*ssa.Send); ok {
				send = in
			}
		})
		okF := false
		if send != nil {
			for _, b := range fn.Blocks {
				if ifi, ok := b.Instrs[len(b.Instrs)-1].(*ssa.If); ok {
					if bo, ok := ifi.Cond.(*ssa.BinOp); ok && bo.Op == token.EQL && isFieldLoad(bo.X, exitFlag) {
						if edgeDominates(b, b.Succs[1], send.Block()) {
							okF = true
						}
					}
				}
			}
			// under RLock
			ops := mutexOps(fn)
			if _, held := heldAt(ops, func(m mutexOp) bool { return m.op == "RLock" }, send); !held {
				okF = false
			}
		}
		c.Judge(okF, "nsqd.DiskQueue."+name+" refuses after exit", c.AtFn(fn), "exitFlag tested under RLock before the channel send", name+" can send to the I/O goroutine after it has exited: the caller blocks forever")
	}
}

func c09r4(c *Check) {
	depthF := dqField(c, "depth")
	isAdd := func(in ssa.Instruction) (int64, bool) {
		cc := callCommon(in)
		if cc == nil || calleeName(cc) != "sync/atomic.AddInt64" || !isFieldAddrOf(cc.Args[0], depthF) {
			return 0, false
		}
		k, ok := constInt(cc.Args[1])
		return k, ok
	}
	wo := c.P.Func("nsqd", "*DiskQueue", "writeOne")
	cfg := &PathCfg{
		Classify: func(in ssa.Instruction) []string {
			if k, ok := isAdd(in); ok {
				return []string{fmt.Sprintf("depth%+d", k)}
			}
			if isCallNamed(in, "(*os.File).Write") {
				return []string{"file.write"}
			}
			return nil
		},
		Branch: func(ifi *ssa.If, cond ssa.Value, taken bool) []string {
			if e, errEdge, ok := errTest(cond); ok {
				if _, isW := callOf(e, "(*os.File).Write"); isW {
					if taken == errEdge {
						return []string{"write:failed"}
					}
					return []string{"write:ok"}
				}
			}
			return nil
		},
	}
	paths, _ := EnumPaths(wo, nil, cfg)
	bad := ""
	nOK := 0
	for i := range paths {
		pa := &paths[i]
		if pa.Has("write:ok") {
			nOK++
			if pa.Count("depth+1") != 1 || pa.Index("depth+1") < pa.Index("file.write") {
				bad = "a successfully written message is not counted once in depth (after the write): " + pa.String()
			}
		} else if pa.Has("depth+1") {
			bad = "depth is incremented although the message was not written: " + pa.String()
		}
	}
	c.Judge(bad == "" && nOK > 0, "nsqd.writeOne depth+1 iff written", c.AtFn(wo), fmt.Sprintf("%d paths, %d successful", len(paths), nOK), bad)
	mf := c.P.Func("nsqd", "*DiskQueue", "moveForward")
	paths, _ = EnumPaths(mf, nil, cfg)
	bad = ""
	for i := range paths {
		if paths[i].Count("depth-1") != 1 {
			bad = "moveForward does not decrement depth exactly once: " + paths[i].String()
		}
	}
	c.Judge(bad == "" && len(paths) > 0, "nsqd.moveForward depth-1 once", c.AtFn(mf), fmt.Sprintf("%d paths", len(paths)), bad)
}

func c09r5(c *Check) {
	// readOne / writeOne together with the DiskQueue helper methods they are split into
	allInstrsW := func(fn *ssa.Function, f func(ssa.Instruction)) {
		for _, g := range workerFuncs(c.P, fn) {
			allInstrs(g, f)
		}
	}
	maxB := dqField(c, "maxBytesPerFile")
	rollRel := func(fn *ssa.Function, posField string) (string, ssa.Instruction) {
		posF := dqField(c, posField)
		var rel string
		var at ssa.Instruction
		allInstrsW(fn, func(in ssa.Instruction) {
			ifi, ok := in.(*ssa.If)
			if !ok {
				return
			}
			cnd, neg := negStrip(ifi.Cond)
			bo, ok := cnd.(*ssa.BinOp)
			if !ok {
				return
			}
			op := bo.Op
			switch {
			case isFieldLoad(bo.X, posF) && isFieldLoad(bo.Y, maxB):
			case isFieldLoad(bo.Y, posF) && isFieldLoad(bo.X, maxB):
				op = flipRel(op)
			default:
				return
			}
			if neg {
				op = negRel(op)
			}
			rel = "pos " + op.String() + " maxBytesPerFile"
			at = in
		})
		return rel, at
	}
	ro := c.P.Func("nsqd", "*DiskQueue", "readOne")
	wo := c.P.Func("nsqd", "*DiskQueue", "writeOne")
	rr, rat := rollRel(ro, "nextReadPos")
	wr, _ := rollRel(wo, "writePos")
	pos := c.AtFn(ro)
	if rat != nil {
		pos = c.At(rat)
	}
	c.Judge(rr != "" && rr == wr && rr == "pos > maxBytesPerFile", "nsqd reader and writer roll segments on the same condition", pos, "both: "+rr, fmt.Sprintf("the reader rolls to the next segment when %q but the writer when %q: when a record ends exactly at the limit one side has moved on and the other has not — a record is skipped (its segment deleted unread) or the reader spins on a file that is never written", rr, wr))
	// length header: the same fixed-width integer encoding on both sides — 4 bytes, big endian —
	// whichever API encodes / decodes it (intcodec.go); the writer encodes the length of the record
	hdr := func(fn *ssa.Function, decode bool) (desc string, ok bool, vals []ssa.Value) {
		ok = true
		n := 0
		for _, g := range workerFuncs(c.P, fn) {
			for _, s := range intCodecSites(g) {
				if s.Decode != decode {
					continue
				}
				n++
				order := "unknown byte order"
				if s.OrderKnown {
					order = "little-endian"
					if s.BE {
						order = "big-endian"
					}
				}
				desc += fmt.Sprintf("%d bytes %s; ", s.Width, order)
				if !s.OrderKnown || !s.BE || s.Width != 4 {
					ok = false
				}
				if s.Val != nil {
					vals = append(vals, s.Val)
				}
			}
		}
		return strings.TrimSuffix(desc, "; "), ok && n > 0, vals
	}
	rd, rok, rvals := hdr(ro, true)
	wd, wok, wvals := hdr(wo, false)
	// what the writer encodes is the length of the record it was given
	wlen := len(wvals) > 0
	for _, v := range wvals {
		for d := 0; d < 6; d++ {
			if x, ok := v.(*ssa.Convert); ok {
				v = x.X
			} else if x, ok := v.(*ssa.ChangeType); ok {
				v = x.X
			} else {
				break
			}
		}
		isLen := false
		if x, ok := v.(*ssa.Call); ok {
			if b, ok := x.Call.Value.(*ssa.Builtin); ok && b.Name() == "len" && x.Call.Args[0] == ssa.Value(wo.Params[1]) {
				isLen = true
			}
		}
		if !isLen {
			wlen = false
		}
	}
	c.Judge(rok && wok && wlen, "nsqd record header: big-endian int32 on both sides", c.AtFn(wo), "writer and reader agree on the length header: "+wd+" holding len(data) / "+rd, fmt.Sprintf("reader decodes [%s], writer encodes [%s] (of len(data): %v): both must be 4 bytes big-endian holding the record's length", rd, wd, wlen))
	// record size 4 + len
	four := func(fn *ssa.Function) bool {
		ok := false
		allInstrsW(fn, func(in ssa.Instruction) {
			if bo, isBo := in.(*ssa.BinOp); isBo && bo.Op == token.ADD {
				if k, isC := constInt(bo.X); isC && k == 4 {
					ok = true
				}
				if k, isC := constInt(bo.Y); isC && k == 4 {
					ok = true
				}
			}
		})
		return ok
	}
	c.Judge(four(ro) && four(wo), "nsqd record size is 4 + payload length on both sides", c.AtFn(ro), "positions advance by header + payload", "reader and writer no longer advance their positions by 4 + length")
	// length limits: the reader may not refuse a record length that the writer accepts
	limits := func(fn *ssa.Function, isLen func(v ssa.Value) bool) []string {
		var out []string
		allInstrsW(fn, func(in ssa.Instruction) {
			ifi, ok := in.(*ssa.If)
			if !ok {
				return
			}
			// every comparison that takes part in the condition (a || b is lowered to a chain of Ifs)
			cnd, neg := negStrip(ifi.Cond)
			bo, ok := cnd.(*ssa.BinOp)
			if !ok {
				return
			}
			op := bo.Op
			var other ssa.Value
			switch {
			case isLen(bo.X):
				other = bo.Y
			case isLen(bo.Y):
				other = bo.X
				op = flipRel(op)
			default:
				return
			}
			if neg {
				op = negRel(op)
			}
			switch op {
			case token.LSS, token.LEQ, token.GTR, token.GEQ:
			default:
				return
			}
			// a lower bound that no written record can violate
			if k, ok := constInt(other); ok && (op == token.LSS && k <= 0 || op == token.LEQ && k < 0) {
				return
			}
			out = append(out, "length "+op.String()+" "+describeVal(other))
		})
		sort.Strings(out)
		return out
	}
	// the decoded header: the variable binary.Read fills, or the result of ByteOrder.UintNN
	rl := limits(ro, func(v ssa.Value) bool {
		for _, h := range rvals {
			if derivedFrom(v, h, map[ssa.Value]bool{}) {
				return true
			}
		}
		return false
	})
	wl := limits(wo, func(v ssa.Value) bool {
		// len(data) of the record being written
		for d := 0; d < 4; d++ {
			if cv, ok := v.(*ssa.Convert); ok {
				v = cv.X
				continue
			}
			break
		}
		call, ok := v.(*ssa.Call)
		if !ok {
			return false
		}
		b, ok := call.Call.Value.(*ssa.Builtin)
		return ok && b.Name() == "len" && call.Call.Args[0] == ssa.Value(wo.Params[1])
	})
	var onlyReader []string
	for _, r := range rl {
		found := false
		for _, w := range wl {
			if w == r {
				found = true
			}
		}
		if !found {
			onlyReader = append(onlyReader, r)
		}
	}
	c.Judge(len(onlyReader) == 0, "nsqd reader accepts every record length the writer accepts", c.AtFn(ro), fmt.Sprintf("reader limits %v ⊆ writer limits %v", rl, wl), fmt.Sprintf("the reader refuses records on %v, a limit the writer does not enforce: a record that was accepted, written and acknowledged is treated as corruption on read-back (its segment is set aside and everything in it is lost)", onlyReader))
}

func c09r6(c *Check) {
	pairs := map[string]string{"nextReadFileNum": "readFile", "writeFileNum": "writeFile"}
	pkg := c.P.Pkg("nsqd")
	n := 0
	for _, fn := range c.P.Funcs {
		if fnPkg(fn) != pkg.Types {
			continue
		}
		// which counters does fn increment?
		incs := map[string]ssa.Instruction{}
		allInstrs(fn, func(in ssa.Instruction) {
			if num, ok := incStore(in); ok && pairs[num] != "" {
				incs[num] = in
			}
		})
		for num, at := range incs {
			n++
			handle := pairs[num]
			hF := dqField(c, handle)
			storesHandle := func(g *ssa.Function) bool {
				found := false
				allInstrs(g, func(in ssa.Instruction) {
					if st, ok := in.(*ssa.Store); ok {
						if fa, ok := st.Addr.(*ssa.FieldAddr); ok && fieldOfAddr(fa) == hF {
							found = true
						}
					}
				})
				return found
			}
			cfg := &PathCfg{
				// helpers that close / reopen the handle (closeReadFile()) are expanded in place
				Inline: func(g *ssa.Function) bool { return fnPkg(g) == pkg.Types && g != fn && storesHandle(g) },
				Classify: func(in ssa.Instruction) []string {
					if x, ok := incStore(in); ok && x == num {
						return []string{"inc"}
					}
					if st, ok := in.(*ssa.Store); ok {
						if fa, ok := st.Addr.(*ssa.FieldAddr); ok && fieldOfAddr(fa) == hF {
							if k, ok := st.Val.(*ssa.Const); ok && k.IsNil() {
								return []string{"h:nil"}
							}
							return []string{"h:open"}
						}
					}
					return nil
				},
				Branch: func(ifi *ssa.If, cond ssa.Value, taken bool) []string {
					cnd, neg := negStrip(cond)
					bo, ok := cnd.(*ssa.BinOp)
					if !ok || (bo.Op != token.EQL && bo.Op != token.NEQ) {
						return nil
					}
					var x ssa.Value
					if k, ok := bo.Y.(*ssa.Const); ok && k.IsNil() {
						x = bo.X
					} else if k, ok := bo.X.(*ssa.Const); ok && k.IsNil() {
						x = bo.Y
					}
					if x == nil || !isFieldLoad(x, hF) {
						return nil
					}
					isNil := (bo.Op == token.EQL) == (taken != neg)
					if isNil {
						return []string{"h:nil"}
					}
					return []string{"h:open"}
				},
			}
			paths, trunc := EnumPaths(fn, nil, cfg)
			key := fmt.Sprintf("nsqd.%s: %s++ leaves %s nil", fn.Name(), num, handle)
			if trunc || len(paths) == 0 {
				c.Undecided(key, c.At(at), "path enumeration incomplete")
				continue
			}
			bad := ""
			for i := range paths {
				pa := &paths[i]
				if !pa.Has("inc") || pa.End != "return" {
					continue
				}
				last := ""
				for _, e := range pa.Events {
					if strings.HasPrefix(e.Class, "h:") {
						last = e.Class
					}
				}
				if last != "h:nil" {
					bad = fmt.Sprintf("%s is advanced but the open %s handle is kept: the next operation continues on the old segment file while the cursor says (new segment, position 0) — records are read twice / skipped or written into the wrong file: %s", num, handle, pa.String())
				}
			}
			c.Judge(bad == "", key, c.At(at), fmt.Sprintf("%d paths: the handle is closed and forgotten on every path that moves to the next segment", len(paths)), bad)
		}
	}
	if n == 0 {
		anchorFail("nsqd: no increment of nextReadFileNum / writeFileNum found")
	}
}

// incStore: in is `d.<field> = d.<field> + 1` (d.field++); returns the field name.
func incStore(in ssa.Instruction) (string, bool) {
	st, ok := in.(*ssa.Store)
	if !ok {
		return "", false
	}
	fa, ok := st.Addr.(*ssa.FieldAddr)
	if !ok {
		return "", false
	}
	bo, ok := st.Val.(*ssa.BinOp)
	if !ok || bo.Op != token.ADD {
		return "", false
	}
	f := fieldOfAddr(fa)
	if k, ok := constInt(bo.Y); ok && k == 1 && isFieldLoad(bo.X, f) {
		return f.Name(), true
	}
	return "", false
}

func c09r7(c *Check) {
	pkg := c.P.Pkg("nsqd")
	perFn := map[*ssa.Function]int{}
	forbidden := map[string]int64{"O_TRUNC": int64(os.O_TRUNC), "O_APPEND": int64(os.O_APPEND), "O_EXCL": int64(os.O_EXCL)}
	n := 0
	for _, fn := range c.P.Funcs {
		if fnPkg(fn) != pkg.Types {
			continue
		}
		allInstrs(fn, func(in ssa.Instruction) {
			call, ok := in.(*ssa.Call)
			if !ok || calleeName(call.Common()) != "os.OpenFile" {
				return
			}
			n++
			perFn[fn]++
			key := fmt.Sprintf("nsqd.%s os.OpenFile#%d flags", fn.Name(), perFn[fn])
			var leaves []ssa.Value
			seen := map[ssa.Value]bool{}
			var walk func(v ssa.Value)
			walk = func(v ssa.Value) {
				if seen[v] {
					return
				}
				seen[v] = true
				switch x := v.(type) {
				case *ssa.Phi:
					for _, e := range x.Edges {
						walk(e)
					}
				case *ssa.BinOp:
					if x.Op == token.OR {
						walk(x.X)
						walk(x.Y)
						return
					}
					leaves = append(leaves, v)
				default:
					leaves = append(leaves, v)
				}
			}
			walk(call.Call.Args[1])
			bad := ""
			for _, l := range leaves {
				k, ok := constInt(l)
				if !ok {
					bad = "the open flags are not a compile-time set of constants (" + describeVal(l) + "): whether an existing segment is truncated depends on run-time state"
					continue
				}
				for name, bit := range forbidden {
					if k&bit != 0 {
						bad = "a queue file can be opened with " + name + ": records written before a restart (or still unread in the segment) are destroyed / the persisted position no longer addresses them"
					}
				}
			}
			c.Judge(bad == "", key, c.At(in), "constant flags without O_TRUNC/O_APPEND/O_EXCL", bad)
		})
	}
	if n == 0 {
		anchorFail("nsqd: no os.OpenFile call")
	}
}

func c09r8(c *Check) {
	cg := c.P.CG()
	destructive := map[string]bool{"os.Remove": true, "os.RemoveAll": true, "os.Rename": true, "os.Truncate": true, "(*os.File).Truncate": true}
	for _, root := range []*ssa.Function{c.P.Func("nsqd", "", "NewDiskQueue"), c.P.Func("nsqd", "*DiskQueue", "Close")} {
		via := cg.Reach([]*ssa.Function{root}, syncKinds, nil)
		bad := ""
		var at ssa.Instruction
		var fns []*ssa.Function
		for f := range via {
			fns = append(fns, f)
		}
		sort.Slice(fns, func(i, j int) bool { return fns[i].String() < fns[j].String() })
		for _, f := range fns {
			f := f
			allInstrs(f, func(in ssa.Instruction) {
				cc := callCommon(in)
				if cc == nil || !destructive[calleeName(cc)] || bad != "" {
					return
				}
				// persistMetaData's rename of the temporary metadata file replaces, it does not destroy
				if calleeName(cc) == "os.Rename" && pathOrigin(cc.Args[0], 0) == "metaDataFileName" {
					return
				}
				// cutting the write segment back to the persisted write position removes nothing the
				// metadata refers to (C08.R9 requires it)
				if ok, _ := truncatesWriteTail(c, cc); ok {
					return
				}
				bad = fmt.Sprintf("%s in %s (%s)", calleeName(cc), FuncName(f), strings.Join(cg.Chain(via, f), " → "))
				at = in
			})
		}
		pos := c.AtFn(root)
		if at != nil {
			pos = c.At(at)
		}
		c.Judge(bad == "", FuncName(root)+" does not remove or rename queue files", pos, fmt.Sprintf("%d functions reachable synchronously, none removes or renames a segment", len(via)), "opening / closing the queue can delete or set aside segment files: "+bad+" — undelivered messages that were safely on disk are gone after a restart")
	}
}

// c09r9: the read-ahead cursor (nextReadPos, nextReadFileNum) is always based on the read cursor.
// (a) wherever readPos / readFileNum is (re)established from something other than the read-ahead
// cursor (loaded from the metadata file, skipped past a bad segment, reset), nextReadPos /
// nextReadFileNum is set to the same value before the function (or, for a helper, its caller) returns:
// ioLoop takes `nextReadPos == readPos` for "nothing read ahead", so a stale read-ahead cursor makes
// it hand out a message it never read and then jump back to that cursor.
// (b) a store that steps the read-ahead cursor from its own previous value is dominated by a store
// that based it on the read cursor: readOne may run more than once for the same record.
func c09r9(c *Check) {
	pkg := c.P.Pkg("nsqd").Types
	pair := map[string]string{"readPos": "nextReadPos", "readFileNum": "nextReadFileNum"}
	for _, n := range []string{"readPos", "readFileNum", "nextReadPos", "nextReadFileNum"} {
		dqField(c, n) // anchors
	}
	fieldOfStore := func(in ssa.Instruction) (string, ssa.Value) {
		st, ok := in.(*ssa.Store)
		if !ok {
			return "", nil
		}
		fa, ok := st.Addr.(*ssa.FieldAddr)
		if !ok {
			return "", nil
		}
		return dqFieldName(fa), st.Val
	}
	keyOf, dependsOnField := c09keyOf, c09dependsOnField
	nA, nB := 0, 0
	for _, fn := range c.P.Funcs {
		if fnPkg(fn) != pkg {
			continue
		}
		fn := fn
		// (a) events: w:<field> (with key) and seed:<field> (with key)
		type wr struct {
			field, key string
			at         ssa.Instruction
		}
		var writes []wr
		allInstrs(fn, func(in ssa.Instruction) {
			if f, v := fieldOfStore(in); pair[f] != "" {
				if !dependsOnField(v, pair[f]) {
					writes = append(writes, wr{f, keyOf(v, 0), in})
				}
				return
			}
			// the address of the field handed to a callee (Fscanf(&d.readPos)): written by that callee
			if fa, ok := in.(*ssa.FieldAddr); ok && pair[dqFieldName(fa)] != "" {
				for _, r := range *fa.Referrers() {
					switch r.(type) {
					case *ssa.Store:
						if r.(*ssa.Store).Val == ssa.Value(fa) {
							writes = append(writes, wr{dqFieldName(fa), "*", in})
						}
					case *ssa.MakeInterface, *ssa.Call:
						writes = append(writes, wr{dqFieldName(fa), "*", in})
					}
				}
			}
		})
		if len(writes) > 0 {
			byField := map[string][]wr{}
			for _, w := range writes {
				byField[w.field] = append(byField[w.field], w)
			}
			for f, ws := range byField {
				nA++
				key := fmt.Sprintf("nsqd.%s re-seeds %s after setting %s", fn.Name(), pair[f], f)
				bad := seedAfter(c, fn, f, pair[f], keyOf, dependsOnField, 0)
				c.Judge(bad == "", key, c.At(ws[0].at), "on every path "+pair[f]+" is set to the same value afterwards (here or in every caller)", bad)
			}
		}
		// (b) self-stepping stores
		allInstrs(fn, func(in ssa.Instruction) {
			f, v := fieldOfStore(in)
			if f != "nextReadPos" && f != "nextReadFileNum" {
				return
			}
			if !dependsOnField(v, f) {
				return
			}
			nB++
			dom := false
			allInstrs(fn, func(in2 ssa.Instruction) {
				f2, v2 := fieldOfStore(in2)
				if f2 == f && in2 != in && !dependsOnField(v2, "nextReadPos") && !dependsOnField(v2, "nextReadFileNum") && instrDominates(in2, in) {
					dom = true
				}
			})
			c.Judge(dom, fmt.Sprintf("nsqd.%s steps %s from a value based on the read cursor", fn.Name(), f), c.At(in), "dominated by a store that bases "+f+" on the read cursor",
				f+" is advanced from its own previous value without first being based on the read cursor: ioLoop reads the same record again whenever it wakes up while `nextReadPos == readPos` (a record that fills a whole segment), and every re-read moves the cursor further, so whole segments are skipped")
		})
	}
	if nA < 3 {
		anchorFail("fewer than three sites that (re)establish the read cursor found (%d)", nA)
	}
	if nB < 1 {
		anchorFail("no self-stepping store of the read-ahead cursor found")
	}
}

// seedAfter: on every path of fn after the last non-ack write of field f, next is stored the same
// value (or a load of f); otherwise every caller must do so after calling fn. Returns "" when it holds.
func seedAfter(c *Check, fn *ssa.Function, f, next string, keyOf func(ssa.Value, int) string, dependsOnField func(ssa.Value, string) bool, depth int) string {
	pkg := fnPkg(fn)
	writesF := func(g *ssa.Function) bool {
		found := false
		allInstrs(g, func(in ssa.Instruction) {
			if st, ok := in.(*ssa.Store); ok {
				if fa, ok := st.Addr.(*ssa.FieldAddr); ok && (dqFieldName(fa) == f || dqFieldName(fa) == next) {
					found = true
				}
			}
		})
		return found
	}
	cfg := &PathCfg{
		Inline: func(g *ssa.Function) bool { return fnPkg(g) == pkg && g != fn && writesF(g) },
		Classify: func(in ssa.Instruction) []string {
			if st, ok := in.(*ssa.Store); ok {
				if fa, ok := st.Addr.(*ssa.FieldAddr); ok {
					switch dqFieldName(fa) {
					case f:
						if dependsOnField(st.Val, next) {
							return []string{"ack"}
						}
						return []string{"w=" + keyOf(st.Val, 0)}
					case next:
						return []string{"seed=" + keyOf(st.Val, 0)}
					}
				}
			}
			if fa, ok := in.(*ssa.FieldAddr); ok && dqFieldName(fa) == f {
				for _, r := range *fa.Referrers() {
					switch x := r.(type) {
					case *ssa.Store:
						if x.Val == ssa.Value(fa) {
							return []string{"w=*"}
						}
					case *ssa.MakeInterface, *ssa.Call:
						return []string{"w=*"}
					}
				}
			}
			return nil
		},
	}
	cfg.Branch = errBranch
	paths, trunc := EnumPaths(fn, nil, cfg)
	if trunc {
		return "path enumeration incomplete"
	}
	missing := ""
	for i := range paths {
		pa := &paths[i]
		if pa.End != "return" {
			continue
		}
		lastW, wKey := -1, ""
		for k, e := range pa.Events {
			if strings.HasPrefix(e.Class, "w=") {
				lastW, wKey = k, strings.TrimPrefix(e.Class, "w=")
			}
		}
		if lastW < 0 {
			continue
		}
		// a failed load leaves the queue unusable anyway: only paths returning no error count
		if returnsError(pa) {
			continue
		}
		ok := false
		for _, e := range pa.Events[lastW+1:] {
			if strings.HasPrefix(e.Class, "seed=") {
				sk := strings.TrimPrefix(e.Class, "seed=")
				if sk == "."+f || (wKey != "*" && sk == wKey) {
					ok = true
				}
			}
		}
		if !ok {
			missing = pa.String()
			break
		}
	}
	if missing == "" {
		return ""
	}
	// a helper: every caller re-seeds after the call
	if depth < 2 {
		ins := c.P.CG().In[fn]
		all := len(ins) > 0
		for _, e := range ins {
			if e.Kind != EdgeCall || e.Dyn {
				all = false
				break
			}
			caller := e.Caller
			ccfg := &PathCfg{
				Classify: func(in ssa.Instruction) []string {
					if in == e.Site {
						return []string{"w=*"}
					}
					if st, ok := in.(*ssa.Store); ok {
						if fa, ok := st.Addr.(*ssa.FieldAddr); ok && dqFieldName(fa) == next {
							return []string{"seed=" + keyOf(st.Val, 0)}
						}
					}
					return nil
				},
			}
			ccfg.Branch = errBranch
			cp, ctr := EnumPaths(caller, nil, ccfg)
			if ctr {
				all = false
				break
			}
			for i := range cp {
				pa := &cp[i]
				if pa.End != "return" || !pa.Has("w=*") {
					continue
				}
				if returnsError(pa) {
					continue
				}
				wi := pa.Index("w=*")
				ok := false
				for _, ev := range pa.Events[wi+1:] {
					if ev.Class == "seed=."+f {
						ok = true
					}
				}
				if !ok {
					all = false
				}
			}
		}
		if all {
			return ""
		}
	}
	return fmt.Sprintf("%s is set on path %s and %s is not set to the same value before the function returns: ioLoop compares the two to decide whether a message was already read ahead, so after this the queue hands out a message it never read and then continues from the stale read-ahead cursor (messages lost or delivered twice)", f, missing, next)
}

// errBranch marks the edges on which an error value is known to be non-nil.
func errBranch(ifi *ssa.If, cond ssa.Value, taken bool) []string {
	if e, errEdge, ok := errTest(cond); ok && taken == errEdge {
		return []string{"nonnil:" + e.Name()}
	}
	return nil
}

// returnsError: the path returns a last result that is a non-nil constant or was tested non-nil on the path.
func returnsError(pa *Path) bool {
	if pa.End != "return" || len(pa.Ret) == 0 {
		return false
	}
	last := len(pa.Ret) - 1
	if pa.Ret[last] != nil {
		return !isNilConst(pa.Ret[last])
	}
	if last < len(pa.RetV) && pa.RetV[last] != nil {
		if isErrorCtor(pa.RetV[last]) {
			return true
		}
		if pa.Has("nonnil:" + pa.RetV[last].Name()) {
			return true
		}
	}
	// `if err != nil { return err }` with the result spilled to a variable (deferred calls): the
	// last thing the path learned is that an error is non-nil
	if n := len(pa.Events); n > 0 && strings.HasPrefix(pa.Events[n-1].Class, "nonnil:") {
		return true
	}
	return false
}

// dqFieldName: the name of the DiskQueue field fa addresses ("" for fields of other structs).
func dqFieldName(fa *ssa.FieldAddr) string {
	pt, ok := fa.X.Type().Underlying().(*types.Pointer)
	if !ok {
		return ""
	}
	nt, ok := pt.Elem().(*types.Named)
	if !ok || nt.Obj().Name() != "DiskQueue" {
		return ""
	}
	return fieldOfAddr(fa).Name()
}

// expression key of a stored value: field loads by field name, constants by value, sums structurally
func c09keyOf(v ssa.Value, depth int) string {
	keyOf := c09keyOf
	if depth > 6 {
		return "?"
	}
	switch x := v.(type) {
	case *ssa.Const:
		return x.Value.String()
	case *ssa.UnOp:
		if fa, ok := x.X.(*ssa.FieldAddr); ok && x.Op == token.MUL {
			return "." + dqFieldName(fa)
		}
	case *ssa.BinOp:
		return "(" + keyOf(x.X, depth+1) + x.Op.String() + keyOf(x.Y, depth+1) + ")"
	case *ssa.Convert:
		return keyOf(x.X, depth+1)
	case *ssa.Field:
		if st, ok := x.X.Type().Underlying().(*types.Struct); ok {
			return keyOf(x.X, depth+1) + "." + st.Field(x.Field).Name()
		}
	}
	return "v" + v.Name()
}
func c09dependsOnField(v ssa.Value, name string) bool {
	found := false
	var walk func(v ssa.Value, d int)
	walk = func(v ssa.Value, d int) {
		if d > 8 || found {
			return
		}
		switch x := v.(type) {
		case *ssa.UnOp:
			if fa, ok := x.X.(*ssa.FieldAddr); ok && x.Op == token.MUL && dqFieldName(fa) == name {
				found = true
			}
		case *ssa.BinOp:
			walk(x.X, d+1)
			walk(x.Y, d+1)
		case *ssa.Convert:
			walk(x.X, d+1)
		case *ssa.Phi:
			for _, e := range x.Edges {
				walk(e, d+1)
			}
		}
	}
	walk(v, 0)
	return found
}
