package main

// Engine E: option wiring. Backward value-flow slices from constructor
// arguments / field stores to their sources (command tokens, TOML struct
// fields, constants), with the constant multipliers met on the way; parsing of
// the option tables of docs/config.md.

import (
	"fmt"
	"go/constant"
	"go/token"
	"go/types"
	"math/big"
	"os"
	"sort"
	"strconv"
	"strings"

	"golang.org/x/tools/go/ssa"
)

type srcInfo struct {
	Kind  string // token | field | const | param | call | other
	Name  string // token constant name, struct field name, parameter name, callee#result
	Mult  int64  // product of constant factors between source and sink
	Const constant.Value
	At    ssa.Instruction
	Param *ssa.Parameter
	Field int // for Kind "paramfield": field index of the struct parameter Param
}

func (s srcInfo) String() string {
	m := ""
	if s.Mult != 1 {
		m = fmt.Sprintf("×%d", s.Mult)
	}
	if s.Kind == "const" {
		return fmt.Sprintf("const %s%s", s.Const, m)
	}
	return fmt.Sprintf("%s %s%s", s.Kind, s.Name, m)
}

type slicer struct {
	p       *Prog
	fn      *ssa.Function
	tokens  map[int64]string // token constant value -> name
	guards  []tokenGuard
	valueTk map[string]bool
	depth   int // helper nesting
}

// helperResult: v is the (idx-th) result of a static call to a module function with a body.
func helperResult(v ssa.Value) (*ssa.Call, int, bool) {
	idx := 0
	if ex, ok := v.(*ssa.Extract); ok {
		idx = ex.Index
		v = ex.Tuple
	}
	call, ok := v.(*ssa.Call)
	if !ok {
		return nil, 0, false
	}
	callee := call.Call.StaticCallee()
	if callee == nil || callee.Blocks == nil || !ModuleFunc(callee) {
		return nil, 0, false
	}
	return call, idx, true
}

// structFieldSources: sources of field #field of the struct value v inside s.fn
// (a load of a local struct variable: the stores into that field and whole-struct stores).
func (s *slicer) structFieldSources(v ssa.Value, field int) []srcInfo {
	switch x := v.(type) {
	case *ssa.UnOp:
		if al, ok := x.X.(*ssa.Alloc); ok && x.Op == token.MUL {
			var out []srcInfo
			for _, r := range *al.Referrers() {
				switch y := r.(type) {
				case *ssa.FieldAddr:
					if y.Field != field {
						continue
					}
					for _, rr := range *y.Referrers() {
						if st, ok := rr.(*ssa.Store); ok && st.Addr == y {
							out = append(out, s.sourcesAt(st.Val, st.Block())...)
						}
					}
				case *ssa.Store:
					if y.Addr == al {
						out = append(out, s.structFieldSources(y.Val, field)...)
					}
				case *ssa.Call:
					// p := helper(&al, tok) ; *p = value — the helper hands out the address of one of the
					// struct's fields, chosen by the token it is given (an option table)
					out = append(out, s.storesThroughHelperPointer(y, al, field)...)
				}
			}
			return out
		}
	case *ssa.Phi:
		var out []srcInfo
		for _, e := range x.Edges {
			out = append(out, s.structFieldSources(e, field)...)
		}
		return out
	}
	if st, ok := v.Type().Underlying().(*types.Struct); ok && field < st.NumFields() {
		return []srcInfo{{Kind: "field", Name: st.Field(field).Name(), Mult: 1}}
	}
	return nil
}

type tokenGuard struct {
	block *ssa.BasicBlock // block ending in `if tok == K` or `if name == "K"`
	name  string
}

func tokenConsts(p *Prog) map[int64]string {
	consts := map[int64]string{}
	sc := p.Pkg("imperatives").Types.Scope()
	for _, n := range sc.Names() {
		if cst, ok := sc.Lookup(n).(*types.Const); ok && strings.HasSuffix(cst.Type().String(), "toki.Token") {
			if v, ok := constant.Int64Val(cst.Val()); ok {
				consts[v] = n
			}
		}
	}
	return consts
}

func newSlicer(p *Prog, fn *ssa.Function) *slicer {
	s := &slicer{p: p, fn: fn, tokens: tokenConsts(p), valueTk: map[string]bool{"optTrue": true, "optFalse": true, "word": true, "num": true, "str": true, "sep": true}}
	for _, b := range fn.Blocks {
		ifi, ok := b.Instrs[len(b.Instrs)-1].(*ssa.If)
		if !ok {
			continue
		}
		bo, ok := ifi.Cond.(*ssa.BinOp)
		if !ok || bo.Op != token.EQL {
			continue
		}
		if str, ok := constString(bo.Y); ok {
			// string switch on an option / method name (addBlack, modRoute, modDest, TOML blacklist)
			if _, isConst := bo.X.(*ssa.Const); !isConst {
				s.guards = append(s.guards, tokenGuard{b, "str:" + str})
			}
			continue
		}
		k, ok := constInt(bo.Y)
		if !ok {
			continue
		}
		if _, names := fieldPath(bo.X); len(names) == 0 || names[len(names)-1] != "Token" {
			// a token passed around as a value (a helper's `tok toki.Token` parameter)
			if !strings.HasSuffix(bo.X.Type().String(), "toki.Token") {
				continue
			}
		}
		if n, ok := s.tokens[k]; ok && !s.valueTk[n] {
			s.guards = append(s.guards, tokenGuard{b, n})
		}
	}
	return s
}

// guardOf returns the option tokens whose case controls block b.
func (s *slicer) guardOf(b *ssa.BasicBlock) []string {
	var out []string
	for _, g := range s.guards {
		if edgeDominates(g.block, g.block.Succs[0], b) {
			out = append(out, g.name)
		}
	}
	sort.Strings(out)
	return out
}

var parseFuncs = map[string]bool{"strconv.Atoi": true, "strconv.ParseBool": true, "strconv.ParseFloat": true, "strconv.ParseInt": true, "strconv.ParseUint": true}

func (s *slicer) sources(v ssa.Value) []srcInfo { return s.sourcesAt(v, nil) }

// sourcesAt: like sources, for a value that is assigned in block at (the case that controls the
// assignment counts as the value's guard).
func (s *slicer) sourcesAt(v ssa.Value, at *ssa.BasicBlock) []srcInfo {
	var out []srcInfo
	type key struct {
		v   ssa.Value
		m   int64
		ctx *ssa.BasicBlock
	}
	seen := map[key]bool{}
	var recCtx func(v ssa.Value, mult int64, depth int, ctx *ssa.BasicBlock)
	add := func(si srcInfo) { out = append(out, si) }
	var ctxStack []*ssa.BasicBlock
	rec := func(v ssa.Value, mult int64, depth int) {
		var ctx *ssa.BasicBlock
		if len(ctxStack) > 0 {
			ctx = ctxStack[len(ctxStack)-1]
		}
		recCtx(v, mult, depth, ctx)
	}
	// descend: field #field of a struct returned by a module helper — continue inside the helper
	descend := func(v ssa.Value, field int, mult int64, depth int) bool {
		call, idx, ok := helperResult(v)
		if !ok || s.depth >= 3 {
			return false
		}
		callee := call.Call.StaticCallee()
		sub := newSlicer(s.p, callee)
		sub.depth = s.depth + 1
		n := 0
		allInstrs(callee, func(in ssa.Instruction) {
			ret, ok := in.(*ssa.Return)
			if !ok || idx >= len(ret.Results) {
				return
			}
			for _, si := range sub.structFieldSources(ret.Results[idx], field) {
				n++
				if si.Kind == "param" && si.Param != nil {
					// bind to the caller's argument
					for i, p := range callee.Params {
						if p == si.Param && i < len(call.Call.Args) {
							rec(call.Call.Args[i], mult*si.Mult, depth+1)
						}
					}
					continue
				}
				si.Mult *= mult
				add(si)
			}
		})
		return n > 0
	}
	throughPointer := func(addr ssa.Value, mult int64, depth int) int {
		n := 0
		for _, si := range s.pointerArgSources(addr) {
			n++
			si.Mult *= mult
			add(si)
		}
		return n
	}
	recCtx = func(v ssa.Value, mult int64, depth int, ctx *ssa.BasicBlock) {
		if v == nil || depth > 60 || seen[key{v, mult, ctx}] {
			return
		}
		seen[key{v, mult, ctx}] = true
		instr, _ := v.(ssa.Instruction)
		tokenSrc := func() bool {
			if instr == nil || instr.Block() == nil {
				return false
			}
			g := s.guardOf(instr.Block())
			if len(g) == 0 && ctx != nil {
				// the value is assigned on a control-flow edge that comes from a guarded block
				g = s.guardOf(ctx)
			}
			if len(g) == 0 {
				return false
			}
			add(srcInfo{Kind: "token", Name: strings.Join(g, "+"), Mult: mult, At: instr})
			return true
		}
		switch x := v.(type) {
		case *ssa.Const:
			add(srcInfo{Kind: "const", Const: x.Value, Mult: mult})
		case *ssa.Parameter:
			// a parameter assigned under the case of an option switch (prefix = pattern): the value given for that option
			if ctx != nil {
				if g := s.guardOf(ctx); len(g) > 0 {
					add(srcInfo{Kind: "token", Name: strings.Join(g, "+"), Mult: mult})
					return
				}
			}
			add(srcInfo{Kind: "param", Name: x.Name(), Mult: mult, Param: x})
		case *ssa.Phi:
			for i, e := range x.Edges {
				ctxStack = append(ctxStack, x.Block().Preds[i])
				rec(e, mult, depth+1)
				ctxStack = ctxStack[:len(ctxStack)-1]
			}
		case *ssa.Convert:
			// string(t.Value) is a token value; numeric conversions pass through
			if _, names := fieldPath(x.X); len(names) > 0 && names[len(names)-1] == "Value" {
				if tokenSrc() {
					return
				}
			}
			rec(x.X, mult, depth+1)
		case *ssa.ChangeType:
			rec(x.X, mult, depth+1)
		case *ssa.MakeInterface:
			rec(x.X, mult, depth+1)
		case *ssa.BinOp:
			if x.Op == token.MUL {
				if c, ok := constInt(x.Y); ok {
					rec(x.X, mult*c, depth+1)
					return
				}
				if c, ok := constInt(x.X); ok {
					rec(x.Y, mult*c, depth+1)
					return
				}
			}
			if x.Op == token.QUO {
				add(srcInfo{Kind: "other", Name: "division", Mult: mult, At: x})
				return
			}
			add(srcInfo{Kind: "other", Name: "binop " + x.Op.String(), Mult: mult, At: x})
		case *ssa.Extract:
			if call, ok := x.Tuple.(*ssa.Call); ok {
				n := calleeName(call.Common())
				if parseFuncs[n] && x.Index == 0 {
					if tokenSrc() {
						return
					}
					// parse of something else: follow the argument
					rec(call.Call.Args[0], mult, depth+1)
					return
				}
				// a piece of a string cut by the standard library (strings.Cut): like an element of strings.SplitN,
				// it belongs to the case that controls its assignment
				if n == "strings.Cut" || n == "bytes.Cut" || n == "strings.CutPrefix" || n == "strings.CutSuffix" {
					if tokenSrc() {
						return
					}
				}
				// a module helper that parses options itself (readRouteOpts): its result is fed by the option
				// tokens under whose cases the helper assigns it
				if hc, idx, ok := helperResult(x); ok && s.depth < 3 {
					g := hc.Call.StaticCallee()
					sub := newSlicer(s.p, g)
					sub.depth = s.depth + 1
					var got []srcInfo
					nTok := 0
					allInstrs(g, func(in ssa.Instruction) {
						ret, ok := in.(*ssa.Return)
						if !ok || idx >= len(ret.Results) {
							return
						}
						for _, si := range sub.sources(ret.Results[idx]) {
							if si.Kind == "token" {
								nTok++
							}
							got = append(got, si)
						}
					})
					if nTok > 0 {
						for _, si := range got {
							if si.Kind == "param" || si.Kind == "paramfield" {
								continue
							}
							si.Mult *= mult
							add(si)
						}
						return
					}
				}
				// a module helper that reads the option's value from the scanner (readOptWord(s)):
				// its result is a token value; the option it belongs to is the case the call sits in
				if hc, idx, ok := helperResult(x); ok && s.depth < 3 {
					if hm, ok := tokenValueMult(s, hc.Call.StaticCallee(), idx, 0); ok {
						saved := mult
						mult *= hm
						done := tokenSrc()
						mult = saved
						if done {
							return
						}
					}
				}
				add(srcInfo{Kind: "call", Name: fmt.Sprintf("%s#%d", short(n), x.Index), Mult: mult, At: call})
				return
			}
			if _, isNext := x.Tuple.(*ssa.Next); isNext {
				if tokenSrc() {
					return
				}
			}
			add(srcInfo{Kind: "other", Name: "extract", Mult: mult})
		case *ssa.Call:
			n := calleeName(x.Common())
			if n == "strings.TrimSpace" || n == "strings.ToLower" {
				rec(x.Call.Args[0], mult, depth+1)
				return
			}
			add(srcInfo{Kind: "call", Name: short(n), Mult: mult, At: x})
		case *ssa.UnOp:
			if x.Op == token.MUL {
				switch a := x.X.(type) {
				case *ssa.Alloc:
					n := 0
					for _, r := range *a.Referrers() {
						if st, ok := r.(*ssa.Store); ok && st.Addr == a {
							n++
							rec(st.Val, mult, depth+1)
						}
					}
					// the variable's address sits in a table of {name, target} entries and is written through the
					// pointer selected by comparing the names with the option given: the value written that way
					// is the value given for the option the entry names
					n += throughPointer(a, mult, depth)
					// the variable's address is one of the alternatives of a pointer selected under the option
					// switch (`p = &prefix` … `*p = value`): the value stored through the pointer belongs to the
					// case that selected this variable
					for _, ss := range selectedPointerStores(a) {
						n++
						recCtx(ss.st.Val, mult, depth+1, ss.sel)
					}
					for _, name := range pointerTableNames(a) {
						if vals := storesThroughTablePointer(s.fn, a); len(vals) > 0 {
							n++
							add(srcInfo{Kind: "token", Name: "str:" + name, Mult: mult, At: vals[0]})
						}
					}
					if n == 0 {
						add(srcInfo{Kind: "other", Name: "uninitialised local", Mult: mult})
					}
					return
				case *ssa.FieldAddr:
					f := fieldOfAddr(a)
					// field of a local struct variable: follow stores into that field
					if al, ok := a.X.(*ssa.Alloc); ok {
						n := 0
						for _, r := range *al.Referrers() {
							if fa2, ok := r.(*ssa.FieldAddr); ok && fa2.Field == a.Field {
								for _, rr := range *fa2.Referrers() {
									if st, ok := rr.(*ssa.Store); ok && st.Addr == fa2 {
										n++
										rec(st.Val, mult, depth+1)
									}
								}
								n += throughPointer(fa2, mult, depth)
								for _, ss := range selectedPointerStores(fa2) {
									n++
									recCtx(ss.st.Val, mult, depth+1, ss.sel)
								}
							}
						}
						// plus whole-struct initialisation
						for _, r := range *al.Referrers() {
							if st, ok := r.(*ssa.Store); ok && st.Addr == al {
								if descend(st.Val, a.Field, mult, depth) {
									n++
									continue
								}
								if p, ok := st.Val.(*ssa.Parameter); ok {
									// a struct parameter copied into a local (value receiver): its field
									add(srcInfo{Kind: "paramfield", Name: f.Name(), Mult: mult, Param: p, Field: a.Field, At: st})
									n++
									continue
								}
								name := f.Name()
								if _, fromCall := st.Val.(*ssa.Extract); fromCall {
									name += "@init" // initial value produced by a constructor call
								} else if _, fromCall := st.Val.(*ssa.Call); fromCall {
									name += "@init"
								}
								add(srcInfo{Kind: "field", Name: name, Mult: mult, At: st})
								n++
							}
						}
						if n > 0 {
							return
						}
					}
					add(srcInfo{Kind: "field", Name: f.Name(), Mult: mult, At: x})
					return
				case *ssa.IndexAddr:
					if tokenSrc() {
						return
					}
					add(srcInfo{Kind: "other", Name: "element", Mult: mult})
					return
				}
			}
			if x.Op == token.SUB {
				rec(x.X, -mult, depth+1)
				return
			}
			add(srcInfo{Kind: "other", Name: "unop " + x.Op.String(), Mult: mult})
		case *ssa.Field:
			st := x.X.Type().Underlying().(*types.Struct)
			if descend(x.X, x.Field, mult, depth) {
				return
			}
			if p, ok := x.X.(*ssa.Parameter); ok {
				add(srcInfo{Kind: "paramfield", Name: st.Field(x.Field).Name(), Mult: mult, Param: p, Field: x.Field, At: x})
				return
			}
			add(srcInfo{Kind: "field", Name: st.Field(x.Field).Name(), Mult: mult, At: x})
		case *ssa.Slice:
			rec(x.X, mult, depth+1)
		default:
			add(srcInfo{Kind: "other", Name: fmt.Sprintf("%T", v), Mult: mult})
		}
	}
	if at != nil {
		ctxStack = append(ctxStack, at)
	}
	rec(v, 1, 0)
	return out
}

// ---------------------------------------------------------------------------
// docs/config.md tables

type docRow struct {
	Setting, Values, Default, Desc string
}

// docTable returns the first markdown table following a heading that contains `heading`.
func docTable(file, heading string) ([]docRow, error) {
	b, err := os.ReadFile(file)
	if err != nil {
		return nil, err
	}
	var rows []docRow
	in, started := false, false
	for _, l := range strings.Split(string(b), "\n") {
		if strings.HasPrefix(l, "#") && !strings.HasPrefix(l, "#!") && strings.HasPrefix(strings.TrimLeft(l, "#"), " ") {
			if in && started {
				break
			}
			title := strings.ToLower(strings.TrimSpace(strings.TrimLeft(l, "#")))
			in = title == strings.ToLower(heading)
			continue
		}
		if !in {
			continue
		}
		if !strings.Contains(l, "|") {
			if started && strings.TrimSpace(l) == "" {
				break
			}
			continue
		}
		cells := strings.Split(l, "|")
		for i := range cells {
			cells[i] = strings.TrimSpace(cells[i])
		}
		if cells[0] == "setting" || strings.HasPrefix(cells[0], "---") {
			started = true
			continue
		}
		if len(cells) < 4 {
			continue
		}
		started = true
		r := docRow{Setting: cells[0], Values: cells[2], Default: cells[3]}
		if len(cells) > 4 {
			r.Desc = cells[4]
		}
		rows = append(rows, r)
	}
	if len(rows) == 0 {
		return nil, fmt.Errorf("no option table under heading %q in %s", heading, file)
	}
	return rows, nil
}

// parseDocDefault converts a documented default ("10k", "2M", "200MiB", "(10MB - 4KB)", "1.5", "true", `""`) to a constant.
func parseDocDefault(s string) (constant.Value, bool) {
	s = strings.TrimSpace(s)
	switch s {
	case `""`, "''":
		return constant.MakeString(""), true
	case "true":
		return constant.MakeBool(true), true
	case "false":
		return constant.MakeBool(false), true
	case "N/A", "":
		return nil, false
	}
	if strings.HasPrefix(s, "(") && strings.HasSuffix(s, ")") {
		parts := strings.Split(strings.Trim(s, "()"), "-")
		if len(parts) == 2 {
			a, ok1 := parseDocDefault(parts[0])
			b, ok2 := parseDocDefault(parts[1])
			if ok1 && ok2 {
				return constant.BinaryOp(a, token.SUB, b), true
			}
		}
		return nil, false
	}
	mult := int64(1)
	num := s
	for _, suf := range []struct {
		s string
		m int64
	}{{"MiB", 1024 * 1024}, {"KiB", 1024}, {"MB", 1000 * 1000}, {"KB", 1024}, {"M", 1000 * 1000}, {"k", 1000}} {
		if strings.HasSuffix(num, suf.s) {
			mult = suf.m
			num = strings.TrimSpace(strings.TrimSuffix(num, suf.s))
			break
		}
	}
	if i, err := strconv.ParseInt(num, 10, 64); err == nil {
		return constant.MakeInt64(i * mult), true
	}
	if f, err := strconv.ParseFloat(num, 64); err == nil && mult == 1 {
		return constant.MakeFloat64(f), true
	}
	// quoted or bare word string default (e.g. gzip)
	if !strings.ContainsAny(s, " ()") {
		return constant.MakeString(strings.Trim(s, `"'`)), true
	}
	return nil, false
}

// unitOf: "int (ms)" -> nanoseconds per unit
func unitOf(values string) int64 {
	v := strings.ToLower(values)
	switch {
	case strings.Contains(v, "(ms)"):
		return 1000 * 1000
	case strings.Contains(v, "(micros)"):
		return 1000
	case strings.Contains(v, "(s)"):
		return 1
	}
	return 1
}

func constEqual(a, b constant.Value) bool {
	if a == nil || b == nil {
		return false
	}
	if a.Kind() == constant.String || b.Kind() == constant.String || a.Kind() == constant.Bool || b.Kind() == constant.Bool {
		return a.Kind() == b.Kind() && a.ExactString() == b.ExactString()
	}
	return constant.Compare(constant.ToFloat(a), token.EQL, constant.ToFloat(b))
}

func mulConst(c constant.Value, m int64) constant.Value {
	if m == 1 || c == nil || (c.Kind() != constant.Int && c.Kind() != constant.Float) {
		return c
	}
	return constant.BinaryOp(c, token.MUL, constant.MakeInt64(m))
}

var _ = big.NewInt

// readMarkdownTable returns the first column of the table that follows the heading `heading`
// and whose header row starts with `firstHeader`.
func readMarkdownTable(file, heading, firstHeader string) ([]string, error) {
	b, err := os.ReadFile(file)
	if err != nil {
		return nil, err
	}
	var out []string
	in, started := false, false
	for _, l := range strings.Split(string(b), "\n") {
		if strings.HasPrefix(l, "#") {
			if in && started {
				break
			}
			in = strings.EqualFold(strings.TrimSpace(strings.TrimLeft(l, "#")), heading)
			continue
		}
		if !in || !strings.Contains(l, "|") {
			if in && started && strings.TrimSpace(l) == "" {
				break
			}
			continue
		}
		cells := strings.Split(l, "|")
		first := strings.TrimSpace(cells[0])
		if first == "" && len(cells) > 1 {
			first = strings.TrimSpace(cells[1])
		}
		if strings.EqualFold(first, firstHeader) || strings.HasPrefix(first, "---") {
			started = true
			continue
		}
		started = true
		out = append(out, first)
	}
	if len(out) == 0 {
		return nil, fmt.Errorf("no table with header %q under heading %q in %s", firstHeader, heading, file)
	}
	return out, nil
}

// returnsTokenValue: result #idx of helper g is, on every return, a constant or the Value of a
// scanner token read inside g.
func returnsTokenValue(s *slicer, g *ssa.Function, idx int) bool {
	_, ok := tokenValueMult(s, g, idx, 0)
	return ok
}

// tokenValueMult: like returnsTokenValue, also through helpers that call such helpers
// (readMillisOpt → readIntOpt), with the constant factor applied to the token's value on the way.
func tokenValueMult(s *slicer, g *ssa.Function, idx int, depth int) (int64, bool) {
	if g == nil || len(g.Blocks) == 0 || depth > 3 {
		return 0, false
	}
	sub := newSlicer(s.p, g)
	sub.depth = s.depth + 1
	nTok := 0
	ok := true
	var m int64
	setM := func(x int64) {
		if nTok > 0 && m != x {
			ok = false
		}
		m = x
		nTok++
	}
	allInstrs(g, func(in ssa.Instruction) {
		ret, isRet := in.(*ssa.Return)
		if !isRet || idx >= len(ret.Results) {
			return
		}
		for _, si := range sub.sources(ret.Results[idx]) {
			switch {
			case si.Kind == "const":
			case si.Kind == "field" && si.Name == "Value":
				setM(si.Mult)
			case si.Kind == "call":
				call, isCall := si.At.(*ssa.Call)
				if !isCall {
					ok = false
					continue
				}
				h := call.Call.StaticCallee()
				// which result of h? recorded in the name as "#k"
				k := 0
				if i := strings.LastIndex(si.Name, "#"); i >= 0 {
					fmt.Sscanf(si.Name[i+1:], "%d", &k)
				}
				im, iok := tokenValueMult(s, h, k, depth+1)
				if !iok {
					ok = false
					continue
				}
				setM(si.Mult * im)
			default:
				ok = false
			}
		}
	})
	if !ok || nTok == 0 {
		return 0, false
	}
	return m, true
}

// storesThroughHelperPointer: call passes the struct variable al (by address) to a module helper
// that returns a pointer; where the helper returns the address of field #field of that struct,
// the guards under which it does so (in the helper) say which option token the values later
// stored through the returned pointer belong to.
func (s *slicer) storesThroughHelperPointer(call *ssa.Call, al *ssa.Alloc, field int) []srcInfo {
	g := call.Call.StaticCallee()
	if g == nil || g.Blocks == nil || !ModuleFunc(g) || s.depth >= 3 {
		return nil
	}
	argIdx := -1
	for i, a := range call.Call.Args {
		if a == ssa.Value(al) {
			argIdx = i
		}
	}
	if argIdx < 0 || argIdx >= len(g.Params) {
		return nil
	}
	recv := g.Params[argIdx]
	var out []srcInfo
	sub := newSlicer(s.p, g)
	sub.depth = s.depth + 1
	// results of the call that are pointers, and whether something is stored through them
	for _, r := range *call.Referrers() {
		ex, ok := r.(*ssa.Extract)
		if !ok {
			continue
		}
		if _, isPtr := ex.Type().(*types.Pointer); !isPtr {
			continue
		}
		stored := false
		for _, rr := range *ex.Referrers() {
			if st, ok := rr.(*ssa.Store); ok && st.Addr == ssa.Value(ex) {
				stored = true
			}
		}
		if !stored {
			continue
		}
		allInstrs(g, func(in ssa.Instruction) {
			ret, ok := in.(*ssa.Return)
			if !ok || ex.Index >= len(ret.Results) {
				return
			}
			fa, ok := ret.Results[ex.Index].(*ssa.FieldAddr)
			if !ok || fa.X != ssa.Value(recv) || fa.Field != field {
				return
			}
			names := sub.guardOf(ret.Block())
			if len(names) == 0 {
				out = append(out, srcInfo{Kind: "other", Name: "field address handed out unconditionally", Mult: 1, At: ret})
				return
			}
			out = append(out, srcInfo{Kind: "token", Name: strings.Join(names, "+"), Mult: 1, At: ret})
		})
	}
	return out
}

// fieldOfValue: sources of field #field of the struct value v inside s.fn (a local struct variable,
// or the struct result of a module helper).
func (s *slicer) fieldOfValue(v ssa.Value, field int) []srcInfo {
	if call, idx, ok := helperResult(v); ok && s.depth < 3 {
		callee := call.Call.StaticCallee()
		sub := newSlicer(s.p, callee)
		sub.depth = s.depth + 1
		var out []srcInfo
		allInstrs(callee, func(in ssa.Instruction) {
			ret, ok := in.(*ssa.Return)
			if !ok || idx >= len(ret.Results) {
				return
			}
			out = append(out, sub.structFieldSources(ret.Results[idx], field)...)
		})
		if len(out) > 0 {
			return out
		}
	}
	return s.structFieldSources(v, field)
}

// pointerTableNames: the address of a is stored into field P of element i of a local array of structs
// whose other field of element i holds a string constant; returns those constants.
func pointerTableNames(a *ssa.Alloc) []string {
	var out []string
	for _, r := range *a.Referrers() {
		st, ok := r.(*ssa.Store)
		if !ok || st.Val != ssa.Value(a) {
			continue
		}
		fa, ok := st.Addr.(*ssa.FieldAddr)
		if !ok {
			continue
		}
		ia, ok := fa.X.(*ssa.IndexAddr)
		if !ok {
			continue
		}
		idx, ok := constInt(ia.Index)
		if !ok {
			continue
		}
		arr := ia.X
		for _, ar := range *arr.Referrers() {
			ia2, ok := ar.(*ssa.IndexAddr)
			if !ok {
				continue
			}
			if k, ok := constInt(ia2.Index); !ok || k != idx {
				continue
			}
			for _, r2 := range *ia2.Referrers() {
				fa2, ok := r2.(*ssa.FieldAddr)
				if !ok || fa2.Field == fa.Field {
					continue
				}
				for _, r3 := range *fa2.Referrers() {
					if st2, ok := r3.(*ssa.Store); ok && st2.Addr == ssa.Value(fa2) {
						if str, ok := constString(st2.Val); ok {
							out = append(out, str)
						}
					}
				}
			}
		}
	}
	return out
}

// storesThroughTablePointer: the stores `*p = v` in fn whose pointer p is read from a field of a table
// element (a loop variable holding a copy of the element, or the element itself), where the element is
// selected by an equality test on another field of the same element. Returns the store instructions.
func storesThroughTablePointer(fn *ssa.Function, a *ssa.Alloc) []ssa.Instruction {
	var out []ssa.Instruction
	fromTableField := func(v ssa.Value) bool {
		seen := map[ssa.Value]bool{}
		var walk func(v ssa.Value, d int) bool
		walk = func(v ssa.Value, d int) bool {
			if d > 8 || seen[v] {
				return false
			}
			seen[v] = true
			switch x := v.(type) {
			case *ssa.Phi:
				for _, e := range x.Edges {
					if c, ok := e.(*ssa.Const); ok && c.IsNil() {
						continue
					}
					if walk(e, d+1) {
						return true
					}
				}
			case *ssa.UnOp:
				if fa, ok := x.X.(*ssa.FieldAddr); ok && x.Op == token.MUL {
					if pt, ok := fa.X.Type().Underlying().(*types.Pointer); ok {
						if _, isStruct := pt.Elem().Underlying().(*types.Struct); isStruct {
							return true
						}
					}
				}
				if al, ok := x.X.(*ssa.Alloc); ok {
					for _, r := range *al.Referrers() {
						if st, ok := r.(*ssa.Store); ok && st.Addr == ssa.Value(al) && walk(st.Val, d+1) {
							return true
						}
					}
				}
			case *ssa.Field:
				return true
			}
			return false
		}
		return walk(v, 0)
	}
	allInstrs(fn, func(in ssa.Instruction) {
		st, ok := in.(*ssa.Store)
		if !ok {
			return
		}
		if _, isAlloc := st.Addr.(*ssa.Alloc); isAlloc {
			return
		}
		if _, isFA := st.Addr.(*ssa.FieldAddr); isFA {
			return
		}
		if _, isIA := st.Addr.(*ssa.IndexAddr); isIA {
			return
		}
		pt, ok := st.Addr.Type().Underlying().(*types.Pointer)
		if !ok || !types.Identical(pt.Elem(), a.Type().Underlying().(*types.Pointer).Elem()) {
			return
		}
		if fromTableField(st.Addr) {
			out = append(out, in)
		}
	})
	return out
}

// pointerArgSources: addr (a local variable or a field of one) is handed to a module helper that stores
// through the pointer (overrideInt(&bufSize, routeConfig.BufSize)): the sources of the values the
// helper stores, with its parameters bound to the arguments of that call.
func (s *slicer) pointerArgSources(addr ssa.Value) []srcInfo {
	var out []srcInfo
	refs := addr.Referrers()
	if refs == nil || s.depth >= 3 {
		return nil
	}
	for _, r := range *refs {
		call, ok := r.(*ssa.Call)
		if !ok {
			continue
		}
		g := call.Call.StaticCallee()
		if g == nil || g.Blocks == nil || !ModuleFunc(g) {
			continue
		}
		for ai, a := range call.Call.Args {
			if a != addr || ai >= len(g.Params) {
				continue
			}
			ptr := g.Params[ai]
			sub := newSlicer(s.p, g)
			sub.depth = s.depth + 1
			allInstrs(g, func(in ssa.Instruction) {
				st, ok := in.(*ssa.Store)
				if !ok || st.Addr != ssa.Value(ptr) {
					return
				}
				for _, si := range sub.sources(st.Val) {
					if si.Kind == "param" && si.Param != nil {
						for pi, p := range g.Params {
							if p == si.Param && pi < len(call.Call.Args) {
								for _, x := range s.sourcesAt(call.Call.Args[pi], call.Block()) {
									x.Mult *= si.Mult
									out = append(out, x)
								}
							}
						}
						continue
					}
					out = append(out, si)
				}
			})
		}
	}
	return out
}

// selectedPointerStores: addr (the address of a local variable or of a field of one) is one of the
// alternatives of a pointer that is chosen on control-flow edges (`var p *T; switch … case X: p = &a …`)
// and written through afterwards (`*p = v`). Returns those stores together with the block from which the
// edge that selects addr comes (the case that controls the choice).
type selectedStore struct {
	st  *ssa.Store
	sel *ssa.BasicBlock
}

func selectedPointerStores(addr ssa.Value) []selectedStore {
	var out []selectedStore
	refs := addr.Referrers()
	if refs == nil {
		return nil
	}
	seen := map[*ssa.Phi]bool{}
	var follow func(phi *ssa.Phi, sel *ssa.BasicBlock)
	follow = func(phi *ssa.Phi, sel *ssa.BasicBlock) {
		if seen[phi] {
			return
		}
		seen[phi] = true
		for _, r := range *phi.Referrers() {
			switch y := r.(type) {
			case *ssa.Store:
				if y.Addr == ssa.Value(phi) {
					out = append(out, selectedStore{y, sel})
				}
			case *ssa.Phi:
				follow(y, sel)
			}
		}
	}
	for _, r := range *refs {
		phi, ok := r.(*ssa.Phi)
		if !ok {
			continue
		}
		for i, e := range phi.Edges {
			if e == addr {
				seen = map[*ssa.Phi]bool{}
				follow(phi, phi.Block().Preds[i])
			}
		}
	}
	return out
}
