package main

// Engine F: crash-site obligations. Enumerates instructions that can panic or
// exit the process in functions that run after start-up, and tries to discharge
// each by a dominating guard, by constructor validation traced through fields,
// parameters and callers, or by a reviewed table entry whose structural
// precondition is re-checked.

import (
	"fmt"
	"go/constant"
	"go/token"
	"go/types"
	"math"
	"sort"
	"strings"
	"sync"

	"golang.org/x/tools/go/ssa"
)

type need int

const (
	needPos     need = iota // > 0
	needNonZero             // != 0
	needNonNeg              // >= 0
)

func (n need) String() string { return [...]string{"> 0", "!= 0", ">= 0"}[n] }

type crashSite struct {
	Class string // K1..K11
	Fn    *ssa.Function
	In    ssa.Instruction
	Val   ssa.Value // operand that must satisfy Need (K3,K4,K6)
	Need  need
	What  string // short description of the operand / construct (stable, no positions)
}

func (s crashSite) Key() string {
	return fmt.Sprintf("%s %s %s", s.Class, stableFuncName(s.Fn), s.What)
}

// stableFuncName: like FuncName, but a closure is named after what it does (the first function it
// calls) instead of its position among the closures of the enclosing function, which changes
// whenever a sibling closure is added, removed or turned into a named function.
func stableFuncName(fn *ssa.Function) string {
	if fn.Parent() == nil {
		return FuncName(fn)
	}
	tag := ""
	allInstrs(fn, func(in ssa.Instruction) {
		if tag != "" {
			return
		}
		if cc := callCommon(in); cc != nil {
			n := calleeName(cc)
			if _, isB := cc.Value.(*ssa.Builtin); isB || strings.Contains(n, "logrus") || strings.HasPrefix(n, "fmt.") || strings.HasPrefix(n, "log.") {
				return
			}
			tag = short(n)
		}
	})
	if tag == "" {
		return FuncName(fn)
	}
	return stableFuncName(fn.Parent()) + "$[" + tag + "]"
}

// runtimeFunctions: functions that can execute after start-up.
func runtimeFunctions(p *Prog) (rt map[*ssa.Function]*CGEdge, startup map[*ssa.Function]*CGEdge) {
	cg := p.CG()
	mainFn := p.Func("cmd/carbon-relay-ng", "", "main")
	fromMain := cg.Reach([]*ssa.Function{mainFn}, allKinds, nil)
	var roots []*ssa.Function
	seen := map[*ssa.Function]bool{}
	addRoot := func(f *ssa.Function) {
		if f != nil && !seen[f] {
			seen[f] = true
			roots = append(roots, f)
		}
	}
	for fn := range fromMain {
		for _, e := range cg.Out[fn] {
			if e.Kind == EdgeGo && e.Callee != nil {
				addRoot(e.Callee)
			}
			if e.Kind == EdgeRef && e.Callee != nil {
				// callbacks registered with libraries (http handlers, telnet handlers): run later
				if sc := callCommon(e.Site); sc != nil {
					if callee := sc.StaticCallee(); callee == nil || !ModuleFunc(callee) || callee.Blocks == nil {
						addRoot(e.Callee)
					}
				}
			}
		}
	}
	// explicit entry points
	for _, ep := range [][3]string{{"input", "*Plain", "Handle"}, {"input", "*Pickle", "Handle"}, {"input", "*Amqp", "consumeAMQP"}, {"imperatives", "", "Apply"}, {"table", "*Table", "Dispatch"}, {"table", "*Table", "IncNumInvalid"},
		{"ui/telnet", "", "tcpModHandler"}, {"ui/telnet", "", "tcpViewHandler"}} {
		addRoot(p.Func(ep[0], ep[1], ep[2]))
	}
	sort.Slice(roots, func(i, j int) bool { return roots[i].String() < roots[j].String() })
	rt = cg.Reach(roots, allKinds, nil)
	startup = map[*ssa.Function]*CGEdge{}
	for fn, e := range fromMain {
		if _, ok := rt[fn]; !ok {
			startup[fn] = e
		}
	}
	return rt, startup
}

func isIntType(t types.Type) (isInt, unsigned bool) {
	b, ok := t.Underlying().(*types.Basic)
	if !ok {
		return false, false
	}
	if b.Info()&types.IsInteger == 0 {
		return false, false
	}
	return true, b.Info()&types.IsUnsigned != 0
}

var fatalCalls = map[string]bool{
	"github.com/sirupsen/logrus.Fatal": true, "github.com/sirupsen/logrus.Fatalf": true, "github.com/sirupsen/logrus.Fatalln": true,
	"log.Fatal": true, "log.Fatalf": true, "log.Fatalln": true, "os.Exit": true,
	"github.com/aws/aws-sdk-go/aws/session.Must": true, "log.Panic": true, "log.Panicf": true, "github.com/sirupsen/logrus.Panic": true, "github.com/sirupsen/logrus.Panicf": true,
}

// describeValTyped: like describeVal, with the root of a field path always named by its type.
func describeValTyped(v ssa.Value) string {
	root, names := fieldPath(v)
	if len(names) > 0 {
		return short(types.TypeString(root.Type(), nil)) + "." + strings.Join(names, ".")
	}
	return describeVal(v)
}

func describeVal(v ssa.Value) string {
	root, names := fieldPath(v)
	if len(names) > 0 {
		rn := ""
		switch r := root.(type) {
		case *ssa.Parameter:
			rn = r.Name()
		case *ssa.FreeVar:
			rn = r.Name()
		default:
			rn = short(types.TypeString(root.Type(), nil))
		}
		return rn + "." + strings.Join(names, ".")
	}
	switch x := v.(type) {
	case *ssa.Parameter:
		return "param " + x.Name()
	case *ssa.Convert:
		return describeVal(x.X)
	case *ssa.ChangeType:
		return describeVal(x.X)
	case *ssa.BinOp:
		return describeVal(x.X) + x.Op.String() + describeVal(x.Y)
	case *ssa.Const:
		return x.Value.String()
	case *ssa.Call:
		if b, ok := x.Call.Value.(*ssa.Builtin); ok && len(x.Call.Args) > 0 {
			return b.Name() + "(" + describeVal(x.Call.Args[0]) + ")"
		}
		return short(calleeName(x.Common())) + "()"
	case *ssa.Phi:
		if x.Comment != "" {
			return "var " + x.Comment
		}
	case *ssa.Extract:
		return describeVal(x.Tuple) + "#" + itoa(x.Index)
	case *ssa.UnOp:
		if a, ok := x.X.(*ssa.Alloc); ok {
			return "var " + a.Comment
		}
		return describeVal(x.X)
	case *ssa.FreeVar:
		return "var " + x.Name()
	}
	return short(types.TypeString(v.Type(), nil))
}

func enumerateCrashSites(p *Prog, fns map[*ssa.Function]*CGEdge) []crashSite {
	var out []crashSite
	var list []*ssa.Function
	for fn := range fns {
		if fn.Blocks != nil && ModuleFunc(fn) && fn.Synthetic == "" {
			list = append(list, fn)
		}
	}
	sort.Slice(list, func(i, j int) bool { return list[i].String() < list[j].String() })
	for _, fn := range list {
		fn := fn
		counts := map[string]int{}
		add := func(s crashSite) {
			counts[s.Class+s.What]++
			if n := counts[s.Class+s.What]; n > 1 {
				s.What += fmt.Sprintf(" #%d", n)
			}
			out = append(out, s)
		}
		allInstrs(fn, func(in ssa.Instruction) {
			switch x := in.(type) {
			case *ssa.Panic:
				if mi, ok := x.X.(*ssa.MakeInterface); ok {
					if str, ok := constString(mi.X); ok && str == "blocking select matched no case" {
						return // synthesized by go/ssa for select statements; unreachable
					}
				}
				add(crashSite{Class: "K1", Fn: fn, In: in, What: "panic"})
			case *ssa.BinOp:
				if x.Op == token.QUO || x.Op == token.REM {
					if isInt, uns := isIntType(x.Y.Type()); isInt {
						if _, isConst := x.Y.(*ssa.Const); !isConst {
							n := needNonZero
							_ = uns
							add(crashSite{Class: "K3", Fn: fn, In: in, Val: x.Y, Need: n, What: x.Op.String() + " " + describeVal(x.Y)})
						}
					}
				}
			case *ssa.TypeAssert:
				if !x.CommaOk {
					add(crashSite{Class: "K5", Fn: fn, In: in, Val: x.X, What: ".(" + short(types.TypeString(x.AssertedType, nil)) + ")"})
				}
			case *ssa.MakeChan:
				if _, isConst := x.Size.(*ssa.Const); !isConst {
					add(crashSite{Class: "K6", Fn: fn, In: in, Val: x.Size, Need: needNonNeg, What: "make(chan) size " + describeVal(x.Size)})
				}
			case *ssa.MakeSlice:
				for _, sz := range []ssa.Value{x.Len, x.Cap} {
					if _, isConst := sz.(*ssa.Const); !isConst {
						if call, ok := sz.(*ssa.Call); ok {
							if b, ok := call.Call.Value.(*ssa.Builtin); ok && b.Name() == "len" {
								continue
							}
						}
						add(crashSite{Class: "K6", Fn: fn, In: in, Val: sz, Need: needNonNeg, What: "make([]) size " + describeSize(sz)})
						break
					}
				}
			case *ssa.Lookup:
				// K11: map lookup without comma-ok whose pointer result is dereferenced
				if !x.CommaOk {
					if _, isMap := x.X.Type().Underlying().(*types.Map); isMap {
						if _, isPtr := x.Type().Underlying().(*types.Pointer); isPtr {
							deref := false
							for _, r := range *x.Referrers() {
								switch r.(type) {
								case *ssa.FieldAddr, *ssa.UnOp:
									deref = true
								}
							}
							if deref {
								add(crashSite{Class: "K11", Fn: fn, In: in, Val: x.X, What: "deref of map lookup " + describeVal(x.X)})
							}
						}
					}
				}
			case *ssa.Slice:
				// K9: s[c:len(s)-d] style slicing with constant offsets
				if x.Low != nil && x.High != nil {
					if lo, ok := constInt(x.Low); ok && lo > 0 {
						if bo, ok := x.High.(*ssa.BinOp); ok && bo.Op == token.SUB {
							if d, ok := constInt(bo.Y); ok && isLenOf(bo.X, x.X) {
								add(crashSite{Class: "K9", Fn: fn, In: in, Val: x.X, What: fmt.Sprintf("slice [%d:len-%d] of %s", lo, d, describeVal(x.X))})
							}
						}
					}
				}
			}
			if cc := callCommon(in); cc != nil {
				n := calleeName(cc)
				if fatalCalls[n] {
					add(crashSite{Class: "K2", Fn: fn, In: in, What: short(n)})
				}
				if n == "time.NewTicker" || n == "time.Tick" {
					if _, isConst := cc.Args[0].(*ssa.Const); !isConst {
						add(crashSite{Class: "K4", Fn: fn, In: in, Val: cc.Args[0], Need: needPos, What: short(n) + "(" + describeVal(cc.Args[0]) + ")"})
					}
				}
				if strings.HasPrefix(n, "(*regexp.Regexp).") && len(cc.Args) > 0 {
					if _, names := fieldPath(cc.Args[0]); len(names) > 0 {
						add(crashSite{Class: "K7", Fn: fn, In: in, Val: cc.Args[0], What: short(n) + " on " + describeVal(cc.Args[0])})
					}
				}
				// K12: call of a function value taken out of a package-level table (array, slice or map of funcs)
				if !cc.IsInvoke() && cc.StaticCallee() == nil {
					if _, isB := cc.Value.(*ssa.Builtin); !isB {
						if g, how := funcTableElement(cc.Value); g != nil {
							add(crashSite{Class: "K12", Fn: fn, In: in, Val: cc.Value, What: "call of an element of " + g.Name() + " (" + how + ")"})
						}
					}
				}
				if b, ok := cc.Value.(*ssa.Builtin); ok && b.Name() == "close" {
					if f, ok := chanField(cc.Args[0]); ok {
						add(crashSite{Class: "K8", Fn: fn, In: in, Val: cc.Args[0], What: "close(" + f.Name() + ")"})
					}
				}
			}
			// K9: constant index into a slice
			if ia, ok := in.(*ssa.IndexAddr); ok {
				if k, ok := constInt(ia.Index); ok {
					if _, isSlice := ia.X.Type().Underlying().(*types.Slice); isSlice {
						add(crashSite{Class: "K9", Fn: fn, In: in, Val: ia.X, What: fmt.Sprintf("index [%d] of %s", k, describeVal(ia.X))})
					}
				}
			}
		})
	}
	return out
}

func isLenOf(v, of ssa.Value) bool {
	call, ok := v.(*ssa.Call)
	if !ok {
		return false
	}
	b, ok := call.Call.Value.(*ssa.Builtin)
	return ok && b.Name() == "len" && call.Call.Args[0] == of
}

// ---------------------------------------------------------------------------
// discharge

type discharger struct {
	p    *Prog
	cg   *CallGraph
	memo map[string]string
	// stores into each struct field across the module
	fieldStores map[*types.Var][]*ssa.Store
}

func newDischarger(p *Prog) *discharger {
	registerCG(p)
	d := &discharger{p: p, cg: p.CG(), memo: map[string]string{}, fieldStores: map[*types.Var][]*ssa.Store{}}
	for _, fn := range p.Funcs {
		allInstrs(fn, func(in ssa.Instruction) {
			if st, ok := in.(*ssa.Store); ok {
				if fa, ok := st.Addr.(*ssa.FieldAddr); ok {
					f := fieldOfAddr(fa)
					d.fieldStores[f] = append(d.fieldStores[f], st)
				}
			}
		})
	}
	return d
}

// sameLoc: two values denote the same variable/field (same SSA value, or the same field path from the same root).
func sameLoc(a, b ssa.Value) bool {
	if a == b {
		return true
	}
	ra, na := fieldPath(a)
	rb, nb := fieldPath(b)
	if len(na) == 0 || len(na) != len(nb) || strip(ra) != strip(rb) {
		return false
	}
	for i := range na {
		if na[i] != nb[i] {
			return false
		}
	}
	return true
}

// relatedTo: a guard on g tells something about v (same location, or one is an arithmetic image of the other).
func relatedTo(g, v ssa.Value, depth int) bool {
	if depth > 6 {
		return false
	}
	if sameLoc(g, v) {
		return true
	}
	// v is a conversion of the guarded value (sign facts carry over between integer types of one width;
	// arithmetic on the guarded value does not: v*k can wrap, v/k can become 0, v±k shifts the sign)
	unwrapV := func(x ssa.Value) ssa.Value {
		switch y := x.(type) {
		case *ssa.Convert:
			if sameWidthInts(y.X.Type(), y.Type()) {
				return y.X
			}
		case *ssa.ChangeType:
			return y.X
		}
		return nil
	}
	// the guard is on an expression computed from v: g = v/k > 0 (k > 0) implies v > 0
	unwrapG := func(x ssa.Value) ssa.Value {
		switch y := x.(type) {
		case *ssa.Convert:
			if sameWidthInts(y.X.Type(), y.Type()) {
				return y.X
			}
		case *ssa.ChangeType:
			return y.X
		case *ssa.BinOp:
			if k, ok := constInt(y.Y); ok && k > 0 && y.Op == token.QUO {
				return y.X
			}
		}
		return nil
	}
	if w := unwrapV(v); w != nil && relatedTo(g, w, depth+1) {
		return true
	}
	if w := unwrapG(g); w != nil && relatedTo(w, v, depth+1) {
		return true
	}
	return false
}

// sameWidthInts: both are integer types of the same size (a conversion keeps x != 0; it keeps the sign
// facts the guards establish as long as the source is known non-negative).
func sameWidthInts(a, b types.Type) bool {
	ba, ok1 := a.Underlying().(*types.Basic)
	bb, ok2 := b.Underlying().(*types.Basic)
	if !ok1 || !ok2 || ba.Info()&types.IsInteger == 0 || bb.Info()&types.IsInteger == 0 {
		return false
	}
	return intBits(ba) == intBits(bb)
}

func intBits(b *types.Basic) int {
	switch b.Kind() {
	case types.Int8, types.Uint8:
		return 8
	case types.Int16, types.Uint16:
		return 16
	case types.Int32, types.Uint32:
		return 32
	}
	return 64
}

// upperBound: a constant C with v <= C at `at`, from the value's type or from a dominating comparison.
func upperBound(fn *ssa.Function, at ssa.Instruction, v ssa.Value, depth int) (int64, bool) {
	if depth > 4 {
		return 0, false
	}
	if c, ok := constInt(v); ok {
		return c, true
	}
	if b, ok := v.Type().Underlying().(*types.Basic); ok && b.Info()&types.IsInteger != 0 {
		switch b.Kind() {
		case types.Int8:
			return 1<<7 - 1, true
		case types.Uint8:
			return 1<<8 - 1, true
		case types.Int16:
			return 1<<15 - 1, true
		case types.Uint16:
			return 1<<16 - 1, true
		case types.Int32:
			return 1<<31 - 1, true
		case types.Uint32:
			return 1<<32 - 1, true
		}
	}
	for _, b := range fn.Blocks {
		ifi, ok := b.Instrs[len(b.Instrs)-1].(*ssa.If)
		if !ok {
			continue
		}
		cond, neg := negStrip(ifi.Cond)
		bo, ok := cond.(*ssa.BinOp)
		if !ok {
			continue
		}
		var cv int64
		var left bool
		var g ssa.Value
		if c, ok := constInt(bo.Y); ok {
			cv, left, g = c, true, bo.X
		} else if c, ok := constInt(bo.X); ok {
			cv, left, g = c, false, bo.Y
		} else {
			continue
		}
		// the comparison may be written on a same-width conversion of the value: int64(x) > max
		for {
			cvt, ok := g.(*ssa.Convert)
			if !ok || !sameWidthInts(cvt.X.Type(), cvt.Type()) {
				break
			}
			g = cvt.X
		}
		if !sameLoc(g, v) {
			continue
		}
		for si := 0; si < 2; si++ {
			if !edgeDominatesNoFatal(b, b.Succs[si], at.Block()) {
				continue
			}
			op := bo.Op
			if !left {
				op = flipRel(op)
			}
			if ((si == 0) != neg) == false {
				op = negRel(op)
			}
			// now: v op cv holds
			switch op {
			case token.LEQ, token.EQL:
				return cv, true
			case token.LSS:
				return cv - 1, true
			}
		}
	}
	if cv, ok := v.(*ssa.Convert); ok && sameWidthInts(cv.X.Type(), cv.Type()) {
		// a bound below 2^63 on the source carries over (for a signed source it must also be non-negative,
		// which the caller establishes separately through the sign requirement)
		return upperBound(fn, at, cv.X, depth+1)
	}
	if bo, ok := v.(*ssa.BinOp); ok && bo.Op == token.QUO {
		if k, ok := constInt(bo.Y); ok && k > 0 {
			if ub, ok := upperBound(fn, at, bo.X, depth+1); ok {
				return ub / k, true
			}
			if _, uns := isIntType(bo.X.Type()); !uns {
				return math.MaxInt64 / k, true
			}
		}
	}
	if ub, ok := upperBoundByHelper(fn, at, v, depth); ok {
		return ub, true
	}
	if par, ok := v.(*ssa.Parameter); ok && par.Parent() != nil {
		pf := par.Parent()
		idx := -1
		for i, p := range pf.Params {
			if p == par {
				idx = i
			}
		}
		best, n := int64(0), 0
		for _, e := range cgOf(pf).In[pf] {
			if e.Kind == EdgeRef {
				continue
			}
			cc := callCommon(e.Site)
			if cc == nil || cc.IsInvoke() || idx >= len(cc.Args) || cc.StaticCallee() != pf {
				return 0, false
			}
			ub, ok := upperBound(e.Caller, e.Site, cc.Args[idx], depth+1)
			if !ok {
				return 0, false
			}
			if ub > best {
				best = ub
			}
			n++
		}
		return best, n > 0
	}
	return 0, false
}

// lowerBound: a constant C with v >= C at `at`, from a dominating comparison with a constant.
func lowerBound(fn *ssa.Function, at ssa.Instruction, v ssa.Value) (int64, bool) {
	if c, ok := constInt(v); ok {
		return c, true
	}
	best, found := int64(0), false
	for _, b := range fn.Blocks {
		ifi, ok := b.Instrs[len(b.Instrs)-1].(*ssa.If)
		if !ok {
			continue
		}
		cond, neg := negStrip(ifi.Cond)
		bo, ok := cond.(*ssa.BinOp)
		if !ok {
			continue
		}
		var cv int64
		var left bool
		var g ssa.Value
		if c, ok := constInt(bo.Y); ok {
			cv, left, g = c, true, bo.X
		} else if c, ok := constInt(bo.X); ok {
			cv, left, g = c, false, bo.Y
		} else {
			continue
		}
		// the comparison may be written on a same-width conversion of the value: int64(x) > max
		for {
			cvt, ok := g.(*ssa.Convert)
			if !ok || !sameWidthInts(cvt.X.Type(), cvt.Type()) {
				break
			}
			g = cvt.X
		}
		if !sameLoc(g, v) {
			continue
		}
		for si := 0; si < 2; si++ {
			if !edgeDominatesNoFatal(b, b.Succs[si], at.Block()) {
				continue
			}
			op := bo.Op
			if !left {
				op = flipRel(op)
			}
			if ((si == 0) != neg) == false {
				op = negRel(op)
			}
			// now: v op cv holds
			var lb int64
			switch op {
			case token.GEQ, token.EQL:
				lb = cv
			case token.GTR:
				lb = cv + 1
			default:
				continue
			}
			if !found || lb > best {
				best, found = lb, true
			}
		}
	}
	return best, found
}

// call graphs by program: several programs (mutants) are analysed concurrently in the thorough tier
var cgByProg sync.Map // *ssa.Program -> *CallGraph

func registerCG(p *Prog) { cgByProg.Store(p.SSA, p.CG()) }

func cgOf(fn *ssa.Function) *CallGraph {
	if v, ok := cgByProg.Load(fn.Prog); ok {
		return v.(*CallGraph)
	}
	return &CallGraph{In: map[*ssa.Function][]*CGEdge{}, Out: map[*ssa.Function][]*CGEdge{}}
}

// impliedBy: does taking edge `taken` of a comparison `x REL c` establish `need` for x?
func edgeEstablishes(op token.Token, c int64, valueOnLeft bool, taken bool, nd need, unsigned bool) bool {
	if !valueOnLeft {
		op = flipRel(op)
	}
	if !taken {
		op = negRel(op)
	}
	// now: x op c holds
	switch nd {
	case needPos:
		switch op {
		case token.GTR:
			return c >= 0
		case token.GEQ:
			return c >= 1
		case token.NEQ:
			return c == 0 && unsigned
		case token.EQL:
			return c > 0
		}
	case needNonZero:
		switch op {
		case token.GTR:
			return c >= 0
		case token.GEQ:
			return c >= 1
		case token.NEQ:
			return c == 0
		case token.LSS:
			return c <= 0
		case token.LEQ:
			return c < 0
		case token.EQL:
			return c != 0
		}
	case needNonNeg:
		switch op {
		case token.GTR:
			return c >= -1
		case token.GEQ:
			return c >= 0
		case token.EQL:
			return c >= 0
		case token.NEQ:
			return unsigned
		}
		if unsigned {
			return true
		}
	}
	return false
}

// guardedAt: a comparison on (something related to) v in the same function whose establishing edge dominates `at`.
func guardedAt(fn *ssa.Function, at ssa.Instruction, v ssa.Value, nd need) (ssa.Instruction, bool) {
	_, uns := isIntType(v.Type())
	for _, b := range fn.Blocks {
		ifi, ok := b.Instrs[len(b.Instrs)-1].(*ssa.If)
		if !ok {
			continue
		}
		cond, neg := negStrip(ifi.Cond)
		bo, ok := cond.(*ssa.BinOp)
		if !ok {
			continue
		}
		var cv int64
		var left bool
		var g ssa.Value
		if c, ok := constInt(bo.Y); ok {
			cv, left, g = c, true, bo.X
		} else if c, ok := constInt(bo.X); ok {
			cv, left, g = c, false, bo.Y
		} else {
			continue
		}
		if !relatedTo(g, v, 0) {
			continue
		}
		// scale: when the guard is on v*k or v/k the sign information carries over for k > 0
		for si := 0; si < 2; si++ {
			taken := (si == 0) != neg
			if edgeEstablishes(bo.Op, cv, left, taken, nd, uns) && edgeDominatesNoFatal(b, b.Succs[si], at.Block()) {
				return ifi, true
			}
		}
	}
	return nil, false
}

// validatedByHelper: fn calls a module function g(…, v, …) that returns an error, continues to `at`
// only on the no-error edge, and g returns a nil error only where a comparison establishes nd
// for the corresponding parameter (checkParams-style validators).
func validatedByHelper(fn *ssa.Function, at ssa.Instruction, v ssa.Value, nd need, depth int) (ssa.Instruction, bool) {
	if depth > 2 {
		return nil, false
	}
	var found ssa.Instruction
	allInstrs(fn, func(in ssa.Instruction) {
		if found != nil {
			return
		}
		call, ok := in.(*ssa.Call)
		if !ok {
			return
		}
		g := call.Call.StaticCallee()
		if g == nil || g.Blocks == nil || !ModuleFunc(g) {
			return
		}
		res := g.Signature.Results()
		if res.Len() == 0 || !types.Identical(res.At(res.Len()-1).Type(), errorType) {
			return
		}
		// the error value of this call
		var errV ssa.Value
		if res.Len() == 1 {
			errV = call
		} else {
			for _, r := range *call.Referrers() {
				if ex, ok := r.(*ssa.Extract); ok && ex.Index == res.Len()-1 {
					errV = ex
				}
			}
		}
		if errV == nil {
			return
		}
		for ai, a := range call.Call.Args {
			if ai >= len(g.Params) {
				continue
			}
			var rep ssa.Value
			if a == v || relatedTo(a, v, 0) {
				rep = g.Params[ai]
			} else if rep = fieldOfParamIn(g, g.Params[ai], a, v); rep == nil {
				continue
			}
			if !helperValidates(g, rep, nd, depth) {
				continue
			}
			for _, b := range fn.Blocks {
				ifi, ok := b.Instrs[len(b.Instrs)-1].(*ssa.If)
				if !ok {
					continue
				}
				e, errEdge, ok := errTest(ifi.Cond)
				if !ok || e != errV {
					continue
				}
				si := 1
				if !errEdge {
					si = 0
				}
				if edgeDominatesNoFatal(b, b.Succs[si], at.Block()) {
					found = in
				}
			}
		}
	})
	return found, found != nil
}

func helperValidates(g *ssa.Function, par ssa.Value, nd need, depth int) bool {
	n, okAll := 0, true
	allInstrs(g, func(in ssa.Instruction) {
		ret, ok := in.(*ssa.Return)
		if !ok || len(ret.Results) == 0 {
			return
		}
		last := ret.Results[len(ret.Results)-1]
		if _, isMI := last.(*ssa.MakeInterface); isMI {
			return // a concrete error value: non-nil
		}
		if call, isCall := last.(*ssa.Call); isCall {
			switch calleeName(call.Common()) {
			case "errors.New", "fmt.Errorf":
				return
			}
		}
		n++
		if _, ok := guardedAt(g, ret, par, nd); ok {
			return
		}
		if _, ok := validatedByHelper(g, ret, par, nd, depth+1); ok {
			return
		}
		okAll = false
	})
	return okAll && n > 0
}

// validated decides whether v is known to satisfy nd at instruction `at` (in function fn).
func (d *discharger) validated(fn *ssa.Function, at ssa.Instruction, v ssa.Value, nd need, depth int, trail *[]string) bool {
	if depth > 12 {
		return false
	}
	if c, ok := constInt(v); ok {
		switch nd {
		case needPos:
			return c > 0
		case needNonZero:
			return c != 0
		default:
			return c >= 0
		}
	}
	if cst, ok := v.(*ssa.Const); ok && cst.Value != nil && cst.Value.Kind() == constant.Float {
		return constant.Sign(cst.Value) > 0
	}
	if g, ok := validatedByHelper(fn, at, v, nd, 0); ok {
		*trail = append(*trail, fmt.Sprintf("validating helper called at %s in %s", d.p.InstrPos(g), FuncName(fn)))
		return true
	}
	if g, ok := guardedAt(fn, at, v, nd); ok {
		*trail = append(*trail, fmt.Sprintf("guard at %s in %s", d.p.InstrPos(g), FuncName(fn)))
		return true
	}
	switch x := v.(type) {
	case *ssa.Convert:
		sb, ok1 := x.X.Type().Underlying().(*types.Basic)
		db, ok2 := x.Type().Underlying().(*types.Basic)
		if ok1 && ok2 && sb.Info()&types.IsInteger != 0 && db.Info()&types.IsInteger != 0 {
			srcUns, dstUns := sb.Info()&types.IsUnsigned != 0, db.Info()&types.IsUnsigned != 0
			sbits, dbits := intBits(sb), intBits(db)
			if dstUns && nd == needNonNeg {
				return true
			}
			if srcUns && !dstUns && dbits > sbits && nd == needNonNeg {
				return true // widening an unsigned value
			}
			narrowing := dbits < sbits
			signFlip := srcUns && !dstUns && dbits <= sbits && nd != needNonZero
			if narrowing || signFlip {
				maxDst := int64(math.MaxInt64)
				if dbits < 64 {
					maxDst = int64(1)<<(uint(dbits)-1) - 1
					if dstUns {
						maxDst = int64(1)<<uint(dbits) - 1
					}
				}
				ub, ok := upperBound(fn, at, x.X, 0)
				if !ok || ub > maxDst {
					*trail = append(*trail, fmt.Sprintf("%s is converted to %s without an upper bound: large values wrap around (at %s)", describeVal(x.X), x.Type(), d.p.InstrPos(x)))
					return false
				}
			}
		}
		return d.validated(fn, at, x.X, nd, depth+1, trail)
	case *ssa.ChangeType:
		return d.validated(fn, at, x.X, nd, depth+1, trail)
	case *ssa.BinOp:
		if x.Op == token.MUL {
			var k int64
			var opnd ssa.Value
			if c, ok := constInt(x.Y); ok && c > 0 {
				k, opnd = c, x.X
			} else if c, ok := constInt(x.X); ok && c > 0 {
				k, opnd = c, x.Y
			}
			if opnd != nil {
				// the product keeps the sign facts of the operand only if it cannot wrap around
				ub, ok := upperBound(fn, at, opnd, 0)
				limit := math.MaxInt64 / k
				if nd == needNonZero {
					// the product is 0 (mod 2^64) only for a multiple of 2^64/gcd(k, 2^64)
					pow := int64(1)
					for kk := k; kk%2 == 0; kk /= 2 {
						pow *= 2
					}
					limit = math.MaxInt64/pow*2 + 1 // 2^64/pow − 1, saturated
					if pow == 1 {
						limit = math.MaxInt64
					}
				}
				if !ok || ub < 0 || ub > limit {
					*trail = append(*trail, fmt.Sprintf("%s is multiplied by %d without an upper bound: the product can wrap around to 0 or a negative value (at %s)", describeVal(opnd), k, d.p.InstrPos(x)))
					return false
				}
				return d.validated(fn, at, opnd, nd, depth+1, trail)
			}
		}
		if k, ok := constInt(x.Y); ok && k > 0 && x.Op == token.QUO && nd != needNonNeg {
			// x/k > 0 exactly when x >= k
			if lb, ok := lowerBound(fn, at, x.X); ok && lb >= k {
				*trail = append(*trail, fmt.Sprintf("%s >= %d established before the division by %d in %s", describeVal(x.X), lb, k, FuncName(fn)))
				return true
			}
			return false
		}
		if x.Op == token.QUO && nd == needNonNeg {
			return d.validated(fn, at, x.X, needNonNeg, depth+1, trail) && d.validated(fn, at, x.Y, needPos, depth+1, trail)
		}
		return false
	case *ssa.Phi:
		for _, e := range x.Edges {
			if !d.validated(fn, at, e, nd, depth+1, trail) {
				return false
			}
		}
		return len(x.Edges) > 0
	case *ssa.Parameter:
		// every caller passes a validated value
		pf := x.Parent()
		idx := -1
		for i, p := range pf.Params {
			if p == x {
				idx = i
			}
		}
		ins := d.cg.In[pf]
		n := 0
		for _, e := range ins {
			if e.Kind == EdgeRef {
				continue
			}
			cc := callCommon(e.Site)
			if cc == nil || cc.IsInvoke() || idx >= len(cc.Args) {
				return false
			}
			n++
			if !d.validated(e.Caller, e.Site, cc.Args[idx], nd, depth+1, trail) {
				*trail = append(*trail, fmt.Sprintf("caller %s at %s passes an unvalidated value", FuncName(e.Caller), d.p.InstrPos(e.Site)))
				return false
			}
		}
		return n > 0
	case *ssa.FreeVar:
		if b := freeVarBinding(x); b != nil {
			if al, ok := b.(*ssa.Alloc); ok {
				return d.validatedCell(al, nd, depth, trail)
			}
			return d.validated(x.Parent().Parent(), at, b, nd, depth+1, trail)
		}
		return false
	case *ssa.UnOp:
		if x.Op != token.MUL {
			return false
		}
		switch a := x.X.(type) {
		case *ssa.Alloc:
			return d.validatedCell(a, nd, depth, trail)
		case *ssa.Global:
			// package variable: every store (initialiser or assignment) must be a satisfying constant
			n := 0
			for _, f := range d.p.CGFuncs {
				bad := false
				allInstrs(f, func(in ssa.Instruction) {
					if st, ok := in.(*ssa.Store); ok && st.Addr == a {
						n++
						if !d.validated(f, st, st.Val, nd, depth+1, trail) {
							bad = true
						}
					}
				})
				if bad {
					return false
				}
			}
			if n > 0 {
				*trail = append(*trail, fmt.Sprintf("package variable %s only holds validated constants", a.Name()))
			}
			return n > 0
		case *ssa.FreeVar:
			if b := freeVarBinding(a); b != nil {
				if al, ok := b.(*ssa.Alloc); ok {
					return d.validatedCell(al, nd, depth, trail)
				}
			}
			return false
		case *ssa.FieldAddr:
			return d.validatedField(fieldOfAddr(a), nd, depth, trail)
		}
		return false
	case *ssa.Field:
		st := x.X.Type().Underlying().(*types.Struct)
		return d.validatedField(st.Field(x.Field), nd, depth, trail)
	}
	return false
}

func (d *discharger) validatedCell(al *ssa.Alloc, nd need, depth int, trail *[]string) bool {
	n := 0
	ok := true
	var visit func(v ssa.Value)
	visit = func(v ssa.Value) {
		for _, r := range *v.Referrers() {
			switch r := r.(type) {
			case *ssa.Store:
				if r.Addr == v {
					n++
					if !d.validated(r.Parent(), r, r.Val, nd, depth+1, trail) {
						ok = false
					}
				}
			case *ssa.MakeClosure:
				fn := r.Fn.(*ssa.Function)
				for i, b := range r.Bindings {
					if b == v && i < len(fn.FreeVars) {
						visit(fn.FreeVars[i])
					}
				}
			}
		}
	}
	visit(al)
	return ok && n > 0
}

func (d *discharger) validatedField(f *types.Var, nd need, depth int, trail *[]string) bool {
	key := fmt.Sprintf("%p/%d", f, nd)
	if r, ok := d.memo[key]; ok {
		return r == "y" || r == "p" // "p": in progress — a field copied from itself (snapshots) adds no new values
	}
	d.memo[key] = "p"
	stores := d.fieldStores[f]
	if len(stores) == 0 {
		return false
	}
	for _, st := range stores {
		if !d.validated(st.Parent(), st, st.Val, nd, depth+1, trail) {
			*trail = append(*trail, fmt.Sprintf("field %s stored without validation at %s", f.Name(), d.p.InstrPos(st)))
			d.memo[key] = "n"
			return false
		}
	}
	*trail = append(*trail, fmt.Sprintf("every store into field %s (%d) is validated", f.Name(), len(stores)))
	d.memo[key] = "y"
	return true
}

// edgeDominatesNoFatal is edgeDominates on the CFG in which blocks that call
// log.Fatal*/os.Exit/panic helpers have no successors (the process ends there).
func edgeDominatesNoFatal(from, to, target *ssa.BasicBlock) bool {
	fn := from.Parent()
	cut := map[edge]bool{{from, to}: true}
	for _, b := range fn.Blocks {
		fatal := false
		for _, in := range b.Instrs {
			if cc := callCommon(in); cc != nil && fatalCalls[calleeName(cc)] {
				fatal = true
			}
		}
		if fatal {
			for _, s := range b.Succs {
				cut[edge{b, s}] = true
			}
		}
	}
	r := reachable(fn.Blocks[0], cut, nil)
	return !r[target]
}

// fieldOfParamIn: the caller passes the struct `a` to g's parameter par, and v is a field (path) of
// that same struct in the caller; returns a value inside g that reads the same field (path) of par,
// or nil when g never reads it.
func fieldOfParamIn(g *ssa.Function, par *ssa.Parameter, a, v ssa.Value) ssa.Value {
	ra, na := fieldPath(a)
	rv, nv := fieldPath(v)
	if strip(ra) != strip(rv) || len(nv) <= len(na) {
		return nil
	}
	for i := range na {
		if na[i] != nv[i] {
			return nil
		}
	}
	suffix := nv[len(na):]
	var rep ssa.Value
	allInstrs(g, func(in ssa.Instruction) {
		if rep != nil {
			return
		}
		val, ok := in.(ssa.Value)
		if !ok {
			return
		}
		switch in.(type) {
		case *ssa.UnOp, *ssa.Field:
		default:
			return
		}
		r, n := fieldPath(val)
		if strip(r) != ssa.Value(par) || len(n) != len(suffix) {
			return
		}
		for i := range n {
			if n[i] != suffix[i] {
				return
			}
		}
		rep = val
	})
	return rep
}

// upperBoundByHelper: fn calls a validator g(…, v, …) that returns an error, `at` is only reached
// on the no-error edge, and every return of g that may carry a nil error is bounded for the
// corresponding parameter; returns the largest of those bounds.
func upperBoundByHelper(fn *ssa.Function, at ssa.Instruction, v ssa.Value, depth int) (int64, bool) {
	if depth > 2 {
		return 0, false
	}
	var best int64
	found := false
	allInstrs(fn, func(in ssa.Instruction) {
		if found {
			return
		}
		call, ok := in.(*ssa.Call)
		if !ok {
			return
		}
		g := call.Call.StaticCallee()
		if g == nil || g.Blocks == nil || !ModuleFunc(g) || g == fn {
			return
		}
		res := g.Signature.Results()
		if res.Len() == 0 || !types.Identical(res.At(res.Len()-1).Type(), errorType) {
			return
		}
		var errV ssa.Value
		if res.Len() == 1 {
			errV = call
		} else {
			for _, r := range *call.Referrers() {
				if ex, ok := r.(*ssa.Extract); ok && ex.Index == res.Len()-1 {
					errV = ex
				}
			}
		}
		if errV == nil {
			return
		}
		gated := false
		for _, b := range fn.Blocks {
			ifi, ok := b.Instrs[len(b.Instrs)-1].(*ssa.If)
			if !ok {
				continue
			}
			e, errEdge, ok := errTest(ifi.Cond)
			if !ok || e != errV {
				continue
			}
			si := 1
			if !errEdge {
				si = 0
			}
			if edgeDominatesNoFatal(b, b.Succs[si], at.Block()) {
				gated = true
			}
		}
		if !gated {
			return
		}
		for ai, a := range call.Call.Args {
			if ai >= len(g.Params) {
				continue
			}
			var rep ssa.Value
			if a == v || sameLoc(a, v) {
				rep = g.Params[ai]
			} else if rep = fieldOfParamIn(g, g.Params[ai], a, v); rep == nil {
				continue
			}
			n, okAll, mx := 0, true, int64(0)
			allInstrs(g, func(in2 ssa.Instruction) {
				ret, ok := in2.(*ssa.Return)
				if !ok || len(ret.Results) == 0 {
					return
				}
				if isErrorCtor(ret.Results[len(ret.Results)-1]) {
					return
				}
				if _, isMI := ret.Results[len(ret.Results)-1].(*ssa.MakeInterface); isMI {
					return
				}
				n++
				ub, ok := upperBound(g, ret, rep, depth+1)
				if !ok {
					okAll = false
					return
				}
				if ub > mx {
					mx = ub
				}
			})
			if okAll && n > 0 {
				best, found = mx, true
				return
			}
		}
	})
	return best, found
}

// funcTableElement: v is an element of a package-level array/slice/map (m[k], a[i]) — returns the global.
func funcTableElement(v ssa.Value) (*ssa.Global, string) {
	if ex, ok := v.(*ssa.Extract); ok && ex.Index == 0 {
		v = ex.Tuple
	}
	switch x := v.(type) {
	case *ssa.UnOp:
		if ia, ok := x.X.(*ssa.IndexAddr); ok && x.Op == token.MUL {
			if g, ok := ia.X.(*ssa.Global); ok {
				return g, "array"
			}
			if u, ok := ia.X.(*ssa.UnOp); ok {
				if g, ok := u.X.(*ssa.Global); ok {
					return g, "slice"
				}
			}
		}
	case *ssa.Lookup:
		if u, ok := x.X.(*ssa.UnOp); ok {
			if g, ok := u.X.(*ssa.Global); ok {
				return g, "map"
			}
		}
	}
	return nil, ""
}

// funcTableComplete: every slot of the package-level array g receives a non-nil function in the
// package initialiser (and nowhere else).
func funcTableComplete(p *Prog, g *ssa.Global) (bool, string) {
	arr, ok := g.Type().(*types.Pointer).Elem().Underlying().(*types.Array)
	if !ok {
		return false, "not an array: an absent key or index yields a nil function"
	}
	filled := map[int64]bool{}
	for _, fn := range p.Funcs {
		allInstrs(fn, func(in ssa.Instruction) {
			st, ok := in.(*ssa.Store)
			if !ok {
				return
			}
			ia, ok := st.Addr.(*ssa.IndexAddr)
			if !ok || ia.X != ssa.Value(g) {
				return
			}
			k, ok := constInt(ia.Index)
			if !ok {
				return
			}
			if c, isC := st.Val.(*ssa.Const); isC && c.IsNil() {
				return
			}
			filled[k] = true
		})
	}
	var missing []string
	for i := int64(0); i < arr.Len(); i++ {
		if !filled[i] {
			missing = append(missing, fmt.Sprintf("%d", i))
		}
	}
	if len(missing) > 0 {
		if len(missing) > 6 {
			missing = append(missing[:6], "…")
		}
		return false, "slots " + strings.Join(missing, ", ") + " of the table are never filled"
	}
	return true, ""
}
