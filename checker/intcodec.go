package main

// Fixed-width integer encode / decode sites, independent of the API that performs them:
// binary.Write(w, order, v) ≡ order.PutUintNN(b, v) ≡ order.AppendUintNN(b, v) on the writing side,
// binary.Read(r, order, &x) ≡ order.UintNN(b) on the reading side.

import (
	"go/token"

	"golang.org/x/tools/go/ssa"
)

type intCodecSite struct {
	In         *ssa.Call
	Decode     bool
	OrderKnown bool
	BE         bool
	Width      int64     // bytes on the wire, 0 = not a fixed-width integer
	Val        ssa.Value // encode: the value written; decode: the call's result, or the variable binary.Read fills
}

func intCodecSites(fn *ssa.Function) []intCodecSite {
	var out []intCodecSite
	allInstrs(fn, func(in ssa.Instruction) {
		call, ok := in.(*ssa.Call)
		if !ok {
			return
		}
		name := calleeName(call.Common())
		args := call.Call.Args
		switch name {
		case "encoding/binary.Write", "encoding/binary.Read":
			s := intCodecSite{In: call, Decode: name == "encoding/binary.Read"}
			s.BE, s.OrderKnown = byteOrderOf(args[1])
			if mi, ok := args[2].(*ssa.MakeInterface); ok {
				s.Width = fixedWidth(mi.X.Type())
				s.Val = mi.X
			}
			out = append(out, s)
			return
		}
		if op, w, be, ok := byteOrderMethod(name); ok {
			s := intCodecSite{In: call, Decode: op == "Uint", OrderKnown: true, BE: be, Width: w}
			if s.Decode {
				s.Val = call
			} else if len(args) >= 3 {
				s.Val = args[2]
			}
			out = append(out, s)
		}
	})
	return out
}

// streamDecodedInt: v is (a conversion of) an integer that was decoded from bytes — the variable a
// binary.Read filled, or the result of ByteOrder.UintNN.
func streamDecodedInt(v ssa.Value) bool {
	for d := 0; d < 6; d++ {
		if x, ok := v.(*ssa.Convert); ok {
			v = x.X
		} else if x, ok := v.(*ssa.ChangeType); ok {
			v = x.X
		} else {
			break
		}
	}
	switch x := v.(type) {
	case *ssa.Call:
		op, _, _, ok := byteOrderMethod(calleeName(x.Common()))
		return ok && op == "Uint"
	case *ssa.UnOp:
		a, ok := x.X.(*ssa.Alloc)
		if !ok || x.Op != token.MUL {
			return false
		}
		for _, r := range *a.Referrers() {
			mi, ok := r.(*ssa.MakeInterface)
			if !ok {
				continue
			}
			for _, rr := range *mi.Referrers() {
				if c, ok := rr.(*ssa.Call); ok && calleeName(c.Common()) == "encoding/binary.Read" && len(c.Call.Args) == 3 && c.Call.Args[2] == ssa.Value(mi) {
					return true
				}
			}
		}
	}
	return false
}

// describeSize names the size operand of a make(): an integer decoded from a stream is named by
// that role (not by the local variable that happens to hold it).
func describeSize(v ssa.Value) string {
	if streamDecodedInt(v) {
		return "integer decoded from a stream"
	}
	return describeVal(v)
}
