package main

import (
	"fmt"
	"go/token"
	"go/types"
	"os"
	"strings"

	"golang.org/x/tools/go/ssa"
)

func init() {
	register(&PropDef{
		ID:    "C17",
		Title: "grafana.net route: retry until acknowledged, series order kept, shutdown drains",
		Decided: "R1 the retry loop around the POST has a single exit and it is the no-error edge of flush; the request it re-sends carries no deadline/cancellation created outside the loop; " +
			"R2 the batch is truncated only after that exit and the worker takes the truncated batch back; " +
			"R3 the shard index is hash(metric name) modulo the number of workers, computed with a hasher that is fresh (or reset) for every call, and exactly one worker goroutine is started per shard channel; " +
			"R4 dispatchNonBlocking never blocks and counts a full buffer once, dispatchBlocking performs exactly one plain send, and each route type selects between them with the polarity of its blocking option; " +
			"R5 every worker accounted with wg.Add reaches wg.Done on every return path, the shutdown signal reaches all workers (close, not a single send), and on shutdown a worker drains its input channel before the final flush.",
		NotDecided: "backoff timing; that a retried POST is eventually accepted by the endpoint; HTTP client behaviour; series order across different workers (not promised).",
		Rules: []RuleDef{
			{ID: "C17.R1", Min: 2, Doc: "retry until acknowledged: exits of the loop containing the call to (*GrafanaNet).flush; provenance of contexts attached to the request", Run: c17r1},
			{ID: "C17.R2", Min: 2, Doc: "truncate after success: the reslice metrics[:0] is dominated by the retry loop's exit edge; callers assign retryFlush's result to the batch variable", Run: c17r2},
			{ID: "C17.R3", Min: 4, Doc: "one series, one worker: kind of the bytes fed to the hasher = NAME; hasher created by fnv.New32a() in Dispatch (or Reset before Write); index = Sum32 % Concurrency into route.in; one `go run(in[i])` per created channel", Run: c17r3},
			{ID: "C17.R4", Min: 6, Doc: "full buffer policy: shape of dispatchNonBlocking / dispatchBlocking; selection `if blocking { dispatchBlocking } else { dispatchNonBlocking }` in all four route constructors", Run: c17r4},
			{ID: "C17.R5", Min: 4, Doc: "shutdown pairing: wg.Done on every return path of run (deferred or explicit); Shutdown closes the channel the workers select on; run's shutdown case drains `in` (receive in a select with default) before returning", Run: c17r5},
		},
	})
}

func c17r1(c *Check) {
	fn := c.P.Func("route", "*GrafanaNet", "retryFlush")
	nFlush := "(*" + modPath + "/route.GrafanaNet).flush"
	var flushCall *ssa.Call
	allInstrs(fn, func(in ssa.Instruction) {
		if call, ok := in.(*ssa.Call); ok && calleeName(call.Common()) == nFlush {
			flushCall = call
		}
	})
	if flushCall == nil {
		anchorFail("retryFlush: no call to flush")
	}
	loops := loopsOf(fn)
	l := innermostLoop(loops, flushCall.Block())
	if l == nil {
		c.Violate("route.GrafanaNet.retryFlush retry loop", c.At(flushCall), "the POST is not retried in a loop: a failed batch is skipped")
		return
	}
	exits := l.Exits()
	ok := len(exits) == 1
	detail := fmt.Sprintf("%d exit edges", len(exits))
	if ok {
		e := exits[0]
		ifi, isIf := e.from.Instrs[len(e.from.Instrs)-1].(*ssa.If)
		ok = false
		if isIf {
			if ev, errEdge, isErr := errTest(ifi.Cond); isErr {
				if _, isFlush := callOf(ev, nFlush); isFlush {
					// the exit must be the NO-error edge
					noErrSucc := e.from.Succs[1]
					if !errEdge {
						noErrSucc = e.from.Succs[0]
					}
					ok = e.to == noErrSucc
					if !ok {
						detail = "the loop is left on the error edge"
					}
				}
			}
		}
	}
	c.Judge(ok, "route.GrafanaNet.retryFlush single exit on success", c.At(flushCall), "the only way out of the retry loop is flush() == nil", "the retry loop can be left without a successful POST ("+detail+"): a failed batch is dropped instead of retried (break after N attempts, return on error, ...)")
	// no panic/return inside loop other than via exit handled by Exits(); contexts
	bad := ""
	allInstrs(fn, func(in ssa.Instruction) {
		call, ok := in.(*ssa.Call)
		if !ok {
			return
		}
		n := calleeName(call.Common())
		if n == "context.WithTimeout" || n == "context.WithDeadline" || n == "context.WithCancel" {
			if !l.Body[call.Block()] {
				bad = n + " at " + c.At(call)
			}
		}
	})
	// every retry re-sends a complete body: between two attempts (client.Do) the request body is re-armed
	// (a store into Request.Body) or the request is built anew
	sameRecv := inlineSameRecv(fn)
	cfgBody := &PathCfg{
		BackEdgeMax: 1,
		Inline:      sameRecv,
		ClassifyV: func(in ssa.Instruction, resolve func(ssa.Value) ssa.Value) []string {
			if isCallNamed(in, "(*net/http.Client).Do") {
				return []string{"do"}
			}
			// the reader behind a body value: a fresh bytes/strings reader, possibly wrapped
			readerOf := func(v ssa.Value) string {
				for k := 0; k < 8; k++ {
					v = resolve(v)
					switch x := v.(type) {
					case *ssa.MakeInterface:
						v = x.X
						continue
					case *ssa.ChangeInterface:
						v = x.X
						continue
					case *ssa.Call:
						switch calleeName(x.Common()) {
						case "io/ioutil.NopCloser", "io.NopCloser":
							v = x.Call.Args[0]
							continue
						case "bytes.NewReader", "strings.NewReader", "bytes.NewBuffer", "bytes.NewBufferString":
							// the reader and what it reads: a retry must re-send the same bytes
							src := resolve(x.Call.Args[0])
							return x.Name() + "@" + x.Parent().Name() + "|" + src.Name() + "@" + fmt.Sprintf("%p", src)
						}
					}
					break
				}
				return "?"
			}
			if cc := callCommon(in); cc != nil {
				switch calleeName(cc) {
				case "net/http.NewRequest":
					return []string{"body:set:" + readerOf(cc.Args[2])}
				case "net/http.NewRequestWithContext":
					return []string{"body:set:" + readerOf(cc.Args[3])}
				case "bytes.NewReader", "strings.NewReader", "bytes.NewBuffer", "bytes.NewBufferString":
					if v, ok := in.(ssa.Value); ok {
						src := resolve(cc.Args[0])
						return []string{"reader:new:" + v.Name() + "@" + in.Parent().Name() + "|" + src.Name() + "@" + fmt.Sprintf("%p", src)}
					}
				}
			}
			if st, ok := in.(*ssa.Store); ok {
				if fa, ok := st.Addr.(*ssa.FieldAddr); ok {
					f := fieldOfAddr(fa)
					if f.Name() == "Body" && f.Pkg() != nil && f.Pkg().Path() == "net/http" {
						return []string{"body:set:" + readerOf(st.Val)}
					}
				}
			}
			return nil
		},
		Branch: func(ifi *ssa.If, cond ssa.Value, taken bool) []string {
			if e, errEdge, ok := errTest(cond); ok {
				if _, isDo := callOf(e, "(*net/http.Client).Do"); isDo {
					if taken == errEdge {
						return []string{"do:failed"}
					}
					return []string{"do:ok"}
				}
			}
			return nil
		},
	}
	bpaths, btrunc := EnumPaths(fn, nil, cfgBody)
	badBody, nRetry := "", 0
	for i := range bpaths {
		pa := &bpaths[i]
		if os.Getenv("CRNG_DEBUG") != "" {
			fmt.Fprintln(os.Stderr, "C17BODY", pa.String())
		}
		lastDo := -1
		for j, e := range pa.Events {
			if e.Class != "do" {
				continue
			}
			if lastDo >= 0 {
				nRetry++
				// armed: the body is set between the two attempts to a reader that was itself created between them
				armed := false
				fresh := map[string]bool{}
				// ... over the same bytes as every body set before on this path
				var srcs []string
				for _, e2 := range pa.Events[:j] {
					if strings.HasPrefix(e2.Class, "body:set:") {
						if k := strings.Index(e2.Class, "|"); k >= 0 {
							srcs = append(srcs, e2.Class[k+1:])
						}
					}
				}
				for _, x := range srcs {
					if x != srcs[0] && badBody == "" {
						badBody = "a retry re-sends different bytes than the first attempt (the request body is rebuilt from another buffer than the one the request — and its Content-Length — was created with): every re-submission is rejected or carries another payload: " + pa.String()
					}
				}
				for _, e2 := range pa.Events[lastDo+1 : j] {
					if strings.HasPrefix(e2.Class, "reader:new:") {
						fresh[strings.TrimPrefix(e2.Class, "reader:new:")] = true
					}
					if strings.HasPrefix(e2.Class, "body:set:") && fresh[strings.TrimPrefix(e2.Class, "body:set:")] {
						armed = true
					}
				}
				if !armed && badBody == "" {
					badBody = "a retry re-sends the request without re-arming its body (the previous attempt has consumed it, also when that attempt failed after the upload): every further attempt fails locally and the batch is never delivered: " + pa.String()
				}
			}
			lastDo = j
		}
	}
	if btrunc || nRetry == 0 {
		c.Undecided("route.GrafanaNet.retryFlush re-arms the request body before every retry", c.AtFn(fn), "no path with two attempts enumerated")
	} else {
		c.Judge(badBody == "", "route.GrafanaNet.retryFlush re-arms the request body before every retry", c.AtFn(fn), fmt.Sprintf("%d retry transitions, each with a fresh body", nRetry), badBody)
	}
	// the client gives up on a request that hangs: http.Client.Timeout is the configured timeout
	ng := c.P.Func("route", "", "NewGrafanaNet")
	okTO := false
	// the client literal may be built in a helper of the constructor
	for _, g := range samePkgCallees(c.P, ng) {
		cl := literalFields(g, "http.Client")
		if v, ok := cl["Timeout"]; ok {
			if _, names := fieldPath(v); len(names) > 0 && names[len(names)-1] == "Timeout" {
				okTO = true
			}
		}
	}
	c.Judge(okTO, "route.NewGrafanaNet bounds every request with Client.Timeout", c.AtFn(ng), "http.Client{Timeout: cfg.Timeout}", "the HTTP client has no overall timeout taken from the route's timeout setting: a response that stalls (e.g. in its body) blocks the worker in flush() forever — the batch is never retried and Shutdown never returns")
	c.Judge(bad == "", "route.GrafanaNet.retryFlush no batch-wide deadline", c.AtFn(fn), "no context with deadline/cancel is created outside the retry loop", "a context created once per batch ("+bad+") is attached to the request that is re-sent: once it expires every retry fails without reaching the endpoint and the batch is never acknowledged")
}

func c17r2(c *Check) {
	fn := c.P.Func("route", "*GrafanaNet", "retryFlush")
	nFlush := "(*" + modPath + "/route.GrafanaNet).flush"
	var flushCall *ssa.Call
	allInstrs(fn, func(in ssa.Instruction) {
		if call, ok := in.(*ssa.Call); ok && calleeName(call.Common()) == nFlush {
			flushCall = call
		}
	})
	if flushCall == nil {
		anchorFail("retryFlush: no call to flush")
	}
	loops := loopsOf(fn)
	l := innermostLoop(loops, flushCall.Block())
	metricsPar := fn.Params[1]
	n := 0
	allInstrs(fn, func(in ssa.Instruction) {
		sl, ok := in.(*ssa.Slice)
		if !ok || sl.X != metricsPar {
			return
		}
		if k, ok := constInt(sl.High); !ok || k != 0 {
			return
		}
		n++
		after := false
		if l != nil {
			for _, e := range l.Exits() {
				if edgeDominates(e.from, e.to, sl.Block()) {
					after = true
				}
			}
		}
		c.Judge(after, "route.GrafanaNet.retryFlush truncate after acknowledged", c.At(sl), "metrics[:0] only after the retry loop's success exit", "the batch is truncated before the POST was acknowledged: the points are gone if the flush then fails")
	})
	// the empty-batch early return returns the parameter unchanged: fine. Callers take the result back.
	run := c.P.Func("route", "*GrafanaNet", "run")
	okAll, nCalls := true, 0
	// kept: the value is assigned to a variable, merged, or returned to a caller that keeps it
	var kept func(v ssa.Value, f *ssa.Function, depth int) bool
	kept = func(v ssa.Value, f *ssa.Function, depth int) bool {
		for _, r := range *v.Referrers() {
			switch x := r.(type) {
			case *ssa.Store:
				if x.Val == v {
					return true
				}
			case *ssa.Phi:
				return true
			case *ssa.Return:
				if depth > 2 {
					return false
				}
				idx := -1
				for i, rv := range x.Results {
					if rv == v {
						idx = i
					}
				}
				all, n := true, 0
				for _, e := range c.P.CG().In[f] {
					site, ok := e.Site.(*ssa.Call)
					if !ok {
						continue
					}
					n++
					var res ssa.Value = site
					if len(x.Results) > 1 {
						res = nil
						for _, rr := range *site.Referrers() {
							if ex, ok := rr.(*ssa.Extract); ok && ex.Index == idx {
								res = ex
							}
						}
					}
					if res == nil || !kept(res, e.Caller, depth+1) {
						all = false
					}
				}
				if all && n > 0 {
					return true
				}
			}
		}
		return false
	}
	for _, f := range workerFuncs(c.P, run) {
		f := f
		allInstrs(f, func(in ssa.Instruction) {
			call, ok := in.(*ssa.Call)
			if !ok || calleeName(call.Common()) != "(*"+modPath+"/route.GrafanaNet).retryFlush" {
				return
			}
			nCalls++
			if !kept(call, f, 0) {
				// a discarded result is harmless only when the batch is never used again (the worker returns)
				allInstrs(f, func(other ssa.Instruction) {
					if other == in {
						return
					}
					_, isAppend := isBuiltinCall(other, "append")
					if (isAppend || isCallNamed(other, "(*"+modPath+"/route.GrafanaNet).retryFlush")) && instrReachAvoiding(in, other, nil) {
						okAll = false
					}
				})
			}
		})
	}
	// a helper that takes the batch and hands it back must hand back the batch (or what it appended to /
	// flushed from it) on every return: returning nil on an error path silently discards the pending points
	for _, f := range workerFuncs(c.P, run) {
		if f == run || f.Parent() != nil || f.Name() == "retryFlush" {
			continue
		}
		f := f
		res := f.Signature.Results()
		for ri := 0; ri < res.Len(); ri++ {
			if !strings.HasSuffix(res.At(ri).Type().String(), "schema.MetricData") || !strings.HasPrefix(res.At(ri).Type().String(), "[]") {
				continue
			}
			var batchPar *ssa.Parameter
			for _, p := range f.Params {
				if types.Identical(p.Type(), res.At(ri).Type()) {
					batchPar = p
				}
			}
			if batchPar == nil {
				continue
			}
			badRet := ""
			allInstrs(f, func(in ssa.Instruction) {
				ret, ok := in.(*ssa.Return)
				if !ok || ri >= len(ret.Results) {
					return
				}
				// what can be returned: follow phis and local variables, stop at calls
				var leaves []ssa.Value
				seenL := map[ssa.Value]bool{}
				var walkL func(v ssa.Value)
				walkL = func(v ssa.Value) {
					if v == nil || seenL[v] {
						return
					}
					seenL[v] = true
					switch x := v.(type) {
					case *ssa.Phi:
						for _, e := range x.Edges {
							walkL(e)
						}
						return
					case *ssa.UnOp:
						if al, ok := x.X.(*ssa.Alloc); ok && x.Op == token.MUL {
							n := 0
							for _, r := range *al.Referrers() {
								if st, ok := r.(*ssa.Store); ok && st.Addr == ssa.Value(al) {
									n++
									walkL(st.Val)
								}
							}
							if n > 0 {
								return
							}
						}
					}
					leaves = append(leaves, v)
				}
				walkL(ret.Results[ri])
				for _, leaf := range leaves {
					okLeaf := leaf == ssa.Value(batchPar) || derivedFrom(leaf, batchPar, map[ssa.Value]bool{})
					if call, ok := leaf.(*ssa.Call); ok {
						if b, isB := call.Call.Value.(*ssa.Builtin); isB && b.Name() == "append" {
							okLeaf = true
						}
						if calleeName(call.Common()) == "(*"+modPath+"/route.GrafanaNet).retryFlush" {
							okLeaf = true
						}
					}
					if !okLeaf {
						badRet = "returns " + describeVal(leaf) + " at " + c.At(ret)
					}
				}
			})
			c.Judge(badRet == "", FuncName(f)+" hands the batch back on every return", c.AtFn(f), "every return yields the batch parameter, an append to it or retryFlush's result", "a helper of the worker loop "+badRet+" instead of the batch it was given: the points that were pending in the batch are dropped without being sent")
		}
	}
	c.Judge(okAll && nCalls >= 3, "route.GrafanaNet.run keeps retryFlush's result as the batch", c.AtFn(run), fmt.Sprintf("%d call sites assign the returned (truncated) batch back", nCalls), "a call to retryFlush discards the returned batch: the flushed points stay in the batch and are sent again with the next flush")
}

func c17r3(c *Check) {
	fn := c.P.Func("route", "*GrafanaNet", "Dispatch")
	k := newKinds(c.P)
	inF := c.P.Field("route", "GrafanaNet", "in")
	var writeCall, sumCall *ssa.Call
	allInstrs(fn, func(in ssa.Instruction) {
		call, ok := in.(*ssa.Call)
		if !ok || !call.Call.IsInvoke() {
			return
		}
		switch call.Call.Method.Name() {
		case "Write":
			if strings.Contains(call.Call.Value.Type().String(), "hash.") {
				writeCall = call
			}
		case "Sum32":
			sumCall = call
		}
	})
	// the value reduced modulo the number of workers to index route.in
	var hashVal ssa.Value
	var hashAt ssa.Instruction
	if writeCall == nil || sumCall == nil {
		// no hasher object: the shard may be computed by an inline FNV loop over the hashed bytes
		// (in Dispatch or in a helper), which has no state that could survive the call
		var src ssa.Value
		allInstrs(fn, func(in ssa.Instruction) {
			bo, ok := in.(*ssa.BinOp)
			if !ok || bo.Op != token.REM || src != nil {
				return
			}
			if s, _, ok := inlineFNV(stripConv(bo.X)); ok {
				src, hashVal, hashAt = s, bo.X, in
			}
		})
		if src == nil {
			anchorFail("GrafanaNet.Dispatch: neither a hasher's Write/Sum32 nor an inline FNV loop reduced modulo the number of workers found")
		}
		kd := k.Of(src)
		c.Judge(kd == KName, "route.GrafanaNet.Dispatch hashes the name", c.At(hashAt), "the shard hash runs over the bytes of the metric name only", fmt.Sprintf("the shard hash is fed with a value of kind %s: points of one series can land on different workers (value/timestamp take part in the hash) and lose their order", kd))
		c.Hold("route.GrafanaNet.Dispatch hasher is fresh per call", c.At(hashAt), "inline FNV loop: the accumulator starts from the offset basis in every call and is stepped by the hashed bytes only")
	} else {
		hashVal = sumCall
		kd := k.Of(writeCall.Call.Args[0])
		c.Judge(kd == KName, "route.GrafanaNet.Dispatch hashes the name", c.At(writeCall), "the shard hash is fed with the metric name only", fmt.Sprintf("the shard hash is fed with a value of kind %s: points of one series can land on different workers (value/timestamp take part in the hash) and lose their order", kd))
		// fresh hasher
		fresh := false
		if hc, ok := strip(writeCall.Call.Value).(*ssa.Call); ok && strings.HasPrefix(calleeName(hc.Common()), "hash/fnv.New") {
			fresh = true
		}
		if !fresh {
			// Reset dominating Write on the same value
			allInstrs(fn, func(in ssa.Instruction) {
				if call, ok := in.(*ssa.Call); ok && call.Call.IsInvoke() && call.Call.Method.Name() == "Reset" && call.Call.Value == writeCall.Call.Value && instrDominates(call, writeCall) {
					fresh = true
				}
			})
		}
		c.Judge(fresh && sumCall.Call.Value == writeCall.Call.Value, "route.GrafanaNet.Dispatch hasher is fresh per call", c.At(writeCall), "hasher created in this call (or reset before use); Sum32 taken from the same hasher", "the hasher is reused across calls without Reset: the shard depends on what was hashed before, so successive points of one series go to different workers")
	}
	// index = Sum32 % Concurrency into route.in
	okIdx := false
	allInstrs(fn, func(in ssa.Instruction) {
		ia, ok := in.(*ssa.IndexAddr)
		if !ok || !isFieldLoad(ia.X, inF) {
			return
		}
		// index derives from REM(sum, Concurrency)
		var rem *ssa.BinOp
		var find func(v ssa.Value, d int)
		find = func(v ssa.Value, d int) {
			if d > 6 || rem != nil {
				return
			}
			switch x := v.(type) {
			case *ssa.Convert:
				find(x.X, d+1)
			case *ssa.BinOp:
				if x.Op == token.REM {
					rem = x
				}
			}
		}
		find(ia.Index, 0)
		if rem != nil && rem.X == hashVal {
			if _, names := fieldPath(stripConv(rem.Y)); len(names) > 0 && names[len(names)-1] == "Concurrency" {
				okIdx = true
			}
		}
	})
	c.Judge(okIdx, "route.GrafanaNet.Dispatch shard = hash % Concurrency", c.AtFn(fn), "index into route.in is hash(name) % Cfg.Concurrency", "the worker is not selected as hash(name) modulo the number of workers")
	// one worker per channel
	ctor := c.P.Func("route", "", "NewGrafanaNet")
	loops := loopsOf(ctor)
	okSpawn := false
	allInstrs(ctor, func(in ssa.Instruction) {
		g, ok := in.(*ssa.Go)
		if !ok || calleeName(&g.Call) != "(*"+modPath+"/route.GrafanaNet).run" {
			return
		}
		l := innermostLoop(loops, g.Block())
		if l == nil {
			return
		}
		// argument is r.in[i], and r.in[i] is assigned a fresh channel in the same iteration
		arg := g.Call.Args[1]
		if u, ok := arg.(*ssa.UnOp); ok {
			if ia, ok := u.X.(*ssa.IndexAddr); ok && isFieldLoad(ia.X, inF) {
				for b := range l.Body {
					for _, x := range b.Instrs {
						if st, ok := x.(*ssa.Store); ok {
							if ia2, ok := st.Addr.(*ssa.IndexAddr); ok && ia2.Index == ia.Index && isFieldLoad(ia2.X, inF) {
								if _, isMake := st.Val.(*ssa.MakeChan); isMake {
									okSpawn = true
								}
							}
						}
					}
				}
			}
		}
	})
	c.Judge(okSpawn, "route.NewGrafanaNet one worker per shard channel", c.AtFn(ctor), "each loop iteration creates in[i] and starts `go run(in[i])`", "workers are not started one per shard channel (two workers on one channel interleave a series; a channel without worker never drains)")
}

func stripConv(v ssa.Value) ssa.Value {
	for {
		switch x := v.(type) {
		case *ssa.Convert:
			v = x.X
		case *ssa.ChangeType:
			v = x.X
		default:
			return v
		}
	}
}

func c17r4(c *Check) {
	nb := c.P.Func("route", "", "dispatchNonBlocking")
	bl := c.P.Func("route", "", "dispatchBlocking")
	// non-blocking: a select with default that sends on param 0; default edge counts the drop once
	cfg := &PathCfg{
		Classify: func(in ssa.Instruction) []string {
			if _, ok := in.(*ssa.Send); ok {
				return []string{"baresend"}
			}
			if cc := callCommon(in); cc != nil && cc.IsInvoke() && cc.Method.Name() == "Inc" {
				if cc.Value == nb.Params[3] || cc.Value == bl.Params[3] {
					return []string{"drop.Inc"}
				}
				return []string{"gauge.Inc"}
			}
			return nil
		},
		SelectEvent: func(sel *ssa.Select, k int) []string {
			if sel.Blocking {
				return []string{"blockingselect"}
			}
			if k == -1 {
				return []string{"default"}
			}
			return []string{"sent"}
		},
	}
	paths, _ := EnumPaths(nb, nil, cfg)
	bad := ""
	nDef, nSent := 0, 0
	for i := range paths {
		pa := &paths[i]
		if pa.Has("baresend") || pa.Has("blockingselect") {
			bad = "dispatchNonBlocking can block: " + pa.String()
		}
		if pa.Has("default") {
			nDef++
			if pa.Count("drop.Inc") != 1 || pa.Has("gauge.Inc") {
				bad = "a dropped metric is not counted exactly once as dropped: " + pa.String()
			}
		}
		if pa.Has("sent") {
			nSent++
			if pa.Has("drop.Inc") {
				bad = "an accepted metric is counted as dropped: " + pa.String()
			}
		}
	}
	c.Judge(bad == "" && nDef == 1 && nSent == 1, "route.dispatchNonBlocking never blocks, counts drops", c.AtFn(nb), "select{send; default: drops.Inc}", bad+" (non-blocking mode must never stall dispatch and must count what it drops)")
	paths, _ = EnumPaths(bl, nil, cfg)
	bad = ""
	for i := range paths {
		pa := &paths[i]
		if pa.Count("baresend") != 1 || pa.Has("drop.Inc") || pa.Has("default") {
			bad = "dispatchBlocking must perform exactly one plain send and drop nothing: " + pa.String()
		}
	}
	c.Judge(bad == "" && len(paths) > 0, "route.dispatchBlocking one plain send", c.AtFn(bl), "exactly one blocking send, nothing dropped", bad)
	// selection polarity in the four constructors
	type ctor struct{ fn, typ, blockingSrc string }
	for _, ct := range []ctor{{"NewGrafanaNet", "GrafanaNet", "Blocking"}, {"NewKafkaMdm", "KafkaMdm", "blocking"}, {"NewPubSub", "PubSub", "blocking"}, {"NewCloudWatch", "CloudWatch", "blocking"}} {
		fn := c.P.Func("route", "", ct.fn)
		dispF := c.P.Field("route", ct.typ, "dispatch")
		res := map[string]string{} // "true"/"false" edge -> function stored
		allInstrs(fn, func(in ssa.Instruction) {
			st, ok := in.(*ssa.Store)
			if !ok {
				return
			}
			fa, ok := st.Addr.(*ssa.FieldAddr)
			if !ok || fieldOfAddr(fa) != dispF {
				return
			}
			target := resolveFuncValue(st.Val)
			if target == nil {
				return
			}
			for _, b := range fn.Blocks {
				ifi, ok := b.Instrs[len(b.Instrs)-1].(*ssa.If)
				if !ok {
					continue
				}
				cnd, neg := negStrip(ifi.Cond)
				isBlocking := false
				if p, ok := cnd.(*ssa.Parameter); ok && p.Name() == ct.blockingSrc {
					isBlocking = true
				}
				if _, names := fieldPath(cnd); len(names) > 0 && names[len(names)-1] == ct.blockingSrc {
					isBlocking = true
				}
				if !isBlocking {
					continue
				}
				for si := 0; si < 2; si++ {
					if edgeDominates(b, b.Succs[si], st.Block()) {
						val := (si == 0) != neg
						res[fmt.Sprint(val)] = target.Name()
					}
				}
			}
		})
		c.Judge(res["true"] == "dispatchBlocking" && res["false"] == "dispatchNonBlocking", "route."+ct.fn+" blocking option selects the dispatch function", c.AtFn(fn), "blocking=true → dispatchBlocking, false → dispatchNonBlocking", fmt.Sprintf("blocking=true selects %q and blocking=false selects %q: the documented full-buffer behaviour is inverted or missing", res["true"], res["false"]))
	}
}

func c17r5(c *Check) {
	run := c.P.Func("route", "*GrafanaNet", "run")
	wgF := c.P.Field("route", "GrafanaNet", "wg")
	shutF := c.P.Field("route", "GrafanaNet", "shutdown")
	isDone := func(cc *ssa.CallCommon) bool {
		return calleeName(cc) == "(*sync.WaitGroup).Done" && len(cc.Args) == 1 && isFieldLoad(cc.Args[0], wgF)
	}
	cfg := &PathCfg{Classify: func(in ssa.Instruction) []string {
		if d, ok := in.(deferredCall); ok {
			if isDone(&d.Call) {
				return []string{"done"}
			}
			return nil
		}
		if call, ok := in.(*ssa.Call); ok && isDone(&call.Call) {
			return []string{"done"}
		}
		return nil
	}}
	paths, trunc := EnumPaths(run, nil, cfg)
	bad := ""
	nRet := 0
	for i := range paths {
		pa := &paths[i]
		if pa.End == "return" {
			nRet++
			if pa.Count("done") != 1 {
				bad = fmt.Sprintf("a worker returns with wg.Done called %d times", pa.Count("done"))
			}
		}
	}
	if trunc {
		bad = "path enumeration truncated"
	}
	c.Judge(bad == "" && nRet > 0, "route.GrafanaNet.run wg.Done on every return", c.AtFn(run), fmt.Sprintf("%d returning paths, each calls wg.Done once", nRet), bad+": Shutdown's wg.Wait never returns")
	// wg.Add(n) where n workers are spawned
	ctor := c.P.Func("route", "", "NewGrafanaNet")
	okAdd := false
	allInstrs(ctor, func(in ssa.Instruction) {
		if call, ok := in.(*ssa.Call); ok && calleeName(call.Common()) == "(*sync.WaitGroup).Add" {
			if _, names := fieldPath(call.Call.Args[1]); len(names) > 0 && names[len(names)-1] == "Concurrency" {
				okAdd = true
			}
		}
	})
	c.Judge(okAdd, "route.NewGrafanaNet wg.Add(Concurrency)", c.AtFn(ctor), "the wait group accounts for every worker", "the wait group is not incremented by the number of workers started")
	// Shutdown broadcasts
	sd := c.P.Func("route", "*GrafanaNet", "Shutdown")
	closes, sends, waits := 0, 0, 0
	loops := loopsOf(sd)
	allInstrs(sd, func(in ssa.Instruction) {
		if cc, ok := isBuiltinCall(in, "close"); ok && isFieldLoad(cc.Args[0], shutF) {
			closes++
		}
		if s, ok := in.(*ssa.Send); ok && isFieldLoad(s.Chan, shutF) && innermostLoop(loops, s.Block()) == nil {
			sends++
		}
		if call, ok := in.(*ssa.Call); ok && calleeName(call.Common()) == "(*sync.WaitGroup).Wait" {
			waits++
		}
	})
	c.Judge(closes == 1 && sends == 0 && waits == 1, "route.GrafanaNet.Shutdown signals every worker and waits", c.AtFn(sd), "close(shutdown) then wg.Wait()", fmt.Sprintf("Shutdown does not broadcast the signal to all Concurrency workers (close=%d, single sends=%d, waits=%d): the other workers never flush and Wait blocks forever", closes, sends, waits))
	// drain on shutdown: in run (incl. closures), the shutdown case is followed by a non-blocking select receiving from `in`
	var shutSel *ssa.Select
	shutIdx := -1
	allInstrs(run, func(in ssa.Instruction) {
		if sel, ok := in.(*ssa.Select); ok {
			for i, st := range sel.States {
				if st.Dir == types.RecvOnly && isFieldLoad(st.Chan, shutF) {
					shutSel, shutIdx = sel, i
				}
			}
		}
	})
	if shutSel == nil {
		anchorFail("GrafanaNet.run: shutdown select case not found")
	}
	inPar := run.Params[1]
	drains := false
	// find block entered when index == shutIdx
	for _, b := range run.Blocks {
		ifi, ok := b.Instrs[len(b.Instrs)-1].(*ssa.If)
		if !ok {
			continue
		}
		sel, k, ok := selectIndexTest(ifi.Cond)
		if !ok || sel != shutSel || k != shutIdx {
			continue
		}
		region := reachable(b.Succs[0], nil, nil)
		for rb := range region {
			for _, in := range rb.Instrs {
				if s2, ok := in.(*ssa.Select); ok && !s2.Blocking && b.Succs[0].Dominates(rb) {
					for _, st := range s2.States {
						if st.Dir == types.RecvOnly && strip(st.Chan) == inPar {
							drains = true
						}
					}
				}
			}
		}
	}
	// the last state of a blocking select has no index test: handle shutdown being the final else
	if !drains && shutIdx == len(shutSel.States)-1 {
		for _, b := range run.Blocks {
			for _, in := range b.Instrs {
				if s2, ok := in.(*ssa.Select); ok && !s2.Blocking && s2 != shutSel {
					for _, st := range s2.States {
						if st.Dir == types.RecvOnly && strip(st.Chan) == inPar && instrDominates(shutSel, s2) {
							drains = true
						}
					}
				}
			}
		}
	}
	c.Judge(drains, "route.GrafanaNet.run drains its input on shutdown", c.At(shutSel), "after the shutdown signal the worker empties `in` (select with default) before the final flush", "on the shutdown signal the worker flushes only its current batch and returns: metrics still queued in its input channel are dropped although Shutdown promises to flush everything buffered")
}
