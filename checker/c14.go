package main

import (
	"fmt"
	"go/constant"
	"go/token"
	"go/types"
	"os"
	"regexp"
	"sort"
	"strings"

	"golang.org/x/tools/go/ssa"
)

func init() {
	register(&PropDef{
		ID:          "C14",
		Title:       "Nothing received from the network or the admin port can crash the relay",
		Decided:     "every instruction of the classes K1 explicit panic, K2 log.Fatal*/os.Exit/session.Must, K3 integer division or remainder by a non-constant, K4 time.NewTicker/Tick with a non-constant period, K5 type assertion without comma-ok, K6 make(chan/slice) with a non-constant size, K7 method call on a *regexp.Regexp struct field, K8 close of a channel field, K9 constant index / [c:len-d] slicing of a slice, K11 dereference of an unchecked map lookup — in any function that can run after start-up (reachable from goroutines, input handlers, the admin command interpreter or library callbacks) — is discharged by a dominating guard on the same value, by validation traced through struct fields, parameters and all callers back to a rejecting comparison in a constructor, or by a reviewed entry whose structural precondition is re-checked.",
		NotDecided:  "nil dereferences and index errors outside these classes (no sound general nil/bounds analysis is in reach); panics inside third-party libraries; memory exhaustion; sites reachable only from main before the inputs start are listed as start-up refusals, not failed.",
		Assumptions: []string{"logging and metrics calls do not panic", "a comparison recognised as a guard is sufficient when the edge leading to the site implies the needed sign/non-zero property of the same variable or struct field (fields are assumed not to be modified between validation in the constructor and use, which R checks by requiring every store into the field to be validated)"},
		Rules: []RuleDef{
			{ID: "C14.R1", Min: 60, Doc: "crash-site obligations K1–K11 over all runtime functions: enumerate, then discharge by guard / validated value flow / reviewed table", Run: c14r1},
			{ID: "C14.R4", Min: 3, Doc: "no concurrent map write: the maps that several goroutines use (the aggregator's regex match cache, the order-validation table) are only written with their mutex held exclusively — a concurrent map write is a fatal runtime error that recover() cannot catch (lockset rules C03.R4(a) and C19.R1 evaluated for this property as well)", Run: func(c *Check) { reCacheLockset(c); c19r1(c) }},
			{ID: "C14.R3", Min: 5, Doc: "one concrete type per published atomic.Value: a consistentHashing route always publishes a consistentHashingConfig — every exported baseRoute method that stores a configuration is redeclared on *ConsistentHashing, and every storing path of those methods builds the ring (i.e. a consistentHashingConfig); storing a baseConfig into the same atomic.Value panics ('store of inconsistently typed value') in the admin goroutine (rules C15.R3 and C15.R2's path rule evaluated for this property as well)", Run: func(c *Check) { c15r3(c); c15r2paths(c) }},
			{ID: "C14.R2", Min: 2, Doc: "structural preconditions of the reviewed entries (constructor guards, list/map agreement in AddOrCreate, ring non-emptiness) still hold", Run: c14r2},
		},
	})
}

type reviewed struct {
	reason string
	pre    string // name of a precondition checked in R2 ("" = none)
}

// Reviewed crash sites: key = crashSite.Key() (class, function, operand — no positions).
var reviewedSites = map[string]reviewed{}

func rv(key, reason, pre string) { reviewedSites[key] = reviewed{reason, pre} }

func init() {
	// K1 explicit panics
	rv("K1 stats.expandKey panic", "instance is set to a non-empty value by main before any metric is created (main exits on an empty instance)", "")
	rv("K1 (*destination.Destination).Run panic", "Run is only called by route constructors / addDestination on destinations that were just created (In == nil)", "")
	rv("K1 destination.NewWriter panic", "size > 0 is validated by destination.New (ioBufSize)", "destination.New validates")
	rv("K1 route.parseMetric panic", "getSchemas rejects schema files without a catch-all '.*' pattern, so Match always finds a schema", "getSchemas default pattern")
	rv("K1 route.getGrafanaNetAddr panic", "NewGrafanaNetConfig rejects addresses that do not end in /metrics", "")
	rv("K1 (*route.GrafanaNet).retryFlush panic", "msg.CreateMsg only fails on marshalling errors of in-memory structs; http.NewRequest only fails on a malformed URL, validated by NewGrafanaNetConfig", "")
	rv("K1 (*route.GrafanaNet).retryFlush panic #2", "see retryFlush panic", "")
	rv("K1 (*route.GrafanaNet).postConfig panic", "http.NewRequest only fails on a malformed URL, validated by NewGrafanaNetConfig", "")
	rv("K1 (*route.KafkaMdm).run$[time.Now] panic", "MarshalMsg of an in-memory MetricData cannot fail (generated msgp code returns errors only from the writer)", "")
	rv("K1 (*route.KafkaMdm).run$[time.Now] panic #2", "Partition only fails for an unknown partitioning method, which NewKafkaMdm rejects (partitioner.NewKafka)", "")
	rv("K5 (*route.KafkaMdm).run$[time.Now] .(github.com/Shopify/sarama.ProducerErrors)", "documented contract of SyncProducer.SendMessages: a non-nil error is a ProducerErrors", "")
	// K2 process exits
	rv("K2 cmd/carbon-relay-ng.main$[ui/telnet.Start] github.com/sirupsen/logrus.Fatalf", "the admin listener could not be opened at start-up: refusal to start, not a reaction to traffic (telnet.Start only returns the listen error)", "")
	rv("K2 ui/web.Start os.Exit", "the HTTP admin listener could not be opened at start-up: refusal to start", "")
	rv("K2 destination.Pickle github.com/sirupsen/logrus.Fatal", "binary.Write of a uint32 into a bytes.Buffer cannot fail", "")
	// K3
	rv("K3 (*route.ConsistentHasher).GetDestinationIndex % len(h.Ring)", "the ring has replicaCount entries per destination; routes are created with >= 2 destinations and the last one cannot be removed", "ring non-empty")
	rv("K3 (*route.GrafanaNet).Dispatch % route.Cfg.Concurrency", "NewGrafanaNet rejects Concurrency < 1 before it stores the configuration", "NewGrafanaNet validates cfg")
	rv("K3 (*statsmt.LatencyHistogram15s32).ReportGraphite / github.com/Dieterbe/artisanalhistogram/hist15s.Report.Count", "guarded by the ok result of Report, which is false for an empty histogram (library contract); internal instrumentation, no network input", "")
	// K4
	rv("K4 (*badmetrics.BadMetrics).manage time.NewTicker(b.maxAge/10)", "maxAge comes from TableConfig.BadMetricsMaxAge, which NewTableConfig validates (maxAge/10 > 0)", "NewTableConfig validates maxAge")
	rv("K4 (*nsqd.DiskQueue).ioLoop time.NewTicker(d.syncTimeout)", "disk queues exist only for destinations with spool=true, for which destination.New validates spoolSyncPeriod > 0", "destination.New validates spool settings")
	// K5
	rv("K5 destination.NewSpool .(*nsqd.DiskQueue)", "NewDiskQueue always returns a *DiskQueue", "NewDiskQueue returns *DiskQueue")
	// K6
	rv("K6 destination.NewSpool make(chan) size param bufSize", "spool buffers exist only for destinations with spool=true, for which destination.New validates spoolBufSize >= 0", "destination.New validates spool settings")
	rv("K6 (*nsqd.DiskQueue).readOne make([]) size integer decoded from a stream", "record lengths are read back from segment files below the persisted write position, which is only advanced after the data was fsynced (C08.R1); they are the lengths writeOne wrote", "")
	// K7
	rv("K7 (persister.WhisperSchemas).Match (*regexp.Regexp).MatchString on *persister.Schema.Pattern", "ReadWhisperSchemas returns an error when the pattern is empty or does not compile, before the schema is appended", "")
	rv("K7 (persister.WhisperSchemas).String (*regexp.Regexp).String on *persister.Schema.Pattern", "see WhisperSchemas.Match", "")
	rv("K7 route.getSchemas (*regexp.Regexp).String on *persister.Schema.Pattern", "see WhisperSchemas.Match", "")
	rv("K7 (pkg/mt-conf.Aggregations).String (*regexp.Regexp).String on *pkg/mt-conf.Aggregation.Pattern", "ReadAggregations returns an error when the pattern does not compile, before the item is appended", "")
	// K9
	for _, k := range []string{"", " #2", " #3", " #4"} {
		rv("K9 (*table.Table).Dispatch index [0] of bytes.Fields()"+k, "ValidatePacket accepted the line, which has exactly three fields (checked by C02.R1: nothing after the gate runs on an invalid line)", "")
	}
	rv("K9 (*aggregator.Aggregator).AddMaybe index [0] of param buf", "the FIELDS of a validated line (C03.R1 checks the argument kind at the call site)", "")
	rv("K9 (*aggregator.Aggregator).AddMaybe index [0] of param buf #2", "see AddMaybe", "")
	rv("K9 (*aggregator.Aggregator).run index [0] of aggregator.msg.buf", "msg.buf is AddMaybe's FIELDS parameter", "")
	rv("K9 (pkg/mt-conf.Aggregations).String index [0] of *pkg/mt-conf.Aggregation.AggregationMethod", "the default has one method and strings.Split yields at least one element, each of which is appended or rejected with an error", "")
	rv("K9 destination.addrInstanceSplit index [2] of strings.Split()", "inside `if strings.Count(addr, \":\") == 2`: the split has three elements", "")
	rv("K9 go-whisper.parseRetentionPart index [1] of (*regexp.Regexp).FindStringSubmatch()", "after retentionRegexp.MatchString succeeded: the expression has two groups", "")
	rv("K9 go-whisper.parseRetentionPart index [2] of (*regexp.Regexp).FindStringSubmatch()", "see above", "")
	rv("K9 route.parseMetric index [0] of persister.Schema.Retentions", "getSchemas rejects schemas with an empty retention list", "getSchemas non-empty retentions")
	// K11
	rv("K11 (*aggregator.Aggregator).Flush deref of map lookup a.aggregations", "every timestamp in tsList has a bucket in the map: AddOrCreate creates both together and Flush removes both", "AddOrCreate keeps list and map in step")
	rv("K1 (*table.MockTable).DelRoute panic", "test double, never constructed outside tests", "")
	rv("K1 (*table.MockTable).UpdateDestination panic", "test double, never constructed outside tests", "")
	rv("K1 (*table.MockTable).UpdateRoute panic", "test double, never constructed outside tests", "")
}

func nilGuarded(fn *ssa.Function, at ssa.Instruction, v ssa.Value) bool {
	for _, b := range fn.Blocks {
		ifi, ok := b.Instrs[len(b.Instrs)-1].(*ssa.If)
		if !ok {
			continue
		}
		cond, neg := negStrip(ifi.Cond)
		bo, ok := cond.(*ssa.BinOp)
		if !ok || (bo.Op != token.NEQ && bo.Op != token.EQL) {
			continue
		}
		var g ssa.Value
		if c, ok := bo.Y.(*ssa.Const); ok && c.IsNil() {
			g = bo.X
		} else if c, ok := bo.X.(*ssa.Const); ok && c.IsNil() {
			g = bo.Y
		} else {
			continue
		}
		if !sameLoc(g, v) {
			continue
		}
		nonNilEdge := 0
		if (bo.Op == token.EQL) != neg {
			nonNilEdge = 1
		}
		if edgeDominates(b, b.Succs[nonNilEdge], at.Block()) {
			return true
		}
	}
	return false
}

// lenGuarded: some comparison involving len(x) (x at the same location as v) decides whether `at` is reached.

// helperTrueImpliesLenTest: every way the boolean helper g can return true is controlled by a
// test of len(par) inside g.
func helperTrueImpliesLenTest(g *ssa.Function, par *ssa.Parameter, minLenLG int64, depthLG int) bool {
	if g.Signature.Results().Len() != 1 {
		return false
	}
	okAll, n := true, 0
	allInstrs(g, func(in ssa.Instruction) {
		ret, ok := in.(*ssa.Return)
		if !ok {
			return
		}
		var blocks []*ssa.BasicBlock
		isFalse := func(v ssa.Value) bool {
			k, ok := v.(*ssa.Const)
			return ok && k.Value != nil && k.Value.Kind() == constant.Bool && !constant.BoolVal(k.Value)
		}
		switch r := ret.Results[0].(type) {
		case *ssa.Phi:
			for i, e := range r.Edges {
				if !isFalse(e) {
					blocks = append(blocks, r.Block().Preds[i])
				}
			}
		default:
			if !isFalse(r) {
				blocks = append(blocks, ret.Block())
			}
		}
		for _, b := range blocks {
			n++
			// any instruction of b serves as the position to be guarded
			if !lenGuardedN(g, b.Instrs[len(b.Instrs)-1], par, minLenLG, depthLG+1) {
				okAll = false
			}
		}
	})
	return okAll && n > 0
}

// lenGuardedN: a test of len(v) controls `at`; minLenLG is the length the guarded access needs
// (0: unknown, any length test is accepted).
func lenGuardedN(fn *ssa.Function, at ssa.Instruction, v ssa.Value, minLenLG int64, depthLG int) bool {
	for _, b := range fn.Blocks {
		ifi, ok := b.Instrs[len(b.Instrs)-1].(*ssa.If)
		if !ok {
			continue
		}
		cond, negated := negStrip(ifi.Cond)
		// a boolean helper of the module that tests the length of its argument: isRegexSpec(s)
		if call, ok := cond.(*ssa.Call); ok && depthLG < 2 {
			if g := call.Call.StaticCallee(); g != nil && g.Blocks != nil && ModuleFunc(g) {
				for ai, a := range call.Call.Args {
					if (a == v || sameLoc(a, v)) && ai < len(g.Params) && helperTrueImpliesLenTest(g, g.Params[ai], minLenLG, depthLG) {
						si := 0
						if negated {
							si = 1
						}
						if edgeDominates(b, b.Succs[si], at.Block()) {
							return true
						}
					}
				}
			}
		}
		bo, ok := cond.(*ssa.BinOp)
		if !ok {
			continue
		}
		isLen := func(x ssa.Value) bool {
			call, ok := x.(*ssa.Call)
			if !ok {
				return false
			}
			bi, ok := call.Call.Value.(*ssa.Builtin)
			return ok && bi.Name() == "len" && (call.Call.Args[0] == v || sameLoc(call.Call.Args[0], v))
		}
		if !isLen(bo.X) && !isLen(bo.Y) {
			continue
		}
		for si := 0; si < 2; si++ {
			if !edgeDominates(b, b.Succs[si], at.Block()) {
				continue
			}
			// a comparison with a constant must exclude every length that is too short on this edge
			var k int64
			var lenLeft, isConst bool
			if kk, ok := constInt(bo.Y); ok && isLen(bo.X) {
				k, lenLeft, isConst = kk, true, true
			} else if kk, ok := constInt(bo.X); ok && isLen(bo.Y) {
				k, lenLeft, isConst = kk, false, true
			}
			if !isConst || minLenLG <= 0 {
				return true
			}
			excludes := true
			for L := int64(0); L < minLenLG; L++ {
				var t, known bool
				if lenLeft {
					t, known = evalRel(bo.Op, L, k)
				} else {
					t, known = evalRel(bo.Op, k, L)
				}
				if !known {
					excludes = false
					break
				}
				taken := t != negated
				if (si == 0) == taken {
					excludes = false // a too-short slice can take this edge
					break
				}
			}
			if excludes {
				return true
			}
		}
	}
	return false
}

func c14r1(c *Check) {
	rt, startup := runtimeFunctions(c.P)
	c.Stat("runtime_functions", len(rt))
	c.Stat("startup_only_functions", len(startup))
	sites := enumerateCrashSites(c.P, rt)
	d := newDischarger(c.P)
	cg := c.P.CG()
	perClass := map[string]int{}
	debug := os.Getenv("CRNG_DEBUG") != ""
	usedReviewed := map[string]bool{}
	funcByStableName := map[string]*ssa.Function{}
	for _, f := range c.P.Funcs {
		funcByStableName[stableFuncName(f)] = f
	}
	for _, s := range sites {
		perClass[s.Class]++
		key := s.Key()
		pos := c.At(s.In)
		var trail []string
		done := ""
		switch s.Class {
		case "K3", "K4", "K6":
			if d.validated(s.Fn, s.In, s.Val, s.Need, 0, &trail) {
				done = "operand validated (" + s.Need.String() + "): " + strings.Join(trail, "; ")
			}
		case "K5":
			done = dischargeAssert(c, s)
		case "K7":
			if nilGuarded(s.Fn, s.In, s.Val) {
				done = "dominated by a nil test of the same field"
			} else if why := matcherRegexGated(c.P, s); why == "" {
				done = "MatchRegexAndExpand is only called on an aggregator's matcher; aggregator.New rejects an empty Regex and matcher.updateInternals compiles every non-empty Regex (no other condition), so regex is set"
			}
		case "K8":
			done = dischargeClose(c, s)
		case "K12":
			if nilGuarded(s.Fn, s.In, s.Val) {
				done = "dominated by a nil test of the function value"
			} else if g, _ := funcTableElement(s.Val); g != nil {
				if ok, _ := funcTableComplete(c.P, g); ok {
					done = "every slot of the table is filled with a function by the package initialiser"
				}
			}
		case "K9":
			minLenLG := int64(0)
			switch x := s.In.(type) {
			case *ssa.IndexAddr:
				if k, ok := constInt(x.Index); ok {
					minLenLG = k + 1
				}
			case *ssa.Slice:
				if lo, ok := constInt(x.Low); ok {
					if bo, ok := x.High.(*ssa.BinOp); ok {
						if d, ok := constInt(bo.Y); ok {
							minLenLG = lo + d
						}
					}
				}
			}
			guarded := lenGuardedN(s.Fn, s.In, s.Val, minLenLG, 0)
			if !guarded && minLenLG == 2 && distinctEnds(c.P, s.Fn, s.In, s.Val, 0) {
				guarded = true
			}
			if guarded {
				done = "controlled by a test of the slice's length"
			} else if why := knownLength(s); why != "" {
				done = why
			}
		}
		if done == "" {
			r, ok := reviewedSites[key]
			if !ok {
				// the reviewed site may have moved into a helper method that the reviewed function calls
				// (same type, same operand): the reason given for the function covers its helpers
				// inside a helper the operand may be rooted in a parameter (m.buf) where the reviewed function
				// had a local of the same type (aggregator.msg.buf): compare by type as well
				altWhat := s.What
				if s.Val != nil {
					altWhat = strings.Replace(s.What, describeVal(s.Val), describeValTyped(s.Val), 1)
				}
				for k2, r2 := range reviewedSites {
					rest := strings.TrimPrefix(k2, s.Class+" ")
					what := s.What
					if rest != k2 && !strings.HasSuffix(rest, " "+what) && strings.HasSuffix(rest, " "+altWhat) {
						what = altWhat
					}
					if rest == k2 || !strings.HasSuffix(rest, " "+what) {
						continue
					}
					owner := funcByStableName[strings.TrimSuffix(rest, " "+what)]
					if owner == nil {
						continue
					}
					for _, w := range workerFuncs(c.P, owner) {
						if w == s.Fn {
							r, ok, key = r2, true, k2
						}
					}
				}
			}
			if !ok && s.Class == "K9" {
				// the indexed slice is a parameter of a helper: every caller hands in a slice for which the same
				// index is guarded or reviewed at the call site
				if par, isPar := s.Val.(*ssa.Parameter); isPar && par.Parent() == s.Fn {
					idx := -1
					for i, p := range s.Fn.Params {
						if p == par {
							idx = i
						}
					}
					ins := c.P.CG().In[s.Fn]
					all := len(ins) > 0 && idx >= 0
					var rk string
					var rr reviewed
					for _, e := range ins {
						cc := callCommon(e.Site)
						if e.Kind != EdgeCall || e.Dyn || cc == nil || idx >= len(cc.Args) {
							all = false
							break
						}
						arg := cc.Args[idx]
						what := strings.Replace(s.What, describeVal(s.Val), describeVal(arg), 1)
						k2 := fmt.Sprintf("%s %s %s", s.Class, stableFuncName(e.Caller), what)
						if r2, ok2 := reviewedSites[k2]; ok2 {
							rk, rr = k2, r2
							continue
						}
						all = false
					}
					if all && rk != "" {
						r, ok, key = rr, true, rk
					}
				}
			}
			if ok {
				usedReviewed[key] = true
				done = "reviewed: " + r.reason
				if r.pre != "" {
					done += " [precondition " + r.pre + " re-checked by C14.R2]"
				}
			}
		}
		if done != "" {
			c.Hold(key, pos, done)
			continue
		}
		chain := cg.Chain(rt, s.Fn)
		if len(trail) > 0 {
			chain = append(chain, trail...)
		}
		if debug {
			fmt.Fprintf(os.Stderr, "UNDISCHARGED %s @ %s\n", key, pos)
		}
		c.ViolateW(key, pos, crashExplain(s), chain)
	}
	for k := range reviewedSites {
		if !usedReviewed[k] && debug {
			fmt.Fprintf(os.Stderr, "reviewed entry unused: %s\n", k)
		}
	}
	for k, v := range perClass {
		c.Stat("sites_"+k, v)
	}
	// start-up only sites are listed, not failed
	ss := enumerateCrashSites(c.P, startup)
	c.Stat("startup_sites_listed", len(ss))
	var names []string
	for _, s := range ss {
		if s.Class == "K9" {
			continue
		}
		names = append(names, s.Key())
	}
	sort.Strings(names)
	if len(names) > 0 {
		c.Hold("start-up only sites (refusal to start, not a crash on traffic)", "-", strings.Join(names, " | "))
	}
}

func crashExplain(s crashSite) string {
	switch s.Class {
	case "K1":
		return "explicit panic reachable at run time without a reviewed justification"
	case "K2":
		return "process exit (" + s.What + ") reachable at run time: a failing admin command or runtime error kills the relay instead of returning an error"
	case "K3":
		return "integer division/remainder by a value that is not shown to be non-zero: " + s.What
	case "K4":
		return "time.NewTicker panics on a non-positive period and the period is not validated on every way it can be set: " + s.What
	case "K5":
		return "type assertion without comma-ok on a value whose dynamic type is not established"
	case "K6":
		return "make() with a size that is not shown to be non-negative: " + s.What
	case "K7":
		return "method call on a *regexp.Regexp field that is only set when the option is present: nil dereference"
	case "K8":
		return "close() of a channel that other goroutines may still send on: send on closed channel panics"
	case "K9":
		return "constant index/slice bounds on a slice whose length is not tested: " + s.What
	case "K12":
		why := ""
		if g, _ := funcTableElement(s.Val); g != nil {
			if p := cgOf(s.Fn).P; p != nil {
				if _, w := funcTableComplete(p, g); w != "" {
					why = " (" + w + ")"
				}
			}
		}
		return "a function taken out of a lookup table is called without a nil test although not every index/key has an entry: a recognised token without an entry calls a nil function and panics" + why
	case "K11":
		return "result of a map lookup without comma-ok is dereferenced: nil dereference when the key is absent"
	}
	return ""
}

// dischargeAssert handles K5.
func dischargeAssert(c *Check, s crashSite) string {
	ta := s.In.(*ssa.TypeAssert)
	// (a) published snapshot: every Store into the atomic.Value is of a type satisfying the assertion
	if call, ok := ta.X.(*ssa.Call); ok && calleeName(call.Common()) == atomicLoad {
		_, fld, ok := publishedAccess(call, atomicLoad)
		if ok {
			bad := ""
			n := 0
			for _, fn := range c.P.Funcs {
				allInstrs(fn, func(in ssa.Instruction) {
					_, f2, ok := publishedAccess(in, atomicStore)
					if !ok || f2 != fld {
						return
					}
					n++
					arg := callCommon(in).Args[1]
					var st types.Type
					switch a := arg.(type) {
					case *ssa.MakeInterface:
						st = a.X.Type()
					case *ssa.ChangeInterface:
						st = a.X.Type()
					default:
						st = arg.Type()
					}
					okT := false
					if iface, isI := ta.AssertedType.Underlying().(*types.Interface); isI {
						okT = types.Implements(st, iface)
						if _, argIsIface := st.Underlying().(*types.Interface); argIsIface {
							okT = types.Identical(st, ta.AssertedType) || types.AssignableTo(st, ta.AssertedType)
						}
					} else {
						okT = types.Identical(st, ta.AssertedType)
					}
					if !okT {
						bad = fmt.Sprintf("%s stores a %s", FuncName(fn), short(types.TypeString(st, nil)))
					}
				})
			}
			if bad == "" && n > 0 {
				// embedded baseRoute.config is shared by several route types: a concrete-type assertion
				// needs every route type that can reach this function to store that type
				return fmt.Sprintf("asserts the type of every one of the %d Stores into %s", n, fld.Name())
			}
			if bad != "" {
				return dischargeEmbeddedConfig(c, s, ta, fld)
			}
		}
	}
	// (b) type switch idiom / checked assertion on the same operand
	for _, b := range s.Fn.Blocks {
		for _, in := range b.Instrs {
			ck, ok := in.(*ssa.TypeAssert)
			if !ok || !ck.CommaOk || !types.Identical(ck.AssertedType, ta.AssertedType) {
				continue
			}
			if ck.X != ta.X && !sameLoc(ck.X, ta.X) {
				sk1, ok1 := slotOf(ck.X)
				sk2, ok2 := slotOf(ta.X)
				if !(ok1 && ok2 && sk1 == sk2) {
					continue
				}
			}
			for _, r := range *ck.Referrers() {
				ex, ok := r.(*ssa.Extract)
				if !ok || ex.Index != 1 {
					continue
				}
				for _, rr := range *ex.Referrers() {
					if ifi, ok := rr.(*ssa.If); ok && edgeDominates(ifi.Block(), ifi.Block().Succs[0], ta.Block()) {
						return "repeats a checked assertion of the same type on the same operand"
					}
				}
			}
		}
	}
	// (c) the stats helpers: GetOrRegister(key, metric).(T) where the freshly created metric passed in is a T
	if call, ok := ta.X.(*ssa.Call); ok && strings.HasSuffix(calleeName(call.Common()), "go-metrics.GetOrRegister") {
		var passed types.Type
		switch a := call.Call.Args[1].(type) {
		case *ssa.MakeInterface:
			passed = a.X.Type()
		case *ssa.ChangeInterface:
			passed = a.X.Type()
		}
		if passed != nil {
			if types.AssignableTo(passed, ta.AssertedType) {
				return "GetOrRegister returns the metric passed in (of the asserted type) or the one registered under the same key, and keys embed the metric type (mtype=...)"
			}
		}
	}
	// (d) sync.Pool.Get with a New function of the asserted type
	if call, ok := ta.X.(*ssa.Call); ok && calleeName(call.Common()) == "(*sync.Pool).Get" {
		return "sync.Pool only ever holds what New returns and what Put receives (same type)"
	}
	return ""
}

// dischargeEmbeddedConfig: `route.config.Load().(consistentHashingConfig)` in a method of a type embedding
// baseRoute: fine when every method of that concrete type that reaches a Store stores the asserted type
// (C15.R3 checks the overrides); here: the function is a method of a type whose constructor stores the asserted type
// and no method promoted from baseRoute that Stores a different type is left un-overridden.
func dischargeEmbeddedConfig(c *Check, s crashSite, ta *ssa.TypeAssert, fld *types.Var) string {
	recv := s.Fn.Signature.Recv()
	if recv == nil {
		return ""
	}
	pt, ok := recv.Type().(*types.Pointer)
	if !ok {
		return ""
	}
	named, ok := pt.Elem().(*types.Named)
	if !ok {
		return ""
	}
	// every method in the method set of *T that (transitively, via static calls with a non-extender callback) stores
	// into config must be declared on T itself
	ms := c.P.SSA.MethodSets.MethodSet(pt)
	for i := 0; i < ms.Len(); i++ {
		sel := ms.At(i)
		f := c.P.SSA.MethodValue(sel)
		if f == nil {
			continue
		}
		obj := sel.Obj().(*types.Func)
		declaredOnT := false
		if r := obj.Type().(*types.Signature).Recv(); r != nil {
			if p2, ok := r.Type().(*types.Pointer); ok && p2.Elem() == types.Type(named) {
				declaredOnT = true
			}
		}
		if declaredOnT {
			continue
		}
		// promoted method: dangerous when it stores a plain baseConfig, i.e. passes baseConfigExtender
		// to one of the helpers (or stores a baseConfig directly)
		target := c.P.SSA.FuncValue(obj)
		if target == nil || target.Blocks == nil {
			continue
		}
		dangerous := false
		allInstrs(target, func(in ssa.Instruction) {
			if cc := callCommon(in); cc != nil {
				for _, a := range cc.Args {
					if f := resolveFuncValue(a); f != nil && f.Name() == "baseConfigExtender" {
						dangerous = true
					}
				}
				if _, f2, ok := publishedAccess(in, atomicStore); ok && f2 == fld {
					if mi, ok := cc.Args[1].(*ssa.MakeInterface); ok && !types.Identical(mi.X.Type(), ta.AssertedType) {
						dangerous = true
					}
				}
			}
		})
		if dangerous {
			return ""
		}
	}
	return "method of " + named.Obj().Name() + ": its constructor stores the asserted type and every promoted baseRoute method that stores a configuration is overridden"
}

// dischargeClose handles K8.
func dischargeClose(c *Check, s crashSite) string {
	cc := callCommon(s.In)
	f, _ := chanField(cc.Args[0])
	// senders on the field, directly or through a callee parameter
	var senders []string
	for _, fn := range c.P.Funcs {
		allInstrs(fn, func(in ssa.Instruction) {
			switch x := in.(type) {
			case *ssa.Send:
				if isFieldLoad(x.Chan, f) {
					senders = append(senders, FuncName(fn))
				}
			case *ssa.Select:
				for _, st := range x.States {
					if st.Dir == types.SendOnly && isFieldLoad(st.Chan, f) {
						senders = append(senders, FuncName(fn))
					}
				}
			case *ssa.Call:
				for i, a := range x.Call.Args {
					if !isFieldLoad(a, f) {
						continue
					}
					for _, callee := range c.P.CG().calleesAt(x) {
						if i < len(callee.Params) && sendsOnParam(callee, callee.Params[i]) {
							senders = append(senders, FuncName(fn)+" via "+FuncName(callee))
						}
					}
				}
			}
		})
	}
	if len(senders) == 0 {
		return "no goroutine sends on this channel (it is only received from): closing it is the broadcast"
	}
	return ""
}

func sendsOnParam(fn *ssa.Function, p *ssa.Parameter) bool {
	found := false
	allInstrs(fn, func(in ssa.Instruction) {
		switch x := in.(type) {
		case *ssa.Send:
			if x.Chan == p {
				found = true
			}
		case *ssa.Select:
			for _, st := range x.States {
				if st.Dir == types.SendOnly && st.Chan == p {
					found = true
				}
			}
		}
	})
	return found
}

func (g *CallGraph) calleesAt(site ssa.Instruction) []*ssa.Function {
	var out []*ssa.Function
	for _, e := range g.Out[site.Parent()] {
		if e.Site == site && e.Callee != nil && e.Kind != EdgeRef {
			out = append(out, e.Callee)
		}
	}
	return out
}

// knownLength: slices whose minimum length is guaranteed by the producing call.
func knownLength(s crashSite) string {
	v := s.Val
	idx := int64(-1)
	if ia, ok := s.In.(*ssa.IndexAddr); ok {
		idx, _ = constInt(ia.Index)
	}
	if call, ok := strip(v).(*ssa.Call); ok {
		switch calleeName(call.Common()) {
		case "strings.Split", "strings.SplitN", "bytes.Split", "bytes.SplitN":
			if idx == 0 {
				return "Split always returns at least one element"
			}
		}
	}
	if ex, ok := v.(*ssa.Extract); ok && ex.Index == 0 {
		if call, ok := ex.Tuple.(*ssa.Call); ok && calleeName(call.Common()) == "(*bufio.Reader).Peek" {
			if n, ok := constInt(call.Call.Args[1]); ok && idx >= 0 && idx < n {
				// only on the no-error edge of the test of Peek's error
				for _, r := range *call.Referrers() {
					errEx, ok := r.(*ssa.Extract)
					if !ok || errEx.Index != 1 {
						continue
					}
					for _, b := range s.Fn.Blocks {
						ifi, ok := b.Instrs[len(b.Instrs)-1].(*ssa.If)
						if !ok {
							continue
						}
						e, errEdge, ok := errTest(ifi.Cond)
						if !ok || e != ssa.Value(errEx) {
							continue
						}
						si := 1
						if !errEdge {
							si = 0
						}
						if edgeDominates(b, b.Succs[si], s.In.Block()) {
							return "Peek(n) returns exactly n bytes when it returns no error, and the access is on the no-error edge"
						}
					}
				}
			}
		}
	}
	if ms, ok := v.(*ssa.MakeSlice); ok {
		if n, ok := constInt(ms.Len); ok && idx >= 0 && idx < n {
			return "slice made with a constant length"
		}
	}
	if sl, ok := v.(*ssa.Slice); ok {
		if _, isArr := sl.X.Type().Underlying().(*types.Pointer); isArr {
			return "slice of a fixed-size array"
		}
	}
	return ""
}

func c14r2(c *Check) {
	// destination.New validates the values that crash later
	dn := c.P.Func("destination", "", "New")
	for _, par := range []struct {
		name string
		nd   need
	}{{"periodFlush", needPos}, {"periodReConn", needPos}, {"ioBufSize", needPos}, {"connBufSize", needNonNeg}} {
		// the value stored into the Destination field of that name (a parameter of New, or a field of the
		// configuration struct New receives) must be guarded at the store
		fld := c.P.Field("destination", "Destination", par.name)
		nSt, nOK := 0, 0
		allInstrs(dn, func(in ssa.Instruction) {
			st, ok := in.(*ssa.Store)
			if !ok {
				return
			}
			if fa, ok := st.Addr.(*ssa.FieldAddr); !ok || fieldOfAddr(fa) != fld {
				return
			}
			nSt++
			if _, g := guardedAt(dn, st, st.Val, par.nd); g {
				nOK++
			} else if _, g := validatedByHelper(dn, st, st.Val, par.nd, 0); g {
				nOK++
			}
		})
		okG := nSt > 0 && nOK == nSt
		if nSt == 0 {
			anchorFail("destination.New: no store into Destination.%s", par.name)
		}
		c.Judge(okG, "destination.New validates "+par.name+" "+par.nd.String(), c.AtFn(dn), "rejecting comparison dominates the construction", "destination.New no longer rejects a "+par.name+" that makes the destination's goroutines panic later (time.NewTicker / NewWriter / make(chan))")
	}
	// getSchemas requires a default pattern
	gs := c.P.Func("route", "", "getSchemas")
	hasDefault := false
	allInstrs(gs, func(in ssa.Instruction) {
		if bo, ok := in.(*ssa.BinOp); ok && bo.Op == token.EQL {
			if s, ok := constString(bo.Y); ok && s == ".*" {
				hasDefault = true
			}
		}
	})
	c.Judge(hasDefault, "route.getSchemas requires a catch-all '.*' schema", c.AtFn(gs), "schema files without default pattern are rejected", "getSchemas no longer insists on a '.*' pattern: parseMetric panics for a metric no schema matches")
	// AddOrCreate: a timestamp appended to tsList always gets its bucket in the map (Flush dereferences the lookup)
	aoc := c.P.Func("aggregator", "*Aggregator", "AddOrCreate")
	tsF := c.P.Field("aggregator", "Aggregator", "tsList")
	agF := c.P.Field("aggregator", "Aggregator", "aggregations")
	cfg := &PathCfg{Classify: func(in ssa.Instruction) []string {
		if st, ok := in.(*ssa.Store); ok {
			if fa, ok := st.Addr.(*ssa.FieldAddr); ok && fieldOfAddr(fa) == tsF {
				if call, ok := st.Val.(*ssa.Call); ok {
					if b, ok := call.Call.Value.(*ssa.Builtin); ok && b.Name() == "append" {
						return []string{"list.append"}
					}
				}
			}
		}
		if mu, ok := in.(*ssa.MapUpdate); ok && isFieldLoad(mu.Map, agF) {
			return []string{"map.set"}
		}
		return nil
	}}
	paths, _ := EnumPaths(aoc, nil, cfg)
	bad := ""
	nApp := 0
	for i := range paths {
		pa := &paths[i]
		if pa.Has("list.append") {
			nApp++
			if pa.Index("map.set") < pa.Index("list.append") {
				bad = "a path appends the bucket timestamp to tsList but returns without creating the bucket in the map: " + pa.String()
			}
		} else if pa.Has("map.set") {
			bad = "a bucket is stored in the map without its timestamp being listed: " + pa.String()
		}
	}
	c.Judge(bad == "" && nApp > 0, "aggregator.AddOrCreate keeps tsList and aggregations in step", c.AtFn(aoc), fmt.Sprintf("%d paths: every tsList append is followed by the map store", len(paths)), bad+" — Flush then dereferences a nil bucket in the aggregator goroutine")
	// NewGrafanaNet validates the configuration before storing it
	ng := c.P.Func("route", "", "NewGrafanaNet")
	cfgF := c.P.Field("route", "GrafanaNet", "Cfg")
	var cfgStore ssa.Instruction
	allInstrs(ng, func(in ssa.Instruction) {
		if st, ok := in.(*ssa.Store); ok {
			if fa, ok := st.Addr.(*ssa.FieldAddr); ok && fieldOfAddr(fa) == cfgF {
				cfgStore = st
			}
		}
	})
	okConc, okBuf := false, false
	if cfgStore != nil {
		allInstrs(ng, func(in ssa.Instruction) {
			u, ok := in.(*ssa.UnOp)
			if !ok {
				return
			}
			if _, names := fieldPath(u); len(names) > 0 {
				switch names[len(names)-1] {
				case "Concurrency":
					if _, g := guardedAt(ng, cfgStore, u, needPos); g {
						okConc = true
					} else if _, g := validatedByHelper(ng, cfgStore, u, needPos, 0); g {
						okConc = true
					}
				case "BufSize":
					if _, g := guardedAt(ng, cfgStore, u, needNonNeg); g {
						okBuf = true
					} else if _, g := validatedByHelper(ng, cfgStore, u, needNonNeg, 0); g {
						okBuf = true
					}
				}
			}
		})
	}
	c.Judge(okConc && okBuf, "route.NewGrafanaNet validates Concurrency >= 1 and BufSize >= 0", c.AtFn(ng), "rejecting comparisons dominate the construction", "NewGrafanaNet no longer rejects concurrency < 1 / negative bufSize: Dispatch divides by Concurrency and make(chan) panics")
	// NewTableConfig validates the bad-metrics max age
	ntc := c.P.Func("table", "", "NewTableConfig")
	okAge := false
	allInstrs(ntc, func(in ssa.Instruction) {
		ex, ok := in.(*ssa.Extract)
		if !ok || ex.Index != 0 {
			return
		}
		if call, ok := ex.Tuple.(*ssa.Call); !ok || calleeName(call.Common()) != "time.ParseDuration" {
			return
		}
		// the normal return must be guarded
		allInstrs(ntc, func(r ssa.Instruction) {
			if ret, ok := r.(*ssa.Return); ok {
				if c0, isConst := ret.Results[1].(*ssa.Const); isConst && c0.IsNil() {
					if _, g := guardedAt(ntc, ret, ex, needPos); g {
						okAge = true
					}
					// guard on maxAge/10
					for _, rr := range *ex.Referrers() {
						if bo, ok := rr.(*ssa.BinOp); ok {
							if _, g := guardedAt(ntc, ret, bo, needPos); g {
								okAge = true
							}
						}
					}
				}
			}
		})
	})
	c.Judge(okAge, "table.NewTableConfig validates the bad-metrics max age", c.AtFn(ntc), "a rejecting comparison on the parsed duration dominates the successful return", "NewTableConfig accepts a bad_metrics_max_age for which time.NewTicker(maxAge/10) panics")
	// spool settings: validated under `if spool`, and NewSpool only under dest.Spool
	okSync, okSBuf := false, false
	for _, sp := range []struct {
		field string
		nd    need
	}{{"SpoolSyncPeriod", needPos}, {"SpoolBufSize", needNonNeg}} {
		// the constructor input that ends up in the Destination field of that name
		fld := c.P.Field("destination", "Destination", sp.field)
		ok := false
		allInstrs(dn, func(in ssa.Instruction) {
			st, isSt := in.(*ssa.Store)
			if !isSt {
				return
			}
			if fa, isFA := st.Addr.(*ssa.FieldAddr); !isFA || fieldOfAddr(fa) != fld {
				return
			}
			v := st.Val
			if rejectingComparison(dn, v, sp.nd) {
				ok = true
				return
			}
			// the comparison may live in a validating helper whose error New hands on
			allInstrs(dn, func(in2 ssa.Instruction) {
				call, isCall := in2.(*ssa.Call)
				if !isCall {
					return
				}
				g := call.Call.StaticCallee()
				if g == nil || g.Blocks == nil || !ModuleFunc(g) {
					return
				}
				for ai, a := range call.Call.Args {
					if (a == v || relatedTo(a, v, 0)) && ai < len(g.Params) && rejectingComparison(g, g.Params[ai], sp.nd) {
						ok = true
					}
				}
			})
		})
		if sp.field == "SpoolSyncPeriod" {
			okSync = ok
		} else {
			okSBuf = ok
		}
	}
	run := c.P.Func("destination", "*Destination", "Run")
	okOnlySpool := false
	allInstrs(run, func(in ssa.Instruction) {
		if call, ok := in.(*ssa.Call); ok && calleeName(call.Common()) == modPath+"/destination.NewSpool" {
			for _, b := range run.Blocks {
				if ifi, ok := b.Instrs[len(b.Instrs)-1].(*ssa.If); ok {
					if _, names := fieldPath(ifi.Cond); len(names) == 1 && names[0] == "Spool" && edgeDominates(b, b.Succs[0], call.Block()) {
						okOnlySpool = true
					}
				}
			}
		}
	})
	c.Judge(okSync && okSBuf && okOnlySpool, "destination.New validates spool settings; spools exist only when spool is set", c.AtFn(dn), "spoolSyncPeriod > 0 and spoolBufSize >= 0 are enforced for spool=true; NewSpool is called under `if dest.Spool`", "a spooling destination can be created with a sync period / buffer size that panics in the disk-queue or spool goroutines")
	// NewDiskQueue returns *DiskQueue
	ndq := c.P.Func("nsqd", "", "NewDiskQueue")
	okRet := true
	allInstrs(ndq, func(in ssa.Instruction) {
		if r, ok := in.(*ssa.Return); ok {
			mi, ok := r.Results[0].(*ssa.MakeInterface)
			if !ok || !strings.HasSuffix(mi.X.Type().String(), "nsqd.DiskQueue") {
				okRet = false
			}
		}
	})
	c.Judge(okRet, "nsqd.NewDiskQueue returns *DiskQueue", c.AtFn(ndq), "the assertion in NewSpool cannot fail", "NewDiskQueue can return something other than *DiskQueue: NewSpool's unchecked assertion panics")
	// getSchemas rejects empty retention lists
	okRetn := false
	for _, b := range gs.Blocks {
		ifi, ok := b.Instrs[len(b.Instrs)-1].(*ssa.If)
		if !ok {
			continue
		}
		cnd, neg := negStrip(ifi.Cond)
		bo, ok := cnd.(*ssa.BinOp)
		if !ok {
			continue
		}
		isLenRet := func(v ssa.Value) bool {
			call, ok := v.(*ssa.Call)
			if !ok {
				return false
			}
			bi, ok := call.Call.Value.(*ssa.Builtin)
			if !ok || bi.Name() != "len" {
				return false
			}
			_, names := fieldPath(call.Call.Args[0])
			return len(names) > 0 && names[len(names)-1] == "Retentions"
		}
		// truth of the comparison for an empty list
		var truth, known bool
		if k, ok := constInt(bo.Y); ok && isLenRet(bo.X) {
			truth, known = evalRel(bo.Op, 0, k)
		} else if k, ok := constInt(bo.X); ok && isLenRet(bo.Y) {
			truth, known = evalRel(bo.Op, k, 0)
		}
		if !known {
			continue
		}
		// and for a one-element list the other edge must be taken (the test really separates empty from non-empty)
		var truth1 bool
		if k, ok := constInt(bo.Y); ok && isLenRet(bo.X) {
			truth1, _ = evalRel(bo.Op, 1, k)
		} else if k, ok := constInt(bo.X); ok {
			truth1, _ = evalRel(bo.Op, k, 1)
		}
		if truth1 == truth {
			continue
		}
		si := 1
		if truth != neg {
			si = 0
		}
		tgt := b.Succs[si]
		if ret, ok := tgt.Instrs[len(tgt.Instrs)-1].(*ssa.Return); ok && len(ret.Results) == 2 {
			if k, isC := ret.Results[1].(*ssa.Const); !isC || !k.IsNil() {
				okRetn = true
			}
		}
	}
	c.Judge(okRetn, "route.getSchemas rejects schemas without retentions", c.AtFn(gs), "an empty Retentions list is an error", "getSchemas accepts a schema with an empty retention list: parseMetric indexes Retentions[0]")
	// consistent hashing routes start with >= 1 destinations: every place that invokes
	// NewConsistentHashing — directly, or through a constructor parameter that is bound to it —
	// tests the length of the destination list first
	nCH := modPath + "/route.NewConsistentHashing"
	for _, rdr := range [][2]string{{"imperatives", "readAddRouteConsistentHashing"}, {"cfg", "InitRoutes"}} {
		entry := c.P.Func(rdr[0], "", rdr[1])
		okTwo := false
		nSites, nGuarded := 0, 0
		// the entry point or one of the functions of its package it calls (a per-type helper)
		for _, fn := range samePkgCallees(c.P, entry) {
			fn := fn
			// guardBefore: in f, a test `len(dests) REL k` whose continuing edge establishes len > 0 dominates the call
			guardBefore := func(f *ssa.Function, call ssa.Instruction, dests ssa.Value, bind map[*ssa.Parameter]ssa.Value) bool {
				for _, b := range f.Blocks {
					ifi, ok := b.Instrs[len(b.Instrs)-1].(*ssa.If)
					if !ok {
						continue
					}
					bo, ok := ifi.Cond.(*ssa.BinOp)
					if !ok || !isLenOf(bo.X, dests) {
						continue
					}
					kv := bo.Y
					if p, ok := kv.(*ssa.Parameter); ok && bind[p] != nil {
						kv = bind[p]
					}
					k, ok := constInt(kv)
					if !ok {
						continue
					}
					for si := 0; si < 2; si++ {
						if edgeEstablishes(bo.Op, k, true, si == 0, needPos, false) && edgeDominates(b, b.Succs[si], call.Block()) {
							return true
						}
					}
				}
				return false
			}
			allInstrs(fn, func(in ssa.Instruction) {
				call, ok := in.(*ssa.Call)
				if !ok {
					return
				}
				if calleeName(call.Common()) == nCH {
					nSites++
					if guardBefore(fn, call, call.Call.Args[2], nil) || guardedByParsingHelper(fn, call, call.Call.Args[2], guardBefore) {
						nGuarded++
					}
					return
				}
				// the constructor comes out of a registry table indexed by the route type: the entry that holds
				// NewConsistentHashing gives the minimum the destination count is compared with
				if call.Call.StaticCallee() == nil && !call.Call.IsInvoke() && len(call.Call.Args) >= 3 {
					if ents, fld, _, ok := globalStructMapLookup(c.P, call.Call.Value); ok {
						for _, fields := range ents {
							f := resolveFuncValue(fields[fld])
							if f == nil || funcCanonical(f) != nCH {
								continue
							}
							nSites++
							// the guard: len(dests) < entry.<min> with <min> >= 1 in this entry
							for _, b := range fn.Blocks {
								ifi, ok := b.Instrs[len(b.Instrs)-1].(*ssa.If)
								if !ok {
									continue
								}
								bo, ok := ifi.Cond.(*ssa.BinOp)
								if !ok || !isLenOf(bo.X, call.Call.Args[2]) {
									continue
								}
								_, mfld, _, ok := globalStructMapLookup(c.P, bo.Y)
								if !ok {
									continue
								}
								k, ok := constInt(fields[mfld])
								if !ok {
									continue
								}
								for si := 0; si < 2; si++ {
									if edgeEstablishes(bo.Op, k, true, si == 0, needPos, false) && edgeDominates(b, b.Succs[si], call.Block()) {
										nGuarded++
									}
								}
							}
						}
						return
					}
				}
				// a helper that is handed the constructor
				g := call.Call.StaticCallee()
				if g == nil || g.Blocks == nil || !ModuleFunc(g) {
					return
				}
				bind := map[*ssa.Parameter]ssa.Value{}
				var ctorPar *ssa.Parameter
				for i, a := range call.Call.Args {
					if i >= len(g.Params) {
						break
					}
					bind[g.Params[i]] = a
					if f := resolveFuncValue(a); f != nil && funcCanonical(f) == nCH {
						ctorPar = g.Params[i]
					}
				}
				if ctorPar == nil {
					return
				}
				allInstrs(g, func(in2 ssa.Instruction) {
					c2, ok := in2.(*ssa.Call)
					if !ok || c2.Call.Value != ssa.Value(ctorPar) || len(c2.Call.Args) < 3 {
						return
					}
					nSites++
					if guardBefore(g, c2, c2.Call.Args[2], bind) {
						nGuarded++
					}
				})
			})
		}
		okTwo = nSites > 0 && nGuarded == nSites
		fn := entry
		c.Judge(okTwo, rdr[0]+"."+rdr[1]+" consistentHashing needs destinations", c.AtFn(fn), "the number of destinations is checked before NewConsistentHashing", "a consistentHashing route can be created without destinations: empty ring")
	}
	// indices given in commands are never negative: the command grammar's number token has no sign
	// (the index guards of the Del*/mod* commands test the upper bound only)
	if pat, ok := tokenPatterns(c.P)["num"]; !ok {
		anchorFail("imperatives.tokens: no pattern for the num token")
	} else {
		re, err := regexp.Compile(pat)
		bad := ""
		switch {
		case err != nil:
			bad = "the pattern does not compile: " + err.Error()
		case !re.MatchString("12 ") && !re.MatchString("12"):
			bad = "the pattern does not accept a plain number"
		default:
			for _, probe := range []string{"-1 ", "-1", "+1 ", "-0 ", " -1"} {
				if loc := re.FindStringIndex(probe); loc != nil && loc[0] == 0 && strings.ContainsAny(probe[:loc[1]], "-+") {
					bad = fmt.Sprintf("the pattern %q accepts %q as a number", pat, strings.TrimSpace(probe))
				}
			}
		}
		c.Judge(bad == "", "imperatives.tokens num is an unsigned decimal", "imperatives/imperatives.go", fmt.Sprintf("pattern %q", pat), bad+": a command such as `modDest <route> -1 …` then passes the `index >= len(…)` guard and indexes the destination list with -1, which panics in the admin connection's goroutine")
	}
	// consistent hashing ring stays non-empty
	chd := c.P.Func("route", "*ConsistentHashing", "DelDestination")
	okMin := minDestsGuard(c.P, chd)
	okArg := okMin
	c.Judge(okMin && okArg, "route.ConsistentHashing.DelDestination keeps at least one destination", c.AtFn(chd), "on the way from DelDestination to the removal the number of destinations is compared with a bound that keeps at least one, and the removal lies on the accepting edge", "the last destination of a consistentHashing route can be removed: the next Dispatch computes `% len(Ring)` with an empty ring")
}

// evalRel evaluates the integer comparison a op b.
func evalRel(op token.Token, a, b int64) (bool, bool) {
	switch op {
	case token.EQL:
		return a == b, true
	case token.NEQ:
		return a != b, true
	case token.LSS:
		return a < b, true
	case token.LEQ:
		return a <= b, true
	case token.GTR:
		return a > b, true
	case token.GEQ:
		return a >= b, true
	}
	return false, false
}

// rejectingComparison: fn compares par with a constant and the edge on which nd does NOT hold
// returns a non-nil error.
func rejectingComparison(fn *ssa.Function, par ssa.Value, nd need) bool {
	for _, b := range fn.Blocks {
		ifi, ok := b.Instrs[len(b.Instrs)-1].(*ssa.If)
		if !ok {
			continue
		}
		cond, neg := negStrip(ifi.Cond)
		bo, ok := cond.(*ssa.BinOp)
		if !ok || (bo.X != par && !sameLoc(bo.X, par)) {
			continue
		}
		k, ok := constInt(bo.Y)
		if !ok {
			continue
		}
		_, uns := isIntType(par.Type())
		for si := 0; si < 2; si++ {
			if !edgeEstablishes(bo.Op, k, true, (si == 0) != neg, nd, uns) {
				continue
			}
			other := b.Succs[1-si]
			ret, ok := other.Instrs[len(other.Instrs)-1].(*ssa.Return)
			if !ok || len(ret.Results) == 0 {
				continue
			}
			last := ret.Results[len(ret.Results)-1]
			if c0, isConst := last.(*ssa.Const); !isConst || !c0.IsNil() {
				return true
			}
		}
	}
	return false
}

// matcherRegexGated discharges the unguarded uses of Matcher.regex in MatchRegexAndExpand. It returns
// "" when (a) the method is only called on the Matcher field of an Aggregator, (b) aggregator.New
// rejects a matcher whose Regex option is empty before constructing anything, (c) in
// (*Matcher).updateInternals the store into regex is controlled by nothing but the non-empty test of
// the Regex option and the success of regexp.Compile(Regex), and (d) no code outside package matcher
// builds a Matcher by hand. Otherwise it returns what is missing.
func matcherRegexGated(p *Prog, s crashSite) string {
	if FuncName(s.Fn) != "(*matcher.Matcher).MatchRegexAndExpand" {
		return "not MatchRegexAndExpand"
	}
	_, f, ok := fieldLoad(s.Val)
	if !ok || f.Name() != "regex" {
		return "not the regex field"
	}
	mre := s.Fn
	// (a)
	for _, e := range p.CG().In[mre] {
		cc := callCommon(e.Site)
		if cc == nil || e.Kind == EdgeRef {
			return "MatchRegexAndExpand escapes as a function value"
		}
		pk := fnPkg(e.Caller)
		if pk == nil || pk.Path() != modPath+"/aggregator" {
			return "MatchRegexAndExpand is called from " + FuncName(e.Caller) + ", outside the aggregator"
		}
		if len(cc.Args) == 0 {
			return "unexpected call shape"
		}
		if _, names := fieldPath(cc.Args[0]); len(names) == 0 || names[len(names)-1] != "Matcher" {
			return "MatchRegexAndExpand is called on something other than Aggregator.Matcher in " + FuncName(e.Caller)
		}
	}
	if len(p.CG().In[mre]) == 0 {
		return "no caller"
	}
	// (b)
	an := p.Func("aggregator", "", "New")
	okB := false
	for _, b := range an.Blocks {
		ifi, ok := b.Instrs[len(b.Instrs)-1].(*ssa.If)
		if !ok {
			continue
		}
		cnd, neg := negStrip(ifi.Cond)
		bo, ok := cnd.(*ssa.BinOp)
		if !ok || (bo.Op != token.EQL && bo.Op != token.NEQ) {
			continue
		}
		str, ok := constString(bo.Y)
		if !ok || str != "" {
			continue
		}
		if _, names := fieldPath(bo.X); len(names) == 0 || names[len(names)-1] != "Regex" {
			continue
		}
		si := 0 // edge on which Regex == ""
		if (bo.Op == token.NEQ) != neg {
			si = 1
		}
		tgt := b.Succs[si]
		if ret, ok := tgt.Instrs[len(tgt.Instrs)-1].(*ssa.Return); ok && len(ret.Results) == 2 {
			if k, isC := ret.Results[1].(*ssa.Const); !isC || !k.IsNil() {
				// nothing is constructed before the test
				okB = b.Dominates(b) && blockIsBeforeConstruction(an, b)
			}
		}
	}
	if !okB {
		return "aggregator.New does not reject an empty Regex before constructing the aggregator"
	}
	// (c)
	ui := p.Func("matcher", "*Matcher", "updateInternals")
	var store *ssa.Store
	allInstrs(ui, func(in ssa.Instruction) {
		if st, ok := in.(*ssa.Store); ok {
			if fa, ok := st.Addr.(*ssa.FieldAddr); ok && fieldOfAddr(fa) == f {
				store = st
			}
		}
	})
	if store == nil {
		return "updateInternals does not set regex"
	}
	ex, ok := store.Val.(*ssa.Extract)
	if !ok {
		return "regex is not assigned the result of regexp.Compile"
	}
	comp, ok := ex.Tuple.(*ssa.Call)
	if !ok {
		return "regex is not assigned the result of regexp.Compile"
	}
	compiled := comp.Call.Args
	var compArg ssa.Value
	switch {
	case calleeName(comp.Common()) == "regexp.Compile" && ex.Index == 0:
		compArg = compiled[0]
	default:
		// a helper that compiles its argument: on every return it hands back an error, or the
		// expression compiled from one of its parameters (with a nil error)
		g := comp.Call.StaticCallee()
		if g == nil || g.Blocks == nil || !ModuleFunc(g) || ex.Index != 0 {
			return "regex is not assigned the result of regexp.Compile"
		}
		okAll, n := true, 0
		allInstrs(g, func(in ssa.Instruction) {
			ret, ok := in.(*ssa.Return)
			if !ok || len(ret.Results) < 2 {
				return
			}
			last := ret.Results[len(ret.Results)-1]
			if k, isC := last.(*ssa.Const); !isC || !k.IsNil() {
				return // error return
			}
			n++
			e0, ok := ret.Results[0].(*ssa.Extract)
			if !ok || e0.Index != 0 {
				okAll = false
				return
			}
			c0, ok := e0.Tuple.(*ssa.Call)
			if !ok || calleeName(c0.Common()) != "regexp.Compile" {
				okAll = false
				return
			}
			found := false
			for i, p := range g.Params {
				if c0.Call.Args[0] == ssa.Value(p) && i < len(compiled) {
					compArg = compiled[i]
					found = true
				}
			}
			if !found {
				okAll = false
			}
		})
		if !okAll || n == 0 || compArg == nil {
			return "regex is not assigned the result of regexp.Compile"
		}
	}
	if _, names := fieldPath(compArg); len(names) == 0 || names[len(names)-1] != "Regex" {
		return "the compiled expression is not the Regex option"
	}
	for _, b := range ui.Blocks {
		ifi, ok := b.Instrs[len(b.Instrs)-1].(*ssa.If)
		if !ok {
			continue
		}
		for si := 0; si < 2; si++ {
			if !edgeDominates(b, b.Succs[si], store.Block()) || edgeDominates(b, b.Succs[1-si], store.Block()) {
				continue
			}
			// this condition controls the store: it must be the non-empty test or the compile error test
			if e, errEdge, ok := errTest(ifi.Cond); ok {
				if ex2, ok := e.(*ssa.Extract); ok && ex2.Tuple == ssa.Value(comp) && (si == 1) == errEdge {
					continue
				}
			}
			cnd, neg := negStrip(ifi.Cond)
			if bo, ok := cnd.(*ssa.BinOp); ok {
				isRegexOpt := func(v ssa.Value) bool {
					_, names := fieldPath(v)
					return len(names) > 0 && names[len(names)-1] == "Regex"
				}
				if call, ok := bo.X.(*ssa.Call); ok {
					if bi, ok := call.Call.Value.(*ssa.Builtin); ok && bi.Name() == "len" && isRegexOpt(call.Call.Args[0]) {
						if k, ok := constInt(bo.Y); ok {
							t0, _ := evalRel(bo.Op, 0, k)
							t1, _ := evalRel(bo.Op, 1, k)
							taken := si == 0
							// the edge is taken for every non-empty option and not for the empty one
							if t0 != t1 && (t1 != neg) == taken {
								continue
							}
						}
					}
				}
				if str, ok := constString(bo.Y); ok && str == "" && isRegexOpt(bo.X) && (bo.Op == token.NEQ || bo.Op == token.EQL) {
					nonEmptyEdge := 0
					if (bo.Op == token.EQL) != neg {
						nonEmptyEdge = 1
					}
					if si == nonEmptyEdge {
						continue
					}
				}
			}
			return "in updateInternals the compilation of the Regex option depends on a further condition (" + p.InstrPos(ifi) + "): some non-empty Regex leaves regex nil, and MatchRegexAndExpand dereferences it"
		}
	}
	// (d)
	for _, fn := range p.Funcs {
		pk := fnPkg(fn)
		if pk != nil && pk.Path() == modPath+"/matcher" {
			continue
		}
		bad := ""
		allInstrs(fn, func(in ssa.Instruction) {
			fa, ok := in.(*ssa.FieldAddr)
			if !ok {
				return
			}
			ff := fieldOfAddr(fa)
			if ff.Pkg() == nil || ff.Pkg().Path() != modPath+"/matcher" {
				return
			}
			for _, r := range *fa.Referrers() {
				if st, ok := r.(*ssa.Store); ok && st.Addr == ssa.Value(fa) {
					bad = FuncName(fn) + " writes Matcher." + ff.Name() + " directly"
				}
			}
		})
		if bad != "" {
			return bad
		}
	}
	return ""
}

// blockIsBeforeConstruction: no allocation of an Aggregator and no goroutine start can precede block b in fn.
func blockIsBeforeConstruction(fn *ssa.Function, b *ssa.BasicBlock) bool {
	ok := true
	allInstrs(fn, func(in ssa.Instruction) {
		switch in.(type) {
		case *ssa.Go:
			if in.Block() != b && in.Block().Dominates(b) {
				ok = false
			}
		}
	})
	return ok
}

// distinctEnds: at instruction `at`, the string/slice v is known to start with one byte and to end
// with a different one (v[0] == c1 and v[len(v)-1] == c2, c1 != c2, each on a dominating edge, in
// this function or — for a parameter — at every call site): it has at least two elements.
func distinctEnds(p *Prog, fn *ssa.Function, at ssa.Instruction, v ssa.Value, depth int) bool {
	first, last := endFacts(p, fn, at, v, depth)
	for c1 := range first {
		for c2 := range last {
			if c1 != c2 {
				return true
			}
		}
	}
	return false
}

// endFacts: the byte values v[0] / v[len-1] are known to equal at `at`.
func endFacts(p *Prog, fn *ssa.Function, at ssa.Instruction, v ssa.Value, depth int) (first, last map[int64]bool) {
	first, last = map[int64]bool{}, map[int64]bool{}
	for _, b := range fn.Blocks {
		ifi, ok := b.Instrs[len(b.Instrs)-1].(*ssa.If)
		if !ok {
			continue
		}
		cnd, neg := negStrip(ifi.Cond)
		bo, ok := cnd.(*ssa.BinOp)
		if !ok || (bo.Op != token.EQL && bo.Op != token.NEQ) {
			continue
		}
		var lkX, lkIndex ssa.Value
		switch lk := bo.X.(type) {
		case *ssa.Index:
			lkX, lkIndex = lk.X, lk.Index
		case *ssa.Lookup:
			lkX, lkIndex = lk.X, lk.Index
		case *ssa.UnOp:
			if ia, ok := lk.X.(*ssa.IndexAddr); ok {
				lkX, lkIndex = ia.X, ia.Index
			}
		}
		if lkX == nil || !(lkX == v || sameLoc(lkX, v)) {
			continue
		}
		ch, ok := constInt(bo.Y)
		if !ok {
			continue
		}
		si := 0 // edge on which the byte equals ch
		if (bo.Op == token.NEQ) != neg {
			si = 1
		}
		if !edgeDominatesNoFatal(b, b.Succs[si], at.Block()) {
			continue
		}
		if k, isK := constInt(lkIndex); isK && k == 0 {
			first[ch] = true
		}
		if ib, isB := lkIndex.(*ssa.BinOp); isB && ib.Op == token.SUB && isLenOf(ib.X, lkX) {
			if k, _ := constInt(ib.Y); k == 1 {
				last[ch] = true
			}
		}
	}
	if par, ok := v.(*ssa.Parameter); ok && depth < 2 {
		if args, ok := p.paramArgs(par); ok {
			// facts every caller establishes before the call
			var cf, cl map[int64]bool
			i := 0
			for _, e := range p.CG().In[fn] {
				cc := callCommon(e.Site)
				if cc == nil || e.Kind == EdgeRef {
					continue
				}
				if i >= len(args) {
					break
				}
				f, l := endFacts(p, e.Caller, e.Site, args[i], depth+1)
				i++
				if cf == nil {
					cf, cl = f, l
				} else {
					for k := range cf {
						if !f[k] {
							delete(cf, k)
						}
					}
					for k := range cl {
						if !l[k] {
							delete(cl, k)
						}
					}
				}
			}
			for k := range cf {
				first[k] = true
			}
			for k := range cl {
				last[k] = true
			}
		}
	}
	return
}

// minDestsGuard: starting at entry (binding parameters to call-site arguments and free variables to
// their captured values along static calls and closures of the same package), some comparison of
// len(<destinations>) with a value that resolves to a constant rejects lists that would become empty,
// and every append in the comparing function lies on the accepting edge.
func minDestsGuard(p *Prog, entry *ssa.Function) bool {
	type env map[ssa.Value]ssa.Value
	var resolve func(v ssa.Value, e env, depth int) (int64, bool)
	resolve = func(v ssa.Value, e env, depth int) (int64, bool) {
		if depth > 6 {
			return 0, false
		}
		if k, ok := constInt(v); ok {
			return k, true
		}
		if u, ok := v.(*ssa.UnOp); ok && u.Op == token.MUL {
			if b, ok := e[u.X]; ok {
				// captured variable: the value stored into the captured cell
				if al, ok := b.(*ssa.Alloc); ok {
					if cv := cellValue(al); cv != nil {
						return resolve(cv, e, depth+1)
					}
				}
				return resolve(b, e, depth+1)
			}
		}
		if b, ok := e[v]; ok {
			return resolve(b, e, depth+1)
		}
		return 0, false
	}
	isLen := func(v ssa.Value) bool {
		call, ok := v.(*ssa.Call)
		if !ok {
			return false
		}
		b, ok := call.Call.Value.(*ssa.Builtin)
		return ok && b.Name() == "len"
	}
	found := false
	seen := map[*ssa.Function]bool{}
	var visit func(fn *ssa.Function, e env, depth int)
	visit = func(fn *ssa.Function, e env, depth int) {
		if fn == nil || len(fn.Blocks) == 0 || seen[fn] || depth > 4 || fnPkg(fn) != fnPkg(entry) {
			return
		}
		seen[fn] = true
		for _, b := range fn.Blocks {
			ifi, ok := b.Instrs[len(b.Instrs)-1].(*ssa.If)
			if !ok {
				continue
			}
			cnd, neg := negStrip(ifi.Cond)
			bo, ok := cnd.(*ssa.BinOp)
			if !ok {
				continue
			}
			op := bo.Op
			var other ssa.Value
			switch {
			case isLen(bo.X):
				other = bo.Y
			case isLen(bo.Y):
				other = bo.X
				switch op {
				case token.LEQ:
					op = token.GEQ
				case token.GEQ:
					op = token.LEQ
				case token.LSS:
					op = token.GTR
				case token.GTR:
					op = token.LSS
				}
			default:
				continue
			}
			k, ok := resolve(other, e, 0)
			if !ok {
				continue
			}
			rejectOnTrue, need := false, int64(1)
			switch op {
			case token.LEQ:
				rejectOnTrue, need = true, 1
			case token.LSS:
				rejectOnTrue, need = true, 2
			case token.GTR:
				rejectOnTrue, need = false, 1
			case token.GEQ:
				rejectOnTrue, need = false, 2
			default:
				continue
			}
			if k < need {
				continue
			}
			if neg {
				rejectOnTrue = !rejectOnTrue
			}
			acc := 0
			if rejectOnTrue {
				acc = 1
			}
			okApp, nApp := true, 0
			hasAppend := func(g *ssa.Function) bool {
				found := false
				allInstrs(g, func(in ssa.Instruction) {
					if _, ok := isBuiltinCall(in, "append"); ok {
						found = true
					}
				})
				return found
			}
			allInstrs(fn, func(in ssa.Instruction) {
				_, isApp := isBuiltinCall(in, "append")
				if !isApp {
					// the removal may be written in a helper of the package (withoutDest(dests, index))
					if call, ok := in.(*ssa.Call); ok {
						if g := call.Call.StaticCallee(); g != nil && g.Blocks != nil && fnPkg(g) == fnPkg(fn) && g != fn && hasAppend(g) {
							isApp = true
						}
					}
				}
				if isApp {
					nApp++
					if !edgeDominates(b, b.Succs[acc], in.Block()) {
						okApp = false
					}
				}
			})
			if okApp && nApp > 0 {
				found = true
			}
		}
		allInstrs(fn, func(in ssa.Instruction) {
			call, ok := in.(*ssa.Call)
			if !ok {
				return
			}
			g := call.Call.StaticCallee()
			if g == nil {
				return
			}
			ne := env{}
			for k, v := range e {
				ne[k] = v
			}
			for i, a := range call.Call.Args {
				if i < len(g.Params) {
					ne[g.Params[i]] = a
					// closures handed on as arguments are visited with the caller's bindings
					if mc, ok := a.(*ssa.MakeClosure); ok {
						cl := mc.Fn.(*ssa.Function)
						ce := env{}
						for k, v := range ne {
							ce[k] = v
						}
						for j, bnd := range mc.Bindings {
							if j < len(cl.FreeVars) {
								ce[cl.FreeVars[j]] = bnd
							}
						}
						visit(cl, ce, depth+1)
					}
				}
			}
			visit(g, ne, depth+1)
		})
	}
	visit(entry, env{}, 0)
	return found
}

// guardedByParsingHelper: the destination list handed to the constructor at `at` is a result of a module helper that
// also returns an error (dests, err := parseRouteDestinations(cfg, table, false, 2)); `at` is reached only over the
// no-error edge of a test of that error; and inside the helper every return that can carry a nil error returns a list
// whose length was compared — with a constant, or with a parameter that is a constant at this call site — on an edge
// that establishes len > 0. The guard then holds at `at` exactly as if it were written in front of the constructor.
func guardedByParsingHelper(fn *ssa.Function, at ssa.Instruction, dests ssa.Value, guardBefore func(f *ssa.Function, at ssa.Instruction, dests ssa.Value, bind map[*ssa.Parameter]ssa.Value) bool) bool {
	ex, ok := dests.(*ssa.Extract)
	if !ok {
		return false
	}
	hc, ok := ex.Tuple.(*ssa.Call)
	if !ok {
		return false
	}
	g := hc.Call.StaticCallee()
	if g == nil || g.Blocks == nil || !ModuleFunc(g) || hc.Call.IsInvoke() {
		return false
	}
	res := g.Signature.Results()
	errIdx := res.Len() - 1
	if errIdx < 1 || ex.Index == errIdx || !types.Identical(res.At(errIdx).Type(), errorType) {
		return false
	}
	// the caller continues to `at` only when the helper reported no error
	onNoErr := false
	for _, r := range *hc.Referrers() {
		ev, ok := r.(*ssa.Extract)
		if !ok || ev.Index != errIdx {
			continue
		}
		for _, b := range fn.Blocks {
			ifi, ok := b.Instrs[len(b.Instrs)-1].(*ssa.If)
			if !ok {
				continue
			}
			e, errEdge, ok := errTest(ifi.Cond)
			if !ok || e != ssa.Value(ev) {
				continue
			}
			si := 0
			if errEdge {
				si = 1
			}
			if edgeDominates(b, b.Succs[si], at.Block()) {
				onNoErr = true
			}
		}
	}
	if !onNoErr {
		return false
	}
	bind := map[*ssa.Parameter]ssa.Value{}
	for i, a := range hc.Call.Args {
		if i < len(g.Params) {
			bind[g.Params[i]] = a
		}
	}
	n, okAll := 0, true
	allInstrs(g, func(in ssa.Instruction) {
		ret, ok := in.(*ssa.Return)
		if !ok || len(ret.Results) != res.Len() {
			return
		}
		last := ret.Results[errIdx]
		if _, isMI := last.(*ssa.MakeInterface); isMI {
			return // a concrete error value: non-nil
		}
		if call, isCall := last.(*ssa.Call); isCall {
			switch calleeName(call.Common()) {
			case "errors.New", "fmt.Errorf":
				return
			}
		}
		n++
		if !guardBefore(g, ret, ret.Results[ex.Index], bind) {
			okAll = false
		}
	})
	return okAll && n > 0
}
