package main

import (
	"io/ioutil"
	"os"
	"path/filepath"
	"strings"
	"testing"

	"github.com/BurntSushi/toml"
	"github.com/grafana/carbon-relay-ng/cfg"
	"github.com/grafana/carbon-relay-ng/rewriter"
)

// TestFixDemoConfigInterpolationKeepsGroupReferences: reading the config file
// substitutes ${HOST} and friends, but must not alter the ${1} style group
// references that rewriter and aggregation templates use.
func TestFixDemoConfigInterpolationKeepsGroupReferences(t *testing.T) {
	content := `
instance = "${HOST}"

[[rewriter]]
old = '/^servers\.([^.]+)\.cpu$/'
new = 'servers.${1}_x.cpu'
not = ''
max = -1
`
	file := filepath.Join(t.TempDir(), "carbon-relay-ng.ini")
	if err := ioutil.WriteFile(file, []byte(content), 0644); err != nil {
		t.Fatal(err)
	}

	expanded := readConfigFile(file)

	// documented variables are still substituted
	hostname, _ := os.Hostname()
	host := strings.SplitN(hostname, ".", 2)[0]
	if !strings.Contains(expanded, `instance = "`+host+`"`) {
		t.Errorf("${HOST} was not substituted. got:\n%s", expanded)
	}

	// the template must come through unchanged
	if !strings.Contains(expanded, `new = 'servers.${1}_x.cpu'`) {
		t.Errorf("the rewriter template 'servers.${1}_x.cpu' was altered by readConfigFile. got:\n%s", expanded)
	}

	// and this is what the difference does to the traffic
	var config cfg.Config
	if _, err := toml.Decode(expanded, &config); err != nil {
		t.Fatal(err)
	}
	if len(config.Rewriter) != 1 {
		t.Fatalf("expected 1 rewriter in the parsed config, got %d", len(config.Rewriter))
	}
	rwc := config.Rewriter[0]
	rw, err := rewriter.New(rwc.Old, rwc.New, rwc.Not, rwc.Max)
	if err != nil {
		t.Fatal(err)
	}
	got := string(rw.Do([]byte("servers.web1.cpu")))
	if got != "servers.web1_x.cpu" {
		t.Errorf("rewriter configured from the file turned servers.web1.cpu into %q, expected %q", got, "servers.web1_x.cpu")
	}
}
