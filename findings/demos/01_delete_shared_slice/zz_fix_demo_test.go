package table

import (
	"fmt"
	"testing"

	"github.com/grafana/carbon-relay-ng/matcher"
	"github.com/grafana/carbon-relay-ng/rewriter"
	"github.com/grafana/carbon-relay-ng/route"
	"github.com/grafana/carbon-relay-ng/validate"
)

// TestFixDemoDeleteKeepsPublishedSnapshotIntact demonstrates, deterministically,
// that the Del* methods of the table modified the backing array of the
// configuration snapshot that a concurrent Dispatch may still be ranging over.
//
// A dispatcher does `conf := table.config.Load().(TableConfig)` and then
// ranges over conf.blacklist / conf.rewriters / conf.routes.  We play the role
// of such a dispatcher: load the snapshot, remember what it contains, let a
// delete happen, and look at the very same snapshot again.  It must not change.
func TestFixDemoDeleteKeepsPublishedSnapshotIntact(t *testing.T) {
	cfg, err := NewTableConfig("", "24h", validate.LevelLegacy{}, validate.LevelM20{}, false)
	if err != nil {
		t.Fatal(err)
	}
	tab := New(cfg)

	for i := 0; i < 4; i++ {
		m, err := matcher.New(fmt.Sprintf("black%d.", i), "", "", "", "", "")
		if err != nil {
			t.Fatal(err)
		}
		tab.AddBlacklist(&m)

		rw, err := rewriter.New(fmt.Sprintf("old%d", i), fmt.Sprintf("new%d", i), "", -1)
		if err != nil {
			t.Fatal(err)
		}
		tab.AddRewriter(rw)

		rm, err := matcher.New(fmt.Sprintf("route%d.", i), "", "", "", "", "")
		if err != nil {
			t.Fatal(err)
		}
		r, err := route.NewSendAllMatch(fmt.Sprintf("route%d", i), rm, nil)
		if err != nil {
			t.Fatal(err)
		}
		tab.AddRoute(r)
	}

	// what a Dispatch call that is in flight holds on to
	snap := tab.config.Load().(TableConfig)

	blacklistBefore := make([]string, len(snap.blacklist))
	for i, m := range snap.blacklist {
		blacklistBefore[i] = m.Prefix
	}
	rewritersBefore := make([]string, len(snap.rewriters))
	for i, rw := range snap.rewriters {
		rewritersBefore[i] = rw.Old
	}
	routesBefore := make([]string, len(snap.routes))
	for i, r := range snap.routes {
		routesBefore[i] = r.Key()
	}

	// admin commands arriving while that Dispatch is still iterating
	if err := tab.DelBlacklist(1); err != nil {
		t.Fatal(err)
	}
	if err := tab.DelRewriter(1); err != nil {
		t.Fatal(err)
	}
	if err := tab.DelRoute("route1"); err != nil {
		t.Fatal(err)
	}

	// the new configuration must of course have the entry removed ...
	newConf := tab.config.Load().(TableConfig)
	if len(newConf.blacklist) != 3 || len(newConf.rewriters) != 3 || len(newConf.routes) != 3 {
		t.Fatalf("deletes did not take effect: %d blacklist, %d rewriters, %d routes",
			len(newConf.blacklist), len(newConf.rewriters), len(newConf.routes))
	}
	if newConf.blacklist[1].Prefix != "black2." || newConf.rewriters[1].Old != "old2" || newConf.routes[1].Key() != "route2" {
		t.Fatalf("new config has unexpected content")
	}

	// ... but the snapshot the dispatcher is iterating over must be untouched
	for i, m := range snap.blacklist {
		if m.Prefix != blacklistBefore[i] {
			t.Errorf("DelBlacklist modified the published snapshot: blacklist[%d] was %q, is now %q", i, blacklistBefore[i], m.Prefix)
		}
	}
	for i, rw := range snap.rewriters {
		if rw.Old != rewritersBefore[i] {
			t.Errorf("DelRewriter modified the published snapshot: rewriters[%d] was %q, is now %q", i, rewritersBefore[i], rw.Old)
		}
	}
	for i, r := range snap.routes {
		if r.Key() != routesBefore[i] {
			t.Errorf("DelRoute modified the published snapshot: routes[%d] was %q, is now %q", i, routesBefore[i], r.Key())
		}
	}
}
